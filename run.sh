#!/bin/sh
# usage: ./run.sh <property-id> [quick|thorough]
# Rebuilds the checker if needed, then analyses /repo's current working tree.
cd "$(dirname "$0")" || exit 2
. ./env.sh
tier="${2:-${VERIF_TIER:-quick}}"
( cd checker && go build -o ../bin/checker . ) || { echo "checker build failed"; exit 2; }
exec ./bin/checker -verif "$(pwd)" -repo "${VERIF_REPO:-/repo}" -tier "$tier" "$1"
