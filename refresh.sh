#!/bin/sh
# Runs every registered check (thorough, then quick) against /repo and rewrites evidence/; prints one line per check.
cd "$(dirname "$0")" || exit 2
. ./env.sh
( cd checker && go build -o ../bin/checker . ) || exit 2
rc=0
for i in 01 02 03 04 05 06 07 08 09 10 11 12 13 14 15 16 17 18 19 20; do
  for t in thorough quick; do
    out=$(./bin/checker -verif "$(pwd)" -repo /repo -tier $t C$i 2>&1); e=$?
    echo "C$i $t exit=$e $(echo "$out" | grep -c '^KNOWN-FINDING') known $(echo "$out" | grep -c '^VIOLATION') violations"
    [ $e = 0 ] || rc=1
  done
done
exit $rc
