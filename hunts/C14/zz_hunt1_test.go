// package directory: tests/
package tests

// C14 hunt, finding 1: a store keeps the shard lock of its key while it reads the body from the
// origin (cache/memory_cache.go Cache -> cacheInternal -> buf.ReadFrom, cache/file_cache.go Cache ->
// io.Copy). If producing that body depends on another request through the same proxy whose key lives
// in the same lock shard (always so with lock_shards = 1, and for chosen URL pairs with any shard
// count), the second request waits in cache.Get for the shard lock, the origin waits for the second
// request and the store waits for the origin: a cyclic wait that never resolves.

import (
	"context"
	"fmt"
	"io"
	"net/http"
	"net/http/httptest"
	"net/url"
	"reservoir/cache"
	"reservoir/config"
	"reservoir/logging"
	"reservoir/proxy"
	"reservoir/utils"
	"runtime"
	"strings"
	"testing"
	"time"
)

type huntC14Env struct {
	upstream *httptest.Server
	proxySrv *httptest.Server
	client   *http.Client
	handler  http.Handler // set before the first request
}

// Same wiring as SetupTestEnv, with the shard count and the cache backend chosen by the caller
// (SetupTestEnv fixes them before NewProxy reads them).
func huntC14Setup(t *testing.T, shards int, cacheType config.CacheType) *huntC14Env {
	cfg := config.NewDefault()
	cfg.Proxy.UpstreamDefaultHttps.Overwrite(false)
	cfg.Cache.File.Dir.Overwrite(t.TempDir())
	cfg.Proxy.RetryOnRange416.Overwrite(false)
	cfg.Proxy.CachePolicy.IgnoreCacheControl.Overwrite(false)
	cfg.Proxy.CachePolicy.ForceDefaultMaxAge.Overwrite(false)
	cfg.Cache.Type.Overwrite(cacheType)
	cfg.Cache.LockShards.Overwrite(shards)
	logging.Init(cfg)

	p, err := proxy.NewProxy(cfg, &FakeCA{}, t.Context())
	if err != nil {
		t.Fatalf("NewProxy: %v", err)
	}

	env := &huntC14Env{}
	env.upstream = httptest.NewServer(http.HandlerFunc(func(w http.ResponseWriter, r *http.Request) {
		env.handler.ServeHTTP(w, r)
	}))
	env.proxySrv = httptest.NewServer(p)
	proxyURL, _ := url.Parse(env.proxySrv.URL)
	tr := &http.Transport{Proxy: http.ProxyURL(proxyURL)}
	env.client = &http.Client{Transport: tr}

	t.Cleanup(func() {
		tr.CloseIdleConnections()
		env.upstream.Close()
		env.proxySrv.Close()
		time.Sleep(100 * time.Millisecond)
		p.Destroy()
	})
	return env
}

// The origin serves pagePath, a cacheable document that it assembles from assetPath, which it fetches
// like every other client in this network: through the caching proxy. The response headers of the page
// are on the wire (flushed) before the sub-request is made, as a streaming origin does.
func huntC14Origin(env *huntC14Env, subCtx context.Context, pagePath, assetPath string) http.Handler {
	return http.HandlerFunc(func(w http.ResponseWriter, r *http.Request) {
		w.Header().Set("Cache-Control", "max-age=60")
		switch r.URL.Path {
		case assetPath:
			w.Write([]byte("ASSET"))
		case pagePath:
			w.WriteHeader(http.StatusOK)
			w.Write([]byte("<page>"))
			w.(http.Flusher).Flush()

			proxyURL, _ := url.Parse(env.proxySrv.URL)
			sub := &http.Client{Transport: &http.Transport{Proxy: http.ProxyURL(proxyURL)}}
			defer sub.CloseIdleConnections()
			req, _ := http.NewRequestWithContext(subCtx, http.MethodGet, env.upstream.URL+assetPath, nil)
			resp, err := sub.Do(req)
			if err != nil {
				// only reached when the test gave up and cancelled subCtx to unwind the deadlock
				w.Write([]byte("<asset unavailable></page>"))
				return
			}
			defer resp.Body.Close()
			io.Copy(w, resp.Body)
			w.Write([]byte("</page>"))
		default:
			http.NotFound(w, r)
		}
	})
}

func huntC14Run(t *testing.T, env *huntC14Env, pagePath, assetPath string) {
	subCtx, unwind := context.WithCancel(context.Background())
	defer unwind()
	env.handler = huntC14Origin(env, subCtx, pagePath, assetPath)

	type result struct {
		body string
		err  error
	}
	done := make(chan result, 1)
	go func() {
		resp, err := env.client.Get(env.upstream.URL + pagePath)
		if err != nil {
			done <- result{err: err}
			return
		}
		defer resp.Body.Close()
		b, err := io.ReadAll(resp.Body)
		done <- result{body: string(b), err: err}
	}()

	select {
	case res := <-done:
		if res.err != nil {
			t.Fatalf("request failed: %v", res.err)
		}
		if res.body != "<page>ASSET</page>" {
			t.Fatalf("unexpected body %q", res.body)
		}
		t.Logf("completed: %q", res.body)
	case <-time.After(5 * time.Second):
		t.Errorf("DEADLOCK: GET %s (whose origin fetches %s through the proxy) did not complete within 5s", pagePath, assetPath)
		huntC14DumpCacheGoroutines(t)
		// Break the cycle from the outside so that the test environment can be torn down.
		unwind()
		select {
		case res := <-done:
			t.Logf("only after the origin's sub-request was cancelled from outside did the request complete: body=%q err=%v", res.body, res.err)
		case <-time.After(5 * time.Second):
			t.Logf("still blocked after cancelling the sub-request")
		}
	}
}

// Logs the goroutines that are inside the cache package: the store that holds the shard lock while
// it reads from the origin, and the lookup that waits for that lock.
func huntC14DumpCacheGoroutines(t *testing.T) {
	buf := make([]byte, 1<<20)
	buf = buf[:runtime.Stack(buf, true)]
	for _, g := range strings.Split(string(buf), "\n\n") {
		if !strings.Contains(g, "reservoir/cache.(") {
			continue
		}
		if strings.Contains(g, "cacheJanitor") {
			continue // the idle janitor, waiting for its next tick
		}
		var keep []string
		for _, line := range strings.Split(g, "\n") {
			if strings.HasPrefix(line, "\t") {
				continue // file:line of the frame above
			}
			if strings.HasPrefix(line, "goroutine ") || strings.Contains(line, "reservoir/") || strings.Contains(line, "sync.(*RWMutex)") || strings.Contains(line, "bytes.(*Buffer).ReadFrom") || strings.Contains(line, "io.Copy") {
				if i := strings.Index(line, "(0x"); i > 0 {
					line = line[:i]
				}
				keep = append(keep, strings.TrimSpace(line))
			}
		}
		t.Logf("blocked in the cache:\n    %s", strings.Join(keep, "\n    "))
	}
}

func huntC14Shard(u string, shards int) uint32 {
	req, _ := http.NewRequest(http.MethodGet, u, nil)
	key := cache.MakeFromRequest(req)
	return utils.Hex8ToIndex(key.Hex) % uint32(shards)
}

// Finds an asset path whose key is (sameShard) or is not (!sameShard) in the shard of pagePath.
func huntC14FindAsset(t *testing.T, env *huntC14Env, pagePath string, shards int, sameShard bool) string {
	want := huntC14Shard(env.upstream.URL+pagePath, shards)
	for i := 0; i < 1000000; i++ {
		p := fmt.Sprintf("/asset-%d", i)
		if (huntC14Shard(env.upstream.URL+p, shards) == want) == sameShard {
			t.Logf("page %s is in shard %d of %d, asset %s in shard %d", pagePath, want, shards, p, huntC14Shard(env.upstream.URL+p, shards))
			return p
		}
	}
	t.Skip("no suitable asset path found")
	return ""
}

// lock_shards = 1 is a legal configuration (config verify: "must be at least 1"), memory cache.
func TestHuntC14_NestedFetch_OneShard_Memory(t *testing.T) {
	env := huntC14Setup(t, 1, config.CacheTypeMemory)
	huntC14Run(t, env, "/page", "/asset")
}

// Same with the file cache.
func TestHuntC14_NestedFetch_OneShard_File(t *testing.T) {
	env := huntC14Setup(t, 1, config.CacheTypeFile)
	huntC14Run(t, env, "/page", "/asset")
}

// Default shard count (1024): two URLs whose keys fall into the same shard. The hash is public
// (blake2b of scheme|method|host|path|query), so such a pair is found by trying a few thousand names.
func TestHuntC14_NestedFetch_DefaultShards_CollidingKeys(t *testing.T) {
	env := huntC14Setup(t, 1024, config.CacheTypeMemory)
	asset := huntC14FindAsset(t, env, "/page", 1024, true)
	huntC14Run(t, env, "/page", asset)
}

// Control: same scenario, default shard count, keys in different shards: completes. This shows that
// the scenario itself is sound and that the shard lock is what closes the cycle.
func TestHuntC14_NestedFetch_Control_DifferentShards(t *testing.T) {
	env := huntC14Setup(t, 1024, config.CacheTypeMemory)
	asset := huntC14FindAsset(t, env, "/page", 1024, false)
	huntC14Run(t, env, "/page", asset)
}
