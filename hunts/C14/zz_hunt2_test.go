// package directory: tests/
package tests

// C14 hunt, finding 2: a single GET whose target is the proxy's own address never completes.
// The request is the leader of the singleflight group for its key (proxy/fetcher.go dedupFetch);
// the leader forwards it upstream, i.e. to the proxy itself, where the forwarded request has the
// same scheme, method, host, path and query, hence the same key, and joins the same singleflight
// call as a follower. The leader waits for the follower's response, the follower waits for the
// leader's result. The leader runs under context.WithoutCancel, so not even the client hanging up
// ends it: the key stays wedged and every later request for it blocks as well.

import (
	"context"
	"io"
	"net/http"
	"net/http/httptest"
	"net/url"
	"reservoir/config"
	"reservoir/logging"
	"reservoir/proxy"
	"runtime"
	"strings"
	"testing"
	"time"
)

func TestHuntC14_RequestToProxyItself_SingleflightSelfDeadlock(t *testing.T) {
	cfg := config.NewDefault()
	cfg.Proxy.UpstreamDefaultHttps.Overwrite(false)
	cfg.Cache.File.Dir.Overwrite(t.TempDir())
	cfg.Cache.Type.Overwrite(config.CacheTypeMemory)
	cfg.Cache.LockShards.Overwrite(32)
	logging.Init(cfg)

	p, err := proxy.NewProxy(cfg, &FakeCA{}, t.Context())
	if err != nil {
		t.Fatalf("NewProxy: %v", err)
	}
	proxySrv := httptest.NewServer(p)
	proxyURL, _ := url.Parse(proxySrv.URL)
	tr := &http.Transport{Proxy: http.ProxyURL(proxyURL)}
	client := &http.Client{Transport: tr}

	unwound := false
	unwind := func() {
		if !unwound {
			unwound = true
			// Cutting the proxy's connections from outside is the only thing that ends the cycle.
			proxySrv.CloseClientConnections()
		}
	}
	t.Cleanup(func() {
		unwind()
		tr.CloseIdleConnections()
		proxySrv.Close()
		time.Sleep(100 * time.Millisecond)
		p.Destroy()
	})

	target := proxySrv.URL + "/anything" // http://127.0.0.1:<proxy port>/anything, asked for through the proxy

	get := func(ctx context.Context) (int, error) {
		req, _ := http.NewRequestWithContext(ctx, http.MethodGet, target, nil)
		resp, err := client.Do(req)
		if err != nil {
			return 0, err
		}
		defer resp.Body.Close()
		io.Copy(io.Discard, resp.Body)
		return resp.StatusCode, nil
	}

	// First client: waits 3 seconds, then hangs up.
	ctx1, cancel1 := context.WithTimeout(context.Background(), 3*time.Second)
	defer cancel1()
	status, err := get(ctx1)
	if err == nil {
		t.Logf("request completed with status %d", status)
		return // any answer (502, 508, ...) is fine: the request completed
	}
	if ctx1.Err() == nil {
		t.Logf("request completed with error %v", err)
		return
	}
	t.Errorf("DEADLOCK: GET %s through the proxy got no answer within 3s (%v)", target, err)

	// The client is gone. Is the request still in there?
	time.Sleep(300 * time.Millisecond)
	buf := make([]byte, 1<<20)
	buf = buf[:runtime.Stack(buf, true)]
	for _, g := range strings.Split(string(buf), "\n\n") {
		if !strings.Contains(g, "reservoir/proxy.(*fetcher)") {
			continue
		}
		var keep []string
		for _, line := range strings.Split(g, "\n") {
			if strings.HasPrefix(line, "\t") {
				continue // file:line of the frame above
			}
			if strings.HasPrefix(line, "goroutine ") || strings.Contains(line, "reservoir/proxy.") ||
				strings.Contains(line, "singleflight.") || strings.Contains(line, "net/http.(*Client).Do") {
				if i := strings.Index(line, "(0x"); i > 0 {
					line = line[:i]
				}
				keep = append(keep, strings.TrimSpace(line))
			}
		}
		t.Logf("still blocked after the client hung up:\n    %s", strings.Join(keep, "\n    "))
	}

	// Second client, later, same URL: it joins the wedged singleflight call and hangs too.
	ctx2, cancel2 := context.WithTimeout(context.Background(), 2*time.Second)
	defer cancel2()
	if status, err := get(ctx2); err != nil && ctx2.Err() != nil {
		t.Errorf("a second, later GET %s got no answer within 2s either (%v): the key is wedged", target, err)
	} else {
		t.Logf("second request completed: status=%d err=%v", status, err)
	}
}
