// package directory: tests/
package tests

import (
	"fmt"
	"os"
	"io"
	"net"
	"net/http"
	"net/url"
	"testing"
	"time"
)

// A proxied request that names the proxy itself as its origin, under a spelling that
// isOwnAddress (proxy/proxy.go:306) does not recognise, is fetched "upstream", arrives at
// the proxy again with the same Host (hence the same cache key) and is made to wait for
// the singleflight call that is waiting for it. Neither request is ever answered.
func TestHunt1_RequestLoopByAliasNeverCompletes(t *testing.T) {
	env := SetupTestEnv(t)
	env.Start()
	// Break the cycle when the test is over (closing the proxy's own connection to itself fails the
	// stuck upstream fetch); otherwise httptest.Server.Close would wait for the stuck handlers forever.
	t.Cleanup(env.ProxyServer.CloseClientConnections)

	proxyURL, _ := url.Parse(env.ProxyServer.URL)
	_, port, _ := net.SplitHostPort(proxyURL.Host)

	// control: the canonical spelling is refused at once
	{
		client := &http.Client{Timeout: 5 * time.Second, Transport: &http.Transport{Proxy: http.ProxyURL(proxyURL)}}
		resp, err := client.Get("http://127.0.0.1:" + port + "/control")
		if err != nil {
			t.Fatalf("control request failed: %v", err)
		}
		io.Copy(io.Discard, resp.Body)
		resp.Body.Close()
		if resp.StatusCode != http.StatusLoopDetected {
			t.Fatalf("control: expected 508, got %d", resp.StatusCode)
		}
	}

	aliases := []string{
		"127.0.0.1:0" + port, // same port, spelled with a leading zero
		"0.0.0.0:" + port,    // the unspecified address is the local host when dialled
	}

	// the machine's own name, where it resolves to a loopback address (it does via /etc/hosts on most systems)
	if name, err := os.Hostname(); err == nil && name != "localhost" {
		if addrs, err := net.LookupHost(name); err == nil && len(addrs) > 0 {
			if ip := net.ParseIP(addrs[0]); ip != nil && ip.IsLoopback() {
				aliases = append(aliases, name+":"+port)
			}
		}
	}

	for i, alias := range aliases {
		t.Run(alias, func(t *testing.T) {
			client := &http.Client{Timeout: 4 * time.Second, Transport: &http.Transport{Proxy: http.ProxyURL(proxyURL)}}
			start := time.Now()
			resp, err := client.Get(fmt.Sprintf("http://%s/loop%d", alias, i))
			if err != nil {
				t.Fatalf("request for http://%s/ did not complete within %v: %v", alias, time.Since(start).Round(time.Millisecond), err)
			}
			io.Copy(io.Discard, resp.Body)
			resp.Body.Close()
			t.Logf("answered with %d after %v", resp.StatusCode, time.Since(start))
		})
	}
}
