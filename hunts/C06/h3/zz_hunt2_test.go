// package directory: tests/
package tests

import (
	"io"
	"net/http"
	"sync"
	"testing"
	"time"
)

// A stored response (ETag "e1") has gone stale. The next client request for it is a GET that carries
// Range and the client's own conditional If-Range. The property says the origin is then asked with the
// stored validators and that client conditionals are never forwarded in their place.
func TestHunt2_StaleEntry_ClientIfRangeReplacesStoredValidators(t *testing.T) {
	env := SetupTestEnv(t)

	var mu sync.Mutex
	var seen []http.Header
	env.Upstream.Config.Handler = http.HandlerFunc(func(w http.ResponseWriter, r *http.Request) {
		mu.Lock()
		seen = append(seen, r.Header.Clone())
		mu.Unlock()
		if r.Header.Get("If-None-Match") == `"e1"` {
			w.WriteHeader(http.StatusNotModified)
			return
		}
		w.Header().Set("Cache-Control", "max-age=1")
		w.Header().Set("ETag", `"e1"`)
		w.Header().Set("Last-Modified", "Sun, 06 Nov 1994 08:49:37 GMT")
		w.WriteHeader(http.StatusOK)
		w.Write([]byte("0123456789"))
	})
	env.Start()
	url := env.Upstream.URL + "/r"

	resp, err := env.Client.Get(url)
	if err != nil {
		t.Fatal(err)
	}
	io.Copy(io.Discard, resp.Body)
	resp.Body.Close()

	time.Sleep(1300 * time.Millisecond) // the stored response goes stale

	req, _ := http.NewRequest("GET", url, nil)
	req.Header.Set("Range", "bytes=0-3")
	req.Header.Set("If-Range", `"client-tag"`)
	resp, err = env.Client.Do(req)
	if err != nil {
		t.Fatal(err)
	}
	body, _ := io.ReadAll(resp.Body)
	resp.Body.Close()
	t.Logf("client got %d %q Cache-Status %q", resp.StatusCode, body, resp.Header.Get("Cache-Status"))

	mu.Lock()
	defer mu.Unlock()
	if len(seen) != 2 {
		t.Fatalf("expected 2 origin requests, got %d", len(seen))
	}
	rv := seen[1]
	t.Logf("origin was asked with: If-None-Match=%q If-Modified-Since=%q If-Range=%q Range=%q",
		rv.Get("If-None-Match"), rv.Get("If-Modified-Since"), rv.Get("If-Range"), rv.Get("Range"))
	if rv.Get("If-None-Match") != `"e1"` || rv.Get("If-Modified-Since") == "" {
		t.Errorf("stale entry: origin not asked with the stored validators (If-None-Match=%q, If-Modified-Since=%q)",
			rv.Get("If-None-Match"), rv.Get("If-Modified-Since"))
	}
	if v := rv.Get("If-Range"); v != "" {
		t.Errorf("stale entry: the client's conditional header was forwarded to the origin: If-Range=%q", v)
	}
}
