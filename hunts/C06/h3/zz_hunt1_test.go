// package directory: tests/
package tests

import (
	"io"
	"net/http"
	"net/http/httptest"
	"sync"
	"testing"
	"time"

	"reservoir/config"
	"reservoir/logging"
	"reservoir/proxy"
)

// Same environment as SetupTestEnv, but the cache backend can be chosen.
func hunt1Env(t *testing.T, cacheType config.CacheType) *TestEnv {
	cfg := config.NewDefault()
	cfg.Proxy.UpstreamDefaultHttps.Overwrite(false)
	cfg.Cache.File.Dir.Overwrite(t.TempDir())
	cfg.Proxy.RetryOnRange416.Overwrite(false)
	cfg.Proxy.CachePolicy.IgnoreCacheControl.Overwrite(false)
	cfg.Proxy.CachePolicy.ForceDefaultMaxAge.Overwrite(false)
	cfg.Cache.Type.Overwrite(cacheType)
	cfg.Cache.LockShards.Overwrite(32)
	cfg.Logging.ToStdout.Overwrite(false)
	logging.Init(cfg)

	p, err := proxy.NewProxy(cfg, &FakeCA{}, t.Context())
	if err != nil {
		t.Fatalf("Failed to create proxy: %v", err)
	}
	env := &TestEnv{
		Upstream:    httptest.NewUnstartedServer(nil),
		ProxyServer: httptest.NewUnstartedServer(p),
		Client:      &http.Client{Transport: &http.Transport{}, Timeout: 10 * time.Second},
		Proxy:       p,
		Cfg:         cfg,
		T:           t,
	}
	t.Cleanup(func() {
		env.Upstream.Close()
		env.ProxyServer.Close()
		time.Sleep(100 * time.Millisecond)
		p.Destroy()
		env.Client.Transport.(*http.Transport).CloseIdleConnections()
	})
	return env
}

// History (every step is an ordinary client request or an ordinary origin behaviour):
//  1. GET /r  -> origin 200 "BODY-V1", ETag "v1", max-age=1: stored.
//  2. the lifetime expires.
//  3. client B: GET /r with Range: bytes=0-3. The origin has no range support (legal): it starts
//     answering 200 with its current content "BODY-V1"; the body arrives slowly.
//  4. the origin content changes to "BODY-V2", ETag "v2".
//  5. client A: GET /r. The stale entry is revalidated with If-None-Match: "v1", the origin
//     answers 200 "BODY-V2": the entry is replaced and A gets BODY-V2.
//  6. the slow answer of step 3 completes.
//  7. client C: GET /r. Property: after the 200 of step 5 the old body is never served again.
func hunt1OldBodyAfter200(t *testing.T, cacheType config.CacheType) {
	env := hunt1Env(t, cacheType)

	var mu sync.Mutex
	version := 1
	var seenINM []string
	rangeStarted := make(chan struct{})
	release := make(chan struct{})

	env.Upstream.Config.Handler = http.HandlerFunc(func(w http.ResponseWriter, r *http.Request) {
		mu.Lock()
		v := version
		mu.Unlock()
		etag, body, lifetime := `"v1"`, "BODY-V1", "max-age=1"
		if v == 2 {
			etag, body, lifetime = `"v2"`, "BODY-V2", "max-age=60"
		}

		if r.Header.Get("Range") != "" {
			// No range support: the whole current representation with 200, delivered slowly.
			w.Header().Set("Cache-Control", "max-age=60")
			w.Header().Set("ETag", etag)
			w.Header().Set("Content-Length", "7")
			w.WriteHeader(http.StatusOK)
			w.Write([]byte(body[:3]))
			w.(http.Flusher).Flush()
			close(rangeStarted)
			<-release
			w.Write([]byte(body[3:]))
			return
		}

		mu.Lock()
		seenINM = append(seenINM, r.Header.Get("If-None-Match"))
		mu.Unlock()
		if r.Header.Get("If-None-Match") == etag {
			w.WriteHeader(http.StatusNotModified)
			return
		}
		w.Header().Set("Cache-Control", lifetime)
		w.Header().Set("ETag", etag)
		w.WriteHeader(http.StatusOK)
		w.Write([]byte(body))
	})
	env.Start()
	url := env.Upstream.URL + "/r"

	get := func(hdr map[string]string) (int, string, http.Header) {
		req, _ := http.NewRequest("GET", url, nil)
		for k, v := range hdr {
			req.Header.Set(k, v)
		}
		resp, err := env.Client.Do(req)
		if err != nil {
			t.Errorf("request failed: %v", err)
			return 0, "", http.Header{}
		}
		defer resp.Body.Close()
		b, _ := io.ReadAll(resp.Body)
		return resp.StatusCode, string(b), resp.Header
	}

	// 1
	if _, b, _ := get(nil); b != "BODY-V1" {
		t.Fatalf("step 1: got %q", b)
	}
	// 2
	time.Sleep(1300 * time.Millisecond)

	// 3
	var wg sync.WaitGroup
	wg.Add(1)
	go func() {
		defer wg.Done()
		st, b, _ := get(map[string]string{"Range": "bytes=0-3"})
		t.Logf("step 3 (range client B): status %d body %q", st, b)
	}()
	<-rangeStarted

	// 4
	mu.Lock()
	version = 2
	mu.Unlock()

	// 5
	st, b, h := get(nil)
	t.Logf("step 5 (client A): status %d body %q ETag %s Cache-Status %q", st, b, h.Get("ETag"), h.Get("Cache-Status"))
	mu.Lock()
	t.Logf("If-None-Match seen by the origin on the plain requests: %q", seenINM)
	mu.Unlock()
	if b != "BODY-V2" {
		t.Fatalf("step 5: the revalidation 200 should deliver BODY-V2, got %q", b)
	}

	// 6
	close(release)
	wg.Wait()

	// 7
	st, b, h = get(nil)
	t.Logf("step 7 (client C): status %d body %q ETag %s Cache-Status %q", st, b, h.Get("ETag"), h.Get("Cache-Status"))
	if b != "BODY-V2" {
		t.Fatalf("step 7: the old body is served again after a 200 replaced it: got %q (ETag %s, Cache-Status %q)", b, h.Get("ETag"), h.Get("Cache-Status"))
	}
}

func TestHunt1_OldBodyServedAfter200_Memory(t *testing.T) {
	hunt1OldBodyAfter200(t, config.CacheTypeMemory)
}

func TestHunt1_OldBodyServedAfter200_File(t *testing.T) {
	hunt1OldBodyAfter200(t, config.CacheTypeFile)
}
