// package directory: tests/
package tests

import (
	"bytes"
	"io"
	"net/http"
	"sync/atomic"
	"testing"
	"time"
)

func hunt1Get(t *testing.T, c *http.Client, url string) (int, string, http.Header) {
	t.Helper()
	resp, err := c.Get(url)
	if err != nil {
		t.Fatal(err)
	}
	defer resp.Body.Close()
	b, _ := io.ReadAll(resp.Body)
	return resp.StatusCode, string(b), resp.Header
}

// The revalidation of a stale entry is answered with a 302. That is neither a 304 nor a 200, so it
// has to be relayed to the client and nothing may be stored. Instead the proxy follows the redirect
// itself, hands the client a 200 with the body of the other resource and stores that body under the
// key of the redirecting URL, where it keeps being served after the origin stopped redirecting.
func TestHunt1_RedirectOnRevalidationIsFollowedAndStored(t *testing.T) {
	env := SetupTestEnv(t)
	env.Client.CheckRedirect = func(*http.Request, []*http.Request) error { return http.ErrUseLastResponse }

	var redirecting atomic.Bool
	env.Upstream.Config.Handler = http.HandlerFunc(func(w http.ResponseWriter, r *http.Request) {
		switch r.URL.Path {
		case "/doc":
			if redirecting.Load() {
				http.Redirect(w, r, "/login", http.StatusFound)
				return
			}
			if r.Header.Get("If-None-Match") == `"doc1"` {
				w.WriteHeader(http.StatusNotModified)
				return
			}
			w.Header().Set("Cache-Control", "max-age=1")
			w.Header().Set("ETag", `"doc1"`)
			w.Write([]byte("the document"))
		case "/login":
			w.Header().Set("Cache-Control", "max-age=60")
			w.Write([]byte("please log in"))
		}
	})
	env.Start()
	url := env.Upstream.URL + "/doc"

	if st, body, _ := hunt1Get(t, env.Client, url); st != 200 || body != "the document" {
		t.Fatalf("setup: %d %q", st, body)
	}
	time.Sleep(1500 * time.Millisecond)

	redirecting.Store(true)
	st, body, h := hunt1Get(t, env.Client, url)
	if st != http.StatusFound {
		t.Errorf("origin answered the revalidation with 302; client got %d %q (Cache-Status %q)", st, body, h.Get("Cache-Status"))
	}

	redirecting.Store(false)
	st, body, h = hunt1Get(t, env.Client, url)
	if body != "the document" {
		t.Errorf("the 302 answer was stored: /doc now serves %d %q from the cache (Cache-Status %q)", st, body, h.Get("Cache-Status"))
	}
}

// Variant: the stored validators travel along the redirect that the proxy follows on its own, and
// the other resource answers them. /doc (Last-Modified 2024) has become a redirect to /moved, a
// static file last modified in 2023 and served by http.ServeContent. The If-Modified-Since made
// from /doc's stored date reaches /moved, which truthfully says 304 about itself. The proxy takes
// that for a revalidation of /doc: the client gets the old /doc body as a revalidated hit and the
// entry is renewed, although the origin's answer for /doc was a 302.
func TestHunt1b_StoredValidatorsAnsweredByRedirectTarget(t *testing.T) {
	env := SetupTestEnv(t)
	env.Client.CheckRedirect = func(*http.Request, []*http.Request) error { return http.ErrUseLastResponse }

	docTime := time.Date(2024, 5, 1, 0, 0, 0, 0, time.UTC)
	movedTime := time.Date(2023, 5, 1, 0, 0, 0, 0, time.UTC)
	var redirecting atomic.Bool
	env.Upstream.Config.Handler = http.HandlerFunc(func(w http.ResponseWriter, r *http.Request) {
		switch r.URL.Path {
		case "/doc":
			if redirecting.Load() {
				http.Redirect(w, r, "/moved", http.StatusTemporaryRedirect)
				return
			}
			w.Header().Set("Cache-Control", "max-age=1")
			http.ServeContent(w, r, "doc.txt", docTime, bytes.NewReader([]byte("old document")))
		case "/moved":
			w.Header().Set("Cache-Control", "max-age=60")
			http.ServeContent(w, r, "moved.txt", movedTime, bytes.NewReader([]byte("content of the new location")))
		}
	})
	env.Start()
	url := env.Upstream.URL + "/doc"

	if st, body, _ := hunt1Get(t, env.Client, url); st != 200 || body != "old document" {
		t.Fatalf("setup: %d %q", st, body)
	}
	time.Sleep(1500 * time.Millisecond)

	redirecting.Store(true)
	st, body, h := hunt1Get(t, env.Client, url)
	if st != http.StatusTemporaryRedirect {
		t.Errorf("origin answered the revalidation of /doc with 307; client got %d %q (Cache-Status %q)", st, body, h.Get("Cache-Status"))
	}
}
