// package directory: tests/
package tests

import (
	"io"
	"net/http"
	"sync/atomic"
	"testing"
	"time"
)

// The origin has one transient failure: exactly its second request is answered with a 503
// (Retry-After: 120). That second request is the revalidation of the stale entry (it carries the
// stored ETag). The 503 is neither a 304 nor a 200, so it should be relayed to the client. Instead
// the answer is dropped, the proxy asks the origin again without validators and relays that other
// answer; the client never learns of the 503 and the origin sees two requests for one.
func TestHunt3_OtherAnswerIsNotRelayed(t *testing.T) {
	env := SetupTestEnv(t)

	var n atomic.Int32
	var revalidationAnswer atomic.Int32
	env.Upstream.Config.Handler = http.HandlerFunc(func(w http.ResponseWriter, r *http.Request) {
		i := n.Add(1)
		status := http.StatusOK
		if i == 2 {
			status = http.StatusServiceUnavailable
		}
		if r.Header.Get("If-None-Match") == `"v1"` {
			revalidationAnswer.Store(int32(status))
		}
		if status != http.StatusOK {
			w.Header().Set("Retry-After", "120")
			w.WriteHeader(status)
			w.Write([]byte("busy"))
			return
		}
		w.Header().Set("Cache-Control", "max-age=1")
		w.Header().Set("ETag", `"v1"`)
		w.Write([]byte("body"))
	})
	env.Start()
	url := env.Upstream.URL + "/hunt3"

	fetch := func() (int, string, http.Header) {
		resp, err := env.Client.Get(url)
		if err != nil {
			t.Fatal(err)
		}
		defer resp.Body.Close()
		b, _ := io.ReadAll(resp.Body)
		return resp.StatusCode, string(b), resp.Header
	}

	if st, body, _ := fetch(); st != 200 || body != "body" {
		t.Fatalf("setup: %d %q", st, body)
	}
	time.Sleep(1500 * time.Millisecond) // stale, janitor has not run
	before := n.Load()

	st, body, h := fetch()
	if got := revalidationAnswer.Load(); got != http.StatusServiceUnavailable {
		t.Fatalf("test assumption broken: the revalidation request was answered with %d", got)
	}
	if st != http.StatusServiceUnavailable {
		t.Errorf("origin answered the revalidation with 503; client got %d %q (Retry-After=%q, Cache-Status=%q)", st, body, h.Get("Retry-After"), h.Get("Cache-Status"))
	}
	if d := n.Load() - before; d != 1 {
		t.Errorf("one client request caused %d origin requests", d)
	}
}
