// package directory: tests/
package tests

import (
	"io"
	"net/http"
	"sync"
	"testing"
	"time"
)

// A client names the validator fields in its Connection header (legal: any field name may be
// listed as a connection option). The stale entry has an ETag and a Last-Modified, yet the
// revalidation request reaches the origin without If-None-Match / If-Modified-Since.
func TestHunt2_ConnectionHeaderStripsStoredValidators(t *testing.T) {
	env := SetupTestEnv(t)

	const lm = "Mon, 02 Jan 2006 15:04:05 GMT"
	var mu sync.Mutex
	var seen []http.Header
	env.Upstream.Config.Handler = http.HandlerFunc(func(w http.ResponseWriter, r *http.Request) {
		mu.Lock()
		seen = append(seen, r.Header.Clone())
		mu.Unlock()
		if r.Header.Get("If-None-Match") == `"v1"` {
			w.WriteHeader(http.StatusNotModified)
			return
		}
		w.Header().Set("Cache-Control", "max-age=1")
		w.Header().Set("ETag", `"v1"`)
		w.Header().Set("Last-Modified", lm)
		w.Write([]byte("body v1"))
	})
	env.Start()
	url := env.Upstream.URL + "/hunt1"

	resp, err := env.Client.Get(url)
	if err != nil {
		t.Fatal(err)
	}
	io.Copy(io.Discard, resp.Body)
	resp.Body.Close()

	time.Sleep(1500 * time.Millisecond) // entry is stale now, janitor has not run

	req, _ := http.NewRequest(http.MethodGet, url, nil)
	req.Header.Set("Connection", "If-None-Match, If-Modified-Since")
	resp, err = env.Client.Do(req)
	if err != nil {
		t.Fatal(err)
	}
	io.Copy(io.Discard, resp.Body)
	resp.Body.Close()

	mu.Lock()
	defer mu.Unlock()
	if len(seen) < 2 {
		t.Fatalf("expected a revalidation request, origin saw %d requests", len(seen))
	}
	reval := seen[1]
	if got := reval.Get("If-None-Match"); got != `"v1"` {
		t.Errorf("revalidation of a stale entry with ETag \"v1\": origin got If-None-Match=%q (Cache-Status to client: %q)", got, resp.Header.Get("Cache-Status"))
	}
	if got := reval.Get("If-Modified-Since"); got != lm {
		t.Errorf("revalidation of a stale entry with Last-Modified %q: origin got If-Modified-Since=%q", lm, got)
	}
}
