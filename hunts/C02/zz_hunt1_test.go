// package directory: tests/   (run: go test -vet=off -count=1 -run 'TestHunt1' ./tests/)
package tests

import (
	"bufio"
	"fmt"
	"io"
	"net"
	"net/http"
	"net/url"
	"strings"
	"sync"
	"testing"
	"time"
)

// hunt1Origin is a tiny "web site". It identifies the resource a request-target names exactly
// the way RFC 3986 section 5.2.4 (remove_dot_segments) prescribes, which is also what nginx and
// Apache httpd do: a trailing "." or ".." segment leaves a trailing slash behind, so "/dir/."
// and "/dir/sub/.." are the directory "/dir/", not the file "/dir".
type hunt1Origin struct {
	mu   sync.Mutex
	seen []string // raw request-targets received
}

func rfc3986RemoveDotSegments(p string) string {
	// url.ResolveReference implements RFC 3986 5.2.4 for the reference path.
	base := &url.URL{Scheme: "http", Host: "x", Path: "/"}
	return base.ResolveReference(&url.URL{Path: p}).Path
}

func (o *hunt1Origin) ServeHTTP(w http.ResponseWriter, r *http.Request) {
	o.mu.Lock()
	o.seen = append(o.seen, r.RequestURI)
	o.mu.Unlock()

	resource := rfc3986RemoveDotSegments(r.URL.Path)
	w.Header().Set("Cache-Control", "max-age=60")
	w.Header().Set("X-Origin-Resource", resource)
	if strings.HasSuffix(resource, "/") {
		fmt.Fprintf(w, "DIRECTORY LISTING of %s", resource)
	} else {
		fmt.Fprintf(w, "FILE CONTENT of %s", resource)
	}
}

func (o *hunt1Origin) count() int {
	o.mu.Lock()
	defer o.mu.Unlock()
	return len(o.seen)
}

// hunt1RawGet sends one proxy request with the request-target written verbatim (Go's client would
// not touch it either, but this makes it explicit that nothing normalises the target on the way).
func hunt1RawGet(t *testing.T, proxyAddr, absoluteTarget string) (status int, hdr http.Header, body string) {
	t.Helper()
	conn, err := net.DialTimeout("tcp", proxyAddr, 5*time.Second)
	if err != nil {
		t.Fatalf("dial proxy: %v", err)
	}
	defer conn.Close()
	conn.SetDeadline(time.Now().Add(10 * time.Second))

	u, err := url.Parse(absoluteTarget)
	if err != nil {
		t.Fatalf("bad target %q: %v", absoluteTarget, err)
	}
	fmt.Fprintf(conn, "GET %s HTTP/1.1\r\nHost: %s\r\nConnection: close\r\n\r\n", absoluteTarget, u.Host)

	resp, err := http.ReadResponse(bufio.NewReader(conn), nil)
	if err != nil {
		t.Fatalf("read response for %q: %v", absoluteTarget, err)
	}
	defer resp.Body.Close()
	b, _ := io.ReadAll(resp.Body)
	return resp.StatusCode, resp.Header, string(b)
}

// "/dir" (a file) and "/dir/." (the directory "/dir/" once dot-segments are removed) differ by a
// trailing slash, so the property says they must never share an entry. They do.
func TestHunt1_TrailingDotSegmentSharesEntryWithSlashlessPath(t *testing.T) {
	for _, variant := range []string{"/dir/.", "/dir/sub/..", "/dir/./sub/../."} {
		t.Run(variant, func(t *testing.T) {
			env := SetupTestEnv(t)
			origin := &hunt1Origin{}
			env.Upstream.Config.Handler = origin
			env.Start()
			proxyAddr := strings.TrimPrefix(env.ProxyServer.URL, "http://")

			// 1. the file
			_, _, fileBody := hunt1RawGet(t, proxyAddr, env.Upstream.URL+"/dir")
			if fileBody != "FILE CONTENT of /dir" {
				t.Fatalf("setup: unexpected body for /dir: %q", fileBody)
			}

			// 2. the directory, spelled with a trailing dot-segment
			_, hdr, body := hunt1RawGet(t, proxyAddr, env.Upstream.URL+variant)
			t.Logf("GET %s -> X-Cache=%q body=%q; origin saw %v", variant, hdr.Get("X-Cache"), body, origin.seen)

			if body != "DIRECTORY LISTING of /dir/" {
				t.Errorf("GET %s names the resource %q (RFC 3986 5.2.4) but was answered with %q, X-Cache=%q: "+
					"it shares the cache entry of /dir although the two differ by a trailing slash",
					variant, rfc3986RemoveDotSegments(variant), body, hdr.Get("X-Cache"))
			}
			if origin.count() != 2 {
				t.Errorf("origin was contacted %d time(s), want 2: the second request was answered from the entry stored for /dir", origin.count())
			}
		})
	}
}

// The converse half of the property: "/dir/" and "/dir/sub/.." differ only in dot-segments, so
// they must share one entry. They do not ("/dir/sub/.." is keyed as "/dir").
func TestHunt1_DotSegmentSpellingOfDirectoryDoesNotShare(t *testing.T) {
	env := SetupTestEnv(t)
	origin := &hunt1Origin{}
	env.Upstream.Config.Handler = origin
	env.Start()
	proxyAddr := strings.TrimPrefix(env.ProxyServer.URL, "http://")

	_, _, b1 := hunt1RawGet(t, proxyAddr, env.Upstream.URL+"/dir/")
	_, h2, b2 := hunt1RawGet(t, proxyAddr, env.Upstream.URL+"/dir/sub/..")
	t.Logf("b1=%q b2=%q X-Cache(2)=%q origin saw %v", b1, b2, h2.Get("X-Cache"), origin.seen)
	if origin.count() != 1 || h2.Get("X-Cache") != "HIT" {
		t.Errorf("/dir/ and /dir/sub/.. differ only in dot-segments but did not share an entry: origin contacted %d times, X-Cache=%q",
			origin.count(), h2.Get("X-Cache"))
	}
}
