// package directory: tests/   (run: go test -vet=off -count=1 -run 'TestHunt2' ./tests/)
package tests

import (
	"bufio"
	"fmt"
	"io"
	"net"
	"net/http"
	"net/url"
	"strings"
	"sync"
	"testing"
	"time"
)

type hunt2Origin struct {
	mu   sync.Mutex
	seen []string
}

func (o *hunt2Origin) ServeHTTP(w http.ResponseWriter, r *http.Request) {
	o.mu.Lock()
	o.seen = append(o.seen, r.RequestURI)
	n := len(o.seen)
	o.mu.Unlock()
	w.Header().Set("Cache-Control", "max-age=60")
	fmt.Fprintf(w, "origin response #%d for %s", n, r.RequestURI)
}

func (o *hunt2Origin) snapshot() []string {
	o.mu.Lock()
	defer o.mu.Unlock()
	return append([]string(nil), o.seen...)
}

func hunt2RawGet(t *testing.T, proxyAddr, absoluteTarget string) (http.Header, string) {
	t.Helper()
	conn, err := net.DialTimeout("tcp", proxyAddr, 5*time.Second)
	if err != nil {
		t.Fatalf("dial proxy: %v", err)
	}
	defer conn.Close()
	conn.SetDeadline(time.Now().Add(10 * time.Second))
	u, err := url.Parse(absoluteTarget)
	if err != nil {
		t.Fatalf("bad target: %v", err)
	}
	fmt.Fprintf(conn, "GET %s HTTP/1.1\r\nHost: %s\r\nConnection: close\r\n\r\n", absoluteTarget, u.Host)
	resp, err := http.ReadResponse(bufio.NewReader(conn), nil)
	if err != nil {
		t.Fatalf("read response: %v", err)
	}
	defer resp.Body.Close()
	b, _ := io.ReadAll(resp.Body)
	return resp.Header, string(b)
}

// The key is built from the percent-DECODED path (r.URL.Path). A "/" that the client sent as data
// inside one segment ("%2F") is therefore indistinguishable from a segment separator, and the
// decoded text is then run through path.Clean, so "dot-segments" and "duplicate slashes" that do
// not exist in the request path are removed as well. None of the request paths below contains a
// dot-segment or a duplicate slash, and each differs from its partner as a path, yet every pair is
// answered from one stored entry.
func TestHunt2_EncodedSlashSharesEntry(t *testing.T) {
	pairs := [][2]string{
		{"/a/b", "/a%2Fb"},      // two segments "a","b"  vs one segment "a/b"
		{"/x/b", "/x/a%2F../b"}, // segment "a%2F.." is an ordinary name, not a dot-segment
		{"/p/q", "/p%2F%2Fq"},   // one segment "p//q": no duplicate slash in the path
		{"/dir/", "/dir%2F"},    // trailing slash vs. a file whose name ends in an encoded slash
	}
	for _, pair := range pairs {
		t.Run(pair[1], func(t *testing.T) {
			env := SetupTestEnv(t)
			origin := &hunt2Origin{}
			env.Upstream.Config.Handler = origin
			env.Start()
			proxyAddr := strings.TrimPrefix(env.ProxyServer.URL, "http://")

			_, b1 := hunt2RawGet(t, proxyAddr, env.Upstream.URL+pair[0])
			h2, b2 := hunt2RawGet(t, proxyAddr, env.Upstream.URL+pair[1])
			seen := origin.snapshot()
			t.Logf("GET %s -> %q", pair[0], b1)
			t.Logf("GET %s -> %q (X-Cache=%q); origin saw %v", pair[1], b2, h2.Get("X-Cache"), seen)
			if len(seen) != 2 || h2.Get("X-Cache") == "HIT" {
				t.Errorf("%s and %s are different paths (no dot-segments or duplicate slashes involved) "+
					"but the second was answered from the entry stored for the first: X-Cache=%q, origin contacted %d time(s)",
					pair[0], pair[1], h2.Get("X-Cache"), len(seen))
			}
		})
	}
}

// Control: the separately quoted components do keep an encoded "?" apart from a real one.
func TestHunt2_ControlEncodedQuestionMarkIsKeptApart(t *testing.T) {
	env := SetupTestEnv(t)
	origin := &hunt2Origin{}
	env.Upstream.Config.Handler = origin
	env.Start()
	proxyAddr := strings.TrimPrefix(env.ProxyServer.URL, "http://")

	hunt2RawGet(t, proxyAddr, env.Upstream.URL+"/a?b")
	h2, _ := hunt2RawGet(t, proxyAddr, env.Upstream.URL+"/a%3Fb")
	if n := len(origin.snapshot()); n != 2 || h2.Get("X-Cache") == "HIT" {
		t.Errorf("control failed: /a?b and /a%%3Fb shared an entry (origin contacted %d times)", n)
	}
}
