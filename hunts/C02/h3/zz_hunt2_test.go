// package directory: tests/   (copy to /tmp/hunt-C02-h3/tests/zz_hunt2_test.go)
package tests

// C02 finding 2: the host is normalised with strings.ToLower, which is a Unicode mapping.
// U+0130 (LATIN CAPITAL LETTER I WITH DOT ABOVE, "%C4%B0" in an absolute-form target) is mapped to
// plain ASCII "i", so "http://İnsta.test/x" gets the cache key of "http://insta.test/x" although
// the two are different hosts under every case-insensitive comparison (ASCII/DNS, strings.EqualFold,
// Unicode case folding) and although the proxy itself contacts a different origin for it
// (xn--insta-7fd.test, Host: xn--nsta-fza.test). Whoever controls that IDN can fill the entry that is
// afterwards served to everybody asking for insta.test.
//
// The test only supplies name resolution (every *.test name is connected to the test origin),
// because there is no DNS in the sandbox.

import (
	"bufio"
	"context"
	"fmt"
	"io"
	"net"
	"net/http"
	"strings"
	"sync"
	"testing"
	"time"
)

func hunt2Raw(t *testing.T, proxyAddr, target string) (int, string, string) {
	t.Helper()
	c, err := net.DialTimeout("tcp", proxyAddr, 2*time.Second)
	if err != nil {
		t.Fatal(err)
	}
	defer c.Close()
	c.SetDeadline(time.Now().Add(5 * time.Second))
	fmt.Fprintf(c, "GET %s HTTP/1.1\r\nHost: unused.test\r\nConnection: close\r\n\r\n", target)
	resp, err := http.ReadResponse(bufio.NewReader(c), nil)
	if err != nil {
		t.Fatalf("reading response for %q: %v", target, err)
	}
	defer resp.Body.Close()
	b, _ := io.ReadAll(resp.Body)
	return resp.StatusCode, resp.Header.Get("Cache-Status"), string(b)
}

func TestHunt2DottedCapitalIHostSharesEntryWithAsciiHost(t *testing.T) {
	if strings.EqualFold("İnsta.test", "insta.test") {
		t.Skip("the two hosts would be case-insensitively equal") // never happens
	}

	env := SetupTestEnv(t)
	env.Upstream.Config.Handler = http.HandlerFunc(func(w http.ResponseWriter, r *http.Request) {
		w.Header().Set("Cache-Control", "max-age=60")
		w.WriteHeader(http.StatusOK)
		fmt.Fprintf(w, "served by origin %s", r.Host)
	})
	env.Start()
	up := strings.TrimPrefix(env.Upstream.URL, "http://")
	_, port, _ := net.SplitHostPort(up)
	px := strings.TrimPrefix(env.ProxyServer.URL, "http://")

	// "DNS" for the sandbox: every name is connected to the test origin; the names dialled are recorded.
	var mu sync.Mutex
	var dialled []string
	tr := http.DefaultTransport.(*http.Transport)
	old := tr.DialContext
	defer func() { tr.DialContext = old; tr.CloseIdleConnections() }()
	tr.DialContext = func(ctx context.Context, network, addr string) (net.Conn, error) {
		mu.Lock()
		dialled = append(dialled, addr)
		mu.Unlock()
		var d net.Dialer
		return d.DialContext(ctx, network, up)
	}

	// 1. the attacker's host: U+0130 + "nsta.test", percent-encoded as RFC 3986 reg-name allows
	s1, cs1, b1 := hunt2Raw(t, px, "http://%C4%B0nsta.test:"+port+"/app.js")
	// 2. the victim's host, plain ASCII
	s2, cs2, b2 := hunt2Raw(t, px, "http://insta.test:"+port+"/app.js")

	mu.Lock()
	t.Logf("origins dialled by the proxy: %q", dialled)
	mu.Unlock()
	t.Logf("GET http://%%C4%%B0nsta.test:%s/app.js -> %d [%s] %q", port, s1, cs1, b1)
	t.Logf("GET http://insta.test:%s/app.js       -> %d [%s] %q", port, s2, cs2, b2)

	if s1 != 200 || !strings.Contains(cs1, "stored") {
		t.Fatalf("precondition: first response not stored: %d %s", s1, cs1)
	}
	if strings.Contains(cs2, "hit") || !strings.Contains(b2, "served by origin insta.test:") {
		t.Errorf("request for host insta.test was answered from the entry of host İnsta.test: Cache-Status %q, body %q", cs2, b2)
	}
}
