// package directory: tests/   (copy to /tmp/hunt-C02-h3/tests/zz_hunt1_test.go)
package tests

// C02 finding 1: a path that contains any byte net/url does not regard as "validly encoded"
// (a raw non-ASCII byte such as UTF-8 "é", or one of  " < > \ ^ ` { | } #) makes URL.EscapedPath()
// discard the wire spelling and re-encode the DECODED path. In the decoded path "%2F" is already "/",
// so "/x/é/a%2Fb" and "/x/é/a/b" get the same cache key and share one entry.

import (
	"bufio"
	"fmt"
	"io"
	"net"
	"net/http"
	"strings"
	"sync/atomic"
	"testing"
	"time"

	"reservoir/cache"
)

func hunt1Raw(t *testing.T, proxyAddr, target, host string) (int, string, string) {
	t.Helper()
	c, err := net.DialTimeout("tcp", proxyAddr, 2*time.Second)
	if err != nil {
		t.Fatal(err)
	}
	defer c.Close()
	c.SetDeadline(time.Now().Add(5 * time.Second))
	fmt.Fprintf(c, "GET %s HTTP/1.1\r\nHost: %s\r\nConnection: close\r\n\r\n", target, host)
	resp, err := http.ReadResponse(bufio.NewReader(c), nil)
	if err != nil {
		t.Fatalf("reading response for %q: %v", target, err)
	}
	defer resp.Body.Close()
	b, _ := io.ReadAll(resp.Body)
	return resp.StatusCode, resp.Header.Get("Cache-Status"), string(b)
}

func TestHunt1EncodedSlashSharesEntryWhenPathHasRawByte(t *testing.T) {
	env := SetupTestEnv(t)
	var originHits atomic.Int64
	env.Upstream.Config.Handler = http.HandlerFunc(func(w http.ResponseWriter, r *http.Request) {
		originHits.Add(1)
		w.Header().Set("Cache-Control", "max-age=60")
		w.WriteHeader(http.StatusOK)
		fmt.Fprintf(w, "origin was asked for %s", r.RequestURI)
	})
	env.Start()
	up := strings.TrimPrefix(env.Upstream.URL, "http://")
	px := strings.TrimPrefix(env.ProxyServer.URL, "http://")

	cases := []struct{ name, first, second string }{
		// control: without the raw byte the two spellings are kept apart, as the property demands
		{"control", "/ctl/a%2Fb", "/ctl/a/b"},
		{"raw UTF-8 byte in another segment", "/files/caf\xc3\xa9/a%2Fb", "/files/caf\xc3\xa9/a/b"},
		{"raw pipe", "/dl/a%2Fb|v1", "/dl/a/b|v1"},
	}
	for _, tc := range cases {
		t.Run(tc.name, func(t *testing.T) {
			// key level, exactly as the proxy's server parses the request line
			mk := func(target string) cache.CacheKey {
				req, err := http.ReadRequest(bufio.NewReader(strings.NewReader(
					"GET http://" + up + target + " HTTP/1.1\r\nHost: " + up + "\r\n\r\n")))
				if err != nil {
					t.Fatalf("ReadRequest(%q): %v", target, err)
				}
				return cache.MakeFromRequest(req)
			}
			if k1, k2 := mk(tc.first), mk(tc.second); k1 == k2 {
				t.Errorf("cache key of %q == cache key of %q (%s)", tc.first, tc.second, k1.Hex)
			}

			// end to end
			before := originHits.Load()
			s1, cs1, b1 := hunt1Raw(t, px, "http://"+up+tc.first, up)
			s2, cs2, b2 := hunt1Raw(t, px, "http://"+up+tc.second, up)
			t.Logf("GET %q -> %d [%s] %q", tc.first, s1, cs1, b1)
			t.Logf("GET %q -> %d [%s] %q", tc.second, s2, cs2, b2)
			if strings.Contains(cs2, "hit") {
				t.Errorf("request for %q was answered from the entry stored for %q (Cache-Status: %s)", tc.second, tc.first, cs2)
			}
			if n := originHits.Load() - before; n != 2 {
				t.Errorf("two different paths, but the origin was contacted %d time(s)", n)
			}
		})
	}
}
