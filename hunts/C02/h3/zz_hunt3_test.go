// package directory: tests/   (copy to /tmp/hunt-C02-h3/tests/zz_hunt3_test.go)
package tests

// C02 finding 3: "/a?" (present but empty query) and "/a" (no query component) are different request
// targets: the proxy itself relays them differently (changeRequestToTarget copies URL.ForceQuery, so
// the origin receives "GET /a?" and "GET /a"), but the cache key only contains URL.RawQuery, which is
// "" for both. The second request is answered from the entry of the first.

import (
	"fmt"
	"io"
	"net/http"
	"strings"
	"testing"
)

func TestHunt3EmptyQueryAndNoQueryShareEntry(t *testing.T) {
	env := SetupTestEnv(t)
	env.Upstream.Config.Handler = http.HandlerFunc(func(w http.ResponseWriter, r *http.Request) {
		w.Header().Set("Cache-Control", "max-age=60")
		w.WriteHeader(http.StatusOK)
		// an origin that tells the two targets apart (RFC 3986 6.2.3: they are not equivalent)
		fmt.Fprintf(w, "request-target=%s", r.RequestURI)
	})
	env.Start()

	get := func(u string) (string, string) {
		resp, err := env.Client.Get(u) // Go's client puts "GET http://host/p/a? HTTP/1.1" on the wire for a trailing "?"
		if err != nil {
			t.Fatalf("GET %s: %v", u, err)
		}
		defer resp.Body.Close()
		b, _ := io.ReadAll(resp.Body)
		return resp.Header.Get("Cache-Status"), string(b)
	}

	for _, order := range [][2]string{{"/p/a?", "/p/a"}, {"/q/a", "/q/a?"}} {
		cs1, b1 := get(env.Upstream.URL + order[0])
		cs2, b2 := get(env.Upstream.URL + order[1])
		t.Logf("GET %-6s -> [%s] %q", order[0], cs1, b1)
		t.Logf("GET %-6s -> [%s] %q", order[1], cs2, b2)
		if b1 != "request-target="+order[0] {
			t.Fatalf("precondition: origin did not see %q: %q", order[0], b1)
		}
		if strings.Contains(cs2, "hit") || b2 != "request-target="+order[1] {
			t.Errorf("request for %q was answered from the entry stored for %q: Cache-Status %q, body %q", order[1], order[0], cs2, b2)
		}
	}
}
