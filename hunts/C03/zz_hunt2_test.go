// package directory: tests/   (run: go test -vet=off -count=1 -run TestHunt2 ./tests/)
package tests

import (
	"net/http"
	"sync/atomic"
	"testing"
	"time"
)

// C03 finding 2: a response that carries max-age more than once (two Cache-Control field lines, or
// "max-age=1, max-age=3600" in one line) is given the LAST value as lifetime. RFC 9111 section 4.2.1:
// "When there is more than one value present for a given directive (e.g., two Expires header field
// lines or multiple Cache-Control: max-age directives), either the first occurrence should be used or
// the response should be considered stale." So the lifetime given by the origin's max-age is 1s (or
// zero); the proxy serves the entry as a HIT for an hour.
func TestHunt2_DuplicateMaxAgeLastWins(t *testing.T) {
	for _, tc := range []struct {
		name  string
		lines []string
	}{
		{"two-field-lines", []string{"max-age=1", "max-age=3600"}},
		{"one-line", []string{"max-age=1, max-age=3600"}},
	} {
		t.Run(tc.name, func(t *testing.T) {
			env := SetupTestEnv(t) // ignore_cache_control=false, force_default_max_age=false

			var originHits int32
			env.Upstream.Config.Handler = http.HandlerFunc(func(w http.ResponseWriter, r *http.Request) {
				atomic.AddInt32(&originHits, 1)
				for _, l := range tc.lines {
					w.Header().Add("Cache-Control", l)
				}
				w.WriteHeader(http.StatusOK)
				w.Write([]byte("body"))
			})
			env.Start()
			url := env.Upstream.URL + "/hunt2"

			resp, err := env.Client.Get(url)
			if err != nil {
				t.Fatal(err)
			}
			resp.Body.Close()
			if n := atomic.LoadInt32(&originHits); n != 1 {
				t.Fatalf("setup: want 1 origin contact, got %d", n)
			}

			time.Sleep(1300 * time.Millisecond) // the first max-age (1s) has elapsed

			resp, err = env.Client.Get(url)
			if err != nil {
				t.Fatal(err)
			}
			resp.Body.Close()
			if n := atomic.LoadInt32(&originHits); n != 2 {
				t.Errorf("Cache-Control %q: 1.3s after storing, the entry was reused without contacting the origin "+
					"(origin contacts=%d, want 2); X-Cache=%q Cache-Status=%q",
					tc.lines, n, resp.Header.Get("X-Cache"), resp.Header.Get("Cache-Status"))
			}
		})
	}
}
