// package directory: tests/   (run: go test -vet=off -count=1 -run TestHunt3 ./tests/)
package tests

import (
	"io"
	"net/http"
	"net/http/httptest"
	"reservoir/config"
	"reservoir/logging"
	"reservoir/proxy"
	"sync/atomic"
	"testing"
	"time"
)

// C03 (labelling): the origin's own "X-Cache" response field (CDNs such as CloudFront, Fastly, Varnish send
// "X-Cache: HIT ..." / "X-Cache: MISS") is kept and the proxy ADDS its verdict as a second field line.
// A response that was fetched from the origin is therefore delivered with "X-Cache: HIT" as its first
// X-Cache value, and a response served from the store with "X-Cache: MISS" as its first X-Cache value.
func TestHunt3_OriginXCacheSurvivesNextToTheProxyLabel(t *testing.T) {
	for _, backend := range []string{"memory", "file"} {
		t.Run(backend, func(t *testing.T) {
			env := huntEnv3(t, backend)

			var originHits int32
			env.Upstream.Config.Handler = http.HandlerFunc(func(w http.ResponseWriter, r *http.Request) {
				atomic.AddInt32(&originHits, 1)
				w.Header().Set("Cache-Control", "max-age=60")
				if r.URL.Path == "/cdn-hit" {
					w.Header().Set("X-Cache", "HIT")
				} else {
					w.Header().Set("X-Cache", "MISS")
				}
				w.WriteHeader(http.StatusOK)
				w.Write([]byte("body"))
			})
			env.Start()

			get := func(path string) (first string, all []string) {
				resp, err := env.Client.Get(env.Upstream.URL + path)
				if err != nil {
					t.Fatalf("GET: %v", err)
				}
				io.Copy(io.Discard, resp.Body)
				resp.Body.Close()
				return resp.Header.Get("X-Cache"), resp.Header.Values("X-Cache")
			}

			// Fetched from the origin just now (nothing stored before): must not be labelled HIT.
			first, all := get("/cdn-hit")
			for _, v := range all {
				if v == "HIT" {
					t.Errorf("response fetched from the origin (origin hits=%d) carries X-Cache: HIT; "+
						"Header.Get(X-Cache)=%q, all X-Cache values=%q", atomic.LoadInt32(&originHits), first, all)
				}
			}

			// Served from the store while fresh: must be labelled HIT (and only HIT).
			get("/cdn-miss")
			before := atomic.LoadInt32(&originHits)
			first, all = get("/cdn-miss")
			if atomic.LoadInt32(&originHits) != before {
				t.Fatalf("second request was not served from the store")
			}
			if first != "HIT" || len(all) != 1 {
				t.Errorf("response served from the store without origin contact is labelled "+
					"Header.Get(X-Cache)=%q, all X-Cache values=%q; want exactly HIT", first, all)
			}
		})
	}
}

// Same as SetupTestEnv (tests/test_env.go), but the cache backend can be chosen and logging to stdout is off.
func huntEnv3(t testing.TB, backend string) *TestEnv {
	cacheDir := t.TempDir()
	upstream := httptest.NewUnstartedServer(http.HandlerFunc(func(w http.ResponseWriter, r *http.Request) {}))

	cfg := config.NewDefault()
	cfg.Proxy.UpstreamDefaultHttps.Overwrite(false)
	cfg.Cache.File.Dir.Overwrite(cacheDir)
	cfg.Proxy.RetryOnRange416.Overwrite(false)
	cfg.Proxy.CachePolicy.IgnoreCacheControl.Overwrite(false)
	cfg.Proxy.CachePolicy.ForceDefaultMaxAge.Overwrite(false)
	if backend == "file" {
		cfg.Cache.Type.Overwrite(config.CacheTypeFile)
	} else {
		cfg.Cache.Type.Overwrite(config.CacheTypeMemory)
	}
	cfg.Cache.LockShards.Overwrite(32)
	cfg.Logging.ToStdout.Overwrite(false)
	logging.Init(cfg)

	p, err := proxy.NewProxy(cfg, &FakeCA{}, t.Context())
	if err != nil {
		t.Fatalf("Failed to create proxy: %v", err)
	}
	proxyServer := httptest.NewUnstartedServer(p)
	client := &http.Client{Transport: &http.Transport{}}
	t.Cleanup(func() {
		upstream.Close()
		proxyServer.Close()
		time.Sleep(100 * time.Millisecond)
		p.Destroy()
		client.Transport.(*http.Transport).CloseIdleConnections()
	})
	return &TestEnv{Upstream: upstream, ProxyServer: proxyServer, Client: client, Proxy: p, Cfg: cfg, CacheDir: cacheDir, T: t}
}
