// package directory: tests/   (run: go test -vet=off -count=1 -run TestHunt2 ./tests/)
package tests

import (
	"io"
	"net/http"
	"net/http/httptest"
	"reservoir/config"
	"reservoir/logging"
	"reservoir/proxy"
	"sync/atomic"
	"testing"
	"time"
)

// C03: ignore_cache_control=true, force_default_max_age=false, default_max_age=1h (the shipped default).
// The origin answers "Cache-Control: max-age=0": the lifetime given by the origin's max-age is zero, so the
// stored response may never be served without contacting the origin. It is served as a HIT (ttl ~3600).
// With max-age=1 under the very same settings the max-age IS honoured (the entry goes stale after 1s), so the
// setting does not mean "max-age is not looked at": only the value 0 is turned into the 1h default.
func TestHunt2_IgnoreCacheControlTurnsMaxAgeZeroIntoDefault(t *testing.T) {
	for _, backend := range []string{"memory", "file"} {
		t.Run(backend, func(t *testing.T) {
			env := huntEnv2(t, backend)
			env.Cfg.Proxy.CachePolicy.IgnoreCacheControl.Overwrite(true)
			env.Cfg.Proxy.CachePolicy.ForceDefaultMaxAge.Overwrite(false)

			var originHits int32
			env.Upstream.Config.Handler = http.HandlerFunc(func(w http.ResponseWriter, r *http.Request) {
				atomic.AddInt32(&originHits, 1)
				if r.URL.Path == "/one" {
					w.Header().Set("Cache-Control", "max-age=1")
				} else {
					w.Header().Set("Cache-Control", "max-age=0")
				}
				w.WriteHeader(http.StatusOK)
				w.Write([]byte("body"))
			})
			env.Start()

			get := func(path string) (xcache, cacheStatus string) {
				resp, err := env.Client.Get(env.Upstream.URL + path)
				if err != nil {
					t.Fatalf("GET: %v", err)
				}
				io.Copy(io.Discard, resp.Body)
				resp.Body.Close()
				return resp.Header.Get("X-Cache"), resp.Header.Get("Cache-Status")
			}

			// Control: max-age=1 is honoured under these settings.
			get("/one")
			time.Sleep(1300 * time.Millisecond)
			if x, cs := get("/one"); x == "HIT" || atomic.LoadInt32(&originHits) != 2 {
				t.Fatalf("control: max-age=1 not honoured: X-Cache=%q Cache-Status=%q origin hits=%d", x, cs, originHits)
			}
			atomic.StoreInt32(&originHits, 0)

			get("/zero")
			time.Sleep(1300 * time.Millisecond)
			x, cs := get("/zero")
			if n := atomic.LoadInt32(&originHits); n != 2 || x == "HIT" {
				t.Errorf("max-age=0 response reused 1.3s later without contacting the origin "+
					"(origin hits=%d, want 2); X-Cache=%q Cache-Status=%q", n, x, cs)
			}
		})
	}
}

// Same as SetupTestEnv (tests/test_env.go), but the cache backend can be chosen and logging to stdout is off.
func huntEnv2(t testing.TB, backend string) *TestEnv {
	cacheDir := t.TempDir()
	upstream := httptest.NewUnstartedServer(http.HandlerFunc(func(w http.ResponseWriter, r *http.Request) {}))

	cfg := config.NewDefault()
	cfg.Proxy.UpstreamDefaultHttps.Overwrite(false)
	cfg.Cache.File.Dir.Overwrite(cacheDir)
	cfg.Proxy.RetryOnRange416.Overwrite(false)
	cfg.Proxy.CachePolicy.IgnoreCacheControl.Overwrite(false)
	cfg.Proxy.CachePolicy.ForceDefaultMaxAge.Overwrite(false)
	if backend == "file" {
		cfg.Cache.Type.Overwrite(config.CacheTypeFile)
	} else {
		cfg.Cache.Type.Overwrite(config.CacheTypeMemory)
	}
	cfg.Cache.LockShards.Overwrite(32)
	cfg.Logging.ToStdout.Overwrite(false)
	logging.Init(cfg)

	p, err := proxy.NewProxy(cfg, &FakeCA{}, t.Context())
	if err != nil {
		t.Fatalf("Failed to create proxy: %v", err)
	}
	proxyServer := httptest.NewUnstartedServer(p)
	client := &http.Client{Transport: &http.Transport{}}
	t.Cleanup(func() {
		upstream.Close()
		proxyServer.Close()
		time.Sleep(100 * time.Millisecond)
		p.Destroy()
		client.Transport.(*http.Transport).CloseIdleConnections()
	})
	return &TestEnv{Upstream: upstream, ProxyServer: proxyServer, Client: client, Proxy: p, Cfg: cfg, CacheDir: cacheDir, T: t}
}
