// package directory: tests/   (run: go test -vet=off -count=1 -run TestHunt1 ./tests/)
package tests

import (
	"io"
	"net/http"
	"net/http/httptest"
	"reservoir/config"
	"reservoir/logging"
	"reservoir/proxy"
	"sync/atomic"
	"testing"
	"time"
)

// C03: after a 304 revalidation the entry is given the configured default lifetime (1h) although
// force_default_max_age=false and the origin says max-age=1 on the 200 AND on the 304. The next request,
// made well after that one second has elapsed again, is answered HIT without contacting the origin.
func TestHunt1_RevalidationResetsLifetimeToDefault(t *testing.T) {
	for _, backend := range []string{"memory", "file"} {
		t.Run(backend, func(t *testing.T) {
			env := huntEnv1(t, backend)

			var originHits int32
			env.Upstream.Config.Handler = http.HandlerFunc(func(w http.ResponseWriter, r *http.Request) {
				atomic.AddInt32(&originHits, 1)
				w.Header().Set("Cache-Control", "max-age=1")
				w.Header().Set("ETag", `"v1"`)
				if r.Header.Get("If-None-Match") == `"v1"` {
					w.WriteHeader(http.StatusNotModified)
					return
				}
				w.WriteHeader(http.StatusOK)
				w.Write([]byte("body"))
			})
			env.Start()

			if env.Cfg.Proxy.CachePolicy.ForceDefaultMaxAge.Read() || env.Cfg.Proxy.CachePolicy.IgnoreCacheControl.Read() {
				t.Fatalf("test env is expected to run with force_default_max_age=false, ignore_cache_control=false")
			}

			url := env.Upstream.URL + "/hunt1"
			get := func() (xcache, cacheStatus, age string) {
				resp, err := env.Client.Get(url)
				if err != nil {
					t.Fatalf("GET: %v", err)
				}
				io.Copy(io.Discard, resp.Body)
				resp.Body.Close()
				return resp.Header.Get("X-Cache"), resp.Header.Get("Cache-Status"), resp.Header.Get("Age")
			}

			x, cs, _ := get() // t=0: MISS, stored with max-age=1
			if x != "MISS" || atomic.LoadInt32(&originHits) != 1 {
				t.Fatalf("request 1: X-Cache=%q Cache-Status=%q origin hits=%d", x, cs, originHits)
			}

			time.Sleep(1300 * time.Millisecond) // lifetime (1s) elapsed
			x, cs, _ = get()                    // REVALIDATED via 304
			if x != "REVALIDATED" || atomic.LoadInt32(&originHits) != 2 {
				t.Fatalf("request 2: X-Cache=%q Cache-Status=%q origin hits=%d", x, cs, originHits)
			}

			time.Sleep(1300 * time.Millisecond) // lifetime (1s, as the 304 said again) elapsed once more
			x, cs, age := get()
			if n := atomic.LoadInt32(&originHits); n != 3 || x == "HIT" {
				t.Errorf("request 3, 1.3s after the revalidation of a max-age=1 response: origin was not contacted "+
					"(origin hits=%d, want 3); X-Cache=%q Cache-Status=%q Age=%q", n, x, cs, age)
			}
		})
	}
}

// Same as SetupTestEnv (tests/test_env.go), but the cache backend can be chosen and logging to stdout is off.
func huntEnv1(t testing.TB, backend string) *TestEnv {
	cacheDir := t.TempDir()
	upstream := httptest.NewUnstartedServer(http.HandlerFunc(func(w http.ResponseWriter, r *http.Request) {}))

	cfg := config.NewDefault()
	cfg.Proxy.UpstreamDefaultHttps.Overwrite(false)
	cfg.Cache.File.Dir.Overwrite(cacheDir)
	cfg.Proxy.RetryOnRange416.Overwrite(false)
	cfg.Proxy.CachePolicy.IgnoreCacheControl.Overwrite(false)
	cfg.Proxy.CachePolicy.ForceDefaultMaxAge.Overwrite(false)
	if backend == "file" {
		cfg.Cache.Type.Overwrite(config.CacheTypeFile)
	} else {
		cfg.Cache.Type.Overwrite(config.CacheTypeMemory)
	}
	cfg.Cache.LockShards.Overwrite(32)
	cfg.Logging.ToStdout.Overwrite(false)
	logging.Init(cfg)

	p, err := proxy.NewProxy(cfg, &FakeCA{}, t.Context())
	if err != nil {
		t.Fatalf("Failed to create proxy: %v", err)
	}
	proxyServer := httptest.NewUnstartedServer(p)
	client := &http.Client{Transport: &http.Transport{}}
	t.Cleanup(func() {
		upstream.Close()
		proxyServer.Close()
		time.Sleep(100 * time.Millisecond)
		p.Destroy()
		client.Transport.(*http.Transport).CloseIdleConnections()
	})
	return &TestEnv{Upstream: upstream, ProxyServer: proxyServer, Client: client, Proxy: p, Cfg: cfg, CacheDir: cacheDir, T: t}
}
