// package directory: tests/   (run: go test -vet=off -count=1 -run TestHunt1 ./tests/)
package tests

import (
	"net/http"
	"sync/atomic"
	"testing"
	"time"
)

// C03 finding 1: after a 304 revalidation the entry's lifetime is reset to the configured
// default_max_age (1h), not to the origin's Cache-Control max-age (1s here, sent on both the 200 and
// the 304) although the operator does NOT force the default. The entry is then served as a HIT
// without contacting the origin long after the origin's max-age has elapsed.
func TestHunt1_RevalidationResetsLifetimeToDefault(t *testing.T) {
	env := SetupTestEnv(t) // ignore_cache_control=false, force_default_max_age=false, default_max_age=1h

	var originHits int32
	env.Upstream.Config.Handler = http.HandlerFunc(func(w http.ResponseWriter, r *http.Request) {
		atomic.AddInt32(&originHits, 1)
		w.Header().Set("Cache-Control", "max-age=1")
		w.Header().Set("ETag", `"v1"`)
		if r.Header.Get("If-None-Match") == `"v1"` {
			w.WriteHeader(http.StatusNotModified)
			return
		}
		w.WriteHeader(http.StatusOK)
		w.Write([]byte("body"))
	})
	env.Start()
	url := env.Upstream.URL + "/hunt1"

	get := func() *http.Response {
		resp, err := env.Client.Get(url)
		if err != nil {
			t.Fatalf("GET failed: %v", err)
		}
		resp.Body.Close()
		return resp
	}

	r1 := get()
	if n := atomic.LoadInt32(&originHits); n != 1 {
		t.Fatalf("setup: expected 1 origin contact after first request, got %d", n)
	}
	t.Logf("req1: X-Cache=%q Cache-Status=%q", r1.Header.Get("X-Cache"), r1.Header.Get("Cache-Status"))

	time.Sleep(1300 * time.Millisecond) // max-age=1 has elapsed

	r2 := get()
	if n := atomic.LoadInt32(&originHits); n != 2 {
		t.Fatalf("setup: expected revalidation (2 origin contacts) after max-age elapsed, got %d", n)
	}
	t.Logf("req2: X-Cache=%q Cache-Status=%q", r2.Header.Get("X-Cache"), r2.Header.Get("Cache-Status"))

	time.Sleep(1300 * time.Millisecond) // max-age=1 (as repeated by the 304) has elapsed again

	r3 := get()
	t.Logf("req3: X-Cache=%q Cache-Status=%q Age=%q", r3.Header.Get("X-Cache"), r3.Header.Get("Cache-Status"), r3.Header.Get("Age"))
	if n := atomic.LoadInt32(&originHits); n != 3 {
		t.Errorf("origin said max-age=1 (on the 200 and on the 304); 1.3s after the revalidation the entry was reused "+
			"without contacting the origin: origin contacts=%d (want 3), X-Cache=%q, Cache-Status=%q",
			n, r3.Header.Get("X-Cache"), r3.Header.Get("Cache-Status"))
	}
}
