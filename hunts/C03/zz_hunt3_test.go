// package directory: tests/   (run: go test -vet=off -count=1 -run TestHunt3 ./tests/)
package tests

import (
	"net/http"
	"sync/atomic"
	"testing"
)

// C03 finding 3: the origin's own X-Cache field (very common: origins behind Fastly/Varnish/CloudFront,
// e.g. deb.debian.org answers "X-Cache: HIT, HIT") is copied into the proxy's response and the proxy's
// own verdict is only appended as a second field line. A response for which the origin WAS contacted
// therefore carries "X-Cache: HIT" (and is what Header.Get / curl -I show first), and conversely a
// genuine hit is labelled "X-Cache: MISS" first when the origin said MISS.
func TestHunt3_OriginXCacheLabelLeaksThrough(t *testing.T) {
	t.Run("miss-labelled-HIT", func(t *testing.T) {
		env := SetupTestEnv(t)
		var originHits int32
		env.Upstream.Config.Handler = http.HandlerFunc(func(w http.ResponseWriter, r *http.Request) {
			atomic.AddInt32(&originHits, 1)
			w.Header().Set("Cache-Control", "max-age=60")
			w.Header().Set("X-Cache", "HIT") // the origin's CDN talking about its own cache
			w.WriteHeader(http.StatusOK)
			w.Write([]byte("body"))
		})
		env.Start()

		resp, err := env.Client.Get(env.Upstream.URL + "/hunt3a")
		if err != nil {
			t.Fatal(err)
		}
		resp.Body.Close()
		if n := atomic.LoadInt32(&originHits); n != 1 {
			t.Fatalf("setup: want 1 origin contact, got %d", n)
		}
		// The origin was contacted for this very response: it must not be labelled HIT.
		for _, v := range resp.Header.Values("X-Cache") {
			if v == "HIT" {
				t.Errorf("origin was contacted for this response, yet it is labelled X-Cache: HIT (all X-Cache lines: %q, Cache-Status: %q)",
					resp.Header.Values("X-Cache"), resp.Header.Values("Cache-Status"))
				break
			}
		}
	})

	t.Run("hit-labelled-MISS", func(t *testing.T) {
		env := SetupTestEnv(t)
		var originHits int32
		env.Upstream.Config.Handler = http.HandlerFunc(func(w http.ResponseWriter, r *http.Request) {
			atomic.AddInt32(&originHits, 1)
			w.Header().Set("Cache-Control", "max-age=60")
			w.Header().Set("X-Cache", "MISS")
			w.WriteHeader(http.StatusOK)
			w.Write([]byte("body"))
		})
		env.Start()

		for i := 0; i < 2; i++ {
			resp, err := env.Client.Get(env.Upstream.URL + "/hunt3b")
			if err != nil {
				t.Fatal(err)
			}
			resp.Body.Close()
			if i == 1 {
				if n := atomic.LoadInt32(&originHits); n != 1 {
					t.Fatalf("setup: second request should be served from the store, origin contacts=%d", n)
				}
				if got := resp.Header.Get("X-Cache"); got != "HIT" {
					t.Errorf("served from the store without contacting the origin, but X-Cache reads %q (all lines: %q)",
						got, resp.Header.Values("X-Cache"))
				}
			}
		}
	})
}
