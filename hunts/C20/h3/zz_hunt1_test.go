// package directory: webserver/   (package webserver; needs the two build stubs named in TASK.md:
// webserver/dashboard/csp/header_gen.go and webserver/dashboard/frontend/build/index.html)
package webserver

import (
	"bufio"
	"fmt"
	"io"
	"net"
	"net/http"
	"net/http/httptest"
	"os"
	"reservoir/config"
	"reservoir/db"
	"reservoir/webserver/api"
	"reservoir/webserver/dashboard"
	"reservoir/webserver/middleware"
	"strings"
	"testing"
	"time"
)

var huntCfg *config.Config

func TestMain(m *testing.M) {
	dir, err := os.MkdirTemp("", "huntc20")
	if err != nil {
		panic(err)
	}
	if err := os.Chdir(dir); err != nil {
		panic(err)
	}
	os.MkdirAll("var", 0755)
	if err := db.MigrateDatabases(); err != nil {
		panic(err)
	}
	huntCfg = config.NewDefault()
	code := m.Run()
	os.RemoveAll(dir)
	os.Exit(code)
}

func newServer(t *testing.T, withDashboard bool) *httptest.Server {
	ws := New()
	if withDashboard {
		if err := ws.Register(dashboard.New(huntCfg)); err != nil {
			t.Fatal(err)
		}
	}
	if err := ws.Register(api.New(huntCfg)); err != nil {
		t.Fatal(err)
	}
	srv := httptest.NewServer(middleware.Harden(ws.mux))
	t.Cleanup(srv.Close)
	return srv
}

type resp struct {
	code   int
	body   string
	header http.Header
}

func do(t *testing.T, srv *httptest.Server, method, path, body string, hdr map[string]string) resp {
	t.Helper()
	req, err := http.NewRequest(method, srv.URL+path, strings.NewReader(body))
	if err != nil {
		t.Fatal(err)
	}
	for k, v := range hdr {
		req.Header.Set(k, v)
	}
	c := &http.Client{CheckRedirect: func(*http.Request, []*http.Request) error { return http.ErrUseLastResponse }}
	r, err := c.Do(req)
	if err != nil {
		t.Fatal(err)
	}
	defer r.Body.Close()
	b, _ := io.ReadAll(io.LimitReader(r.Body, 4096))
	return resp{r.StatusCode, string(b), r.Header}
}

func login(t *testing.T, srv *httptest.Server, pw string) (resp, string) {
	r := do(t, srv, "POST", "/api/auth/login", fmt.Sprintf(`{"username":"admin","password":%q}`, pw), nil)
	sc := r.header.Get("Set-Cookie")
	sid := ""
	if i := strings.Index(sc, "reservoir.sid="); i >= 0 {
		sid = sc[i+len("reservoir.sid="):]
		if j := strings.Index(sid, ";"); j >= 0 {
			sid = sid[:j]
		}
	}
	return r, sid
}

// A request that was admitted while its session was live keeps its authority after the session has been
// logged out: the admission check runs once, before the handler reads the body / starts streaming.
// History: login -> PATCH /api/auth/change-password (headers only, Expect: 100-continue) -> server answers
// "100 Continue" (so the 401 gate is already behind us) -> POST /api/auth/logout => 204, GET /api/auth/me
// with the same cookie => 401 (session is dead) -> now send the PATCH body -> 204 and the password IS changed.
func TestHunt1_EffectAfterLogout_ChangePassword(t *testing.T) {
	srv := newServer(t, true)
	host := strings.TrimPrefix(srv.URL, "http://")
	r, sid := login(t, srv, "placeholder")
	if r.code != 200 || sid == "" {
		t.Fatalf("login: %d", r.code)
	}
	ck := map[string]string{"Cookie": "reservoir.sid=" + sid}

	body := `{"current_password":"placeholder","new_password":"changed-after-logout"}`
	conn, err := net.Dial("tcp", host)
	if err != nil {
		t.Fatal(err)
	}
	defer conn.Close()
	conn.SetDeadline(time.Now().Add(20 * time.Second))
	fmt.Fprintf(conn, "PATCH /api/auth/change-password HTTP/1.1\r\nHost: %s\r\nCookie: reservoir.sid=%s\r\nContent-Type: application/json\r\nContent-Length: %d\r\nExpect: 100-continue\r\n\r\n", host, sid, len(body))
	br := bufio.NewReader(conn)
	line, err := br.ReadString('\n')
	if err != nil || !strings.HasPrefix(line, "HTTP/1.1 100") {
		t.Fatalf("expected 100 Continue, got %q %v", line, err)
	}
	br.ReadString('\n') // blank line after the interim response

	// The session is ended now.
	if r := do(t, srv, "POST", "/api/auth/logout", "", ck); r.code != 204 {
		t.Fatalf("logout: %d", r.code)
	}
	if r := do(t, srv, "GET", "/api/auth/me", "", ck); r.code != 401 {
		t.Fatalf("session should be dead, me => %d", r.code)
	}

	// Only now does the body of the pending request arrive.
	fmt.Fprint(conn, body)
	resp, err := http.ReadResponse(br, nil)
	if err != nil {
		t.Fatal(err)
	}
	resp.Body.Close()

	// restore for other tests, whatever happened
	defer func() {
		if r, s := login(t, srv, "changed-after-logout"); r.code == 200 {
			do(t, srv, "PATCH", "/api/auth/change-password", `{"current_password":"changed-after-logout","new_password":"placeholder"}`, map[string]string{"Cookie": "reservoir.sid=" + s})
		}
	}()

	rOld, _ := login(t, srv, "placeholder")
	rNew, _ := login(t, srv, "changed-after-logout")
	if resp.StatusCode != 401 || rNew.code == 200 || rOld.code != 200 {
		t.Errorf("request bearing the cookie of a logged-out session took effect: PATCH answered %d (want 401); login(old pw)=%d (want 200), login(new pw)=%d (want 401)", resp.StatusCode, rOld.code, rNew.code)
	}
}

// Same root cause on the streaming route: GET /api/log/stream keeps delivering new log lines to a
// connection whose session has been logged out.
func TestHunt1_StreamAfterLogout(t *testing.T) {
	if err := os.WriteFile("var/proxy.log", []byte("old line\n"), 0644); err != nil {
		t.Fatal(err)
	}
	srv := newServer(t, true)
	host := strings.TrimPrefix(srv.URL, "http://")
	_, sid := login(t, srv, "placeholder")
	ck := map[string]string{"Cookie": "reservoir.sid=" + sid}

	conn, err := net.Dial("tcp", host)
	if err != nil {
		t.Fatal(err)
	}
	defer conn.Close()
	conn.SetDeadline(time.Now().Add(20 * time.Second))
	fmt.Fprintf(conn, "GET /api/log/stream HTTP/1.1\r\nHost: %s\r\nCookie: reservoir.sid=%s\r\n\r\n", host, sid)
	br := bufio.NewReader(conn)
	for { // wait for the first heartbeat: the stream is established
		line, err := br.ReadString('\n')
		if err != nil {
			t.Fatal(err)
		}
		if strings.Contains(line, ": ping") {
			break
		}
	}
	if r := do(t, srv, "POST", "/api/auth/logout", "", ck); r.code != 204 {
		t.Fatalf("logout: %d", r.code)
	}
	if r := do(t, srv, "GET", "/api/log/stream", "", ck); r.code != 401 {
		t.Fatalf("session should be dead, stream => %d", r.code)
	}
	f, _ := os.OpenFile("var/proxy.log", os.O_APPEND|os.O_WRONLY, 0644)
	f.WriteString("secret written after logout\n")
	f.Close()
	for {
		line, err := br.ReadString('\n')
		if err != nil {
			return // stream ended without leaking: fine
		}
		if strings.Contains(line, "secret written after logout") {
			t.Errorf("log line written after the logout was delivered on the logged-out session's stream: %q", line)
			return
		}
	}
}
