// package directory: webserver/   (package webserver; needs the two stubs named in TASK.md: webserver/dashboard/csp/header_gen.go and webserver/dashboard/frontend/build/index.html)
package webserver

import (
	"io"
	"net/http"
	"net/http/httptest"
	"os"
	"strings"
	"testing"

	"reservoir/config"
	"reservoir/db"
	"reservoir/webserver/api"
	"reservoir/webserver/dashboard"
	"reservoir/webserver/middleware"
)

// h1Stack builds exactly what main.startWebServer builds: dashboard + API on one mux,
// wrapped in middleware.Harden, on a fresh database (default user admin/placeholder).
func h1Stack(t *testing.T) *httptest.Server {
	t.Helper()
	dir := t.TempDir()
	old, _ := os.Getwd()
	if err := os.Chdir(dir); err != nil {
		t.Fatal(err)
	}
	t.Cleanup(func() { os.Chdir(old) })
	if err := os.MkdirAll("var", 0o755); err != nil {
		t.Fatal(err)
	}
	if err := db.MigrateDatabases(); err != nil {
		t.Fatal(err)
	}
	cfg := config.NewDefault()
	ws := New()
	if err := ws.Register(dashboard.New(cfg)); err != nil {
		t.Fatal(err)
	}
	if err := ws.Register(api.New(cfg)); err != nil {
		t.Fatal(err)
	}
	srv := httptest.NewServer(middleware.Harden(ws.mux))
	t.Cleanup(srv.Close)
	return srv
}

func h1Do(t *testing.T, method, url, body string, hdr map[string]string) (int, string, *http.Response) {
	t.Helper()
	req, err := http.NewRequest(method, url, strings.NewReader(body))
	if err != nil {
		t.Fatal(err)
	}
	for k, v := range hdr {
		req.Header.Set(k, v)
	}
	resp, err := http.DefaultClient.Do(req)
	if err != nil {
		t.Fatal(err)
	}
	defer resp.Body.Close()
	b, _ := io.ReadAll(resp.Body)
	return resp.StatusCode, string(b), resp
}

func h1Login(t *testing.T, srv *httptest.Server, hdr map[string]string) (int, string) {
	t.Helper()
	code, _, resp := h1Do(t, "POST", srv.URL+"/api/auth/login", `{"username":"admin","password":"placeholder"}`, hdr)
	for _, c := range resp.Cookies() {
		if c.Name == "reservoir.sid" {
			return code, c.Value
		}
	}
	return code, ""
}

// Finding 1: a request whose Origin header names a foreign site but that has no Sec-Fetch-Site
// header is let through by Harden and reaches the API handlers.
//
// This is what a cross-site request from a real browser looks like whenever the dashboard is
// not reached as https:// or localhost: browsers send Sec-Fetch-* only to "potentially
// trustworthy" URLs, and the webserver speaks plain http (httplistener -> ListenAndServe), so
// for http://192.168.x.y:8080 or http://proxy.lan:8080 no browser sends Sec-Fetch-Site at all,
// while Origin is still sent on every POST/PATCH. Browsers without Fetch Metadata behave like
// this on every URL.
func TestHunt1_ForeignOriginWithoutSecFetchSiteReachesHandler(t *testing.T) {
	srv := h1Stack(t)
	foreign := map[string]string{"Origin": "https://evil.example", "Content-Type": "application/json"}

	// Control: the middleware does refuse the same request once Sec-Fetch-Site is present.
	code, body, _ := h1Do(t, "PATCH", srv.URL+"/api/config", `{}`, map[string]string{
		"Origin": "https://evil.example", "Sec-Fetch-Site": "cross-site", "Content-Type": "application/json",
	})
	if code != http.StatusForbidden {
		t.Fatalf("control: want 403, got %d %q", code, body)
	}

	// 1a. Unauthenticated state-changing request from a foreign origin: must be refused by the
	// middleware (403); instead the API handler wrapper runs and answers 401 itself.
	code, body, _ = h1Do(t, "PATCH", srv.URL+"/api/config", `{}`, foreign)
	if code != http.StatusForbidden {
		t.Errorf("PATCH /api/config with Origin: https://evil.example was not refused before the handler: got %d %q, want 403", code, strings.TrimSpace(body))
	}

	// 1b. Cross-site login from the foreign origin runs the login handler and creates a session.
	code, sid := h1Login(t, srv, foreign)
	if code != http.StatusForbidden || sid != "" {
		t.Errorf("login with Origin: https://evil.example reached the login handler: status %d, session cookie %q; want 403 and no cookie", code, sid)
	}

	// 1c. With a session cookie, the foreign-origin PATCH changes the configuration.
	_, sid = h1Login(t, srv, nil)
	if sid == "" {
		t.Fatal("plain login failed")
	}
	h := map[string]string{"Origin": "https://evil.example", "Content-Type": "application/json", "Cookie": "reservoir.sid=" + sid}
	code, body, _ = h1Do(t, "PATCH", srv.URL+"/api/config", `{"logging":{"level":"DEBUG"}}`, h)
	if code != http.StatusForbidden {
		t.Errorf("PATCH /api/config from Origin: https://evil.example with cookie was executed: status %d body %q; want 403", code, strings.TrimSpace(body))
	}

	// 1d. Origin: null (sandboxed frame, cross-origin redirect) is not the dashboard's origin either.
	code, sid = h1Login(t, srv, map[string]string{"Origin": "null"})
	if code != http.StatusForbidden || sid != "" {
		t.Errorf("login with Origin: null reached the login handler: status %d, session cookie %q; want 403 and no cookie", code, sid)
	}
}
