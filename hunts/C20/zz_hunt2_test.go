// package directory: webserver/   (package webserver; needs the two stubs named in TASK.md: webserver/dashboard/csp/header_gen.go and webserver/dashboard/frontend/build/index.html)
package webserver

import (
	"io"
	"net/http"
	"net/http/httptest"
	"os"
	"strings"
	"testing"

	"reservoir/config"
	"reservoir/db"
	"reservoir/webserver/api"
	"reservoir/webserver/dashboard"
	"reservoir/webserver/middleware"
)

// h2Stack builds exactly what main.startWebServer builds: dashboard + API on one mux,
// wrapped in middleware.Harden, on a fresh database (default user admin/placeholder).
func h2Stack(t *testing.T) *httptest.Server {
	t.Helper()
	dir := t.TempDir()
	old, _ := os.Getwd()
	if err := os.Chdir(dir); err != nil {
		t.Fatal(err)
	}
	t.Cleanup(func() { os.Chdir(old) })
	if err := os.MkdirAll("var", 0o755); err != nil {
		t.Fatal(err)
	}
	if err := db.MigrateDatabases(); err != nil {
		t.Fatal(err)
	}
	cfg := config.NewDefault()
	ws := New()
	if err := ws.Register(dashboard.New(cfg)); err != nil {
		t.Fatal(err)
	}
	if err := ws.Register(api.New(cfg)); err != nil {
		t.Fatal(err)
	}
	srv := httptest.NewServer(middleware.Harden(ws.mux))
	t.Cleanup(srv.Close)
	return srv
}

func h2Do(t *testing.T, method, url, body string, hdr map[string]string) (int, string, *http.Response) {
	t.Helper()
	req, err := http.NewRequest(method, url, strings.NewReader(body))
	if err != nil {
		t.Fatal(err)
	}
	for k, v := range hdr {
		req.Header.Set(k, v)
	}
	resp, err := http.DefaultClient.Do(req)
	if err != nil {
		t.Fatal(err)
	}
	defer resp.Body.Close()
	b, _ := io.ReadAll(resp.Body)
	return resp.StatusCode, string(b), resp
}

func h2Login(t *testing.T, srv *httptest.Server, hdr map[string]string) (int, string) {
	t.Helper()
	code, _, resp := h2Do(t, "POST", srv.URL+"/api/auth/login", `{"username":"admin","password":"placeholder"}`, hdr)
	for _, c := range resp.Cookies() {
		if c.Name == "reservoir.sid" {
			return code, c.Value
		}
	}
	return code, ""
}

// Finding 2: a request that the browser itself labels cross-site (Sec-Fetch-Site: cross-site)
// but that carries no Origin header is not refused by Harden and reaches the API handlers.
// That is the shape of every cross-site GET/HEAD that is not a CORS fetch: <img>, <script>,
// <iframe>, <link>, <a href>, window.open, top-level navigation, <form method=GET> -- browsers
// attach Origin only to CORS requests and to non-GET/HEAD methods.
func TestHunt2_SecFetchSiteCrossSiteWithoutOriginReachesHandler(t *testing.T) {
	srv := h2Stack(t)

	// Control: the same label together with an Origin header is refused with 403.
	code, body, _ := h2Do(t, "GET", srv.URL+"/api/version", "", map[string]string{
		"Sec-Fetch-Site": "cross-site", "Origin": "https://evil.example",
	})
	if code != http.StatusForbidden {
		t.Fatalf("control: want 403 for cross-site with Origin, got %d %q", code, body)
	}

	// 2a. Unauthenticated cross-site GET: must be refused by the middleware (403); instead the
	// API handler wrapper runs and answers 401 itself, i.e. the request reached the handler.
	code, body, _ = h2Do(t, "GET", srv.URL+"/api/version", "", map[string]string{
		"Sec-Fetch-Site": "cross-site", "Sec-Fetch-Mode": "no-cors", "Sec-Fetch-Dest": "image",
	})
	if code != http.StatusForbidden {
		t.Errorf("cross-site GET (Sec-Fetch-Site: cross-site, no Origin) was not refused before the handler: got %d %q, want 403", code, strings.TrimSpace(body))
	}

	// 2b. With a session cookie the cross-site request is served in full.
	_, sid := h2Login(t, srv, nil)
	if sid == "" {
		t.Fatal("plain login failed")
	}
	code, body, _ = h2Do(t, "GET", srv.URL+"/api/config", "", map[string]string{
		"Sec-Fetch-Site": "cross-site", "Sec-Fetch-Mode": "navigate", "Cookie": "reservoir.sid=" + sid,
	})
	if code != http.StatusForbidden {
		t.Errorf("cross-site GET /api/config with cookie was served: status %d, %d bytes of config; want 403", code, len(body))
	}

	// 2c. Any method: the login handler runs for a request labelled cross-site.
	code, sid = h2Login(t, srv, map[string]string{"Sec-Fetch-Site": "cross-site"})
	if code != http.StatusForbidden || sid != "" {
		t.Errorf("login labelled Sec-Fetch-Site: cross-site reached the login handler: status %d, session cookie %q; want 403 and no cookie", code, sid)
	}
}
