// package directory: webserver/auth/   (package auth)
package auth

import (
	"net/http"
	"sync"
	"testing"
	"time"
)

// Finding 3: a session that was logged out comes back to life.
//
// GetSession (called for every API request via apitypes.CreateContext -> SessionFromRequest)
// reads the session from the store, and if it is within extendThreshold (10 min) of expiry it
// writes an extended COPY back with sessionStore.Set. Between that read and that write nothing
// is held, so a logout (LogoutEndpoint.Post -> Session.Destroy -> sessionStore.Delete) that
// lands in between is undone by the Set: the store again contains the session id, now valid for
// another full hour, although the user has logged out.
//
// History: login; 50+ minutes later (session in its last 10 minutes) the dashboard has a
// request in flight (it polls the metrics endpoints continuously) while the user presses
// "log out". The test reproduces the 50 minute wait by storing the session with a near expiry,
// which is the only step that does not go through the request path; the two racing calls are
// exactly the ones the two handlers make.
func TestHunt3_LogoutUndoneByConcurrentSessionExtension(t *testing.T) {
	deadline := time.Now().Add(10 * time.Second)
	iterations := 0
	for time.Now().Before(deadline) {
		iterations++

		// Successful login ...
		s := CreateSession(1)
		cookie := s.BuildSessionCookie()
		// ... 55 minutes ago.
		aged := *s
		aged.CreatedAt = time.Now().Add(-55 * time.Minute)
		aged.ExpiresAt = aged.CreatedAt.Add(defaultLifetime)
		sessionStore.Set(s.ID, &aged)

		poll := &http.Request{Header: http.Header{"Cookie": {cookie.String()}}}
		logout := &http.Request{Header: http.Header{"Cookie": {cookie.String()}}}

		// The logout request authenticates first (WrapHandler -> CreateContext), as it must.
		logoutSess, ok := SessionFromRequest(logout)
		if !ok {
			t.Fatal("fresh aged session not accepted")
		}
		// Put the aged value back so that the polling request also sees a session in its last 10 minutes
		// (the logout request's own CreateContext has just extended it).
		sessionStore.Set(s.ID, &aged)

		var wg sync.WaitGroup
		gate := make(chan struct{})
		wg.Add(2)
		go func() { // any authenticated API request: CreateContext
			defer wg.Done()
			<-gate
			SessionFromRequest(poll)
		}()
		go func() { // LogoutEndpoint.Post
			defer wg.Done()
			<-gate
			logoutSess.Destroy()
		}()
		close(gate)
		wg.Wait()

		// Both requests are finished; the logout has been answered 204. The cookie must be dead now.
		after := &http.Request{Header: http.Header{"Cookie": {cookie.String()}}}
		if revived, ok := SessionFromRequest(after); ok {
			t.Fatalf("iteration %d: session %s was destroyed by logout, yet a later request with its cookie is authenticated again (user %d, now valid until %s, i.e. for another %s)",
				iterations, revived.ID, revived.UserID, revived.ExpiresAt.Format(time.RFC3339), time.Until(revived.ExpiresAt).Round(time.Minute))
		}
	}
	t.Logf("no revival observed in %d iterations", iterations)
}
