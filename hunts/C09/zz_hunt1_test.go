// package directory: tests/   (run: go test -vet=off -count=1 -run TestHunt1 ./tests/)
package tests

import (
	"fmt"
	"io"
	"net"
	"net/http"
	"net/url"
	"sync"
	"sync/atomic"
	"testing"
	"time"
)

// C09 finding 1: another client hanging up turns the good origin answer of every
// coalesced follower into a 502.
//
// Client L sends "GET <url>" with a request body it never completes (Content-Length: 10, 3 bytes
// sent). The proxy starts handling it as soon as the header is in, L becomes the singleflight
// leader for <url> and the shared upstream round trip streams L's request body. Ordinary clients
// F1..F5 then ask for the same <url> (no body) and are coalesced onto L's fetch. L hangs up.
// The shared round trip fails with "unexpected EOF" while reading L's body, and that error is
// handed to every follower, each of which answers 502 although the origin is healthy and would
// have answered (and indeed does answer) every one of their requests with 200.
func TestHunt1LeaderHangupWithBodyFailsFollowers(t *testing.T) {
	env := SetupTestEnv(t)

	var originHits int32
	env.Upstream.Config.Handler = http.HandlerFunc(func(w http.ResponseWriter, r *http.Request) {
		atomic.AddInt32(&originHits, 1)
		// a perfectly healthy, slightly slow origin that wants the request it is sent
		io.Copy(io.Discard, r.Body)
		time.Sleep(300 * time.Millisecond)
		w.Header().Set("Cache-Control", "max-age=60")
		w.WriteHeader(http.StatusOK)
		w.Write([]byte("response body"))
	})
	env.Start()

	targetURL := env.Upstream.URL + "/hunt1"
	tu, _ := url.Parse(targetURL)
	pu, _ := url.Parse(env.ProxyServer.URL)

	// Leader: raw connection, incomplete request body.
	leader, err := net.Dial("tcp", pu.Host)
	if err != nil {
		t.Fatal(err)
	}
	fmt.Fprintf(leader, "GET %s HTTP/1.1\r\nHost: %s\r\nContent-Length: 10\r\n\r\nabc", targetURL, tu.Host)
	time.Sleep(150 * time.Millisecond) // leader is now inside the singleflight, waiting on the origin

	const followers = 5
	var wg sync.WaitGroup
	statuses := make([]int, followers)
	errs := make([]error, followers)
	for i := range followers {
		wg.Add(1)
		go func() {
			defer wg.Done()
			c := &http.Client{Timeout: 5 * time.Second, Transport: &http.Transport{Proxy: http.ProxyURL(pu)}}
			resp, err := c.Get(targetURL)
			if err != nil {
				errs[i] = err
				return
			}
			defer resp.Body.Close()
			io.Copy(io.Discard, resp.Body)
			statuses[i] = resp.StatusCode
		}()
	}
	time.Sleep(150 * time.Millisecond) // followers are coalesced onto the leader's fetch

	leader.Close() // the other client hangs up

	wg.Wait()
	for i := range followers {
		if errs[i] != nil {
			t.Errorf("follower %d: request failed: %v", i, errs[i])
		} else if statuses[i] != http.StatusOK {
			t.Errorf("follower %d: got status %d, want 200 (origin is healthy; only another client hung up)", i, statuses[i])
		}
	}

	// Control: the origin answers the very same request fine right afterwards.
	resp, err := env.Client.Get(targetURL)
	if err != nil {
		t.Fatalf("control request failed: %v", err)
	}
	resp.Body.Close()
	if resp.StatusCode != 200 {
		t.Fatalf("control request: status %d", resp.StatusCode)
	}
	t.Logf("origin hits: %d", atomic.LoadInt32(&originHits))
}
