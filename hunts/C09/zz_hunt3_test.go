// package directory: tests/   (run: go test -vet=off -count=1 -run TestHunt3 ./tests/)
package tests

import (
	"fmt"
	"io"
	"net/http"
	"net/url"
	"reservoir/cache"
	"reservoir/utils"
	"strings"
	"testing"
	"time"
)

// shard of the per-key lock a request for rawURL ends up in (same arithmetic as cache.getLock)
func hunt3Shard(rawURL string, shards uint32) uint32 {
	r, _ := http.NewRequest(http.MethodGet, rawURL, nil)
	key := cache.MakeFromRequest(r)
	return utils.Hex8ToIndex(key.Hex) % shards
}

// C09 finding 3: a request whose origin answers at once hangs for as long as an unrelated
// download is in progress, because the cache holds the per-key lock SHARD (not a per-key lock)
// for the whole time it reads the other response body from its origin.
//
// /slow is a cacheable resource whose body the origin delivers slowly (a big or stalled download).
// /fast-N is a different resource; the origin answers it immediately. When the cache keys of
// the two happen to fall into the same lock shard (1 in lock_shards; 32 here as in every test of
// this suite, 1024 by default, any value >= 1 is accepted), the /fast-N client gets nothing until
// the /slow download is over - even though the client that asked for /slow may long be gone.
func TestHunt3UnrelatedSlowDownloadHangsRequest(t *testing.T) {
	env := SetupTestEnv(t) // memory cache, 32 lock shards

	release := make(chan struct{})
	env.Upstream.Config.Handler = http.HandlerFunc(func(w http.ResponseWriter, r *http.Request) {
		w.Header().Set("Cache-Control", "max-age=60")
		if r.URL.Path == "/slow" {
			w.WriteHeader(http.StatusOK)
			w.Write([]byte(strings.Repeat("x", 4096)))
			w.(http.Flusher).Flush()
			<-release // the rest of the body takes a long time
			w.Write([]byte("end"))
			return
		}
		w.WriteHeader(http.StatusOK)
		w.Write([]byte("fast answer"))
	})
	env.Start()
	defer close(release)

	pu, _ := url.Parse(env.ProxyServer.URL)
	newClient := func(timeout time.Duration) *http.Client {
		return &http.Client{Timeout: timeout, Transport: &http.Transport{Proxy: http.ProxyURL(pu)}}
	}

	slowURL := env.Upstream.URL + "/slow"
	slowShard := hunt3Shard(slowURL, 32)
	var sameShardURL, otherShardURL string
	for i := 0; sameShardURL == "" || otherShardURL == ""; i++ {
		u := fmt.Sprintf("%s/fast-%d", env.Upstream.URL, i)
		if hunt3Shard(u, 32) == slowShard {
			if sameShardURL == "" {
				sameShardURL = u
			}
		} else if otherShardURL == "" {
			otherShardURL = u
		}
	}
	t.Logf("slow=%s same-shard=%s other-shard=%s", slowURL, sameShardURL, otherShardURL)

	// some client starts the slow download ... and gives up after a moment (it does not matter)
	go func() {
		resp, err := newClient(300 * time.Millisecond).Get(slowURL)
		if err == nil {
			resp.Body.Close()
		}
	}()
	time.Sleep(500 * time.Millisecond)

	get := func(u string) (int, string, error) {
		resp, err := newClient(3 * time.Second).Get(u)
		if err != nil {
			return 0, "", err
		}
		defer resp.Body.Close()
		b, _ := io.ReadAll(resp.Body)
		return resp.StatusCode, string(b), nil
	}

	// control: a resource in another shard is served at once
	start := time.Now()
	status, body, err := get(otherShardURL)
	if err != nil || status != 200 || body != "fast answer" {
		t.Fatalf("control request failed: %d %q %v", status, body, err)
	}
	t.Logf("control (other shard) answered in %v", time.Since(start))

	start = time.Now()
	status, body, err = get(sameShardURL)
	if err != nil {
		t.Fatalf("origin answers %s immediately, but the client got nothing for %v: %v", sameShardURL, time.Since(start), err)
	}
	if status != 200 || body != "fast answer" {
		t.Fatalf("got %d %q", status, body)
	}
}
