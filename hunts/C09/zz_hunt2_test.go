// package directory: tests/   (run: go test -vet=off -count=1 -run TestHunt2 ./tests/)
package tests

import (
	"io"
	"net/http"
	"net/http/httptest"
	"net/url"
	"os"
	"reservoir/config"
	"reservoir/logging"
	"reservoir/proxy"
	"strings"
	"testing"
	"time"
)

// Same environment as SetupTestEnv, but with the file cache backend (the cache type is read once,
// inside NewProxy, so it cannot be switched on an environment SetupTestEnv already built).
func hunt2FileEnv(t *testing.T, origin http.Handler) (client *http.Client, originURL string, cacheDir string) {
	cacheDir = t.TempDir()

	cfg := config.NewDefault()
	cfg.Proxy.UpstreamDefaultHttps.Overwrite(false)
	cfg.Cache.File.Dir.Overwrite(cacheDir)
	cfg.Proxy.RetryOnRange416.Overwrite(false)
	cfg.Proxy.CachePolicy.IgnoreCacheControl.Overwrite(false)
	cfg.Proxy.CachePolicy.ForceDefaultMaxAge.Overwrite(false)
	cfg.Cache.Type.Overwrite(config.CacheTypeFile)
	cfg.Cache.LockShards.Overwrite(32)
	logging.Init(cfg)

	p, err := proxy.NewProxy(cfg, &FakeCA{}, t.Context())
	if err != nil {
		t.Fatalf("Failed to create proxy: %v", err)
	}
	upstream := httptest.NewServer(origin)
	proxyServer := httptest.NewServer(p)
	pu, _ := url.Parse(proxyServer.URL)
	client = &http.Client{Timeout: 5 * time.Second, Transport: &http.Transport{Proxy: http.ProxyURL(pu)}}
	t.Cleanup(func() {
		upstream.Close()
		proxyServer.Close()
		time.Sleep(100 * time.Millisecond)
		p.Destroy()
		client.Transport.(*http.Transport).CloseIdleConnections()
	})
	return client, upstream.URL, cacheDir
}

func hunt2Get(t *testing.T, c *http.Client, url string, reqBody string) (int, string) {
	t.Helper()
	var rb io.Reader
	if reqBody != "" {
		rb = strings.NewReader(reqBody)
	}
	req, _ := http.NewRequest(http.MethodGet, url, rb)
	resp, err := c.Do(req)
	if err != nil {
		t.Fatalf("request to %s failed: %v", url, err)
	}
	defer resp.Body.Close()
	b, _ := io.ReadAll(resp.Body)
	return resp.StatusCode, string(b)
}

// C09 finding 2: when the cache cannot store a response (empty body / cache directory not
// writable), the proxy "falls back" by sending the client's request to the origin a second time.
// The client's request body was consumed by the first round trip, so for a GET that carries a
// body (legal: e.g. search APIs that take a JSON query in a GET) the second round trip fails
// and the client gets 502 instead of the 200 the origin gave.
func TestHunt2GetWithBody(t *testing.T) {
	origin := http.HandlerFunc(func(w http.ResponseWriter, r *http.Request) {
		q, _ := io.ReadAll(r.Body)
		w.Header().Set("Cache-Control", "max-age=60")
		w.Header().Set("X-Query-Seen", string(q))
		w.WriteHeader(http.StatusOK)
		if strings.HasPrefix(r.URL.Path, "/empty") {
			return // a successful answer with an empty body
		}
		w.Write([]byte("result for " + string(q)))
	})

	t.Run("control_nonempty_answer_is_fine", func(t *testing.T) {
		c, u, _ := hunt2FileEnv(t, origin)
		status, body := hunt2Get(t, c, u+"/full", `{"q":"x"}`)
		if status != 200 || body != `result for {"q":"x"}` {
			t.Fatalf("control: got %d %q", status, body)
		}
	})

	t.Run("control_empty_answer_without_request_body_is_fine", func(t *testing.T) {
		c, u, _ := hunt2FileEnv(t, origin)
		status, body := hunt2Get(t, c, u+"/empty", "")
		if status != 200 || body != "" {
			t.Fatalf("control: got %d %q", status, body)
		}
	})

	t.Run("empty_body", func(t *testing.T) {
		c, u, _ := hunt2FileEnv(t, origin)
		status, body := hunt2Get(t, c, u+"/empty", `{"q":"x"}`)
		if status != 200 {
			t.Errorf("origin answered 200 with an empty body, client got %d %q", status, body)
		}
	})

	t.Run("cache_dir_write_fails", func(t *testing.T) {
		c, u, dir := hunt2FileEnv(t, origin)
		if err := os.RemoveAll(dir); err != nil { // every write to the cache directory now fails
			t.Fatal(err)
		}
		status, body := hunt2Get(t, c, u+"/full", `{"q":"x"}`)
		if status != 200 || body != `result for {"q":"x"}` {
			t.Errorf("origin answered 200, client got %d %q", status, body)
		}
	})
}
