// package directory: tests/
package tests

import (
	"io"
	"net/http"
	"net/http/httptest"
	"os"
	"reservoir/config"
	"reservoir/logging"
	"reservoir/proxy"
	"sync"
	"testing"
	"time"
)

// An origin whose answer cannot be had twice (a single-use link, an OAuth "code" callback, a rate limit of one):
// the first request for the URL is answered successfully, every later one with 410 Gone.
func onceOrigin(first func(w http.ResponseWriter)) (http.Handler, func() int) {
	var mu sync.Mutex
	n := 0
	return http.HandlerFunc(func(w http.ResponseWriter, r *http.Request) {
			mu.Lock()
			n++
			k := n
			mu.Unlock()
			if k == 1 {
				first(w)
				return
			}
			http.Error(w, "already used", http.StatusGone)
		}), func() int {
			mu.Lock()
			defer mu.Unlock()
			return n
		}
}

// The origin answers the client's one request successfully. When the cache cannot take the answer (full, write
// failure, empty body) or does not want it (status other than 200), the proxy throws the answer away, asks the origin
// a second time and hands the client the second answer: here an error.
func TestHunt3_GoodAnswerDiscardedAndAskedAgain(t *testing.T) {
	ok200 := func(body string) func(w http.ResponseWriter) {
		return func(w http.ResponseWriter) {
			w.Header().Set("Content-Type", "text/plain")
			w.WriteHeader(http.StatusOK)
			io.WriteString(w, body)
		}
	}
	type variant struct {
		name       string
		first      func(w http.ResponseWriter)
		wantStatus int
		wantBody   string
		adjust     func(cfg *config.Config)
		trouble    func(env *TestEnv)
	}
	file := func(cfg *config.Config) { cfg.Cache.Type.Overwrite(config.CacheTypeFile) }
	variants := []variant{
		{name: "control/memory-healthy", first: ok200("ticket-1"), wantStatus: 200, wantBody: "ticket-1"},
		{name: "control/file-healthy", first: ok200("ticket-1"), wantStatus: 200, wantBody: "ticket-1", adjust: file},
		{name: "memory/cache-full", first: ok200("ticket-1"), wantStatus: 200, wantBody: "ticket-1",
			adjust: func(cfg *config.Config) { cfg.Cache.Memory.MemoryBudgetPercent.Overwrite(0) }},
		{name: "file/cache-dir-write-fails", first: ok200("ticket-1"), wantStatus: 200, wantBody: "ticket-1", adjust: file,
			trouble: func(env *TestEnv) { os.RemoveAll(env.CacheDir) }},
		{name: "file/empty-body", first: ok200(""), wantStatus: 200, wantBody: "", adjust: file},
		{name: "no-trouble/204", first: func(w http.ResponseWriter) { w.WriteHeader(http.StatusNoContent) }, wantStatus: 204},
		{name: "no-trouble/302", first: func(w http.ResponseWriter) {
			w.Header().Set("Location", "/done")
			w.Header().Set("Set-Cookie", "session=1")
			w.WriteHeader(http.StatusFound)
		}, wantStatus: 302},
	}
	for _, v := range variants {
		t.Run(v.name, func(t *testing.T) {
			env := huntEnv3(t, v.adjust)
			h, count := onceOrigin(v.first)
			env.Upstream.Config.Handler = h
			env.Start()
			env.Client.CheckRedirect = func(*http.Request, []*http.Request) error { return http.ErrUseLastResponse }
			if v.trouble != nil {
				v.trouble(env)
			}
			resp, err := env.Client.Get(env.Upstream.URL + "/callback?code=once")
			if err != nil {
				t.Fatalf("request failed: %v", err)
			}
			defer resp.Body.Close()
			b, _ := io.ReadAll(resp.Body)
			t.Logf("client sent 1 request, origin saw %d, client received %d %q", count(), resp.StatusCode, b)
			if resp.StatusCode != v.wantStatus || string(b) != v.wantBody {
				t.Errorf("the origin answered the request with %d %q, the client received %d %q", v.wantStatus, v.wantBody, resp.StatusCode, b)
			}
		})
	}
}

// Builds an environment like SetupTestEnv, but lets the caller adjust the configuration before the proxy is created.
func huntEnv3(t *testing.T, adjust func(cfg *config.Config)) *TestEnv {
	cacheDir := t.TempDir()
	upstream := httptest.NewUnstartedServer(http.NotFoundHandler())

	cfg := config.NewDefault()
	cfg.Proxy.UpstreamDefaultHttps.Overwrite(false)
	cfg.Cache.File.Dir.Overwrite(cacheDir)
	cfg.Cache.Type.Overwrite(config.CacheTypeMemory)
	cfg.Cache.LockShards.Overwrite(32)
	cfg.Logging.ToStdout.Overwrite(false)
	if adjust != nil {
		adjust(cfg)
	}
	logging.Init(cfg)

	p, err := proxy.NewProxy(cfg, &FakeCA{}, t.Context())
	if err != nil {
		t.Fatalf("Failed to create proxy: %v", err)
	}
	proxyServer := httptest.NewUnstartedServer(p)
	client := &http.Client{Transport: &http.Transport{}, Timeout: 10 * time.Second}
	t.Cleanup(func() {
		upstream.Close()
		proxyServer.Close()
		time.Sleep(50 * time.Millisecond)
		p.Destroy()
		client.Transport.(*http.Transport).CloseIdleConnections()
	})
	return &TestEnv{Upstream: upstream, ProxyServer: proxyServer, Client: client, Proxy: p, Cfg: cfg, CacheDir: cacheDir, T: t}
}
