// package directory: tests/
package tests

import (
	"fmt"
	"io"
	"net/http"
	"net/http/httptest"
	"os"
	"reservoir/config"
	"reservoir/logging"
	"reservoir/proxy"
	"sync/atomic"
	"testing"
	"time"
)

// Builds an environment like SetupTestEnv, but lets the caller adjust the configuration before the proxy is created.
func huntEnv1(t *testing.T, adjust func(cfg *config.Config)) *TestEnv {
	cacheDir := t.TempDir()
	upstream := httptest.NewUnstartedServer(http.NotFoundHandler())

	cfg := config.NewDefault()
	cfg.Proxy.UpstreamDefaultHttps.Overwrite(false)
	cfg.Cache.File.Dir.Overwrite(cacheDir)
	cfg.Cache.Type.Overwrite(config.CacheTypeMemory)
	cfg.Cache.LockShards.Overwrite(32)
	cfg.Logging.ToStdout.Overwrite(false)
	if adjust != nil {
		adjust(cfg)
	}
	logging.Init(cfg)

	p, err := proxy.NewProxy(cfg, &FakeCA{}, t.Context())
	if err != nil {
		t.Fatalf("Failed to create proxy: %v", err)
	}
	proxyServer := httptest.NewUnstartedServer(p)
	client := &http.Client{Transport: &http.Transport{}, Timeout: 10 * time.Second}
	t.Cleanup(func() {
		upstream.Close()
		proxyServer.Close()
		time.Sleep(50 * time.Millisecond)
		p.Destroy()
		client.Transport.(*http.Transport).CloseIdleConnections()
	})
	return &TestEnv{Upstream: upstream, ProxyServer: proxyServer, Client: client, Proxy: p, Cfg: cfg, CacheDir: cacheDir, T: t}
}

// An origin that serves a small resource and honours Range: a range that starts behind the end is answered 416,
// the same request without Range is answered 200 with the whole body.
func smallRangeOrigin(body string, hits *int32) http.Handler {
	return http.HandlerFunc(func(w http.ResponseWriter, r *http.Request) {
		atomic.AddInt32(hits, 1)
		w.Header().Set("ETag", `"v1"`)
		if r.Header.Get("Range") != "" {
			w.Header().Set("Content-Range", fmt.Sprintf("bytes */%d", len(body)))
			w.WriteHeader(http.StatusRequestedRangeNotSatisfiable)
			return
		}
		w.Header().Set("Content-Length", fmt.Sprint(len(body)))
		w.WriteHeader(http.StatusOK)
		io.WriteString(w, body)
	})
}

func rangeGet(t *testing.T, env *TestEnv, url string) (int, string) {
	req, _ := http.NewRequest(http.MethodGet, url, nil)
	req.Header.Set("Range", "bytes=100-200")
	resp, err := env.Client.Do(req)
	if err != nil {
		t.Fatalf("request failed: %v", err)
	}
	defer resp.Body.Close()
	b, _ := io.ReadAll(resp.Body)
	return resp.StatusCode, string(b)
}

// retry_on_range_416 is on (the default). The origin answers the retried request with a good 200.
// With a healthy cache the client receives that 200; with cache-side trouble it receives a 416.
func TestHunt1_Retry416_CacheTroubleTurns200Into416(t *testing.T) {
	type variant struct {
		name    string
		body    string
		adjust  func(cfg *config.Config)
		trouble func(env *TestEnv)
	}
	variants := []variant{
		{name: "control/memory-healthy", body: "0123456789"},
		{name: "control/file-healthy", body: "0123456789", adjust: func(cfg *config.Config) { cfg.Cache.Type.Overwrite(config.CacheTypeFile) }},
		{name: "file/empty-body", body: "", adjust: func(cfg *config.Config) { cfg.Cache.Type.Overwrite(config.CacheTypeFile) }},
		{name: "control/memory-empty-body", body: ""},
		{name: "file/cache-dir-write-fails", body: "0123456789",
			adjust:  func(cfg *config.Config) { cfg.Cache.Type.Overwrite(config.CacheTypeFile) },
			trouble: func(env *TestEnv) { os.RemoveAll(env.CacheDir) }},
		{name: "memory/cache-full", body: "0123456789",
			adjust: func(cfg *config.Config) { cfg.Cache.Memory.MemoryBudgetPercent.Overwrite(0) }},
	}
	for _, v := range variants {
		t.Run(v.name, func(t *testing.T) {
			env := huntEnv1(t, v.adjust)
			var hits int32
			env.Upstream.Config.Handler = smallRangeOrigin(v.body, &hits)
			env.Start()
			if v.trouble != nil {
				v.trouble(env)
			}
			status, body := rangeGet(t, env, env.Upstream.URL+"/small")
			t.Logf("status=%d body=%q upstream requests=%d", status, body, atomic.LoadInt32(&hits))
			if status != http.StatusOK || body != v.body {
				t.Errorf("the origin answered the retried request with 200 %q, the client received %d %q", v.body, status, body)
			}
		})
	}
}
