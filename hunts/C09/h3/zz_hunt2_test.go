// package directory: tests/
package tests

import (
	"io"
	"net/http"
	"net/http/httptest"
	"reservoir/config"
	"reservoir/logging"
	"reservoir/proxy"
	"testing"
	"time"
)

// The origin does not implement ranges: it answers every GET with 200 and the whole body (legal, RFC 9110 14.2:
// "a server MAY ignore the Range header field"). The proxy stores that answer and evaluates the client's Range
// against the stored copy itself. Ranges that are satisfiable (first-pos inside the body, or any non-empty suffix)
// must be answered 206 (or 200); the client receives 416 instead.
func TestHunt2_SatisfiableRangeOnStoredCopyBecomes416(t *testing.T) {
	type tc struct {
		name, body, rng string
		file            bool
	}
	cases := []tc{
		{name: "control/inside", body: "0123456789", rng: "bytes=2-5"},
		{name: "control/open-ended", body: "0123456789", rng: "bytes=5-"},
		{name: "last-pos-behind-end/memory", body: "0123456789", rng: "bytes=0-1023"},
		{name: "last-pos-behind-end/file", body: "0123456789", rng: "bytes=0-1023", file: true},
		{name: "suffix-longer-than-body/memory", body: "0123456789", rng: "bytes=-500"},
		{name: "suffix-longer-than-body/file", body: "0123456789", rng: "bytes=-500", file: true},
		{name: "empty-body/file(control: relayed as 200)", body: "", rng: "bytes=-500", file: true},
		{name: "empty-body/memory", body: "", rng: "bytes=-500"},
	}
	for _, c := range cases {
		t.Run(c.name, func(t *testing.T) {
			env := huntEnv2(t, func(cfg *config.Config) {
				if c.file {
					cfg.Cache.Type.Overwrite(config.CacheTypeFile)
				}
			})
			env.Upstream.Config.Handler = http.HandlerFunc(func(w http.ResponseWriter, r *http.Request) {
				w.Header().Set("Content-Type", "text/plain")
				w.WriteHeader(http.StatusOK) // ignores Range
				io.WriteString(w, c.body)
			})
			env.Start()

			req, _ := http.NewRequest(http.MethodGet, env.Upstream.URL+"/doc", nil)
			req.Header.Set("Range", c.rng)
			resp, err := env.Client.Do(req)
			if err != nil {
				t.Fatalf("request failed: %v", err)
			}
			defer resp.Body.Close()
			b, _ := io.ReadAll(resp.Body)
			t.Logf("Range: %s on a %d-byte body -> %d %q (Content-Range: %q)", c.rng, len(c.body), resp.StatusCode, b, resp.Header.Get("Content-Range"))
			if resp.StatusCode >= 400 {
				t.Errorf("the origin answered 200 with %q, the client received the error status %d %q", c.body, resp.StatusCode, b)
			}
		})
	}
}

// Builds an environment like SetupTestEnv, but lets the caller adjust the configuration before the proxy is created.
func huntEnv2(t *testing.T, adjust func(cfg *config.Config)) *TestEnv {
	cacheDir := t.TempDir()
	upstream := httptest.NewUnstartedServer(http.NotFoundHandler())

	cfg := config.NewDefault()
	cfg.Proxy.UpstreamDefaultHttps.Overwrite(false)
	cfg.Cache.File.Dir.Overwrite(cacheDir)
	cfg.Cache.Type.Overwrite(config.CacheTypeMemory)
	cfg.Cache.LockShards.Overwrite(32)
	cfg.Logging.ToStdout.Overwrite(false)
	if adjust != nil {
		adjust(cfg)
	}
	logging.Init(cfg)

	p, err := proxy.NewProxy(cfg, &FakeCA{}, t.Context())
	if err != nil {
		t.Fatalf("Failed to create proxy: %v", err)
	}
	proxyServer := httptest.NewUnstartedServer(p)
	client := &http.Client{Transport: &http.Transport{}, Timeout: 10 * time.Second}
	t.Cleanup(func() {
		upstream.Close()
		proxyServer.Close()
		time.Sleep(50 * time.Millisecond)
		p.Destroy()
		client.Transport.(*http.Transport).CloseIdleConnections()
	})
	return &TestEnv{Upstream: upstream, ProxyServer: proxyServer, Client: client, Proxy: p, Cfg: cfg, CacheDir: cacheDir, T: t}
}
