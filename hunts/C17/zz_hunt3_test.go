// package directory: config/   (package config)
package config

import (
	"flag"
	"os"
	"regexp"
	"reservoir/utils/bytesize"
	"strings"
	"testing"
)

// The documented form of a size (dashboard settings page: "^(\d+)([BKMGT])$  eg. 100B, 1K, 1M, 1G, 1T";
// README / flag help: "500M"): digits followed by exactly one unit letter.
var zzDocumentedSize = regexp.MustCompile(`^[0-9]+[BKMGT]$`)

func TestZZHunt3_SizeWithoutUnitIsAccepted(t *testing.T) {
	// 1. the parser itself
	for _, s := range []string{"1024", "0", "500", "0007", "9223372036854775807"} {
		if v, err := bytesize.Parse(s); err == nil && !zzDocumentedSize.MatchString(s) {
			t.Errorf("bytesize.Parse(%q) = %d, nil: accepted although it is not digits-plus-unit", s, int64(v))
		}
	}

	// 2. a config file with a unit-less size loads
	os.Remove(configPath.Path)
	defer os.Remove(configPath.Path)
	if err := NewDefault().persist(); err != nil {
		t.Fatal(err)
	}
	data, _ := os.ReadFile(configPath.Path)
	edited := strings.Replace(string(data), `"max_cache_size": "10G"`, `"max_cache_size": "10"`, 1)
	if edited == string(data) {
		t.Fatal("test setup: could not edit the file")
	}
	os.WriteFile(configPath.Path, []byte(edited), 0o644)
	if cfg, err := load(configPath.Path); err == nil {
		t.Errorf(`config file with "max_cache_size": "10" was accepted, effective size %d bytes`, cfg.Cache.MaxCacheSize.Read().Bytes())
	}

	// 3. an API update with a unit-less size is accepted and saved
	cfg := NewDefault()
	if _, err := UpdatePartialFromConfig(cfg, map[string]any{"logging": map[string]any{"max_size": "500"}}); err == nil {
		t.Errorf(`PATCH {"logging":{"max_size":"500"}} was accepted, effective size %d bytes`, cfg.Logging.MaxSize.Read().Bytes())
	}

	// 4. the command line: --log-file-max-size 500
	oldArgs, oldFlags := os.Args, flag.CommandLine
	defer func() { os.Args, flag.CommandLine = oldArgs, oldFlags }()
	flag.CommandLine = flag.NewFlagSet("reservoir", flag.PanicOnError)
	os.Args = []string{"reservoir", "--log-file-max-size", "500"}
	cfg = NewDefault()
	func() {
		defer func() { recover() }() // a rejected flag value panics, which would be the correct outcome
		OverrideFromFlags(cfg)
		t.Errorf("--log-file-max-size 500 was accepted, effective size %d bytes", cfg.Logging.MaxSize.Read().Bytes())
	}()
}
