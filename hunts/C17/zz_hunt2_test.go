// package directory: config/   (package config)
package config

import (
	"encoding/json"
	"fmt"
	"io"
	"log/slog"
	"os"
	"sync"
	"testing"
	"time"
)

// Two API clients PATCH different settings at the same moment (the config endpoint takes no lock).
// Both updates are accepted. Afterwards the file must read back to the effective settings.
func TestZZHunt2_ConcurrentUpdatesLeaveStaleFile(t *testing.T) {
	slog.SetDefault(slog.New(slog.NewTextHandler(io.Discard, nil)))
	os.Remove(configPath.Path)
	defer os.Remove(configPath.Path)

	cfg := NewDefault()
	if err := cfg.persist(); err != nil {
		t.Fatal(err)
	}

	updaters := []func(i int) map[string]any{
		func(i int) map[string]any {
			return map[string]any{"cache": map[string]any{"max_cache_size": fmt.Sprintf("%dM", i+1)}}
		},
		func(i int) map[string]any {
			return map[string]any{"logging": map[string]any{"max_backups": i + 1}}
		},
		func(i int) map[string]any {
			return map[string]any{"proxy": map[string]any{"cache_policy": map[string]any{"default_max_age": fmt.Sprintf("%ds", i+1)}}}
		},
		func(i int) map[string]any {
			return map[string]any{"cache": map[string]any{"cleanup_interval": fmt.Sprintf("%dm", i+1)}}
		},
	}

	deadline := time.Now().Add(8 * time.Second)
	for i := 0; time.Now().Before(deadline); i++ {
		var wg sync.WaitGroup
		for _, u := range updaters {
			wg.Add(1)
			go func() {
				defer wg.Done()
				if _, err := UpdatePartialFromConfig(cfg, u(i)); err != nil {
					t.Errorf("update rejected: %v", err)
				}
			}()
		}
		wg.Wait()

		// All updates were accepted and have returned. Compare the running settings with the file.
		mem, _ := json.Marshal(cfg)
		loaded, err := load(configPath.Path)
		if err != nil {
			t.Fatalf("round %d: saved config does not load: %v", i, err)
		}
		disk, _ := json.Marshal(loaded)
		if string(mem) != string(disk) {
			t.Fatalf("round %d: the saved file does not read back to the running settings\nrunning: %s\nfile:    %s", i, mem, disk)
		}
	}
}
