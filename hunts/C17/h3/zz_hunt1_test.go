// package directory: webserver/api/endpoints/config
package config

// C17 hunt finding 1: an integer setting saved through the dashboard API does not read back as the value
// that was accepted. The PATCH body is decoded into map[string]any, so every JSON number becomes a float64;
// integers above 2^53 are silently rounded before they are staged, committed and written to var/config.json.

import (
	"bytes"
	"net/http"
	"net/http/httptest"
	"os"
	"strings"
	"testing"

	appconfig "reservoir/config"
	"reservoir/webserver/api/apitypes"
)

func TestHunt1_IntegerSavedThroughAPIReadsBackDifferent(t *testing.T) {
	dir := t.TempDir()
	t.Chdir(dir)
	if err := os.MkdirAll("var", 0o755); err != nil {
		t.Fatal(err)
	}

	// Start-up: no file yet, so the defaults are written to var/config.json.
	cfg, err := appconfig.LoadOrDefault("var/config.json")
	if err != nil {
		t.Fatal(err)
	}

	// Control: the value is a valid setting. Put in the file by hand it loads and is the effective value.
	const want = 9007199254740993 // 2^53 + 1
	raw, _ := os.ReadFile("var/config.json")
	edited := strings.Replace(string(raw), `"max_backups": 3`, `"max_backups": 9007199254740993`, 1)
	if edited == string(raw) {
		t.Fatal("could not edit the control file")
	}
	if err := os.WriteFile("var/control.json", []byte(edited), 0o644); err != nil {
		t.Fatal(err)
	}
	// (LoadOrDefault resets to defaults when it refuses a file, so reading 'want' back proves it was accepted.)
	control, err := appconfig.LoadOrDefault("var/control.json")
	if err != nil {
		t.Fatal(err)
	}
	if got := control.Logging.MaxBackups.Read(); got != want {
		t.Fatalf("control: the value is not accepted from a file: got %d", got)
	}

	// Save the same value through the API.
	body := `{"logging":{"max_backups":9007199254740993}}`
	req := httptest.NewRequest(http.MethodPatch, "/api/config", bytes.NewBufferString(body))
	req.Header.Set("Content-Type", "application/json")
	rec := httptest.NewRecorder()
	(&ConfigEndpoint{}).Patch(rec, req, apitypes.Context{Config: cfg})
	if rec.Code != http.StatusAccepted || rec.Body.String() != successResponse {
		t.Fatalf("the update was not accepted: %d %q", rec.Code, rec.Body.String())
	}

	// Load what was saved, as the next start does.
	loaded, err := appconfig.LoadOrDefault("var/config.json")
	if err != nil {
		t.Fatal(err)
	}
	if got := loaded.Logging.MaxBackups.Read(); got != want {
		saved, _ := os.ReadFile("var/config.json")
		t.Errorf("saved logging.max_backups=%d through the API (accepted with 202 %q), loading the file yields %d\nfile:\n%s",
			int64(want), rec.Body.String(), got, saved)
	}
	if got := cfg.Logging.MaxBackups.Read(); got != want {
		t.Errorf("the running process uses %d, not the accepted %d", got, int64(want))
	}
}
