// package directory: config/   (package config)
package config

import (
	"flag"
	"os"
	"testing"
)

// Emulates a process start exactly as main() does it: load the file, then apply the command line.
func zzStart(t *testing.T, args ...string) *Config {
	t.Helper()
	cfg, err := LoadOrDefault(configPath.Path)
	if err != nil {
		t.Fatalf("LoadOrDefault: %v", err)
	}
	flag.CommandLine = flag.NewFlagSet("reservoir", flag.PanicOnError)
	os.Args = append([]string{"reservoir"}, args...)
	OverrideFromFlags(cfg)
	return cfg
}

// History: the proxy runs with --no-dashboard. Two accepted API updates: the cache size is set to 3G and
// the API is switched off as well (dashboard off + API off is a supported mode, see main.go startWebServer).
// Then the process is restarted with the very same command line.
func TestZZHunt1_SavedConfigIsResetOnReload(t *testing.T) {
	oldArgs, oldFlags := os.Args, flag.CommandLine
	defer func() { os.Args, flag.CommandLine = oldArgs, oldFlags }()
	os.Remove(configPath.Path)
	defer os.Remove(configPath.Path)

	cfg := zzStart(t, "--no-dashboard")

	if _, err := UpdatePartialFromConfig(cfg, map[string]any{"cache": map[string]any{"max_cache_size": "3G"}}); err != nil {
		t.Fatalf("update 1 rejected: %v", err)
	}
	if _, err := UpdatePartialFromConfig(cfg, map[string]any{"webserver": map[string]any{"api_disabled": true}}); err != nil {
		t.Skipf("update 2 rejected (that would be fine): %v", err)
	}

	// Effective settings of the running process after the two accepted (and saved) updates.
	wantSize := cfg.Cache.MaxCacheSize.Read()
	wantApiOff := cfg.Webserver.ApiDisabled.Read()
	wantDashOff := cfg.Webserver.DashboardDisabled.Read()

	saved, _ := os.ReadFile(configPath.Path)

	// The saved file must load ...
	if _, err := load(configPath.Path); err != nil {
		t.Errorf("the configuration the process accepted and saved does not load again: %v\nsaved file:\n%s", err, saved)
	}

	// ... and a restart with the same command line must give the same effective settings.
	cfg2 := zzStart(t, "--no-dashboard")
	if got := cfg2.Cache.MaxCacheSize.Read(); got != wantSize {
		t.Errorf("cache.max_cache_size after reload = %s, want %s", got, wantSize)
	}
	if got := cfg2.Webserver.ApiDisabled.Read(); got != wantApiOff {
		t.Errorf("webserver.api_disabled after reload = %v, want %v", got, wantApiOff)
	}
	if got := cfg2.Webserver.DashboardDisabled.Read(); got != wantDashOff {
		t.Errorf("webserver.dashboard_disabled after reload = %v, want %v", got, wantDashOff)
	}
}
