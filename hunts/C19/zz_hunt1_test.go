// package directory: cache/   (copy to /tmp/hunt-C19/cache/zz_hunt1_test.go)
package cache

import (
	"context"
	"fmt"
	"io"
	"log/slog"
	"os"
	"reservoir/config"
	"reservoir/metrics"
	"sync"
	"testing"
	"time"
)

// History, one client, strictly sequential calls:
//
//	PATCH {"cache":{"max_cache_size":"<A>"}}                            -> accepted
//	PATCH {"cache":{"max_cache_size":"7G","cleanup_interval":"0s"}}     -> rejected (interval must be > 0)
//
// Afterwards the configuration says <A> (the rejected update is rolled back), and the property
// demands that the cache follows <A>, the most recent accepted value.  The change handler of the
// cache runs asynchronously and re-reads the *current* property value, which during the short window
// between CommitStaged and RollbackStaged of the second update is the rejected 7G.  Nothing is fired
// on rollback, so the cache keeps the rejected limit for good.
func TestHunt1_ComponentKeepsRejectedValue(t *testing.T) {
	if os.Getenv("HUNT_QUIET") != "" {
		slog.SetDefault(slog.New(slog.NewTextHandler(io.Discard, nil)))
	}

	cfg := config.NewDefault()
	c := NewMemoryCache[TestMeta](cfg, 1, cfg.Cache.MaxCacheSize.Read().Bytes(), time.Hour, 16, t.Context())
	defer c.Destroy()

	const rejected = "7G"
	rejectedBytes := int64(7) << 30

	deadline := time.Now().Add(8 * time.Second)
	for i := 1; time.Now().Before(deadline); i++ {
		accepted := fmt.Sprintf("%dM", 100+i)
		acceptedBytes := int64(100+i) << 20

		status, err := config.UpdatePartialFromConfig(cfg, map[string]any{
			"cache": map[string]any{"max_cache_size": accepted},
		})
		if err != nil || status != config.UpdateStatusSuccess {
			t.Fatalf("round %d: valid update not accepted: status=%v err=%v", i, status, err)
		}

		_, err = config.UpdatePartialFromConfig(cfg, map[string]any{
			"cache": map[string]any{"max_cache_size": rejected, "cleanup_interval": "0s"},
		})
		if err == nil {
			t.Fatalf("round %d: invalid update was accepted", i)
		}

		// The rejected update left no trace in the configuration itself.
		if got := cfg.Cache.MaxCacheSize.Read().Bytes(); got != acceptedBytes {
			t.Fatalf("round %d: config holds %d, want accepted %d", i, got, acceptedBytes)
		}

		// Wait for the (single) notification of the accepted change to be handled.
		var got int64
		for wait := 0; wait < 400; wait++ {
			got = c.maxCacheSize.Get()
			if got == acceptedBytes || got == rejectedBytes {
				break
			}
			time.Sleep(500 * time.Microsecond)
		}
		// give a late handler every chance to correct it
		if got != acceptedBytes {
			time.Sleep(200 * time.Millisecond)
			got = c.maxCacheSize.Get()
		}
		if got != acceptedBytes {
			t.Fatalf("round %d: most recent accepted max_cache_size is %s (%d bytes, and the config says %d), "+
				"but the live cache follows %d bytes (= the REJECTED %s) and no further notification is coming",
				i, accepted, acceptedBytes, cfg.Cache.MaxCacheSize.Read().Bytes(), got, rejected)
		}
	}
	t.Logf("no violation observed")
}

type captureHandler struct {
	mu     sync.Mutex
	resets []time.Duration
}

func (h *captureHandler) Enabled(context.Context, slog.Level) bool { return true }
func (h *captureHandler) Handle(_ context.Context, r slog.Record) error {
	if r.Message == "Cache cleanup ticker reset" {
		r.Attrs(func(a slog.Attr) bool {
			if a.Key == "new_interval" {
				h.mu.Lock()
				h.resets = append(h.resets, a.Value.Any().(time.Duration))
				h.mu.Unlock()
			}
			return true
		})
	}
	return nil
}
func (h *captureHandler) WithAttrs([]slog.Attr) slog.Handler { return h }
func (h *captureHandler) WithGroup(string) slog.Handler      { return h }
func (h *captureHandler) count() int                         { h.mu.Lock(); defer h.mu.Unlock(); return len(h.resets) }
func (h *captureHandler) last() time.Duration {
	h.mu.Lock()
	defer h.mu.Unlock()
	return h.resets[len(h.resets)-1]
}

// Same defect seen through the other component and the other backend: file cache + janitor.
//
//	PATCH {"cache":{"cleanup_interval":"1h0m<i>s"}}                     -> accepted
//	PATCH {"cache":{"cleanup_interval":"25ms","max_cache_size":"0B"}}   -> rejected (size must be > 0)
//
// The janitor is woken by the notification of the accepted change, reads the current property value
// (cache_janitor.go:79) while the rejected update is still committed, and resets its ticker to 25ms.
// The configuration says 1h; the janitor runs 40 cycles a second (visible in the cleanup_runs metric).
func TestHunt1_JanitorKeepsRejectedInterval(t *testing.T) {
	h := &captureHandler{}
	slog.SetDefault(slog.New(h))
	cfg := config.NewDefault()
	c := NewFileCache[TestMeta](cfg, t.TempDir(), cfg.Cache.MaxCacheSize.Read().Bytes(), time.Hour, 16, t.Context())
	defer c.Destroy()

	deadline := time.Now().Add(8 * time.Second)
	for i := 1; time.Now().Before(deadline); i++ {
		before := h.count()
		accepted := time.Hour + time.Duration(i)*time.Second
		if _, err := config.UpdatePartialFromConfig(cfg, map[string]any{"cache": map[string]any{"cleanup_interval": accepted.String()}}); err != nil {
			t.Fatal(err)
		}
		if _, err := config.UpdatePartialFromConfig(cfg, map[string]any{"cache": map[string]any{"cleanup_interval": "25ms", "max_cache_size": "0B"}}); err == nil {
			t.Fatal("invalid accepted")
		}
		for w := 0; w < 2000 && h.count() == before; w++ {
			time.Sleep(100 * time.Microsecond)
		}
		if h.count() == before {
			t.Fatalf("round %d: janitor never reacted", i)
		}
		if h.last() == accepted {
			continue
		}
		runs0 := metrics.Global.Cache.CleanupRuns.Get()
		time.Sleep(500 * time.Millisecond)
		runs1 := metrics.Global.Cache.CleanupRuns.Get()
		t.Fatalf("round %d: config cleanup_interval=%v (accepted), janitor reset its ticker to %v; %d cleanup cycles ran in the following 500ms",
			i, cfg.Cache.CleanupInterval.Read().Cast(), h.last(), runs1-runs0)
	}
	t.Logf("no violation observed")
}
