// package directory: cache/   (copy to /tmp/hunt-C19/cache/zz_hunt2_test.go)
package cache

import (
	"encoding/json"
	"fmt"
	"io"
	"log/slog"
	"net/http"
	"net/http/httptest"
	"reservoir/config"
	"reservoir/webserver/api/apitypes"
	configEndpoint "reservoir/webserver/api/endpoints/config"
	"strings"
	"sync"
	"testing"
	"time"
)

// Two dashboard clients PATCH /api/config at the same time.  net/http runs every request in its own
// goroutine and neither the handler (webserver/api/endpoints/config/config.go:49) nor
// config.UpdatePartialFromConfig takes a lock, so the Stage/Commit/Rollback/Confirm steps of the two
// updates interleave on the same property.
//
//	client 1: {"cache":{"max_cache_size":"<A>"}}                          -> 202 accepted
//	client 2: {"cache":{"max_cache_size":"7G","cleanup_interval":"0s"}}   -> 500 rejected
//
// 7G is never part of an accepted change.  When both calls have returned and every notification has
// been handled, the cache must follow the most recent ACCEPTED limit.  It ends up following either the
// rejected 7G or the value from before the accepted change.
//
// The test only fails on what C19 talks about (the live component is not on the most recent accepted
// value); rounds in which merely the configuration object is corrupted are counted and reported.

func hunt2Patch(t *testing.T, client *http.Client, url, body string) int {
	req, _ := http.NewRequest("PATCH", url, strings.NewReader(body))
	req.Header.Set("Content-Type", "application/json")
	resp, err := client.Do(req)
	if err != nil {
		t.Errorf("PATCH: %v", err)
		return 0
	}
	io.Copy(io.Discard, resp.Body)
	resp.Body.Close()
	return resp.StatusCode
}

func hunt2Run(t *testing.T, send func(client int, body string) (accepted bool)) {
	slog.SetDefault(slog.New(slog.NewTextHandler(io.Discard, nil)))
	const rejectedBytes = int64(7) << 30
	cfg := hunt2Cfg
	c := NewMemoryCache[TestMeta](cfg, 1, cfg.Cache.MaxCacheSize.Read().Bytes(), time.Hour, 16, t.Context())
	defer c.Destroy()

	lastAccepted := cfg.Cache.MaxCacheSize.Read().Bytes()
	cfgOnlyAnomalies := 0
	deadline := time.Now().Add(8 * time.Second)
	for i := 1; time.Now().Before(deadline); i++ {
		validBytes := int64(100+i) << 20
		var ok1, ok2 bool
		var wg sync.WaitGroup
		wg.Add(2)
		go func() {
			defer wg.Done()
			ok1 = send(1, fmt.Sprintf(`{"cache":{"max_cache_size":"%dM"}}`, 100+i))
		}()
		go func() {
			defer wg.Done()
			ok2 = send(2, `{"cache":{"max_cache_size":"7G","cleanup_interval":"0s"}}`)
		}()
		wg.Wait()
		if ok2 {
			t.Fatalf("round %d: the invalid update was accepted", i)
		}
		if ok1 {
			lastAccepted = validBytes
		} // else it was refused as well (its verify saw the other's interval): nothing accepted this round

		time.Sleep(20 * time.Millisecond) // both calls returned; let every notification be handled

		cfgVal := cfg.Cache.MaxCacheSize.Read().Bytes()
		compVal := c.maxCacheSize.Get()
		if compVal != lastAccepted {
			time.Sleep(200 * time.Millisecond)
			cfgVal = cfg.Cache.MaxCacheSize.Read().Bytes()
			compVal = c.maxCacheSize.Get()
		}
		if compVal != lastAccepted {
			what := "an older value: the accepted change was lost"
			if compVal == rejectedBytes {
				what = "the REJECTED 7G"
			}
			t.Fatalf("round %d: valid update accepted=%v, invalid update accepted=%v; most recent accepted max_cache_size = %d bytes; "+
				"the live cache follows %d (%s); the config object holds %d; (%d earlier rounds corrupted only the config object)",
				i, ok1, ok2, lastAccepted, compVal, what, cfgVal, cfgOnlyAnomalies)
		}
		if cfgVal != lastAccepted {
			cfgOnlyAnomalies++
		}
	}
	t.Logf("no component violation observed (%d rounds corrupted only the config object)", cfgOnlyAnomalies)
}

var hunt2Cfg *config.Config

// Direct calls of the function the PATCH handler calls.
func TestHunt2_ConcurrentUpdates_Direct(t *testing.T) {
	hunt2Cfg = config.NewDefault()
	hunt2Run(t, func(_ int, body string) bool {
		var updates map[string]any
		if err := json.Unmarshal([]byte(body), &updates); err != nil {
			t.Fatal(err)
		}
		_, err := config.UpdatePartialFromConfig(hunt2Cfg, updates)
		return err == nil
	})
}

// The same through the real PATCH /api/config handler over HTTP with two clients
// (only the session check in front of the handler is left out).
func TestHunt2_ConcurrentUpdates_HTTP(t *testing.T) {
	hunt2Cfg = config.NewDefault()
	ep := &configEndpoint.ConfigEndpoint{}
	srv := httptest.NewServer(http.HandlerFunc(func(w http.ResponseWriter, r *http.Request) {
		ep.Patch(w, r, apitypes.Context{Config: hunt2Cfg})
	}))
	defer srv.Close()
	clients := map[int]*http.Client{1: {Transport: &http.Transport{}}, 2: {Transport: &http.Transport{}}}
	hunt2Patch(t, clients[1], srv.URL, `{}`) // open the connections
	hunt2Patch(t, clients[2], srv.URL, `{}`)
	hunt2Run(t, func(client int, body string) bool {
		return hunt2Patch(t, clients[client], srv.URL, body) == http.StatusAccepted
	})
}
