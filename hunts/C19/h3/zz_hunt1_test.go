// package directory: cache/   (run: go test -vet=off -count=1 -run TestHunt1 ./cache/)
package cache

import (
	"context"
	"fmt"
	"io"
	"log/slog"
	"os"
	"runtime"
	"strconv"
	"sync/atomic"
	"testing"
	"time"

	"reservoir/config"
	"reservoir/utils/bytesize"
)

// Two accepted changes of cache.max_cache_size follow one another (exactly what two PATCH /api/config
// calls do). Afterwards, when every notification goroutine has finished, every live cache must use
// the latest limit. The handlers do "x := cfg.Read(); c.maxCacheSize.Set(x)" in a goroutine per
// notification; the two steps are not atomic, so the handler of the FIRST change can read the first
// value, be descheduled, and store it AFTER the handler of the second change stored the second one.
//
// To meet that schedule often enough the test only uses public runtime knobs: the second change is
// issued by a goroutine that first shrinks GOMAXPROCS to 1. That stops the world (like any GC cycle
// does) while handlers of the first change are running on the other P; a handler caught between its
// Read and its Set goes to the global run queue and is resumed after the handlers of the second change.
func TestHunt1_StaleCacheLimitAfterBackToBackChanges(t *testing.T) {
	slog.SetDefault(slog.New(slog.NewTextHandler(io.Discard, nil)))

	// UpdatePartialFromConfig persists to ./var/config.json: run in a scratch directory
	dir := t.TempDir()
	if st, err := os.Stat("/dev/shm"); err == nil && st.IsDir() {
		if d, err := os.MkdirTemp("/dev/shm", "hunt1-*"); err == nil {
			dir = d
			defer os.RemoveAll(d)
		}
	}
	wd, _ := os.Getwd()
	os.MkdirAll(dir+"/var", 0o755)
	if err := os.Chdir(dir); err != nil {
		t.Fatal(err)
	}
	defer os.Chdir(wd)

	env := func(name string, def int) int {
		if v := os.Getenv(name); v != "" {
			n, _ := strconv.Atoi(v)
			return n
		}
		return def
	}
	listeners := env("HUNT_LISTENERS", 200)
	procs := env("HUNT_PROCS", 2)
	jitter := env("HUNT_JITTER", 1)
	defer runtime.GOMAXPROCS(runtime.GOMAXPROCS(procs))

	cfg := config.NewDefault()
	ctx, cancel := context.WithCancel(context.Background())
	defer cancel()

	// One more listener of the same setting, subscribed first: it only tells the test that the
	// notifications of a change have started to run.
	var started atomic.Int64
	unsub := cfg.Cache.MaxCacheSize.OnChange(func(v bytesize.ByteSize) { started.Store(v.Bytes()) })
	defer unsub()

	caches := make([]*MemoryCache[TestMeta], listeners)
	for i := range caches {
		caches[i] = NewMemoryCache[TestMeta](cfg, 50, cfg.Cache.MaxCacheSize.Read().Bytes(), time.Hour, 1, ctx)
		defer caches[i].Destroy()
	}
	time.Sleep(100 * time.Millisecond)
	baseline := runtime.NumGoroutine()

	set := func(mb int) {
		status, err := config.UpdatePartialFromConfig(cfg, map[string]any{
			"cache": map[string]any{"max_cache_size": fmt.Sprintf("%dM", mb)},
		})
		if err != nil || status == config.UpdateStatusFailed {
			panic(fmt.Sprintf("update to %dM was not accepted: %v %v", mb, status, err))
		}
	}

	deadline := time.Now().Add(time.Duration(env("HUNT_SECONDS", 20)) * time.Second)
	round := 0
	defer func() { t.Logf("rounds: %d", round) }()
	for ; time.Now().Before(deadline); round++ {
		first, second := 2*round+1, 2*round+2
		runtime.GOMAXPROCS(procs)

		var ready, firstDone atomic.Bool
		secondDone := make(chan struct{})
		spin := round % jitter
		go func() {
			ready.Store(true)
			for started.Load() != int64(first)<<20 {
			}
			for i := 0; i < spin*20; i++ { // jitter
				_ = ready.Load()
			}
			runtime.GOMAXPROCS(1)
			set(second)
			close(secondDone)
		}()
		for !ready.Load() {
			runtime.Gosched()
		}

		set(first)
		firstDone.Store(true)
		<-secondDone

		// wait until all notification goroutines are gone
		for runtime.NumGoroutine() > baseline {
			runtime.Gosched()
		}

		want := cfg.Cache.MaxCacheSize.Read().Bytes()
		if want != int64(second)<<20 {
			t.Fatalf("config itself holds %d", want)
		}
		count := func() (stale int, got int64) {
			for _, c := range caches {
				if v := c.maxCacheSize.Get(); v != want {
					stale++
					got = v
				}
			}
			return
		}
		stale, got := count()
		if stale > 0 {
			// make sure nothing is still on its way: give every goroutine ample time on all processors
			runtime.GOMAXPROCS(procs)
			time.Sleep(500 * time.Millisecond)
			stale, got = count()
		}
		if stale > 0 {
			t.Fatalf("round %d: both changes accepted, all notifications delivered, cache.max_cache_size is %dM, but %d of %d live caches still use a limit of %dM",
				round, want>>20, stale, listeners, got>>20)
		}
	}
	t.Logf("no stale listener seen")
}
