// package directory: cache/   (run: go test -vet=off -count=1 -run TestHunt2 ./cache/)
package cache

import (
	"context"
	"encoding/json"
	"fmt"
	"io"
	"log/slog"
	"os"
	"runtime"
	"strings"
	"sync/atomic"
	"testing"
	"time"

	"reservoir/config"
)

// PATCH /api/config #1 (accepted) sets cache.max_cache_size to 5M..; PATCH #2 follows at once and is
// REJECTED (HTTP 500, ErrUpdateFailed). The rejected update passes the dry run but is committed to the
// live configuration before the live verification refuses it and rolls it back. A notification handler
// of update #1 that runs in that interval re-reads the live setting, applies the rejected value (0) and
// is never told about the rollback: the cache keeps a limit of 0 although the setting is 5M.
func TestHunt2_RejectedValuePickedUpByHandlerOfEarlierAcceptedChange(t *testing.T) {
	slog.SetDefault(slog.New(slog.NewTextHandler(io.Discard, nil)))

	dir := t.TempDir()
	wd, _ := os.Getwd()
	os.MkdirAll(dir+"/var", 0o755)
	if err := os.Chdir(dir); err != nil {
		t.Fatal(err)
	}
	defer os.Chdir(wd)

	defer runtime.GOMAXPROCS(runtime.GOMAXPROCS(2))

	cfg := config.NewDefault()
	ctx, cancel := context.WithCancel(context.Background())
	defer cancel()

	const listeners = 4
	caches := make([]*MemoryCache[TestMeta], listeners)
	for i := range caches {
		caches[i] = NewMemoryCache[TestMeta](cfg, 50, cfg.Cache.MaxCacheSize.Read().Bytes(), time.Hour, 1, ctx)
		defer caches[i].Destroy()
	}
	time.Sleep(100 * time.Millisecond)
	baseline := runtime.NumGoroutine()

	// exactly what the PATCH endpoint does with the request body
	patch := func(body string) (config.UpdateStatus, error) {
		var updates map[string]any
		if err := json.NewDecoder(strings.NewReader(body)).Decode(&updates); err != nil {
			t.Fatalf("bad body: %v", err)
		}
		return config.UpdatePartialFromConfig(cfg, updates)
	}

	deadline := time.Now().Add(20 * time.Second)
	for round := 1; time.Now().Before(deadline); round++ {
		// The second processor is busy with something else until the moment update #2 has been
		// committed (a schedule; it only reads the setting).
		busyDone := make(chan struct{})
		var stop atomic.Bool
		busyUp := make(chan struct{})
		go func() {
			close(busyUp)
			for cfg.Cache.MaxCacheSize.Read().Bytes() != 0 && !stop.Load() {
			}
			close(busyDone)
		}()
		<-busyUp

		accepted := fmt.Sprintf(`{"cache":{"max_cache_size":"%dM"}}`, 4+round)
		if st, err := patch(accepted); err != nil || st == config.UpdateStatusFailed {
			t.Fatalf("update #1 not accepted: %v %v", st, err)
		}
		// "ſ" (U+017F) is folded to "s" by encoding/json when it matches object keys to struct fields:
		// the dry run decodes both keys into cache.max_cache_size (the later, valid one wins), the
		// live update only knows the exact key and stages "0B".
		st, err := patch(`{"cache":{"max_cache_size":"0B","max_cache_ſize":"7M"}}`)
		if err == nil {
			t.Fatalf("update #2 was expected to be rejected, got status %v", st)
		}
		stop.Store(true)
		<-busyDone

		for runtime.NumGoroutine() > baseline {
			runtime.Gosched()
		}

		want := cfg.Cache.MaxCacheSize.Read().Bytes()
		if want != int64(4+round)<<20 {
			t.Fatalf("setting is %d after the rejected update", want)
		}
		for i, c := range caches {
			if got := c.maxCacheSize.Get(); got != want {
				time.Sleep(500 * time.Millisecond) // nothing is still on its way
				got = c.maxCacheSize.Get()
				if got == want {
					continue
				}
				_, cerr := c.Cache(FromString("k"), strings.NewReader("hello"), time.Now().Add(time.Hour), TestMeta{})
				t.Fatalf("round %d: update #1 (%dM) accepted, update #2 rejected with %q, all notifications delivered; "+
					"cache.max_cache_size reads %dM but live cache %d uses limit %d (storing 5 bytes: %v)",
					round, want>>20, err, want>>20, i, got, cerr)
			}
		}
	}
	t.Logf("not reproduced")
}

// Variant without the odd key: update #2 is perfectly valid but cannot be persisted (the directory of the
// config file has gone away / is not writable / the disk is full). It is committed before persist() is
// tried and rolled back afterwards; a handler of update #1 running in between keeps the value.
func TestHunt2b_UnpersistableValuePickedUpByHandlerOfEarlierAcceptedChange(t *testing.T) {
	slog.SetDefault(slog.New(slog.NewTextHandler(io.Discard, nil)))

	dir := t.TempDir()
	wd, _ := os.Getwd()
	os.MkdirAll(dir+"/var", 0o755)
	if err := os.Chdir(dir); err != nil {
		t.Fatal(err)
	}
	defer os.Chdir(wd)

	defer runtime.GOMAXPROCS(runtime.GOMAXPROCS(2))

	cfg := config.NewDefault()
	ctx, cancel := context.WithCancel(context.Background())
	defer cancel()

	const listeners = 4
	caches := make([]*MemoryCache[TestMeta], listeners)
	for i := range caches {
		caches[i] = NewMemoryCache[TestMeta](cfg, 50, cfg.Cache.MaxCacheSize.Read().Bytes(), time.Hour, 1, ctx)
		defer caches[i].Destroy()
	}
	time.Sleep(100 * time.Millisecond)
	baseline := runtime.NumGoroutine()

	deadline := time.Now().Add(20 * time.Second)
	for round := 1; time.Now().Before(deadline); round++ {
		os.MkdirAll("var", 0o755)
		good, lost := int64(2*round+10), int64(2*round+11)

		busyDone := make(chan struct{})
		busyUp := make(chan struct{})
		var stop atomic.Bool
		go func() {
			close(busyUp)
			for cfg.Cache.MaxCacheSize.Read().Bytes() != lost<<20 && !stop.Load() {
			}
			close(busyDone)
		}()
		<-busyUp

		st, err := config.UpdatePartialFromConfig(cfg, map[string]any{"cache": map[string]any{"max_cache_size": fmt.Sprintf("%dM", good)}})
		if err != nil || st == config.UpdateStatusFailed {
			t.Fatalf("update #1 not accepted: %v %v", st, err)
		}
		os.RemoveAll("var") // file system fault
		st, err = config.UpdatePartialFromConfig(cfg, map[string]any{"cache": map[string]any{"max_cache_size": fmt.Sprintf("%dM", lost)}})
		if err == nil {
			t.Fatalf("update #2 was expected to fail, got status %v", st)
		}
		stop.Store(true)
		<-busyDone

		for runtime.NumGoroutine() > baseline {
			runtime.Gosched()
		}

		want := cfg.Cache.MaxCacheSize.Read().Bytes()
		if want != good<<20 {
			t.Fatalf("setting is %d after the failed update", want)
		}
		for i, c := range caches {
			if got := c.maxCacheSize.Get(); got != want {
				time.Sleep(500 * time.Millisecond) // nothing is still on its way
				got = c.maxCacheSize.Get()
				if got == want {
					continue
				}
				t.Fatalf("round %d: update #1 (%dM) accepted, update #2 failed with %q, all notifications delivered; "+
					"cache.max_cache_size reads %dM but live cache %d uses limit %dM",
					round, good, err, want>>20, i, got>>20)
			}
		}
	}
	t.Logf("not reproduced")
}
