package tests

import (
	"io"
	"net/http"
	"strings"
	"sync"
	"testing"
)

// C08: what the origin did not send is not added, what the client sent for a non-cacheable method arrives.
func TestMineNoSniffedContentType(t *testing.T) {
	env := SetupTestEnv(t)
	env.Upstream.Config.Handler = http.HandlerFunc(func(w http.ResponseWriter, r *http.Request) {
		w.Header()["Content-Type"] = nil // send none
		w.Header().Set("Cache-Control", "max-age=60")
		w.Write([]byte("%PDF-1.4 <html><body>x</body></html>"))
	})
	env.Start()
	for i := 0; i < 2; i++ {
		resp, err := env.Client.Get(env.Upstream.URL + "/doc")
		if err != nil {
			t.Fatal(err)
		}
		io.Copy(io.Discard, resp.Body)
		resp.Body.Close()
		if ct, ok := resp.Header["Content-Type"]; ok {
			t.Errorf("request %d (X-Cache %s): Content-Type %q delivered although the origin sent none", i, resp.Header.Get("X-Cache"), ct)
		}
	}
}

func TestMineConditionalsOfUnsafeMethodsArrive(t *testing.T) {
	env := SetupTestEnv(t)
	var mu sync.Mutex
	seen := map[string]http.Header{}
	env.Upstream.Config.Handler = http.HandlerFunc(func(w http.ResponseWriter, r *http.Request) {
		mu.Lock()
		seen[r.Method] = r.Header.Clone()
		mu.Unlock()
		w.WriteHeader(http.StatusNoContent)
	})
	env.Start()
	for _, m := range []string{http.MethodPut, http.MethodDelete, http.MethodPost} {
		req, _ := http.NewRequest(m, env.Upstream.URL+"/doc", strings.NewReader("x"))
		req.Header.Set("If-Match", `"v1"`)
		req.Header.Set("If-Unmodified-Since", "Tue, 02 Jan 2024 03:04:05 GMT")
		resp, err := env.Client.Do(req)
		if err != nil {
			t.Fatal(err)
		}
		resp.Body.Close()
		mu.Lock()
		h := seen[m]
		mu.Unlock()
		if h.Get("If-Match") != `"v1"` || h.Get("If-Unmodified-Since") == "" {
			t.Errorf("%s: origin received If-Match=%q If-Unmodified-Since=%q, the client sent both (lost-update guard removed)", m, h.Get("If-Match"), h.Get("If-Unmodified-Since"))
		}
	}
}

func TestMineAcceptRangesOfOriginKept(t *testing.T) {
	env := SetupTestEnv(t)
	env.Upstream.Config.Handler = http.HandlerFunc(func(w http.ResponseWriter, r *http.Request) {
		w.Header().Set("Accept-Ranges", "none")
		w.Header().Set("Cache-Control", "no-store")
		w.Write([]byte("live stream"))
	})
	env.Start()
	resp, err := env.Client.Get(env.Upstream.URL + "/live")
	if err != nil {
		t.Fatal(err)
	}
	resp.Body.Close()
	if got := resp.Header.Values("Accept-Ranges"); len(got) != 1 || got[0] != "none" {
		t.Errorf("origin sent Accept-Ranges: none, client received %q", got)
	}
}
