package tests

import (
	"bufio"
	"fmt"
	"net"
	"net/http"
	"net/url"
	"sync"
	"testing"
)

func TestNoInjectedUserAgent(t *testing.T) {
	env := SetupTestEnv(t)
	var mu sync.Mutex
	var got http.Header
	env.Upstream.Config.Handler = http.HandlerFunc(func(w http.ResponseWriter, r *http.Request) {
		mu.Lock()
		got = r.Header.Clone()
		mu.Unlock()
		w.Header().Set("Cache-Control", "no-store")
		w.Write([]byte("ok"))
	})
	env.Start()
	pu, _ := url.Parse(env.ProxyServer.URL)
	conn, err := net.Dial("tcp", pu.Host)
	if err != nil {
		t.Fatal(err)
	}
	defer conn.Close()
	uu, _ := url.Parse(env.Upstream.URL)
	fmt.Fprintf(conn, "GET http://%s/x HTTP/1.1\r\nHost: %s\r\nX-Test: 1\r\n\r\n", uu.Host, uu.Host)
	resp, err := http.ReadResponse(bufio.NewReader(conn), nil)
	if err != nil {
		t.Fatal(err)
	}
	resp.Body.Close()
	mu.Lock()
	defer mu.Unlock()
	for _, h := range []string{"User-Agent", "Accept-Encoding"} {
		if v, ok := got[h]; ok {
			t.Errorf("origin received %s: %q although the client sent none", h, v)
		}
	}
}
