package tests

import (
	"fmt"
	"io"
	"net/http"
	"strings"
	"testing"
)

// HEAD on a tunnel answered by an error: no body may follow the headers.
func TestMine2_HeadErrorOnTunnelHasNoBody(t *testing.T) {
	env := SetupTestEnv(t)
	env.Upstream.Config.Handler = http.HandlerFunc(func(w http.ResponseWriter, r *http.Request) {
		if r.URL.Path == "/die" {
			conn, _, _ := w.(http.Hijacker).Hijack()
			conn.Close()
			return
		}
		w.Header().Set("Cache-Control", "no-store")
		io.WriteString(w, "SECOND")
	})
	env.Start()
	tun := hunt3OpenTunnel(t, env)
	fmt.Fprintf(tun.conn, "HEAD /die HTTP/1.1\r\nHost: %s\r\n\r\n", tun.host)
	st, b, err := hunt3ReadOne(tun.conn, tun.br, "HEAD")
	t.Logf("#1 %s body=%q err=%v", st, b, err)
	fmt.Fprintf(tun.conn, "GET /second HTTP/1.1\r\nHost: %s\r\n\r\n", tun.host)
	st, b, err = hunt3ReadOne(tun.conn, tun.br, "GET")
	t.Logf("#2 %s body=%q err=%v", st, b, err)
	if err != nil || b != "SECOND" {
		t.Errorf("second exchange broken after a HEAD that was answered with an error: %v %q", err, b)
	}
}

// A POST with a body must not end the tunnel: the pipelined GET behind it is answered as on a plain connection.
func TestMine2_PostThenGetOnOneTunnel(t *testing.T) {
	env := SetupTestEnv(t)
	env.Upstream.Config.Handler = http.HandlerFunc(func(w http.ResponseWriter, r *http.Request) {
		b, _ := io.ReadAll(r.Body)
		w.Header().Set("Cache-Control", "no-store")
		fmt.Fprintf(w, "%s %s %d", r.Method, r.URL.Path, len(b))
	})
	env.Start()
	body := strings.Repeat("x", 5000)
	// plain reference
	pl := hunt3OpenPlain(t, env)
	fmt.Fprintf(pl.conn, "POST http://%s/p HTTP/1.1\r\nHost: %s\r\nContent-Length: %d\r\n\r\n%sGET http://%s/g HTTP/1.1\r\nHost: %s\r\n\r\n", pl.host, pl.host, len(body), body, pl.host, pl.host)
	_, b1, e1 := hunt3ReadOne(pl.conn, pl.br, "POST")
	_, b2, e2 := hunt3ReadOne(pl.conn, pl.br, "GET")
	t.Logf("plain: %q %v / %q %v", b1, e1, b2, e2)
	tun := hunt3OpenTunnel(t, env)
	fmt.Fprintf(tun.conn, "POST /p HTTP/1.1\r\nHost: %s\r\nContent-Length: %d\r\n\r\n%sGET /g HTTP/1.1\r\nHost: %s\r\n\r\n", tun.host, len(body), body, tun.host)
	_, t1, e1 := hunt3ReadOne(tun.conn, tun.br, "POST")
	_, t2, e2 := hunt3ReadOne(tun.conn, tun.br, "GET")
	t.Logf("tunnel: %q %v / %q %v", t1, e1, t2, e2)
	if t1 != b1 || t2 != b2 || e2 != nil {
		t.Errorf("tunnel differs from plain proxying: %q/%q vs %q/%q (%v)", t1, t2, b1, b2, e2)
	}
}
