// package directory: tests/   (self-contained; run: go test -vet=off -count=1 -run 'TestHunt2' ./tests/)
package tests

import (
	"bufio"
	"crypto/tls"
	"fmt"
	"io"
	"net"
	"net/http"
	"strings"
	"testing"
	"time"
)

// hunt2Tunnel is a minimal, strictly sequential HTTP/1.1 client speaking through one CONNECT tunnel.
type hunt2Tunnel struct {
	t    *testing.T
	conn *tls.Conn
	br   *bufio.Reader
	host string
}

func hunt2OpenTunnel(t *testing.T, env *TestEnv) *hunt2Tunnel {
	t.Helper()
	host := env.Upstream.Listener.Addr().String()
	raw, err := net.Dial("tcp", env.ProxyServer.Listener.Addr().String())
	if err != nil {
		t.Fatalf("dial proxy: %v", err)
	}
	t.Cleanup(func() { raw.Close() })
	fmt.Fprintf(raw, "CONNECT %s HTTP/1.1\r\nHost: %s\r\n\r\n", host, host)
	rbr := bufio.NewReader(raw)
	resp, err := http.ReadResponse(rbr, &http.Request{Method: http.MethodConnect})
	if err != nil || resp.StatusCode != 200 {
		t.Fatalf("CONNECT failed: %v %v", resp, err)
	}
	if rbr.Buffered() != 0 {
		t.Fatalf("unexpected bytes after CONNECT response")
	}
	tc := tls.Client(raw, &tls.Config{InsecureSkipVerify: true})
	if err := tc.Handshake(); err != nil {
		t.Fatalf("tls handshake: %v", err)
	}
	return &hunt2Tunnel{t: t, conn: tc, br: bufio.NewReader(tc), host: host}
}

// hunt2Plain is the plain-proxying counterpart of hunt2Tunnel: one keep-alive TCP connection to the
// proxy, absolute-form request targets.
type hunt2Plain struct {
	conn net.Conn
	br   *bufio.Reader
	host string
}

func hunt2OpenPlain(t *testing.T, env *TestEnv) *hunt2Plain {
	t.Helper()
	c, err := net.Dial("tcp", env.ProxyServer.Listener.Addr().String())
	if err != nil {
		t.Fatalf("dial proxy: %v", err)
	}
	t.Cleanup(func() { c.Close() })
	return &hunt2Plain{conn: c, br: bufio.NewReader(c), host: env.Upstream.Listener.Addr().String()}
}

func hunt2ReadOne(conn net.Conn, br *bufio.Reader, method string) (string, string, error) {
	conn.SetReadDeadline(time.Now().Add(3 * time.Second))
	defer conn.SetReadDeadline(time.Time{})
	resp, err := http.ReadResponse(br, &http.Request{Method: method})
	if err != nil {
		return "", "", err
	}
	b, err := io.ReadAll(resp.Body)
	return resp.Status, string(b), err
}

func hunt2Residual(conn net.Conn, br *bufio.Reader) string {
	conn.SetReadDeadline(time.Now().Add(400 * time.Millisecond))
	defer conn.SetReadDeadline(time.Time{})
	var sb strings.Builder
	buf := make([]byte, 4096)
	for {
		n, err := br.Read(buf)
		sb.Write(buf[:n])
		if err != nil {
			break
		}
	}
	return sb.String()
}

// The proxy never drains the request body of a tunnel exchange. Whenever the exchange finishes
// without the body having been forwarded (origin unreachable -> 502; or a GET answered from the
// cache), the body bytes stay in the tunnel's bufio.Reader and http.ReadRequest parses them as the
// NEXT request of the tunnel. The client then receives, as the answer to its second request, a
// response that was computed from the body of its first request.
func TestHunt2_RequestBodyOfOneExchangeBecomesTheNextExchange(t *testing.T) {
	origin := http.HandlerFunc(func(w http.ResponseWriter, r *http.Request) {
		io.Copy(io.Discard, r.Body)
		w.Header().Set("Cache-Control", "max-age=600")
		io.WriteString(w, "BODY-OF-"+r.URL.Path)
	})

	for _, mode := range []struct {
		name, method, path string
		originDown         bool
	}{
		{"POST-origin-down (control: passes, the transport drains the body)", "POST", "/submit", true},
		{"GET-with-body-cache-hit", "GET", "/cached", false},
	} {
		t.Run(mode.name, func(t *testing.T) {
			env := SetupTestEnv(t)
			env.Upstream.Config.Handler = origin
			env.Start()

			pl := hunt2OpenPlain(t, env)
			tun := hunt2OpenTunnel(t, env)
			sendPlain := func(method, path, hdr, body string) {
				fmt.Fprintf(pl.conn, "%s http://%s%s HTTP/1.1\r\nHost: %s\r\n%s\r\n%s", method, pl.host, path, pl.host, hdr, body)
			}
			sendTunnel := func(method, path, hdr, body string) {
				fmt.Fprintf(tun.conn, "%s %s HTTP/1.1\r\nHost: %s\r\n%s\r\n%s", method, path, tun.host, hdr, body)
			}

			// exchange 0 on both connections: GET /cached (stored by the first, a hit for the second)
			sendPlain("GET", "/cached", "", "")
			if st, b, err := hunt2ReadOne(pl.conn, pl.br, "GET"); err != nil || b != "BODY-OF-/cached" {
				t.Fatalf("plain warm-up: %v %q %v", st, b, err)
			}
			sendTunnel("GET", "/cached", "", "")
			if st, b, err := hunt2ReadOne(tun.conn, tun.br, "GET"); err != nil || b != "BODY-OF-/cached" {
				t.Fatalf("tunnel warm-up: %v %q %v", st, b, err)
			}
			if mode.originDown {
				env.Upstream.Close()
			}

			// exchange 1: a request whose body happens to look like a request for /cached
			payload := "GET /cached HTTP/1.1\r\nHost: " + tun.host + "\r\nX-Note: i-am-only-a-request-body\r\n\r\n"
			hdr := fmt.Sprintf("Content-Type: text/plain\r\nContent-Length: %d\r\n", len(payload))

			sendPlain(mode.method, mode.path, hdr, payload)
			st, b, err := hunt2ReadOne(pl.conn, pl.br, mode.method)
			t.Logf("plain  #1 %s %s (+%d body bytes): %s %q err=%v", mode.method, mode.path, len(payload), st, b, err)
			if left := hunt2Residual(pl.conn, pl.br); left != "" || err != nil {
				t.Fatalf("plain proxying misbehaves too (err=%v, unsolicited=%q); not a tunnel-specific finding", err, left)
			}
			t.Logf("plain : silent after #1, as it must be")

			sendTunnel(mode.method, mode.path, hdr, payload)
			st, b, err = hunt2ReadOne(tun.conn, tun.br, mode.method)
			t.Logf("tunnel #1 %s %s (+%d body bytes): %s %q err=%v", mode.method, mode.path, len(payload), st, b, err)
			if err != nil {
				t.Fatalf("tunnel #1: %v", err)
			}
			// Nothing is outstanding now: the proxy must be silent until the client sends request #2.
			left := hunt2Residual(tun.conn, tun.br)
			if left != "" {
				t.Errorf("tunnel: unsolicited response although no request is outstanding; the BODY of exchange #1 was executed as a request:\n%q", left)
			}
			// What a client sees: it now sends request #2 and reads one response.
			tun.br = bufio.NewReader(io.MultiReader(strings.NewReader(left), tun.conn))
			sendTunnel("GET", "/second", "", "")
			st, b, err = hunt2ReadOne(tun.conn, tun.br, "GET")
			t.Logf("tunnel #2 GET /second: %s %q err=%v", st, b, err)
			if b == "BODY-OF-/cached" {
				t.Errorf("tunnel: the response to GET /second is the response to the request smuggled in the body of exchange #1")
			}
		})
	}
}
