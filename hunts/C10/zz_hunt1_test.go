// package directory: tests/   (self-contained; run: go test -vet=off -count=1 -run 'TestHunt1' ./tests/)
package tests

import (
	"bufio"
	"crypto/tls"
	"fmt"
	"io"
	"net"
	"net/http"
	"strings"
	"testing"
	"time"
)

// hunt1Tunnel is a minimal, strictly sequential HTTP/1.1 client speaking through one CONNECT tunnel.
type hunt1Tunnel struct {
	t    *testing.T
	conn *tls.Conn
	br   *bufio.Reader
	host string
}

func hunt1OpenTunnel(t *testing.T, env *TestEnv) *hunt1Tunnel {
	t.Helper()
	host := env.Upstream.Listener.Addr().String()
	raw, err := net.Dial("tcp", env.ProxyServer.Listener.Addr().String())
	if err != nil {
		t.Fatalf("dial proxy: %v", err)
	}
	t.Cleanup(func() { raw.Close() })
	fmt.Fprintf(raw, "CONNECT %s HTTP/1.1\r\nHost: %s\r\n\r\n", host, host)
	rbr := bufio.NewReader(raw)
	resp, err := http.ReadResponse(rbr, &http.Request{Method: http.MethodConnect})
	if err != nil || resp.StatusCode != 200 {
		t.Fatalf("CONNECT failed: %v %v", resp, err)
	}
	if rbr.Buffered() != 0 {
		t.Fatalf("unexpected bytes after CONNECT response")
	}
	tc := tls.Client(raw, &tls.Config{InsecureSkipVerify: true})
	if err := tc.Handshake(); err != nil {
		t.Fatalf("tls handshake: %v", err)
	}
	return &hunt1Tunnel{t: t, conn: tc, br: bufio.NewReader(tc), host: host}
}

// residual returns whatever the proxy has sent on the tunnel although no request is outstanding.
func (h *hunt1Tunnel) residual() string {
	h.conn.SetReadDeadline(time.Now().Add(300 * time.Millisecond))
	defer h.conn.SetReadDeadline(time.Time{})
	var sb strings.Builder
	buf := make([]byte, 4096)
	for {
		n, err := h.br.Read(buf)
		sb.Write(buf[:n])
		if err != nil {
			break
		}
	}
	return sb.String()
}

// exchange sends one request and reads exactly one response the way any HTTP/1.1 client does.
func (h *hunt1Tunnel) exchange(method, path string) (*http.Response, string, error) {
	fmt.Fprintf(h.conn, "%s %s HTTP/1.1\r\nHost: %s\r\n\r\n", method, path, h.host)
	h.conn.SetReadDeadline(time.Now().Add(3 * time.Second))
	defer h.conn.SetReadDeadline(time.Time{})
	resp, err := http.ReadResponse(h.br, &http.Request{Method: method})
	if err != nil {
		return nil, "", err
	}
	body, err := io.ReadAll(resp.Body)
	return resp, string(body), err
}

func hunt1BodilessOrigin() http.Handler {
	return http.HandlerFunc(func(w http.ResponseWriter, r *http.Request) {
		w.Header().Set("Cache-Control", "no-store")
		switch r.URL.Path {
		case "/nocontent":
			w.WriteHeader(http.StatusNoContent)
		default:
			// A dynamic page: streamed, so the origin announces no Content-Length (not for HEAD either).
			w.Header().Set("X-Path", r.URL.Path)
			w.(http.Flusher).Flush()
			io.WriteString(w, "BODY-OF-"+r.URL.Path)
		}
	})
}

// A 204 (or the answer to a HEAD) has no body. Plain proxying relays it as such. On a tunnel the
// proxy frames it as "Transfer-Encoding: chunked" and writes the terminating chunk "0\r\n\r\n"
// after the header block; the client does not read a body for such a response, so these bytes of
// exchange N are the first bytes of the response to exchange N+1.
func TestHunt1_BodilessResponseLeaksIntoNextExchange(t *testing.T) {
	for _, tc := range []struct{ name, method, path string }{
		{"204", "GET", "/nocontent"},
		{"HEAD", "HEAD", "/head-me"},
	} {
		t.Run(tc.name, func(t *testing.T) {
			env := SetupTestEnv(t)
			env.Upstream.Config.Handler = hunt1BodilessOrigin()
			env.Start()

			// Reference: the same two requests, plainly proxied, over one keep-alive connection.
			req, _ := http.NewRequest(tc.method, env.Upstream.URL+tc.path, nil)
			pr, err := env.Client.Do(req)
			if err != nil {
				t.Fatalf("plain first: %v", err)
			}
			io.Copy(io.Discard, pr.Body)
			pr.Body.Close()
			t.Logf("plain  #1: %s TE=%v", pr.Status, pr.TransferEncoding)
			if len(pr.TransferEncoding) != 0 {
				t.Fatalf("plain proxying itself used chunked framing")
			}
			pr2, err := env.Client.Get(env.Upstream.URL + "/second")
			if err != nil {
				t.Fatalf("plain second: %v", err)
			}
			b2, _ := io.ReadAll(pr2.Body)
			pr2.Body.Close()
			t.Logf("plain  #2: %s %q", pr2.Status, b2)

			// The same two requests on one tunnel.
			tun := hunt1OpenTunnel(t, env)
			r1, _, err := tun.exchange(tc.method, tc.path)
			if err != nil {
				t.Fatalf("tunnel first: %v", err)
			}
			t.Logf("tunnel #1: %s TE=%v", r1.Status, r1.TransferEncoding)
			if len(r1.TransferEncoding) != 0 {
				t.Errorf("tunnel response #1 is framed %v, the plainly proxied one is not", r1.TransferEncoding)
			}
			if left := tun.residual(); left != "" {
				t.Errorf("bytes of exchange #1 still pending on the tunnel before request #2 was sent: %q", left)
				// put them back in front of the next response, which is where a real client finds them
				tun.br = bufio.NewReader(io.MultiReader(strings.NewReader(left), tun.conn))
			}
			r2, body2, err := tun.exchange("GET", "/second")
			if err != nil {
				t.Fatalf("tunnel #2: response to GET /second is not parseable: %v", err)
			}
			if r2.StatusCode != 200 || body2 != "BODY-OF-/second" {
				t.Errorf("tunnel #2: got %s %q", r2.Status, body2)
			}
		})
	}
}
