// package directory: tests/   (self-contained; run: go test -vet=off -count=1 -run 'TestHunt3' ./tests/)
package tests

import (
	"bufio"
	"crypto/tls"
	"fmt"
	"io"
	"net"
	"net/http"
	"strings"
	"testing"
	"time"
)

// hunt3Tunnel is a minimal, strictly sequential HTTP/1.1 client speaking through one CONNECT tunnel.
type hunt3Tunnel struct {
	t    *testing.T
	conn *tls.Conn
	br   *bufio.Reader
	host string
}

func hunt3OpenTunnel(t *testing.T, env *TestEnv) *hunt3Tunnel {
	t.Helper()
	host := env.Upstream.Listener.Addr().String()
	raw, err := net.Dial("tcp", env.ProxyServer.Listener.Addr().String())
	if err != nil {
		t.Fatalf("dial proxy: %v", err)
	}
	t.Cleanup(func() { raw.Close() })
	fmt.Fprintf(raw, "CONNECT %s HTTP/1.1\r\nHost: %s\r\n\r\n", host, host)
	rbr := bufio.NewReader(raw)
	resp, err := http.ReadResponse(rbr, &http.Request{Method: http.MethodConnect})
	if err != nil || resp.StatusCode != 200 {
		t.Fatalf("CONNECT failed: %v %v", resp, err)
	}
	if rbr.Buffered() != 0 {
		t.Fatalf("unexpected bytes after CONNECT response")
	}
	tc := tls.Client(raw, &tls.Config{InsecureSkipVerify: true})
	if err := tc.Handshake(); err != nil {
		t.Fatalf("tls handshake: %v", err)
	}
	return &hunt3Tunnel{t: t, conn: tc, br: bufio.NewReader(tc), host: host}
}

// hunt3Plain is the plain-proxying counterpart of hunt3Tunnel: one keep-alive TCP connection to the
// proxy, absolute-form request targets.
type hunt3Plain struct {
	conn net.Conn
	br   *bufio.Reader
	host string
}

func hunt3OpenPlain(t *testing.T, env *TestEnv) *hunt3Plain {
	t.Helper()
	c, err := net.Dial("tcp", env.ProxyServer.Listener.Addr().String())
	if err != nil {
		t.Fatalf("dial proxy: %v", err)
	}
	t.Cleanup(func() { c.Close() })
	return &hunt3Plain{conn: c, br: bufio.NewReader(c), host: env.Upstream.Listener.Addr().String()}
}

func hunt3ReadOne(conn net.Conn, br *bufio.Reader, method string) (string, string, error) {
	conn.SetReadDeadline(time.Now().Add(3 * time.Second))
	defer conn.SetReadDeadline(time.Time{})
	resp, err := http.ReadResponse(br, &http.Request{Method: method})
	if err != nil {
		return "", "", err
	}
	b, err := io.ReadAll(resp.Body)
	return resp.Status, string(b), err
}

func hunt3Residual(conn net.Conn, br *bufio.Reader) string {
	conn.SetReadDeadline(time.Now().Add(400 * time.Millisecond))
	defer conn.SetReadDeadline(time.Time{})
	var sb strings.Builder
	buf := make([]byte, 4096)
	for {
		n, err := br.Read(buf)
		sb.Write(buf[:n])
		if err != nil {
			break
		}
	}
	return sb.String()
}

// The origin announces Content-Length: 300 for /short, delivers 10 bytes and drops the connection.
// Plain proxying: the proxy's net/http server notices the short write and closes the client
// connection, so response #1 ends in an unexpected EOF and nothing of response #2 can be mistaken
// for it. Tunnel: RawHTTPResponder.Write returns the error, handleCONNECT only logs it and keeps
// serving the tunnel, so the next response is written right into the hole: the client, which is
// still owed 290 body bytes of exchange #1, receives status line and headers of exchange #2 as body
// of exchange #1, and what is left over is parsed as "response #2".
func TestHunt3_TruncatedOriginBodyDesynchronisesTheTunnel(t *testing.T) {
	origin := http.HandlerFunc(func(w http.ResponseWriter, r *http.Request) {
		if r.URL.Path == "/short" {
			conn, buf, _ := w.(http.Hijacker).Hijack()
			buf.WriteString("HTTP/1.1 200 OK\r\nCache-Control: no-store\r\nContent-Length: 300\r\n\r\n0123456789")
			buf.Flush()
			conn.Close()
			return
		}
		w.Header().Set("Cache-Control", "no-store")
		w.Header().Set("X-Secret-Of", r.URL.Path)
		io.WriteString(w, "BODY-OF-"+r.URL.Path+"-"+strings.Repeat("x", 400))
	})
	env := SetupTestEnv(t)
	env.Upstream.Config.Handler = origin
	env.Start()

	// reference: plain proxying, two pipelined requests on one connection
	pl := hunt3OpenPlain(t, env)
	fmt.Fprintf(pl.conn, "GET http://%s/short HTTP/1.1\r\nHost: %s\r\n\r\nGET http://%s/second HTTP/1.1\r\nHost: %s\r\n\r\n", pl.host, pl.host, pl.host, pl.host)
	st, b, err := hunt3ReadOne(pl.conn, pl.br, "GET")
	t.Logf("plain  #1: %s body=%q err=%v", st, b, err)
	if err == nil || b != "0123456789" {
		t.Fatalf("plain proxying: expected the 10 delivered bytes and then an error")
	}

	// the same on one tunnel
	tun := hunt3OpenTunnel(t, env)
	fmt.Fprintf(tun.conn, "GET /short HTTP/1.1\r\nHost: %s\r\n\r\nGET /second HTTP/1.1\r\nHost: %s\r\n\r\n", tun.host, tun.host)
	st, b, err = hunt3ReadOne(tun.conn, tun.br, "GET")
	t.Logf("tunnel #1: %s body=%q err=%v", st, b, err)
	if err == nil && b != "0123456789" {
		t.Errorf("tunnel: response #1 (GET /short) completed \"successfully\" with %d body bytes of which only 10 came from its own exchange", len(b))
	}
	if strings.Contains(b, "X-Secret-Of: /second") || strings.Contains(b, "HTTP/1.1 200 OK") {
		t.Errorf("tunnel: status line / headers of exchange #2 were delivered as body bytes of exchange #1")
	}
	st, b2, err := hunt3ReadOne(tun.conn, tun.br, "GET")
	t.Logf("tunnel #2: %s body=%.60q err=%.60v", st, b2, err)
	if err != nil || !strings.HasPrefix(b2, "BODY-OF-/second-") {
		t.Errorf("tunnel: response #2 (GET /second) is broken: %.60v", err)
	}
}
