// package directory: tests/   (package tests)
//
// C10 hunt 3: a request with "Expect: 100-continue" is never told to continue on a CONNECT tunnel.
// Over plain HTTP the client gets "HTTP/1.1 100 Continue" as soon as the origin is ready for the body; on a
// tunnel nothing at all arrives (neither the interim nor a final response) until the client gives up waiting and
// sends the body unasked: proxy and client wait for each other.
package tests

import (
	"bufio"
	"crypto/tls"
	"fmt"
	"io"
	"net"
	"net/http"
	"net/url"
	"testing"
	"time"
)

func TestHunt3_ExpectContinueIsNotAnsweredOnTunnel(t *testing.T) {
	env := SetupTestEnv(t)
	env.Upstream.Config.Handler = http.HandlerFunc(func(w http.ResponseWriter, r *http.Request) {
		b, _ := io.ReadAll(r.Body) // reading the body makes the origin send "100 Continue"
		w.Header().Set("Content-Type", "text/plain")
		fmt.Fprintf(w, "got %q", b)
	})
	env.Start()
	up, _ := url.Parse(env.Upstream.URL)
	pu, _ := url.Parse(env.ProxyServer.URL)

	// Sends the header block, waits up to 3 seconds for the interim response, then sends the body
	// and reads the final response. Returns what arrived before the body was sent.
	exchange := func(c net.Conn, target string) (interim string, final string) {
		br := bufio.NewReader(c)
		fmt.Fprintf(c, "PUT %s HTTP/1.1\r\nHost: %s\r\nExpect: 100-continue\r\nContent-Length: 3\r\n\r\n", target, up.Host)
		c.SetReadDeadline(time.Now().Add(3 * time.Second))
		line, err := br.ReadString('\n')
		if err != nil {
			interim = "nothing within 3s (" + err.Error() + ")"
		} else {
			interim = line
			br.ReadString('\n') // the empty line that ends the interim response
		}
		io.WriteString(c, "abc")
		c.SetReadDeadline(time.Now().Add(3 * time.Second))
		resp, err := http.ReadResponse(br, &http.Request{Method: "PUT"})
		if err != nil {
			return interim, "error: " + err.Error()
		}
		b, _ := io.ReadAll(resp.Body)
		return interim, fmt.Sprintf("%d %q", resp.StatusCode, b)
	}

	pc, err := net.Dial("tcp", pu.Host)
	if err != nil {
		t.Fatal(err)
	}
	plainInterim, plainFinal := exchange(pc, "http://"+up.Host+"/upload")
	pc.Close()
	t.Logf("plain : before the body was sent: %q; final: %s", plainInterim, plainFinal)

	raw, err := net.Dial("tcp", pu.Host)
	if err != nil {
		t.Fatal(err)
	}
	fmt.Fprintf(raw, "CONNECT %s HTTP/1.1\r\nHost: %s\r\n\r\n", up.Host, up.Host)
	cr, err := http.ReadResponse(bufio.NewReader(raw), &http.Request{Method: "CONNECT"})
	if err != nil || cr.StatusCode != 200 {
		t.Fatalf("CONNECT failed: %v %v", err, cr)
	}
	tc := tls.Client(raw, &tls.Config{InsecureSkipVerify: true})
	if err := tc.Handshake(); err != nil {
		t.Fatal(err)
	}
	tunnelInterim, tunnelFinal := exchange(tc, "/upload")
	tc.Close()
	t.Logf("tunnel: before the body was sent: %q; final: %s", tunnelInterim, tunnelFinal)

	if plainInterim != "HTTP/1.1 100 Continue\r\n" {
		t.Fatalf("reference run over plain HTTP did not get 100 Continue: %q", plainInterim)
	}
	if tunnelInterim != plainInterim {
		t.Errorf("Expect: 100-continue: over plain HTTP the client is told %q, on a tunnel it gets %q", plainInterim, tunnelInterim)
	}
}
