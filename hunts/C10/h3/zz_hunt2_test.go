// package directory: tests/   (package tests)
//
// C10 hunt 2: the tunnel responder mishandles the Content-Length of responses that have no body.
//  (a) A 304 (or 204) from the origin that carries a Content-Length (RFC 9110 8.6 allows it on a 304) is relayed,
//      but the write "fails" afterwards (ContentLength=N with Body length 0), the proxy takes the response for
//      incomplete and drops the tunnel: the NEXT request on the kept-alive tunnel is never answered. Over plain HTTP
//      and over one tunnel per request the same sequence is answered completely.
//  (b) A HEAD for a resource of unannounced length is answered with an invented "Content-Length: 0" on a tunnel,
//      and without any Content-Length over plain HTTP.
package tests

import (
	"bufio"
	"crypto/tls"
	"fmt"
	"io"
	"net"
	"net/http"
	"net/url"
	"strings"
	"testing"
	"time"
)

// An origin that writes its responses byte by byte as given.
func h2RawOrigin(t *testing.T, answer func(req *http.Request) string) string {
	ln, err := net.Listen("tcp", "127.0.0.1:0")
	if err != nil {
		t.Fatal(err)
	}
	t.Cleanup(func() { ln.Close() })
	go func() {
		for {
			c, err := ln.Accept()
			if err != nil {
				return
			}
			go func(c net.Conn) {
				defer c.Close()
				br := bufio.NewReader(c)
				for {
					req, err := http.ReadRequest(br)
					if err != nil {
						return
					}
					io.Copy(io.Discard, req.Body)
					io.WriteString(c, answer(req))
				}
			}(c)
		}
	}()
	return ln.Addr().String()
}

func h2Tunnel(t *testing.T, proxyHost, target string) net.Conn {
	raw, err := net.Dial("tcp", proxyHost)
	if err != nil {
		t.Fatal(err)
	}
	fmt.Fprintf(raw, "CONNECT %s HTTP/1.1\r\nHost: %s\r\n\r\n", target, target)
	cr, err := http.ReadResponse(bufio.NewReader(raw), &http.Request{Method: "CONNECT"})
	if err != nil || cr.StatusCode != 200 {
		t.Fatalf("CONNECT failed: %v %v", err, cr)
	}
	tc := tls.Client(raw, &tls.Config{InsecureSkipVerify: true})
	if err := tc.Handshake(); err != nil {
		t.Fatal(err)
	}
	return tc
}

type h2Answer struct {
	status int
	cl     []string
	body   string
	err    error
}

func (a h2Answer) String() string {
	if a.err != nil {
		return "NO ANSWER: " + a.err.Error()
	}
	return fmt.Sprintf("%d Content-Length=%q body=%q", a.status, a.cl, a.body)
}

func h2Exchange(c net.Conn, br *bufio.Reader, method, text string) h2Answer {
	io.WriteString(c, text)
	c.SetReadDeadline(time.Now().Add(3 * time.Second))
	resp, err := http.ReadResponse(br, &http.Request{Method: method})
	if err != nil {
		return h2Answer{err: err}
	}
	b, err := io.ReadAll(resp.Body)
	if err != nil {
		return h2Answer{err: err}
	}
	return h2Answer{status: resp.StatusCode, cl: resp.Header["Content-Length"], body: string(b)}
}

func TestHunt2a_BodilessStatusWithContentLengthKillsTunnel(t *testing.T) {
	answer := func(req *http.Request) string {
		switch req.URL.Path {
		case "/304":
			return "HTTP/1.1 304 Not Modified\r\nETag: \"v1\"\r\nContent-Length: 10\r\n\r\n"
		case "/204":
			return "HTTP/1.1 204 No Content\r\nContent-Length: 10\r\n\r\n"
		}
		return "HTTP/1.1 200 OK\r\nCache-Control: no-store\r\nContent-Length: 2\r\n\r\nok"
	}
	for _, status := range []string{"304", "204"} {
		// the sequence: an ordinary GET, the request answered without a body, an ordinary GET
		seq := func(prefix, host string) [][2]string {
			return [][2]string{
				{"GET", "GET " + prefix + "/a HTTP/1.1\r\nHost: " + host + "\r\n\r\n"},
				{"PUT", "PUT " + prefix + "/" + status + " HTTP/1.1\r\nHost: " + host + "\r\nIf-None-Match: \"v1\"\r\nContent-Length: 0\r\n\r\n"},
				{"GET", "GET " + prefix + "/b HTTP/1.1\r\nHost: " + host + "\r\n\r\n"},
			}
		}
		run := func(mode string) []h2Answer {
			env := SetupTestEnv(t)
			env.Start()
			origin := h2RawOrigin(t, answer)
			pu, _ := url.Parse(env.ProxyServer.URL)
			var out []h2Answer
			switch mode {
			case "plain":
				c, err := net.Dial("tcp", pu.Host)
				if err != nil {
					t.Fatal(err)
				}
				defer c.Close()
				br := bufio.NewReader(c)
				for _, rq := range seq("http://"+origin, origin) {
					out = append(out, h2Exchange(c, br, rq[0], rq[1]))
				}
			case "one tunnel":
				c := h2Tunnel(t, pu.Host, origin)
				defer c.Close()
				br := bufio.NewReader(c)
				for _, rq := range seq("", origin) {
					out = append(out, h2Exchange(c, br, rq[0], rq[1]))
				}
			case "tunnel per request":
				for _, rq := range seq("", origin) {
					c := h2Tunnel(t, pu.Host, origin)
					out = append(out, h2Exchange(c, bufio.NewReader(c), rq[0], rq[1]))
					c.Close()
				}
			}
			return out
		}
		plain, one, per := run("plain"), run("one tunnel"), run("tunnel per request")
		for i := range plain {
			t.Logf("origin answers %s with Content-Length: exchange %d: plain: %v | one tunnel: %v | tunnel per request: %v", status, i, plain[i], one[i], per[i])
		}
		// the exchange AFTER the bodiless one
		if plain[2].err != nil || per[2].err != nil {
			t.Fatalf("reference runs failed: %v / %v", plain[2], per[2])
		}
		if one[2].err != nil || one[2].status != plain[2].status || one[2].body != plain[2].body {
			t.Errorf("origin answers %s with Content-Length: the request after it on the same tunnel got %v, but %v over plain HTTP and %v on a tunnel of its own",
				status, one[2], plain[2], per[2])
		}
	}
}

func TestHunt2b_HeadOnTunnelGetsInventedContentLengthZero(t *testing.T) {
	for _, cc := range []string{"max-age=60", "no-store"} {
		env := SetupTestEnv(t)
		env.Upstream.Config.Handler = http.HandlerFunc(func(w http.ResponseWriter, r *http.Request) {
			// length not announced: sent chunked on GET, and without Content-Length on HEAD
			w.Header().Set("Cache-Control", cc)
			w.Header().Set("Content-Type", "text/plain")
			w.(http.Flusher).Flush()
			io.WriteString(w, strings.Repeat("x", 5000))
		})
		env.Start()
		up, _ := url.Parse(env.Upstream.URL)
		pu, _ := url.Parse(env.ProxyServer.URL)

		pc, err := net.Dial("tcp", pu.Host)
		if err != nil {
			t.Fatal(err)
		}
		plain := h2Exchange(pc, bufio.NewReader(pc), "HEAD", "HEAD http://"+up.Host+"/r HTTP/1.1\r\nHost: "+up.Host+"\r\n\r\n")
		pc.Close()

		tc := h2Tunnel(t, pu.Host, up.Host)
		tunnel := h2Exchange(tc, bufio.NewReader(tc), "HEAD", "HEAD /r HTTP/1.1\r\nHost: "+up.Host+"\r\n\r\n")
		tc.Close()

		t.Logf("origin Cache-Control %s: HEAD over plain: %v | on a tunnel: %v", cc, plain, tunnel)
		if fmt.Sprint(plain.cl) != fmt.Sprint(tunnel.cl) {
			t.Errorf("origin Cache-Control %s: HEAD of a 5000-byte resource of unannounced length: Content-Length is %q on a tunnel and %q over plain HTTP",
				cc, tunnel.cl, plain.cl)
		}
	}
}
