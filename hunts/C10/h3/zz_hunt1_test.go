// package directory: tests/   (package tests)
//
// C10 hunt 1: an HTTP/1.0 request on a CONNECT tunnel is answered with "HTTP/1.1 ... Transfer-Encoding: chunked"
// whenever the length of the response is not known, so the HTTP/1.0 client receives the chunk framing as
// body bytes (and the end of the body is never signalled). The same request over plain HTTP gets a clean body.
package tests

import (
	"bufio"
	"crypto/tls"
	"fmt"
	"io"
	"net"
	"net/http"
	"net/url"
	"strings"
	"testing"
	"time"
)

func h1Upstream() http.Handler {
	return http.HandlerFunc(func(w http.ResponseWriter, r *http.Request) {
		// a resource whose length the origin does not announce (sent chunked to the proxy)
		w.Header().Set("Cache-Control", "max-age=60")
		w.Header().Set("Content-Type", "text/plain")
		w.(http.Flusher).Flush()
		io.WriteString(w, "abcdefghij")
	})
}

// What an HTTP/1.0 client makes of the answer: the header block, then Content-Length bytes if a length is
// given, otherwise everything up to the end of the connection (HTTP/1.0 knows no other framing).
func h1ReadAsHTTP10(t *testing.T, c net.Conn) (head string, body string, closed bool) {
	c.SetReadDeadline(time.Now().Add(2 * time.Second))
	br := bufio.NewReader(c)
	cl := -1
	for {
		line, err := br.ReadString('\n')
		if err != nil {
			t.Fatalf("reading response head: %v (so far %q)", err, head)
		}
		head += line
		if line == "\r\n" {
			break
		}
		if k, v, ok := strings.Cut(line, ":"); ok && strings.EqualFold(k, "Content-Length") {
			fmt.Sscanf(strings.TrimSpace(v), "%d", &cl)
		}
	}
	if cl >= 0 {
		buf := make([]byte, cl)
		_, err := io.ReadFull(br, buf)
		if err != nil {
			t.Fatalf("reading sized body: %v", err)
		}
		return head, string(buf), false
	}
	b, err := io.ReadAll(br)
	return head, string(b), err == nil
}

func h1Check(t *testing.T, how string, head, body string, closed bool) {
	t.Logf("%s: head:\n%s%s: body bytes seen by the HTTP/1.0 client: %q (end of body signalled: %v)", how, head, how, body, closed)
	if strings.Contains(strings.ToLower(head), "transfer-encoding") {
		t.Errorf("%s: the answer to an HTTP/1.0 request uses a transfer coding, which HTTP/1.0 does not have", how)
	}
	if body != "abcdefghij" {
		t.Errorf("%s: body is %q, want %q", how, body, "abcdefghij")
	}
}

func TestHunt1_HTTP10OnTunnelGetsChunkFraming(t *testing.T) {
	for _, round := range []string{"miss", "hit"} {
		env := SetupTestEnv(t)
		env.Upstream.Config.Handler = h1Upstream()
		env.Start()
		up, _ := url.Parse(env.Upstream.URL)
		pu, _ := url.Parse(env.ProxyServer.URL)

		if round == "hit" {
			// fill the cache first, so the answers below come from the store
			for _, path := range []string{"/p", "/t"} {
				resp, err := env.Client.Get(env.Upstream.URL + path)
				if err != nil {
					t.Fatal(err)
				}
				io.Copy(io.Discard, resp.Body)
				resp.Body.Close()
			}
		}

		// plain proxying
		pc, err := net.Dial("tcp", pu.Host)
		if err != nil {
			t.Fatal(err)
		}
		fmt.Fprintf(pc, "GET http://%s/p HTTP/1.0\r\nHost: %s\r\n\r\n", up.Host, up.Host)
		head, body, closed := h1ReadAsHTTP10(t, pc)
		pc.Close()
		h1Check(t, round+"/plain", head, body, closed)

		// the same request on a CONNECT tunnel
		raw, err := net.Dial("tcp", pu.Host)
		if err != nil {
			t.Fatal(err)
		}
		fmt.Fprintf(raw, "CONNECT %s HTTP/1.1\r\nHost: %s\r\n\r\n", up.Host, up.Host)
		cr, err := http.ReadResponse(bufio.NewReader(raw), &http.Request{Method: "CONNECT"})
		if err != nil || cr.StatusCode != 200 {
			t.Fatalf("CONNECT failed: %v %v", err, cr)
		}
		tc := tls.Client(raw, &tls.Config{InsecureSkipVerify: true})
		if err := tc.Handshake(); err != nil {
			t.Fatal(err)
		}
		fmt.Fprintf(tc, "GET /t HTTP/1.0\r\nHost: %s\r\n\r\n", up.Host)
		head, body, closed = h1ReadAsHTTP10(t, tc)
		tc.Close()
		h1Check(t, round+"/tunnel", head, body, closed)
	}
}
