// package directory: tests/   (self-contained; run: go test -vet=off -count=1 -run 'TestHunt2' ./tests/)
package tests

// C13 finding 2: both cache backends read the origin's response body while holding the lock shard
// of the key being stored (FileCache.Cache: io.Copy under lock; MemoryCache.cacheInternal:
// buf.ReadFrom under lock). The janitor only TryLock()s, so for as long as one slow download is in
// progress every cleanup cycle skips the expired entries that share the lock shard with it (and the
// size eviction of the cycle skips them too): cycles run, the lifetime has elapsed, nothing is removed.

import (
	"context"
	"fmt"
	"io"
	"log/slog"
	"net/http"
	"net/http/httptest"
	"net/url"
	"os"
	"path/filepath"
	"reservoir/cache"
	"reservoir/config"
	"reservoir/metrics"
	"reservoir/proxy"
	"reservoir/utils"
	"reservoir/utils/bytesize"
	"reservoir/utils/duration"
	"strings"
	"sync"
	"testing"
	"time"
)

type hunt2xEnv struct {
	upstream *httptest.Server
	proxySrv *httptest.Server
	client   *http.Client
	cfg      *config.Config
	cacheDir string
	shards   int

	mu   sync.Mutex
	hits map[string]int
}

// Same construction as SetupTestEnv, but the cache settings are chosen by the caller
// (they are what a config file would contain) and logging goes nowhere.
func hunt2xSetup(t *testing.T, cacheType config.CacheType, shards int, maxSize string, interval time.Duration, handler func(e *hunt2xEnv, w http.ResponseWriter, r *http.Request)) *hunt2xEnv {
	slog.SetDefault(slog.New(slog.NewTextHandler(io.Discard, nil)))

	e := &hunt2xEnv{cacheDir: t.TempDir(), shards: shards, hits: map[string]int{}}

	cfg := config.NewDefault()
	cfg.Proxy.UpstreamDefaultHttps.Overwrite(false)
	cfg.Proxy.CachePolicy.IgnoreCacheControl.Overwrite(false) // as in SetupTestEnv: honour the origin's max-age
	cfg.Proxy.CachePolicy.ForceDefaultMaxAge.Overwrite(false)
	cfg.Cache.File.Dir.Overwrite(e.cacheDir)
	cfg.Cache.Type.Overwrite(cacheType)
	cfg.Cache.LockShards.Overwrite(shards)
	cfg.Cache.MaxCacheSize.Overwrite(bytesize.ParseUnchecked(maxSize))
	cfg.Cache.CleanupInterval.Overwrite(duration.Duration(interval))
	e.cfg = cfg

	ctx, cancel := context.WithCancel(context.Background())
	p, err := proxy.NewProxy(cfg, &FakeCA{}, ctx)
	if err != nil {
		t.Fatalf("NewProxy: %v", err)
	}

	e.upstream = httptest.NewServer(http.HandlerFunc(func(w http.ResponseWriter, r *http.Request) {
		e.mu.Lock()
		e.hits[r.URL.Path]++
		e.mu.Unlock()
		handler(e, w, r)
	}))
	e.proxySrv = httptest.NewServer(p)
	proxyURL, _ := url.Parse(e.proxySrv.URL)
	e.client = &http.Client{Timeout: 20 * time.Second, Transport: &http.Transport{Proxy: http.ProxyURL(proxyURL)}}

	t.Cleanup(func() {
		e.client.Transport.(*http.Transport).CloseIdleConnections()
		e.proxySrv.Close()
		e.upstream.Close()
		time.Sleep(50 * time.Millisecond)
		p.Destroy()
		cancel()
	})
	return e
}

func (e *hunt2xEnv) upstreamHits(path string) int {
	e.mu.Lock()
	defer e.mu.Unlock()
	return e.hits[path]
}

// The cache key the proxy computes for GET <upstream>/<path>, and its lock shard.
func (e *hunt2xEnv) key(path string) cache.CacheKey {
	req, _ := http.NewRequest(http.MethodGet, e.upstream.URL+path, nil)
	return cache.MakeFromRequest(req)
}

func (e *hunt2xEnv) shard(path string) uint32 {
	return utils.Hex8ToIndex(e.key(path).Hex) % uint32(e.shards)
}

// Finds a path with the given prefix whose key is (same=true) / is not (same=false) in the given shard.
func (e *hunt2xEnv) findPath(prefix string, shard uint32, same bool) string {
	for i := 0; ; i++ {
		p := fmt.Sprintf("%s-%d", prefix, i)
		if (e.shard(p) == shard) == same {
			return p
		}
	}
}

// GET through the proxy; returns the X-Cache header (HIT / MISS / REVALIDATED).
func (e *hunt2xEnv) get(t *testing.T, path string) string {
	t.Helper()
	resp, err := e.client.Get(e.upstream.URL + path)
	if err != nil {
		t.Fatalf("GET %s: %v", path, err)
	}
	io.Copy(io.Discard, resp.Body)
	resp.Body.Close()
	if resp.StatusCode != 200 {
		t.Fatalf("GET %s: status %d", path, resp.StatusCode)
	}
	return resp.Header.Get("X-Cache")
}

func hunt2Run(t *testing.T, cacheType config.CacheType, slowSharesShard bool) {
	started := make(chan struct{}, 1)
	release := make(chan struct{})

	handler := func(e *hunt2xEnv, w http.ResponseWriter, r *http.Request) {
		if strings.HasPrefix(r.URL.Path, "/slow") {
			// A slow origin: headers and the first bytes arrive, the rest takes its time.
			w.Header().Set("Cache-Control", "max-age=600")
			w.Header().Set("Content-Length", "200")
			w.Write([]byte(strings.Repeat("s", 100)))
			w.(http.Flusher).Flush()
			started <- struct{}{}
			<-release
			w.Write([]byte(strings.Repeat("s", 100)))
			return
		}
		w.Header().Set("Cache-Control", "max-age=1") // lifetime: one second
		w.Write([]byte(strings.Repeat("e", 100)))
	}

	// cleanup_interval 100ms, limit far away (10M): only the expiry part of the cycle matters.
	e := hunt2xSetup(t, cacheType, 1024, "10M", 100*time.Millisecond, handler)

	pExp := "/exp-0"
	pSlow := e.findPath("/slow", e.shard(pExp), slowSharesShard)

	entriesBefore := metrics.Global.Cache.CacheEntries.Get()
	if xc := e.get(t, pExp); xc != "MISS" {
		t.Fatalf("GET %s: X-Cache %q", pExp, xc)
	}
	storedAt := time.Now()
	expFile := filepath.Join(e.cacheDir, e.key(pExp).Hex)

	present := func() bool {
		if cacheType == config.CacheTypeFile {
			_, err := os.Stat(expFile)
			return err == nil
		}
		// memory backend: the entries gauge; the slow download is not an entry until it completes
		return metrics.Global.Cache.CacheEntries.Get()-entriesBefore >= 1
	}
	if !present() {
		t.Fatalf("setup: entry for %s not stored", pExp)
	}

	done := make(chan string, 1)
	go func() { done <- e.get(t, pSlow) }()
	<-started
	time.Sleep(100 * time.Millisecond) // the proxy is now reading the slow body

	// Let the entry expire and give the janitor plenty of cycles after that.
	time.Sleep(time.Until(storedAt.Add(1900 * time.Millisecond)))
	runsBefore := metrics.Global.Cache.CleanupRuns.Get()
	time.Sleep(600 * time.Millisecond)
	runs := metrics.Global.Cache.CleanupRuns.Get() - runsBefore

	stillThere := present()
	t.Logf("backend=%s shard(exp)=%d shard(slow)=%d: %v after expiry, %d cleanup cycles in the last 600ms, expired entry present=%v",
		cacheType, e.shard(pExp), e.shard(pSlow), time.Since(storedAt.Add(time.Second)).Round(10*time.Millisecond), runs, stillThere)
	if runs < 3 {
		t.Fatalf("janitor did not run (%d cycles)", runs)
	}
	if stillThere {
		t.Errorf("entry expired %v ago and %d cleanup cycles completed since, but it has not been removed",
			time.Since(storedAt.Add(time.Second)).Round(10*time.Millisecond), runs)
	}

	close(release)
	<-done
	time.Sleep(400 * time.Millisecond)
	if cacheType == config.CacheTypeFile {
		if _, err := os.Stat(expFile); err == nil {
			t.Errorf("expired entry still present after the slow download finished")
		} else {
			t.Logf("after the slow download finished the expired entry was removed by the next cycle")
		}
	}
}

func TestHunt2_FileCache_CleanupSkipsExpiredEntryDuringSlowDownload(t *testing.T) {
	hunt2Run(t, config.CacheTypeFile, true)
}

func TestHunt2_MemoryCache_CleanupSkipsExpiredEntryDuringSlowDownload(t *testing.T) {
	hunt2Run(t, config.CacheTypeMemory, true)
}

// Control (passes): the same history with the slow download in another lock shard.
func TestHunt2Control_OtherShard(t *testing.T) {
	hunt2Run(t, config.CacheTypeFile, false)
	hunt2Run(t, config.CacheTypeMemory, false)
}
