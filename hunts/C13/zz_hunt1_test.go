// package directory: tests/   (run: go test -vet=off -count=1 -run 'TestHunt1' ./tests/)
package tests

// C13 finding 1: with the memory cache, a store that finds the cache at/over its limit runs the
// eviction while it holds the lock shard of the key being stored (MemoryCache.Cache ->
// cacheInternal -> janitor.evict). evict() only TryLock()s its candidates, so every entry that
// lives in the same lock shard as the new key is skipped:
//   - the least-recently-used entry survives and a more recently used one is evicted instead;
//   - with cache.lock_shards = 1 (accepted by config verification) nothing at all is evicted,
//     the cache stays over its limit and the new response is not stored.

import (
	"context"
	"fmt"
	"io"
	"log/slog"
	"net/http"
	"net/http/httptest"
	"net/url"
	"reservoir/cache"
	"reservoir/config"
	"reservoir/metrics"
	"reservoir/proxy"
	"reservoir/utils"
	"reservoir/utils/bytesize"
	"reservoir/utils/duration"
	"strings"
	"sync"
	"testing"
	"time"
)

type hunt1xEnv struct {
	upstream *httptest.Server
	proxySrv *httptest.Server
	client   *http.Client
	cfg      *config.Config
	cacheDir string
	shards   int

	mu   sync.Mutex
	hits map[string]int
}

// Same construction as SetupTestEnv, but the cache settings are chosen by the caller
// (they are what a config file would contain) and logging goes nowhere.
func hunt1xSetup(t *testing.T, cacheType config.CacheType, shards int, maxSize string, interval time.Duration, handler func(e *hunt1xEnv, w http.ResponseWriter, r *http.Request)) *hunt1xEnv {
	slog.SetDefault(slog.New(slog.NewTextHandler(io.Discard, nil)))

	e := &hunt1xEnv{cacheDir: t.TempDir(), shards: shards, hits: map[string]int{}}

	cfg := config.NewDefault()
	cfg.Proxy.UpstreamDefaultHttps.Overwrite(false)
	cfg.Proxy.CachePolicy.IgnoreCacheControl.Overwrite(false) // as in SetupTestEnv: honour the origin's max-age
	cfg.Proxy.CachePolicy.ForceDefaultMaxAge.Overwrite(false)
	cfg.Cache.File.Dir.Overwrite(e.cacheDir)
	cfg.Cache.Type.Overwrite(cacheType)
	cfg.Cache.LockShards.Overwrite(shards)
	cfg.Cache.MaxCacheSize.Overwrite(bytesize.ParseUnchecked(maxSize))
	cfg.Cache.CleanupInterval.Overwrite(duration.Duration(interval))
	e.cfg = cfg

	ctx, cancel := context.WithCancel(context.Background())
	p, err := proxy.NewProxy(cfg, &FakeCA{}, ctx)
	if err != nil {
		t.Fatalf("NewProxy: %v", err)
	}

	e.upstream = httptest.NewServer(http.HandlerFunc(func(w http.ResponseWriter, r *http.Request) {
		e.mu.Lock()
		e.hits[r.URL.Path]++
		e.mu.Unlock()
		handler(e, w, r)
	}))
	e.proxySrv = httptest.NewServer(p)
	proxyURL, _ := url.Parse(e.proxySrv.URL)
	e.client = &http.Client{Timeout: 20 * time.Second, Transport: &http.Transport{Proxy: http.ProxyURL(proxyURL)}}

	t.Cleanup(func() {
		e.client.Transport.(*http.Transport).CloseIdleConnections()
		e.proxySrv.Close()
		e.upstream.Close()
		time.Sleep(50 * time.Millisecond)
		p.Destroy()
		cancel()
	})
	return e
}

func (e *hunt1xEnv) upstreamHits(path string) int {
	e.mu.Lock()
	defer e.mu.Unlock()
	return e.hits[path]
}

// The cache key the proxy computes for GET <upstream>/<path>, and its lock shard.
func (e *hunt1xEnv) key(path string) cache.CacheKey {
	req, _ := http.NewRequest(http.MethodGet, e.upstream.URL+path, nil)
	return cache.MakeFromRequest(req)
}

func (e *hunt1xEnv) shard(path string) uint32 {
	return utils.Hex8ToIndex(e.key(path).Hex) % uint32(e.shards)
}

// Finds a path with the given prefix whose key is (same=true) / is not (same=false) in the given shard.
func (e *hunt1xEnv) findPath(prefix string, shard uint32, same bool) string {
	for i := 0; ; i++ {
		p := fmt.Sprintf("%s-%d", prefix, i)
		if (e.shard(p) == shard) == same {
			return p
		}
	}
}

// GET through the proxy; returns the X-Cache header (HIT / MISS / REVALIDATED).
func (e *hunt1xEnv) get(t *testing.T, path string) string {
	t.Helper()
	resp, err := e.client.Get(e.upstream.URL + path)
	if err != nil {
		t.Fatalf("GET %s: %v", path, err)
	}
	io.Copy(io.Discard, resp.Body)
	resp.Body.Close()
	if resp.StatusCode != 200 {
		t.Fatalf("GET %s: status %d", path, resp.StatusCode)
	}
	return resp.Header.Get("X-Cache")
}

func hunt1xBody(n int) func(e *hunt1xEnv, w http.ResponseWriter, r *http.Request) {
	return func(e *hunt1xEnv, w http.ResponseWriter, r *http.Request) {
		w.Header().Set("Cache-Control", "max-age=600")
		w.Write([]byte(strings.Repeat("x", n)))
	}
}

// Limit 4K, target 3276. A, B, C (1500 bytes each, used in that order) fill the cache to 4500.
// Storing N must evict exactly the least-recently-used entry A (4500 -> 3000 <= 3276) and stop.
// N's key shares a lock shard with A's key (1 key in 1024 does with the default cache.lock_shards; a client chooses its URLs).
func hunt1Fill(t *testing.T, nSharesShardWithA bool) (e *hunt1xEnv, pA, pB, pC, pN string) {
	e = hunt1xSetup(t, config.CacheTypeMemory, 1024, "4K", time.Hour, hunt1xBody(1500))
	pA = "/a-0"
	sA := e.shard(pA)
	pN = e.findPath("/n", sA, nSharesShardWithA)
	pB = e.findPath("/b", sA, false)
	pC = e.findPath("/c", sA, false)

	for _, p := range []string{pA, pB, pC} {
		if xc := e.get(t, p); xc != "MISS" {
			t.Fatalf("setup: first GET %s: X-Cache %q", p, xc)
		}
		time.Sleep(80 * time.Millisecond) // distinct LastAccess, A oldest
	}
	for _, p := range []string{pA, pB, pC} { // all three are stored; the accesses keep the order A < B < C
		if xc := e.get(t, p); xc != "HIT" {
			t.Fatalf("setup: second GET %s: X-Cache %q", p, xc)
		}
		time.Sleep(80 * time.Millisecond)
	}

	evBefore := metrics.Global.Cache.CacheEvictions.Get()
	if xc := e.get(t, pN); xc != "MISS" { // the store at 4500 >= 4096
		t.Fatalf("GET %s: X-Cache %q", pN, xc)
	}
	if d := metrics.Global.Cache.CacheEvictions.Get() - evBefore; d != 1 {
		t.Fatalf("expected exactly one eviction by the store of N, got %d", d)
	}
	return
}

func TestHunt1_StoreEvictsNewerEntryInsteadOfLRU(t *testing.T) {
	e, pA, pB, _, pN := hunt1Fill(t, true)
	t.Logf("shards: A=%d N=%d B=%d", e.shard(pA), e.shard(pN), e.shard(pB))
	// One entry was evicted. B was used after A, so B must still be there.
	if xc := e.get(t, pB); xc != "HIT" {
		t.Errorf("B (used more recently than A) was evicted by the store of N: X-Cache %q, upstream hits for B = %d", xc, e.upstreamHits(pB))
	}
}

func TestHunt1_LRUEntrySurvivesStore(t *testing.T) {
	e, pA, _, _, _ := hunt1Fill(t, true)
	// One entry was evicted, and it must have been A, the least recently used one.
	if xc := e.get(t, pA); xc != "MISS" {
		t.Errorf("A (least recently used) survived the eviction run of the store: X-Cache %q, upstream hits for A = %d", xc, e.upstreamHits(pA))
	}
}

// Control (passes): the same history with N in another lock shard than A evicts A and keeps B.
func TestHunt1Control_OtherShardEvictsLRU(t *testing.T) {
	e, _, pB, _, _ := hunt1Fill(t, false)
	if xc := e.get(t, pB); xc != "HIT" {
		t.Errorf("control: B evicted: X-Cache %q", xc)
	}
	e2, pA2, _, _, _ := hunt1Fill(t, false)
	if xc := e2.get(t, pA2); xc != "MISS" {
		t.Errorf("control: A not evicted: X-Cache %q", xc)
	}
}

// cache.lock_shards = 1: every key shares the one lock, so a store never evicts anything.
func TestHunt1_SingleShardStoreNeverEvicts(t *testing.T) {
	e := hunt1xSetup(t, config.CacheTypeMemory, 1, "1K", time.Hour, hunt1xBody(600))

	e.get(t, "/one")
	time.Sleep(50 * time.Millisecond)
	e.get(t, "/two") // 1200 >= 1024: at/over the limit from here on

	evBefore := metrics.Global.Cache.CacheEvictions.Get()
	e.get(t, "/three") // "the next store ... evicts down to 80% of the limit" (819): /one has to go
	evicted := metrics.Global.Cache.CacheEvictions.Get() - evBefore

	if evicted == 0 {
		t.Errorf("store at 1200/1024 bytes evicted nothing")
	}
	if xc := e.get(t, "/one"); xc != "MISS" {
		t.Errorf("/one (LRU) still cached after a store over the limit: X-Cache %q", xc)
	}
	if xc := e.get(t, "/three"); xc != "HIT" {
		t.Errorf("/three was not stored (upstream hits = %d): X-Cache %q", e.upstreamHits("/three"), xc)
	}
}
