// package directory: cache/
package cache

import (
	"bytes"
	"encoding/json"
	"fmt"
	"io"
	"log/slog"
	"reservoir/config"
	"testing"
	"time"
)

// A fresh overwrite that lands between the scan of the periodic cycle's eviction and the removal of that
// entry is evicted, although it is by then the most recently used entry of the whole store and thousands of
// entries that have not been used for longer are kept: evict() decides on the copies it took during its scan
// (cache_janitor.go:173-186) and removes by key without looking at the entry again (cache_janitor.go:205-209);
// only the expiry half of the cycle re-checks under the key's lock (cache_janitor.go:138-144).
//
// No instrumentation and no slow origin: the overwrite is an ordinary store that begins after the eviction has
// begun (the byte counter has dropped, so the store is below its limit again and this store does not evict by
// itself) and is complete long before the eviction gets to that key. The entry is not in use when the cycle
// starts, not when it is scanned and not when it is removed.
func huntFreshOverwriteEvictedByCycle(t *testing.T, cacheType string, total, g1 int) {
	slog.SetDefault(slog.New(slog.NewTextHandler(io.Discard, nil)))

	const size = 100
	limit := int64(total * size)

	cfg := config.NewDefault()
	if err := json.Unmarshal([]byte(fmt.Sprintf(`{"cache":{"type":%q,"max_cache_size":"%dB","cleanup_interval":"1h"}}`, cacheType, limit)), cfg); err != nil {
		t.Fatal(err)
	}
	// constructed the way proxy.NewProxy does
	var c Cache[TestMeta]
	var byteSize func() int64
	var has func(name string) bool
	if cacheType == "file" {
		fc := NewFileCache[TestMeta](cfg, t.TempDir(), cfg.Cache.MaxCacheSize.Read().Bytes(), cfg.Cache.CleanupInterval.Read().Cast(), cfg.Cache.LockShards.Read(), t.Context())
		c, byteSize = fc, fc.byteSize.Get
		has = func(name string) bool {
			fc.mu.RLock()
			defer fc.mu.RUnlock()
			_, ok := fc.entriesMetadata[FromString(name)]
			return ok
		}
	} else {
		mc := NewMemoryCache[TestMeta](cfg, cfg.Cache.Memory.MemoryBudgetPercent.Read(), cfg.Cache.MaxCacheSize.Read().Bytes(), cfg.Cache.CleanupInterval.Read().Cast(), cfg.Cache.LockShards.Read(), t.Context())
		c, byteSize = mc, mc.byteSize.Get
		has = func(name string) bool {
			mc.mu.RLock()
			defer mc.mu.RUnlock()
			_, ok := mc.entries[FromString(name)]
			return ok
		}
	}
	defer c.Destroy()

	store := func(name string, body []byte) {
		e, err := c.Cache(FromString(name), bytes.NewReader(body), time.Now().Add(time.Hour), TestMeta{ID: name})
		if err != nil {
			t.Errorf("store %s: %v", name, err)
			return
		}
		e.Data.Close()
	}

	// Order of use: group 1 (oldest), then A, then group 2. The groups are separated by pauses,
	// so that the order between a group and A does not depend on sub-millisecond differences.
	for i := 0; i < g1; i++ {
		store(fmt.Sprintf("g1-%d", i), make([]byte, size))
	}
	time.Sleep(20 * time.Millisecond)
	store("A", bytes.Repeat([]byte("o"), size))
	time.Sleep(20 * time.Millisecond)
	g2 := total - g1 - 1
	for i := 0; i < g2; i++ {
		store(fmt.Sprintf("g2-%d", i), make([]byte, size))
	}
	// The store is exactly at its limit now (the last store did not evict: it started below the limit).
	if got := byteSize(); got != limit {
		t.Fatalf("size %d", got)
	}

	// As soon as the eviction of the coming cycle is seen to be under way, A is stored again (fresh body, fresh lifetime).
	sizeCh := make(chan int64, 1)
	go func() {
		for byteSize() >= limit {
			time.Sleep(10 * time.Microsecond)
		}
		store("A", bytes.Repeat([]byte("N"), size))
		sizeCh <- byteSize()
	}()

	// The interval is changed at run time; the following cycle finds the store at its limit.
	if _, err := config.UpdatePartialFromConfig(cfg, map[string]any{"cache": map[string]any{"cleanup_interval": "200ms"}}); err != nil {
		t.Fatal(err)
	}
	sizeAtOverwrite := <-sizeCh
	time.Sleep(100 * time.Millisecond) // let the eviction finish
	for i := 0; i < 100 && byteSize() > limit*8/10; i++ {
		time.Sleep(10 * time.Millisecond)
	}

	// The overwrite was complete while group 1 was still being removed, i.e. before A's turn.
	if sizeAtOverwrite <= limit-int64(g1*size) {
		t.Skipf("the overwrite came too late for this run (size %d)", sizeAtOverwrite)
	}
	t.Logf("%s cache: overwrite complete when the store held %d bytes (group 1 is gone at %d); final size %d, target %d",
		cacheType, sizeAtOverwrite, limit-int64(g1*size), byteSize(), limit*8/10)

	survivorsG2 := 0
	for i := 0; i < g2; i++ {
		if has(fmt.Sprintf("g2-%d", i)) {
			survivorsG2++
		}
	}
	if !has("A") {
		t.Errorf("the freshly overwritten entry A (most recently used of all) was evicted by the cleanup cycle, while %d entries of group 2, all of them unused for longer, were kept", survivorsG2)
	}
}

func TestHuntFreshOverwriteEvictedByCycle_File(t *testing.T) {
	huntFreshOverwriteEvictedByCycle(t, "file", 10000, 1500)
}

func TestHuntFreshOverwriteEvictedByCycle_Memory(t *testing.T) {
	huntFreshOverwriteEvictedByCycle(t, "memory", 200000, 30000)
}
