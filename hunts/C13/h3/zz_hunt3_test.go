// package directory: cache/
package cache

import (
	"encoding/json"
	"fmt"
	"io"
	"reservoir/config"
	"testing"
	"time"

	"github.com/shirou/gopsutil/v4/mem"
)

type zeroReader struct{}

func (zeroReader) Read(p []byte) (int, error) {
	clear(p)
	return len(p), nil
}

// The memory cache has two configured limits: cache.max_cache_size and cache.memory.memory_budget_percent;
// the size it "may grow to" is the smaller of the two (memory_cache.go:165-168) and a store evicts down to
// 80 % of THAT. The periodic cleanup cycle, however, only ever compares with cache.max_cache_size
// (cache_janitor.go:228-237). With the memory budget as the binding limit (default configuration on any
// machine with less than 13.3 GB of memory: 75 % of it is less than the default 10G) the store sits at or over
// its limit for as many cleanup cycles as one cares to wait, nothing is evicted; and when the next store comes
// it evicts although the store is far below cache.max_cache_size.
func TestHuntMemoryBudgetIgnoredByCleanupCycle(t *testing.T) {
	sysMem, err := mem.VirtualMemory()
	if err != nil {
		t.Skip(err)
	}

	cfg := config.NewDefault()
	// what the config file would say: default 10G maximum, 1 % memory budget, a cleanup cycle every 100 ms
	if err := json.Unmarshal([]byte(`{"cache":{"max_cache_size":"10G","cleanup_interval":"100ms","memory":{"memory_budget_percent":1}}}`), cfg); err != nil {
		t.Fatal(err)
	}

	// constructed the way proxy.NewProxy does
	c := NewMemoryCache[TestMeta](cfg,
		cfg.Cache.Memory.MemoryBudgetPercent.Read(),
		cfg.Cache.MaxCacheSize.Read().Bytes(),
		cfg.Cache.CleanupInterval.Read().Cast(),
		cfg.Cache.LockShards.Read(), t.Context())
	defer c.Destroy()

	budget := int64(sysMem.Total) * 1 / 100
	if budget >= cfg.Cache.MaxCacheSize.Read().Bytes() {
		t.Skip("1 % of this machine's memory is more than 10G")
	}
	if c.limit() != budget {
		t.Fatalf("limit() = %d, expected the memory budget %d", c.limit(), budget)
	}

	// Fill the store until it is at or over its limit.
	const entrySize = 32 << 20
	n := 0
	for c.byteSize.Get() < c.limit() {
		e, err := c.Cache(FromString(fmt.Sprintf("key-%d", n)), io.LimitReader(zeroReader{}, entrySize), time.Now().Add(time.Hour), TestMeta{})
		if err != nil {
			t.Fatalf("store %d: %v", n, err)
		}
		e.Data.Close()
		n++
		time.Sleep(2 * time.Millisecond) // a clear order of use
	}
	size := c.byteSize.Get()
	t.Logf("limit (memory budget) %d, max_cache_size %d, stored %d entries, size %d", c.limit(), cfg.Cache.MaxCacheSize.Read().Bytes(), n, size)
	if size < c.limit() {
		t.Fatal("not at the limit")
	}

	// Let at least five cleanup cycles pass.
	time.Sleep(700 * time.Millisecond)

	target := int64(float64(c.limit()) * 0.8)
	if got := c.byteSize.Get(); got > target {
		t.Errorf("after >= 5 cleanup cycles the store still holds %d bytes: it is over its limit of %d and has not been brought down to 80 %% (%d); nothing was evicted (%d entries)",
			got, c.limit(), target, c.janitor.cacheFns.getCacheLen())
	}

	// The next store does evict, down to 80 % of the memory budget - with the store far below cache.max_cache_size.
	e, err := c.Cache(FromString("one-more"), io.LimitReader(zeroReader{}, 1), time.Now().Add(time.Hour), TestMeta{})
	if err != nil {
		t.Fatalf("store: %v", err)
	}
	e.Data.Close()
	t.Logf("after one more store: size %d, entries %d", c.byteSize.Get(), c.janitor.cacheFns.getCacheLen())
}

// Same thing with the limit changed at run time: a memory budget lowered through the configuration update
// (what PATCH /api/config does) does not govern the following cleanup cycles.
func TestHuntMemoryBudgetLoweredAtRunTime(t *testing.T) {
	sysMem, err := mem.VirtualMemory()
	if err != nil {
		t.Skip(err)
	}
	cfg := config.NewDefault()
	if err := json.Unmarshal([]byte(`{"cache":{"max_cache_size":"10G","cleanup_interval":"100ms","memory":{"memory_budget_percent":75}}}`), cfg); err != nil {
		t.Fatal(err)
	}
	c := NewMemoryCache[TestMeta](cfg,
		cfg.Cache.Memory.MemoryBudgetPercent.Read(),
		cfg.Cache.MaxCacheSize.Read().Bytes(),
		cfg.Cache.CleanupInterval.Read().Cast(),
		cfg.Cache.LockShards.Read(), t.Context())
	defer c.Destroy()

	budget := int64(sysMem.Total) * 1 / 100
	if budget >= cfg.Cache.MaxCacheSize.Read().Bytes() {
		t.Skip("1 % of this machine's memory is more than 10G")
	}

	const entrySize = 32 << 20
	n := 0
	for c.byteSize.Get() < budget {
		e, err := c.Cache(FromString(fmt.Sprintf("key-%d", n)), io.LimitReader(zeroReader{}, entrySize), time.Now().Add(time.Hour), TestMeta{})
		if err != nil {
			t.Fatalf("store %d: %v", n, err)
		}
		e.Data.Close()
		n++
	}

	if _, err := config.UpdatePartialFromConfig(cfg, map[string]any{"cache": map[string]any{"memory": map[string]any{"memory_budget_percent": 1}}}); err != nil {
		t.Fatalf("update: %v", err)
	}
	time.Sleep(700 * time.Millisecond)
	if c.limit() != budget {
		t.Fatalf("limit() = %d, expected %d", c.limit(), budget)
	}
	target := int64(float64(c.limit()) * 0.8)
	if got := c.byteSize.Get(); got > target {
		t.Errorf("limit lowered to %d at run time; after >= 5 of the following cleanup cycles the store still holds %d bytes (target %d)", c.limit(), got, target)
	}
}
