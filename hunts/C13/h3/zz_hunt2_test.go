// package directory: cache/
package cache

import (
	"bytes"
	"encoding/json"
	"fmt"
	"reservoir/config"
	"testing"
	"time"
)

// Entries that were accessed one after the other, less than a millisecond apart, are NOT evicted in
// least-recently-used order: evict() truncates the age to whole milliseconds (cache_janitor.go:174), the
// sort is neither stable nor given a tie-break (cache_janitor.go:189), and the candidates arrive in Go's
// random map order (memory_cache.go:87 / file_cache.go:68). All entries have the same size, so the size
// weight plays no role.
func huntLRU(t *testing.T, mk func(cfg *config.Config, limit int64) (Cache[TestMeta], func(CacheKey) time.Time)) {
	const (
		n       = 10
		size    = 100
		limit   = n * size // after n stores the cache is exactly AT its limit
		rounds  = 15
		evicted = 2 // 1000 -> 800 (80 %) takes exactly the two least recently used entries
	)

	wrong := 0
	for round := 0; round < rounds; round++ {
		cfg := config.NewDefault()
		// the way the config file sets the limit
		if err := json.Unmarshal([]byte(fmt.Sprintf(`{"cache":{"max_cache_size":"%dB"}}`, limit)), cfg); err != nil {
			t.Fatal(err)
		}
		c, lastAccess := mk(cfg, cfg.Cache.MaxCacheSize.Read().Bytes())

		keys := make([]CacheKey, n)
		for i := range keys {
			keys[i] = FromString(fmt.Sprintf("round-%d-key-%d", round, i))
			e, err := c.Cache(keys[i], bytes.NewReader(make([]byte, size)), time.Now().Add(time.Hour), TestMeta{})
			if err != nil {
				t.Fatalf("store %d: %v", i, err)
			}
			e.Data.Close()
		}
		time.Sleep(20 * time.Millisecond)

		// Access every entry once, one after the other: keys[0] first (becomes the least recently used),
		// keys[n-1] last (most recently used).
		for i := range keys {
			e, err := c.Get(keys[i])
			if err != nil {
				t.Fatalf("get %d: %v", i, err)
			}
			e.Data.Close()
		}
		// The order of access is well defined: the recorded access times are strictly increasing.
		for i := 1; i < n; i++ {
			if !lastAccess(keys[i-1]).Before(lastAccess(keys[i])) {
				t.Fatalf("access times not strictly increasing at %d", i)
			}
		}

		// The triggering store: the cache is at its limit, so this store evicts down to 80 %.
		e, err := c.Cache(FromString(fmt.Sprintf("round-%d-trigger", round)), bytes.NewReader(make([]byte, 1)), time.Now().Add(time.Hour), TestMeta{})
		if err != nil {
			t.Fatalf("triggering store: %v", err)
		}
		e.Data.Close()

		gone := []int{}
		for i := range keys {
			if lastAccess(keys[i]).IsZero() {
				gone = append(gone, i)
			}
		}
		if len(gone) != evicted {
			t.Fatalf("round %d: expected %d evictions, got %v", round, evicted, gone)
		}
		if gone[0] != 0 || gone[1] != 1 {
			wrong++
			t.Logf("round %d: evicted entries #%v (in order of access), but the least recently used ones are #[0 1]", round, gone)
		}
		c.Destroy()
	}
	if wrong > 0 {
		t.Errorf("%d of %d rounds evicted an entry that was not least recently used, while the least recently used one survived", wrong, rounds)
	}
}

func TestHuntLRU_Memory(t *testing.T) {
	huntLRU(t, func(cfg *config.Config, limit int64) (Cache[TestMeta], func(CacheKey) time.Time) {
		c := NewMemoryCache[TestMeta](cfg, cfg.Cache.Memory.MemoryBudgetPercent.Read(), limit, time.Hour, 16, t.Context())
		return c, func(k CacheKey) time.Time {
			c.mu.RLock()
			defer c.mu.RUnlock()
			if e, ok := c.entries[k]; ok {
				return e.meta.LastAccess
			}
			return time.Time{}
		}
	})
}

func TestHuntLRU_File(t *testing.T) {
	huntLRU(t, func(cfg *config.Config, limit int64) (Cache[TestMeta], func(CacheKey) time.Time) {
		c := NewFileCache[TestMeta](cfg, t.TempDir(), limit, time.Hour, 16, t.Context())
		return c, func(k CacheKey) time.Time {
			c.mu.RLock()
			defer c.mu.RUnlock()
			if m, ok := c.entriesMetadata[k]; ok {
				return m.LastAccess
			}
			return time.Time{}
		}
	})
}
