// package directory: tests/   (run: go test -vet=off -count=1 -run 'TestHunt2' ./tests/)
package tests

import (
	"bufio"
	"fmt"
	"net"
	"net/http"
	"reservoir/config"
	"reservoir/proxy"
	"runtime"
	"strings"
	"testing"
	"time"
)

// A client names the proxy's own listen address as the origin (request line and Host header).
// With upstream_default_https=false (the setting every test environment in tests/ uses) the proxy
// sends the upstream request to itself. That inner request has the same cache key as the outer one,
// so fetcher.dedupFetch coalesces it (singleflight) onto the very fetch that is waiting for its
// answer: neither ever completes and the client never receives a response.
func TestHunt2RequestNamingTheProxyItselfIsNeverAnswered(t *testing.T) {
	cfg := config.NewDefault()
	cfg.Proxy.UpstreamDefaultHttps.Overwrite(false)
	cfg.Cache.Type.Overwrite(config.CacheTypeMemory)
	cfg.Cache.LockShards.Overwrite(32)

	p, err := proxy.NewProxy(cfg, &FakeCA{}, t.Context())
	if err != nil {
		t.Fatal(err)
	}
	ln, err := net.Listen("tcp", "127.0.0.1:0")
	if err != nil {
		t.Fatal(err)
	}
	srv := &http.Server{Handler: p}
	go srv.Serve(ln)
	// http.Server.Close does not wait for the handlers (httptest.Server.Close would block forever on the stuck ones).
	defer srv.Close()

	addr := ln.Addr().String()

	// Sanity: the proxy answers an ordinary failing request at once (nothing listens on port 1).
	if status, err := hunt2Roundtrip(addr, "GET http://127.0.0.1:1/x HTTP/1.1\r\nHost: 127.0.0.1:1\r\n\r\n", 5*time.Second); err != nil {
		t.Fatalf("sanity request got no response: %v", err)
	} else {
		t.Logf("sanity request answered with %d", status)
	}

	raw := fmt.Sprintf("GET http://%s/loop HTTP/1.1\r\nHost: %s\r\n\r\n", addr, addr)
	status, err := hunt2Roundtrip(addr, raw, 5*time.Second)
	if err != nil {
		// Evidence for the cause: the outer request runs the shared fetch (doCall) and waits for the upstream
		// answer, the inner request waits in singleflight.(*Group).Do for the outer one to finish.
		buf := make([]byte, 4<<20)
		stacks := string(buf[:runtime.Stack(buf, true)])
		t.Logf("goroutines in singleflight doCall (running the fetch): %d, in Group.Do in total: %d",
			strings.Count(stacks, "singleflight.(*Group).doCall("), strings.Count(stacks, "singleflight.(*Group).Do("))
		t.Fatalf("request %q: no HTTP response within 5s: %v", raw, err)
	}
	t.Logf("answered with %d", status)
}

func hunt2Roundtrip(addr, raw string, wait time.Duration) (int, error) {
	conn, err := net.Dial("tcp", addr)
	if err != nil {
		return 0, err
	}
	defer conn.Close()
	if _, err := conn.Write([]byte(raw)); err != nil {
		return 0, err
	}
	conn.SetReadDeadline(time.Now().Add(wait))
	resp, err := http.ReadResponse(bufio.NewReader(conn), nil)
	if err != nil {
		return 0, err
	}
	resp.Body.Close()
	return resp.StatusCode, nil
}
