// package directory: webserver/   (needs the two build stubs named in TASK.md: webserver/dashboard/csp/header_gen.go and webserver/dashboard/frontend/build/index.html)
package webserver

import (
	"bufio"
	"fmt"
	"net"
	"net/http"
	"net/http/httptest"
	"reservoir/config"
	"reservoir/webserver/dashboard"
	"reservoir/webserver/middleware"
	"testing"
	"time"
)

// The dashboard handler type-asserts whatever it opened from the embedded build to io.ReadSeeker
// (webserver/dashboard/dashboard.go:45). A directory of an embed.FS has no Seek method, so a request whose path
// names a directory of the build makes the handler panic; net/http recovers, logs "http: panic serving ..." and
// drops the connection: the client gets no response at all.
//
// With a real frontend build every "GET /<directory of the build>" (e.g. /_app) does it. With nothing but the
// index.html stub, the build's root directory "." is still there: ServeMux canonicalises "/." away for every
// method except CONNECT, so the request line below reaches the handler with the path "/.".
func TestHuntDashboardDirectoryPanics(t *testing.T) {
	ws := New()
	if err := ws.Register(dashboard.New(config.NewDefault())); err != nil {
		t.Fatal(err)
	}
	// the same handler chain that WebServer.Listen installs
	srv := httptest.NewServer(middleware.Harden(ws.mux))
	defer srv.Close()

	conn, err := net.Dial("tcp", srv.Listener.Addr().String())
	if err != nil {
		t.Fatal(err)
	}
	defer conn.Close()

	fmt.Fprintf(conn, "CONNECT /. HTTP/1.1\r\nHost: %s\r\n\r\n", srv.Listener.Addr())

	conn.SetReadDeadline(time.Now().Add(5 * time.Second))
	resp, err := http.ReadResponse(bufio.NewReader(conn), nil)
	if err != nil {
		t.Fatalf("the dashboard sent no well-formed response: %v", err)
	}
	resp.Body.Close()
	t.Logf("answered with %s", resp.Status)
}
