// package directory: tests/
package tests

import (
	"bufio"
	"fmt"
	"net"
	"net/http"
	"reservoir/config"
	"reservoir/proxy"
	"sync/atomic"
	"testing"
	"time"
)

type huntCountingListener struct {
	net.Listener
	accepted atomic.Int32
}

func (l *huntCountingListener) Accept() (net.Conn, error) {
	c, err := l.Listener.Accept()
	if err == nil {
		l.accepted.Add(1)
	}
	return c, err
}

// Starts the unchanged proxy on a loopback port with the settings of SetupTestEnv, but behind a plain http.Server:
// its Close does not wait for handlers (httptest.Server.Close would block forever on the stuck requests).
func huntStartProxy(t *testing.T) *huntCountingListener {
	cfg := config.NewDefault()
	cfg.Proxy.UpstreamDefaultHttps.Overwrite(false) // as in SetupTestEnv: origins are spoken to over plain HTTP
	cfg.Cache.File.Dir.Overwrite(t.TempDir())
	cfg.Cache.Type.Overwrite(config.CacheTypeMemory)
	cfg.Cache.LockShards.Overwrite(32)

	p, err := proxy.NewProxy(cfg, &FakeCA{}, t.Context())
	if err != nil {
		t.Fatalf("Failed to create proxy: %v", err)
	}
	ln, err := net.Listen("tcp", "127.0.0.1:0")
	if err != nil {
		t.Fatal(err)
	}
	cl := &huntCountingListener{Listener: ln}
	srv := &http.Server{Handler: p}
	go srv.Serve(cl)
	t.Cleanup(func() {
		srv.Close()
		p.Destroy()
	})
	return cl
}

// A client names the proxy itself as the origin, spelled as the unspecified address ("0.0.0.0:<proxy port>") or
// with an empty host (":<proxy port>"); the dialer connects both to the local host. isOwnAddress (proxy/proxy.go:306)
// does not recognise either spelling, the proxy fetches the URL from itself, the inner request has the same cache
// key and waits in singleflight for the outer one, which waits for the inner one's response.
// C16 promises a well-formed response for every request a client can send; this one is never answered.
func huntSelfLoop(t *testing.T, hostOf func(port string) string) {
	ln := huntStartProxy(t)
	addr := ln.Addr().String()
	_, port, _ := net.SplitHostPort(addr)
	host := hostOf(port)

	conn, err := net.Dial("tcp", addr)
	if err != nil {
		t.Fatal(err)
	}
	defer conn.Close()

	fmt.Fprintf(conn, "GET http://%s/loop HTTP/1.1\r\nHost: %s\r\n\r\n", host, host)

	conn.SetReadDeadline(time.Now().Add(5 * time.Second))
	resp, err := http.ReadResponse(bufio.NewReader(conn), nil)
	if err != nil {
		t.Fatalf("GET http://%s/loop was not answered within 5s: %v (connections accepted by the proxy: %d = the client's and the proxy's own)",
			host, err, ln.accepted.Load())
	}
	resp.Body.Close()
	t.Logf("GET http://%s/loop answered with %s", host, resp.Status)
}

func TestHuntSelfLoopUnspecifiedIPv4(t *testing.T) {
	huntSelfLoop(t, func(port string) string { return "0.0.0.0:" + port })
}

func TestHuntSelfLoopEmptyHost(t *testing.T) {
	huntSelfLoop(t, func(port string) string { return ":" + port })
}

// Control: the spellings the guard knows about are answered (508 Loop Detected), so this one passes.
func TestHuntSelfLoopControl(t *testing.T) {
	huntSelfLoop(t, func(port string) string { return "127.0.0.1:" + port })
}
