// package directory: utils/phc/
package phc

import (
	"testing"
)

// A stored password hash whose memory parameter is the largest value the PHC grammar of this package admits
// (m is parsed with ParseUint(v, 10, 32)). ParsePHC accepts the string without an error, so it is handed to
// VerifyArgon2id at the next login of that user (webserver/auth/creds.go), where argon2 allocates m KiB = 4 TiB:
// the Go runtime aborts the whole process with "fatal error: runtime: out of memory" (not even a recoverable panic).
func TestHuntStoredHashAbortsProcess(t *testing.T) {
	stored := "$argon2id$v=19$m=4294967295,t=1,p=1$AAAAAAAAAAAAAAAAAAAAAA$AAAAAAAAAAAAAAAAAAAAAAAAAAAAAAAAAAAAAAAAAAA"

	var p PHC
	if err := p.Scan(stored); err != nil { // what sqlx does when the users row is read
		t.Skipf("stored hash rejected with an error (that would be fine): %v", err)
	}
	t.Logf("stored hash accepted: %s", p.String())

	ok := p.VerifyArgon2id("hunter2") // what Credentials.Authenticate does next
	t.Logf("verification finished without taking the process down: %v", ok)
}
