// package directory: tests/   (run: go test -vet=off -count=1 -run 'TestHunt1' ./tests/)
package tests

import (
	"encoding/json"
	"fmt"
	"os"
	"path/filepath"
	"reservoir/config"
	"reservoir/proxy"
	"testing"
)

// Writes the default configuration to a file, with the given edits applied to its JSON form.
func hunt1WriteConfig(t *testing.T, edit func(root map[string]any)) string {
	t.Helper()
	raw, err := json.Marshal(config.NewDefault())
	if err != nil {
		t.Fatal(err)
	}
	var root map[string]any
	if err := json.Unmarshal(raw, &root); err != nil {
		t.Fatal(err)
	}
	edit(root)
	out, err := json.Marshal(root)
	if err != nil {
		t.Fatal(err)
	}
	path := filepath.Join(t.TempDir(), "config.json")
	if err := os.WriteFile(path, out, 0644); err != nil {
		t.Fatal(err)
	}
	return path
}

// Starts the proxy the way main.go does (proxy.NewProxy with the loaded configuration)
// and reports a panic as a value instead of taking the test binary down.
func hunt1NewProxy(t *testing.T, cfg *config.Config) (err error, panicked any) {
	t.Helper()
	defer func() { panicked = recover() }()
	p, err := proxy.NewProxy(cfg, &FakeCA{}, t.Context())
	if err == nil {
		p.Destroy()
	}
	return err, nil
}

// cache.lock_shards read from the config file: any value >= 1 passes config verification,
// but the value is used unchecked as a slice length.
func TestHunt1LockShardsFromDiskPanics(t *testing.T) {
	const shards = 1 << 62
	path := hunt1WriteConfig(t, func(root map[string]any) {
		root["cache"].(map[string]any)["lock_shards"] = json.Number(fmt.Sprint(shards))
	})

	cfg, err := config.LoadOrDefault(path)
	if err != nil {
		t.Fatalf("LoadOrDefault: %v", err)
	}
	if got := cfg.Cache.LockShards.Read(); got != shards {
		// The loader rejected the file and fell back to the defaults: that would be the claimed behaviour.
		t.Skipf("config file was rejected (lock_shards=%d): no violation", got)
	}
	t.Logf("config file accepted with cache.lock_shards=%d", cfg.Cache.LockShards.Read())

	err, panicked := hunt1NewProxy(t, cfg)
	if panicked != nil {
		t.Fatalf("configuration value accepted from disk makes proxy start-up PANIC: %v", panicked)
	}
	t.Logf("NewProxy returned err=%v", err)
}

// The same value through the API path (PATCH /config ends in config.UpdatePartialFromConfig):
// it is accepted and persisted, and the next start panics.
func TestHunt1LockShardsFromAPIPanics(t *testing.T) {
	defer os.Remove(filepath.Join("var", "config.json")) // UpdatePartialFromConfig persists to the relative path var/config.json

	cfg := config.NewDefault()
	var updates map[string]any
	if err := json.Unmarshal([]byte(`{"cache":{"lock_shards":4611686018427387904}}`), &updates); err != nil {
		t.Fatal(err)
	}
	status, err := config.UpdatePartialFromConfig(cfg, updates)
	if err != nil || status == config.UpdateStatusFailed {
		t.Skipf("update rejected (status=%v err=%v): no violation", status, err)
	}
	t.Logf("API update accepted: status=%v lock_shards=%d", status, cfg.Cache.LockShards.Read())

	_, panicked := hunt1NewProxy(t, cfg)
	if panicked != nil {
		t.Fatalf("configuration value accepted through the API makes proxy start-up PANIC: %v", panicked)
	}
}

// cache.file.dir read from the config file: only emptiness is verified, and the file cache
// constructor panics (assertedpath.AssertDirectory) instead of returning an error when the
// directory cannot be created. proxy.NewProxy has an error result that is not used for this.
func TestHunt1CacheDirFromDiskPanics(t *testing.T) {
	notADir := filepath.Join(t.TempDir(), "plainfile")
	if err := os.WriteFile(notADir, []byte("x"), 0644); err != nil {
		t.Fatal(err)
	}
	path := hunt1WriteConfig(t, func(root map[string]any) {
		c := root["cache"].(map[string]any)
		c["type"] = "file"
		c["file"].(map[string]any)["dir"] = filepath.Join(notADir, "cache")
	})

	cfg, err := config.LoadOrDefault(path)
	if err != nil {
		t.Fatalf("LoadOrDefault: %v", err)
	}
	if cfg.Cache.Type.Read() != config.CacheTypeFile {
		t.Skip("config file was rejected: no violation")
	}

	err, panicked := hunt1NewProxy(t, cfg)
	if panicked != nil {
		t.Fatalf("configuration value accepted from disk makes proxy start-up PANIC: %v", panicked)
	}
	t.Logf("NewProxy returned err=%v", err)
}
