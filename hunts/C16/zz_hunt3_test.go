// package directory: tests/   (run: go test -vet=off -count=1 -run 'TestHunt3' ./tests/)
package tests

import (
	"bufio"
	"crypto/tls"
	"fmt"
	"net"
	"net/http"
	"strings"
	"testing"
	"time"
)

// Opens a CONNECT tunnel through the proxy to the HTTPS upstream and completes the TLS handshake with the proxy.
func hunt3OpenTunnel(t *testing.T, env *TestEnv) (*tls.Conn, *bufio.Reader) {
	t.Helper()
	proxyAddr := strings.TrimPrefix(env.ProxyServer.URL, "http://")
	origin := strings.TrimPrefix(env.Upstream.URL, "https://")

	conn, err := net.Dial("tcp", proxyAddr)
	if err != nil {
		t.Fatal(err)
	}
	t.Cleanup(func() { conn.Close() })
	fmt.Fprintf(conn, "CONNECT %s HTTP/1.1\r\nHost: %s\r\n\r\n", origin, origin)
	br := bufio.NewReader(conn)
	resp, err := http.ReadResponse(br, nil)
	if err != nil || resp.StatusCode != 200 {
		t.Fatalf("CONNECT failed: %v %v", resp, err)
	}
	tc := tls.Client(conn, &tls.Config{RootCAs: env.CACertPool, ServerName: "127.0.0.1"})
	conn.SetDeadline(time.Now().Add(10 * time.Second))
	if err := tc.Handshake(); err != nil {
		t.Fatalf("TLS handshake with the proxy failed: %v", err)
	}
	return tc, bufio.NewReader(tc)
}

// Byte sequences a client can send as a request. On a plain connection the proxy answers each of them
// with "400 Bad Request"; inside a CONNECT tunnel the request loop in proxy.handleCONNECT just breaks
// when http.ReadRequest fails and the connection is closed without a single byte of HTTP response.
func TestHunt3MalformedRequestInTunnelGetsNoResponse(t *testing.T) {
	env := SetupHttpsTestEnv(t)
	env.Start()
	origin := strings.TrimPrefix(env.Upstream.URL, "https://")

	// Sanity: a proper request through the tunnel is answered.
	{
		tc, br := hunt3OpenTunnel(t, env)
		fmt.Fprintf(tc, "GET /ok HTTP/1.1\r\nHost: %s\r\n\r\n", origin)
		resp, err := http.ReadResponse(br, nil)
		if err != nil {
			t.Fatalf("sanity request through the tunnel failed: %v", err)
		}
		t.Logf("sanity: proper request in the tunnel answered with %d", resp.StatusCode)
	}

	cases := []struct{ name, raw string }{
		{"request-target that is neither absolute URI nor absolute path", "GET index.html HTTP/1.1\r\nHost: " + origin + "\r\n\r\n"},
		{"header line without a colon", "GET / HTTP/1.1\r\nHost: " + origin + "\r\nRange bytes=0-1\r\n\r\n"},
		{"space before the colon of a header", "GET / HTTP/1.1\r\nHost: " + origin + "\r\nRange : bytes=0-1\r\n\r\n"},
		{"malformed HTTP version", "GET / HTTP/1.x\r\nHost: " + origin + "\r\n\r\n"},
		{"invalid percent-escape in the request-target", "GET /%zz HTTP/1.1\r\nHost: " + origin + "\r\n\r\n"},
		{"two different Content-Length headers", "POST / HTTP/1.1\r\nHost: " + origin + "\r\nContent-Length: 1\r\nContent-Length: 2\r\n\r\nab"},
	}
	proxyAddr := strings.TrimPrefix(env.ProxyServer.URL, "http://")
	for _, c := range cases {
		// the same bytes on a plain connection to the proxy, for comparison
		plain, err := net.Dial("tcp", proxyAddr)
		if err != nil {
			t.Fatal(err)
		}
		plain.SetDeadline(time.Now().Add(5 * time.Second))
		plain.Write([]byte(c.raw))
		if resp, err := http.ReadResponse(bufio.NewReader(plain), nil); err != nil {
			t.Logf("%s: plain connection: no response: %v", c.name, err)
		} else {
			t.Logf("%s: plain connection: answered with %d", c.name, resp.StatusCode)
		}
		plain.Close()

		tc, br := hunt3OpenTunnel(t, env)
		tc.Write([]byte(c.raw))
		resp, err := http.ReadResponse(br, nil)
		if err != nil {
			t.Errorf("%s: %q sent inside a CONNECT tunnel got NO HTTP response at all: %v", c.name, c.raw, err)
			continue
		}
		t.Logf("%s: tunnel: answered with %d", c.name, resp.StatusCode)
	}
}
