// package directory: tests/   (package tests; uses SetupTestEnv / SetupHttpsTestEnv from tests/test_env.go)
package tests

import (
	"bufio"
	"fmt"
	"io"
	"net"
	"net/http"
	"net/url"
	"sync"
	"testing"
	"time"
)

// C08, sentence 1: "Every response delivered to a client ... carries the origin's status and every
// end-to-end header the origin sent".
//
// The origin answers GET /old with "302 Found", "Location: /new", "X-Origin: redirector" and the body
// "moved". The proxy never relays that response: proxy/requests.go:81 sends the request with
// http.DefaultClient, which follows redirects itself, so the client is handed the 200 response of a
// different resource (/new) instead.
func TestHunt1_OriginRedirectIsNotRelayed(t *testing.T) {
	handler := func(mu *sync.Mutex, seen *[]string) http.HandlerFunc {
		return func(w http.ResponseWriter, r *http.Request) {
			mu.Lock()
			*seen = append(*seen, r.Method+" "+r.RequestURI)
			mu.Unlock()
			if r.URL.Path == "/old" {
				w.Header().Set("Location", "/new")
				w.Header().Set("X-Origin", "redirector")
				w.WriteHeader(http.StatusFound)
				io.WriteString(w, "moved")
				return
			}
			w.Header().Set("Cache-Control", "no-store")
			io.WriteString(w, "content of /new")
		}
	}

	check := func(t *testing.T, status int, h http.Header, body string, seen []string) {
		t.Logf("client received: status=%d Location=%q X-Origin=%q body=%q", status, h.Get("Location"), h.Get("X-Origin"), body)
		t.Logf("origin was asked: %v", seen)
		if status != http.StatusFound {
			t.Errorf("origin answered /old with status 302, client received status %d", status)
		}
		if h.Get("Location") != "/new" {
			t.Errorf("origin sent Location: /new, client received Location %q", h.Get("Location"))
		}
		if h.Get("X-Origin") != "redirector" {
			t.Errorf("origin sent X-Origin: redirector, client received %q", h.Get("X-Origin"))
		}
		if body != "moved" {
			t.Errorf("origin sent body %q, client received %q", "moved", body)
		}
	}

	t.Run("plain", func(t *testing.T) {
		env := SetupTestEnv(t)
		var mu sync.Mutex
		var seen []string
		env.Upstream.Config.Handler = handler(&mu, &seen)
		env.Start()

		up, _ := url.Parse(env.Upstream.URL)
		px, _ := url.Parse(env.ProxyServer.URL)
		c, err := net.DialTimeout("tcp", px.Host, 2*time.Second)
		if err != nil {
			t.Fatal(err)
		}
		defer c.Close()
		c.SetDeadline(time.Now().Add(5 * time.Second))
		fmt.Fprintf(c, "GET http://%s/old HTTP/1.1\r\nHost: %s\r\nConnection: close\r\n\r\n", up.Host, up.Host)
		resp, err := http.ReadResponse(bufio.NewReader(c), &http.Request{Method: "GET"})
		if err != nil {
			t.Fatal(err)
		}
		body, _ := io.ReadAll(resp.Body)
		mu.Lock()
		defer mu.Unlock()
		check(t, resp.StatusCode, resp.Header, string(body), seen)
	})

	t.Run("connect-tunnel", func(t *testing.T) {
		env := SetupHttpsTestEnv(t)
		var mu sync.Mutex
		var seen []string
		env.Upstream.Config.Handler = handler(&mu, &seen)
		env.Start()
		// the client itself must not follow the redirect: we want to see what the proxy delivers
		env.Client.CheckRedirect = func(*http.Request, []*http.Request) error { return http.ErrUseLastResponse }

		resp, err := env.Client.Get(env.Upstream.URL + "/old")
		if err != nil {
			t.Fatal(err)
		}
		defer resp.Body.Close()
		body, _ := io.ReadAll(resp.Body)
		mu.Lock()
		defer mu.Unlock()
		check(t, resp.StatusCode, resp.Header, string(body), seen)
	})

	// The same through the store: /new is storable, so the body of /new is stored under the key of /old
	// and later served "from the store" as the response to /old.
	t.Run("stored", func(t *testing.T) {
		env := SetupTestEnv(t)
		var mu sync.Mutex
		var seen []string
		env.Upstream.Config.Handler = http.HandlerFunc(func(w http.ResponseWriter, r *http.Request) {
			mu.Lock()
			seen = append(seen, r.Method+" "+r.RequestURI)
			mu.Unlock()
			if r.URL.Path == "/old" {
				w.Header().Set("Location", "/new")
				w.Header().Set("X-Origin", "redirector")
				w.WriteHeader(http.StatusFound)
				io.WriteString(w, "moved")
				return
			}
			w.Header().Set("Cache-Control", "max-age=60")
			io.WriteString(w, "content of /new")
		})
		env.Start()
		env.Client.CheckRedirect = func(*http.Request, []*http.Request) error { return http.ErrUseLastResponse }
		for i := 0; i < 2; i++ {
			resp, err := env.Client.Get(env.Upstream.URL + "/old")
			if err != nil {
				t.Fatal(err)
			}
			body, _ := io.ReadAll(resp.Body)
			resp.Body.Close()
			t.Logf("request %d: X-Cache=%q", i+1, resp.Header.Get("X-Cache"))
			mu.Lock()
			check(t, resp.StatusCode, resp.Header, string(body), seen)
			mu.Unlock()
		}
	})
}
