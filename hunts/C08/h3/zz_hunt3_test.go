// package directory: tests/   (package tests)
//
// C08 hunt, finding 3: on the CONNECT transport an HTTP/1.0 client is answered with "HTTP/1.1 ...
// Transfer-Encoding: chunked" whenever the origin's response has no Content-Length (chunked or close-delimited),
// relayed or from the store. An HTTP/1.0 client cannot remove a transfer coding (RFC 9112 6.1: it MUST NOT be sent
// to it), so what it takes for the body is "d\r\nresponse body\r\n0\r\n\r\n", not the origin's body. On the plain
// transport the same exchange is delivered correctly (HTTP/1.0, Content-Length or close-delimited).
package tests

import (
	"bufio"
	"crypto/tls"
	"fmt"
	"net"
	"net/http"
	"net/url"
	"strings"
	"testing"
	"time"
)

func TestHunt3_HTTP10ClientGetsChunkedInTunnel(t *testing.T) {
	env := SetupHttpsTestEnv(t)
	const content = "response body"
	env.Upstream.Config.Handler = http.HandlerFunc(func(w http.ResponseWriter, r *http.Request) {
		w.Header().Set("Cache-Control", "max-age=60")
		if r.URL.Path == "/missing" {
			w.WriteHeader(http.StatusNotFound) // never stored: relayed as it comes
		} else {
			w.WriteHeader(http.StatusOK)
		}
		w.Write([]byte(content))
		w.(http.Flusher).Flush() // no Content-Length: the origin sends the body chunked
	})
	env.Start()
	u, _ := url.Parse(env.Upstream.URL)

	for i, what := range []string{"relayed 404", "stored 200, first delivery", "stored 200, hit"} {
		path := "/doc"
		if i == 0 {
			path = "/missing"
		}
		c, err := net.Dial("tcp", env.ProxyServer.Listener.Addr().String())
		if err != nil {
			t.Fatal(err)
		}
		defer c.Close()
		fmt.Fprintf(c, "CONNECT %s HTTP/1.1\r\nHost: %s\r\n\r\n", u.Host, u.Host)
		if resp, err := http.ReadResponse(bufio.NewReader(c), nil); err != nil || resp.StatusCode != 200 {
			t.Fatalf("CONNECT: %v %v", err, resp)
		}
		tc := tls.Client(c, &tls.Config{RootCAs: env.CACertPool, ServerName: u.Hostname()})
		if err := tc.Handshake(); err != nil {
			t.Fatal(err)
		}
		fmt.Fprintf(tc, "GET %s HTTP/1.0\r\nHost: %s\r\n\r\n", path, u.Host)

		// An HTTP/1.0 client: status line, headers, and then everything that follows is the body
		// (read until nothing arrives any more, the tunnel is not closed by the proxy).
		var raw strings.Builder
		buf := make([]byte, 4096)
		for {
			tc.SetReadDeadline(time.Now().Add(500 * time.Millisecond))
			n, err := tc.Read(buf)
			raw.Write(buf[:n])
			if err != nil {
				break
			}
		}
		head, body, _ := strings.Cut(raw.String(), "\r\n\r\n")
		t.Logf("request %d (%s): HTTP/1.0 client received head %q body %q", i, what, head, body)
		if strings.Contains(strings.ToLower(head), "transfer-encoding") {
			t.Errorf("%s: a transfer coding was applied to the answer to an HTTP/1.0 request", what)
		}
		if body != content {
			t.Errorf("%s: origin's body was %q, the HTTP/1.0 client reads %q", what, content, body)
		}
	}
}
