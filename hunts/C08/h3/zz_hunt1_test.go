// package directory: tests/   (package tests)
//
// C08 hunt, finding 1: a Last-Modified the origin sent in one of the two obsolete (but legal, RFC 9110 5.6.7)
// HTTP-date formats is not delivered as the origin sent it: every response that comes from the store
// (the first one, "miss; stored", and every later hit, and every 206 cut from the entry) carries the value
// re-serialised by the proxy as an IMF-fixdate.
package tests

import (
	"io"
	"net/http"
	"net/http/httptest"
	"reservoir/config"
	"reservoir/proxy"
	"testing"
)

func hunt1Env(t *testing.T, cacheType config.CacheType, lastModified string) *TestEnv {
	t.Helper()
	env := SetupTestEnv(t)
	if cacheType == config.CacheTypeFile {
		// SetupTestEnv builds a memory-backed proxy; build a file-backed one from the same configuration.
		env.Cfg.Cache.Type.Overwrite(config.CacheTypeFile)
		p, err := proxy.NewProxy(env.Cfg, &FakeCA{}, t.Context())
		if err != nil {
			t.Fatalf("file-backed proxy: %v", err)
		}
		t.Cleanup(p.Destroy)
		env.ProxyServer = httptest.NewUnstartedServer(p)
		t.Cleanup(env.ProxyServer.Close)
	}
	env.Upstream.Config.Handler = http.HandlerFunc(func(w http.ResponseWriter, r *http.Request) {
		w.Header().Set("Cache-Control", "max-age=60")
		w.Header().Set("Last-Modified", lastModified)
		w.Header().Set("X-Control", lastModified) // same text in a field the proxy has no opinion about
		w.WriteHeader(http.StatusOK)
		w.Write([]byte("response body"))
	})
	env.Start()
	return env
}

func TestHunt1_LastModifiedRewritten(t *testing.T) {
	formats := map[string]string{
		"rfc850":  "Sunday, 06-Nov-94 08:49:37 GMT",
		"asctime": "Sun Nov  6 08:49:37 1994",
	}
	for _, cacheType := range []config.CacheType{config.CacheTypeMemory, config.CacheTypeFile} {
		for name, sent := range formats {
			t.Run(string(cacheType)+"/"+name, func(t *testing.T) {
				env := hunt1Env(t, cacheType, sent)
				for i, what := range []string{"first response (miss, stored)", "second response (hit)"} {
					resp, err := env.Client.Get(env.Upstream.URL + "/doc")
					if err != nil {
						t.Fatalf("request %d: %v", i, err)
					}
					io.Copy(io.Discard, resp.Body)
					resp.Body.Close()
					if got := resp.Header.Get("X-Control"); got != sent {
						t.Fatalf("%s: control header changed: %q", what, got)
					}
					if got := resp.Header.Values("Last-Modified"); len(got) != 1 || got[0] != sent {
						t.Errorf("%s (X-Cache=%s): origin sent Last-Modified %q, client received %q",
							what, resp.Header.Get("X-Cache"), sent, got)
					}
				}
			})
		}
	}
}
