// package directory: tests/   (package tests)
//
// C08 hunt, finding 2: the origin answers the client's (forwarded) Range request with "200 OK" and the full
// body, and the client receives a proxy-made "416 Range Not Satisfiable" with an error text instead, although
// the range is satisfiable (RFC 9110 14.1.2: a last-pos beyond the end means "up to the end"; a suffix longer
// than the representation means "all of it"). Neither the origin's status nor its body reach the client.
package tests

import (
	"io"
	"net/http"
	"sync/atomic"
	"testing"
)

func TestHunt2_OriginSays200ClientGets416(t *testing.T) {
	for _, rangeValue := range []string{"bytes=0-1023", "bytes=-1024"} {
		t.Run(rangeValue, func(t *testing.T) {
			env := SetupTestEnv(t)
			const content = "0123456789abcdefghijklmnopqrstuvwxyz"
			var originAnswers atomic.Int32
			var lastRangeSeen atomic.Value
			// An origin without range support (any dynamic handler): it answers 200 with the whole body.
			env.Upstream.Config.Handler = http.HandlerFunc(func(w http.ResponseWriter, r *http.Request) {
				originAnswers.Add(1)
				lastRangeSeen.Store(r.Header.Get("Range"))
				w.Header().Set("Cache-Control", "max-age=60")
				w.Header().Set("X-Origin", "yes")
				w.WriteHeader(http.StatusOK)
				w.Write([]byte(content))
			})
			env.Start()

			req, _ := http.NewRequest("GET", env.Upstream.URL+"/small-file", nil)
			req.Header.Set("Range", rangeValue) // "the first KiB" / "the last KiB" of a 36 byte resource
			resp, err := env.Client.Do(req)
			if err != nil {
				t.Fatal(err)
			}
			body, _ := io.ReadAll(resp.Body)
			resp.Body.Close()

			t.Logf("origin answered %d request(s) with 200 OK, saw Range %q", originAnswers.Load(), lastRangeSeen.Load())
			t.Logf("client received %d, X-Origin=%q, body %q", resp.StatusCode, resp.Header.Get("X-Origin"), body)

			if originAnswers.Load() == 0 {
				t.Fatal("the request never reached the origin")
			}
			// Faithful outcomes: the origin's 200 with the whole body, or a 206 cut from it (the whole body here).
			if resp.StatusCode != http.StatusOK && resp.StatusCode != http.StatusPartialContent {
				t.Errorf("origin's status was 200, client received %d", resp.StatusCode)
			}
			if string(body) != content {
				t.Errorf("origin's body was %q, client received %q", content, body)
			}
			if resp.Header.Get("X-Origin") != "yes" {
				t.Errorf("origin's header X-Origin was not delivered; headers: %v", resp.Header)
			}
		})
	}
}
