// package directory: tests/   (package tests; uses SetupTestEnv / SetupHttpsTestEnv from tests/test_env.go)
package tests

import (
	"bufio"
	"crypto/tls"
	"fmt"
	"io"
	"net"
	"net/http"
	"net/url"
	"strings"
	"sync"
	"testing"
	"time"
)

// C08, sentence 3: "Hop-by-hop headers, including any named by a Connection header, are not forwarded
// in either direction."
//
// The origin answers with
//
//	Connection: close, X-Secret-Hop
//	X-Secret-Hop: internal-1
//
// which is legal (RFC 9110 7.6.1: "close" is just one connection option in the list) and is what an
// origin does whenever it also wants to end the connection, e.g. because the proxy itself asked for
// "Connection: close" (proxy.go:362 sets req.Close on every tunnelled request).
// net/http's Transport deletes the whole Connection field from resp.Header as soon as it contains the
// token "close" (net/http/transfer.go shouldClose(..., removeCloseHeader=true)), i.e. before
// removeHopByHopHeaders (proxy/requests.go:18-29, called at requests.go:89) gets to look at it. The list
// of headers the origin nominated as hop-by-hop is lost, and X-Secret-Hop is relayed to the client.

// origin that answers every request with fixed bytes and records the request head
func hunt2RawOrigin(t *testing.T, useTLS *tls.Config, response string) (addr string, seen func() []string) {
	ln, err := net.Listen("tcp", "127.0.0.1:0")
	if err != nil {
		t.Fatal(err)
	}
	if useTLS != nil {
		ln = tls.NewListener(ln, useTLS)
	}
	t.Cleanup(func() { ln.Close() })
	var mu sync.Mutex
	var reqs []string
	go func() {
		for {
			c, err := ln.Accept()
			if err != nil {
				return
			}
			go func(c net.Conn) {
				defer c.Close()
				br := bufio.NewReader(c)
				var sb strings.Builder
				for {
					line, err := br.ReadString('\n')
					if err != nil {
						return
					}
					sb.WriteString(line)
					if line == "\r\n" {
						break
					}
				}
				mu.Lock()
				reqs = append(reqs, sb.String())
				mu.Unlock()
				io.WriteString(c, response)
			}(c)
		}
	}()
	return ln.Addr().String(), func() []string {
		mu.Lock()
		defer mu.Unlock()
		return append([]string(nil), reqs...)
	}
}

func TestHunt2_ConnectionNamedResponseHeaderIsForwarded(t *testing.T) {
	const originResponse = "HTTP/1.1 200 OK\r\n" +
		"Connection: close, X-Secret-Hop\r\n" +
		"X-Secret-Hop: internal-1\r\n" +
		"X-End-To-End: yes\r\n" +
		"Cache-Control: %s\r\n" +
		"Content-Length: 2\r\n" +
		"\r\n" +
		"ok"

	check := func(t *testing.T, h http.Header) {
		t.Logf("client received headers: %v", h)
		if h.Get("X-End-To-End") != "yes" {
			t.Fatalf("setup problem: end-to-end header missing")
		}
		if v := h.Values("X-Secret-Hop"); len(v) != 0 {
			t.Errorf("origin sent \"Connection: close, X-Secret-Hop\"; the hop-by-hop header X-Secret-Hop was forwarded to the client with value %q", v)
		}
	}

	t.Run("plain-relayed", func(t *testing.T) {
		env := SetupTestEnv(t)
		env.Start()
		origin, _ := hunt2RawOrigin(t, nil, fmt.Sprintf(originResponse, "no-store"))

		px, _ := url.Parse(env.ProxyServer.URL)
		c, err := net.DialTimeout("tcp", px.Host, 2*time.Second)
		if err != nil {
			t.Fatal(err)
		}
		defer c.Close()
		c.SetDeadline(time.Now().Add(5 * time.Second))
		fmt.Fprintf(c, "GET http://%s/h HTTP/1.1\r\nHost: %s\r\n\r\n", origin, origin)
		resp, err := http.ReadResponse(bufio.NewReader(c), &http.Request{Method: "GET"})
		if err != nil {
			t.Fatal(err)
		}
		io.Copy(io.Discard, resp.Body)
		check(t, resp.Header)
	})

	// storable response: the hop-by-hop header is written into the store and handed to every later client
	t.Run("plain-stored", func(t *testing.T) {
		env := SetupTestEnv(t)
		env.Start()
		origin, seen := hunt2RawOrigin(t, nil, fmt.Sprintf(originResponse, "max-age=60"))
		for i := 0; i < 2; i++ {
			resp, err := env.Client.Get("http://" + origin + "/h")
			if err != nil {
				t.Fatal(err)
			}
			io.Copy(io.Discard, resp.Body)
			resp.Body.Close()
			t.Logf("request %d: X-Cache=%q, origin contacted %d time(s)", i+1, resp.Header.Get("X-Cache"), len(seen()))
			check(t, resp.Header)
		}
	})

	t.Run("connect-tunnel", func(t *testing.T) {
		env := SetupHttpsTestEnv(t)
		env.Start() // starts the (unused) httptest upstream, only needed for its certificate
		cert := env.Upstream.TLS.Certificates[0]
		origin, seen := hunt2RawOrigin(t, &tls.Config{Certificates: []tls.Certificate{cert}}, fmt.Sprintf(originResponse, "no-store"))

		resp, err := env.Client.Get("https://" + origin + "/h")
		if err != nil {
			t.Fatal(err)
		}
		defer resp.Body.Close()
		io.Copy(io.Discard, resp.Body)
		for _, r := range seen() {
			t.Logf("origin saw request head: %q", r)
		}
		check(t, resp.Header)
	})
}
