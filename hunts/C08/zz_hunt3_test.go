// package directory: tests/   (package tests; uses SetupTestEnv / SetupHttpsTestEnv from tests/test_env.go)
package tests

import (
	"bufio"
	"fmt"
	"io"
	"net"
	"net/http"
	"net/url"
	"sync"
	"testing"
	"time"
)

// C08, sentence 2: "The origin receives the client's method, path, query, end-to-end headers and body
// unchanged."
//
// changeRequestToTarget (proxy/requests.go:64-66) builds the upstream URL from req.URL.Path (the
// *decoded* path) and req.URL.RawQuery only. URL.RawPath (the path exactly as the client wrote it) and
// URL.ForceQuery are dropped, so net/http re-encodes the decoded path with its default encoding:
//
//	/a%2Fb/c   ->  /a/b/c      (an encoded slash inside a segment becomes a path separator:
//	                            a different resource, RFC 3986 section 2.2 / 6.2.2.2)
//	/pkg%2Bx   ->  /pkg+x
//	/a%41      ->  /aA
//	/list?     ->  /list       (empty query dropped)
//
// Those are legal request targets (e.g. GitLab/npm style "/api/projects/group%2Frepo",
// "/@scope%2Fname").
func TestHunt3_EscapedPathIsRewritten(t *testing.T) {
	targets := []string{
		"/api/projects/group%2Frepo/files",
		"/@scope%2Fname",
		"/pool/g%2B%2B_12.deb",
		"/a%41",
		"/list?",
		// controls that do come through unchanged
		"/plain/path?x=1&y=%2F",
		"/sp%20ace",
	}

	run := func(t *testing.T, env *TestEnv, send func(target string) (int, error)) {
		var mu sync.Mutex
		var seen []string
		env.Upstream.Config.Handler = http.HandlerFunc(func(w http.ResponseWriter, r *http.Request) {
			mu.Lock()
			seen = append(seen, r.RequestURI)
			mu.Unlock()
			w.Header().Set("Cache-Control", "no-store")
			io.WriteString(w, "ok")
		})
		env.Start()
		for _, target := range targets {
			mu.Lock()
			seen = nil
			mu.Unlock()
			status, err := send(target)
			if err != nil {
				t.Fatalf("%s: %v", target, err)
			}
			mu.Lock()
			got := append([]string(nil), seen...)
			mu.Unlock()
			if len(got) == 0 {
				t.Errorf("client sent %q: origin received nothing (status %d)", target, status)
				continue
			}
			// POST is neither coalesced nor stored, so there is exactly one upstream request
			if got[0] != target {
				t.Errorf("client sent request-target %q, origin received %q", target, got[0])
			} else {
				t.Logf("ok: %q relayed unchanged", target)
			}
		}
	}

	t.Run("plain", func(t *testing.T) {
		env := SetupTestEnv(t)
		run(t, env, func(target string) (int, error) {
			up, _ := url.Parse(env.Upstream.URL)
			px, _ := url.Parse(env.ProxyServer.URL)
			c, err := net.DialTimeout("tcp", px.Host, 2*time.Second)
			if err != nil {
				return 0, err
			}
			defer c.Close()
			c.SetDeadline(time.Now().Add(5 * time.Second))
			fmt.Fprintf(c, "POST http://%s%s HTTP/1.1\r\nHost: %s\r\nContent-Length: 0\r\nConnection: close\r\n\r\n", up.Host, target, up.Host)
			resp, err := http.ReadResponse(bufio.NewReader(c), &http.Request{Method: "POST"})
			if err != nil {
				return 0, err
			}
			io.Copy(io.Discard, resp.Body)
			return resp.StatusCode, nil
		})
	})

	t.Run("connect-tunnel", func(t *testing.T) {
		env := SetupHttpsTestEnv(t)
		run(t, env, func(target string) (int, error) {
			// url.Parse keeps RawPath / ForceQuery, so Go's client puts the target on the wire verbatim
			u, err := url.Parse(env.Upstream.URL + target)
			if err != nil {
				return 0, err
			}
			req := &http.Request{Method: "POST", URL: u, Header: http.Header{}, Host: u.Host}
			resp, err := env.Client.Do(req)
			if err != nil {
				return 0, err
			}
			defer resp.Body.Close()
			io.Copy(io.Discard, resp.Body)
			return resp.StatusCode, nil
		})
	})
}
