// package directory: tests/   (copy this file to /tmp/hunt-C05-h3/tests/zz_hunt2_test.go)
package tests

// C05 hunt, finding 2: with the file backend, N identical concurrent GETs for a cacheable resource
// whose body is empty (200, Cache-Control: max-age=60, Content-Length: 0) cause N+1 origin fetches:
// the file cache refuses a zero-length body (ErrCacheFileEmpty), the shared fetch is thrown away and
// every client, the one that ran it included, fetches again for itself. The memory backend stores
// the same answer and needs one fetch, so the claim does not hold "for both backends".

import (
	"fmt"
	"io"
	"net/http"
	"net/http/httptest"
	"net/url"
	"reservoir/config"
	"reservoir/logging"
	"reservoir/proxy"
	"sync"
	"sync/atomic"
	"testing"
	"time"
)

func hunt2Setup(t *testing.T, cacheType config.CacheType, handler http.Handler) (client *http.Client, upstreamURL string) {
	cfg := config.NewDefault()
	cfg.Proxy.UpstreamDefaultHttps.Overwrite(false)
	cfg.Cache.File.Dir.Overwrite(t.TempDir())
	cfg.Proxy.CachePolicy.IgnoreCacheControl.Overwrite(false)
	cfg.Proxy.CachePolicy.ForceDefaultMaxAge.Overwrite(false)
	cfg.Cache.Type.Overwrite(cacheType)
	cfg.Cache.LockShards.Overwrite(32)
	cfg.Logging.ToStdout.Overwrite(false)
	logging.Init(cfg)

	p, err := proxy.NewProxy(cfg, &FakeCA{}, t.Context())
	if err != nil {
		t.Fatalf("Failed to create proxy: %v", err)
	}
	upstream := httptest.NewServer(handler)
	proxyServer := httptest.NewServer(p)
	proxyURL, _ := url.Parse(proxyServer.URL)
	tr := &http.Transport{Proxy: http.ProxyURL(proxyURL), MaxIdleConnsPerHost: 100}
	t.Cleanup(func() {
		tr.CloseIdleConnections()
		upstream.Close()
		proxyServer.Close()
		time.Sleep(50 * time.Millisecond)
		p.Destroy()
	})
	return &http.Client{Transport: tr}, upstream.URL
}

func TestHunt2EmptyCacheableBodyIsFetchedByEveryClient(t *testing.T) {
	const clients = 10

	for _, cacheType := range []config.CacheType{config.CacheTypeMemory, config.CacheTypeFile} {
		t.Run(fmt.Sprint(cacheType), func(t *testing.T) {
			var originFetches int32
			client, upstreamURL := hunt2Setup(t, cacheType, http.HandlerFunc(func(w http.ResponseWriter, r *http.Request) {
				atomic.AddInt32(&originFetches, 1)
				time.Sleep(300 * time.Millisecond) // long enough for all clients to overlap
				w.Header().Set("Cache-Control", "max-age=60")
				w.Header().Set("ETag", `"empty"`)
				w.Header().Set("Content-Type", "text/css")
				w.Header().Set("Content-Length", "0")
				w.WriteHeader(http.StatusOK)
			}))
			target := upstreamURL + "/empty.css"

			var wg sync.WaitGroup
			start := make(chan struct{})
			for i := 0; i < clients; i++ {
				wg.Add(1)
				go func(i int) {
					defer wg.Done()
					<-start
					resp, err := client.Get(target)
					if err != nil {
						t.Errorf("client %d: %v", i, err)
						return
					}
					defer resp.Body.Close()
					body, err := io.ReadAll(resp.Body)
					if err != nil || resp.StatusCode != http.StatusOK || len(body) != 0 {
						t.Errorf("client %d: status=%d body=%q err=%v", i, resp.StatusCode, body, err)
					}
				}(i)
			}
			close(start)
			wg.Wait()

			if got := atomic.LoadInt32(&originFetches); got != 1 {
				t.Errorf("%s backend: %d identical concurrent GETs for a cacheable resource with an empty body caused %d origin fetches, want 1",
					cacheType, clients, got)
			}
		})
	}
}
