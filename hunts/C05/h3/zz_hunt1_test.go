// package directory: tests/   (copy this file to /tmp/hunt-C05-h3/tests/zz_hunt1_test.go)
package tests

// C05 hunt, finding 1: N identical GETs that carry a (valid, single) Range header are never
// coalesced and never answered from the store: each of them causes its own origin fetch, although
// the origin answers every one of them with the same cacheable 200 (it ignores Range, which
// RFC 9110 14.2 allows) and the proxy stores that 200 N times. On a fresh key the N clients cause
// N origin fetches where none is needed (the test tolerates one).

import (
	"fmt"
	"io"
	"net/http"
	"net/http/httptest"
	"net/url"
	"reservoir/config"
	"reservoir/logging"
	"reservoir/proxy"
	"sync"
	"sync/atomic"
	"testing"
	"time"
)

func hunt1Setup(t *testing.T, cacheType config.CacheType, handler http.Handler) (client *http.Client, upstreamURL string) {
	cfg := config.NewDefault()
	cfg.Proxy.UpstreamDefaultHttps.Overwrite(false)
	cfg.Cache.File.Dir.Overwrite(t.TempDir())
	cfg.Proxy.CachePolicy.IgnoreCacheControl.Overwrite(false)
	cfg.Proxy.CachePolicy.ForceDefaultMaxAge.Overwrite(false)
	cfg.Cache.Type.Overwrite(cacheType)
	cfg.Cache.LockShards.Overwrite(32)
	cfg.Logging.ToStdout.Overwrite(false)
	logging.Init(cfg)

	p, err := proxy.NewProxy(cfg, &FakeCA{}, t.Context())
	if err != nil {
		t.Fatalf("Failed to create proxy: %v", err)
	}
	upstream := httptest.NewServer(handler)
	proxyServer := httptest.NewServer(p)
	proxyURL, _ := url.Parse(proxyServer.URL)
	tr := &http.Transport{Proxy: http.ProxyURL(proxyURL), MaxIdleConnsPerHost: 100}
	t.Cleanup(func() {
		tr.CloseIdleConnections()
		upstream.Close()
		proxyServer.Close()
		time.Sleep(50 * time.Millisecond)
		p.Destroy()
	})
	return &http.Client{Transport: tr}, upstream.URL
}

func TestHunt1IdenticalRangeGetsAreNotCoalesced(t *testing.T) {
	const content = "0123456789abcdefghijklmnopqrstuvwxyz"
	const clients = 10

	for _, cacheType := range []config.CacheType{config.CacheTypeMemory, config.CacheTypeFile} {
		for _, state := range []string{"cold", "fresh"} {
			t.Run(fmt.Sprintf("%s/%s", cacheType, state), func(t *testing.T) {
				var originFetches int32
				// An origin without range support: it answers every GET with the full, cacheable 200.
				client, upstreamURL := hunt1Setup(t, cacheType, http.HandlerFunc(func(w http.ResponseWriter, r *http.Request) {
					atomic.AddInt32(&originFetches, 1)
					time.Sleep(300 * time.Millisecond) // long enough for all clients to overlap
					w.Header().Set("Cache-Control", "max-age=60")
					w.Header().Set("ETag", `"v1"`)
					w.WriteHeader(http.StatusOK)
					w.Write([]byte(content))
				}))
				target := upstreamURL + "/resource"

				allowed := int32(1) // cold key: one shared origin fetch
				if state == "fresh" {
					resp, err := client.Get(target)
					if err != nil {
						t.Fatalf("warm-up failed: %v", err)
					}
					io.Copy(io.Discard, resp.Body)
					resp.Body.Close()
					if resp.Header.Get("X-Cache") != "MISS" || atomic.LoadInt32(&originFetches) != 1 {
						t.Fatalf("warm-up did not store the resource")
					}
					atomic.StoreInt32(&originFetches, 0)
					// fresh key: the store can answer and no origin fetch is needed at all; one is still tolerated here
				}

				var wg sync.WaitGroup
				start := make(chan struct{})
				for i := 0; i < clients; i++ {
					wg.Add(1)
					go func(i int) {
						defer wg.Done()
						<-start
						req, _ := http.NewRequest(http.MethodGet, target, nil)
						req.Header.Set("Range", "bytes=0-9")
						resp, err := client.Do(req)
						if err != nil {
							t.Errorf("client %d: %v", i, err)
							return
						}
						defer resp.Body.Close()
						body, err := io.ReadAll(resp.Body)
						// every client gets the right answer (served as a slice of the stored 200) ...
						if err != nil || resp.StatusCode != http.StatusPartialContent || string(body) != content[:10] {
							t.Errorf("client %d: status=%d body=%q err=%v", i, resp.StatusCode, body, err)
						}
					}(i)
				}
				close(start)
				wg.Wait()

				// ... but each of them went to the origin for it
				if got := atomic.LoadInt32(&originFetches); got > allowed {
					t.Errorf("%d identical concurrent GETs (Range: bytes=0-9) on a %s key caused %d origin fetches, want at most %d",
						clients, state, got, allowed)
				}
			})
		}
	}
}
