// package directory: tests/
package tests

import (
	"io"
	"net/http"
	"strings"
	"sync"
	"sync/atomic"
	"testing"
	"time"
)

// A GET that carries a request body (legal HTTP) for a resource whose answer turns out not to be
// cacheable: the shared fetch consumes the request body, throws the (uncacheable) response away and
// the "fetch your own copy" fallback then re-sends the very same *http.Request whose body is already
// consumed. The client gets 502 instead of a complete response of its own.
func TestHunt2_UncacheableAnswerGetWithBodyGets502(t *testing.T) {
	env := SetupTestEnv(t)

	var hits int32
	env.Upstream.Config.Handler = http.HandlerFunc(func(w http.ResponseWriter, r *http.Request) {
		atomic.AddInt32(&hits, 1)
		b, _ := io.ReadAll(r.Body)
		time.Sleep(200 * time.Millisecond)
		w.Header().Set("Cache-Control", "no-store")
		w.WriteHeader(http.StatusOK)
		w.Write([]byte("answer for query " + string(b)))
	})
	env.Start()

	target := env.Upstream.URL + "/search"

	const clients = 4
	var wg sync.WaitGroup
	for i := range clients {
		wg.Add(1)
		go func() {
			defer wg.Done()
			req, _ := http.NewRequest(http.MethodGet, target, strings.NewReader(`{"q":"x"}`))
			resp, err := env.Client.Do(req)
			if err != nil {
				t.Errorf("client %d: %v", i, err)
				return
			}
			defer resp.Body.Close()
			b, _ := io.ReadAll(resp.Body)
			if resp.StatusCode != 200 || string(b) != `answer for query {"q":"x"}` {
				t.Errorf("client %d: status=%d body=%q, want 200 %q", i, resp.StatusCode, b, `answer for query {"q":"x"}`)
			}
		}()
	}
	wg.Wait()
	t.Logf("origin hits: %d", atomic.LoadInt32(&hits))
}
