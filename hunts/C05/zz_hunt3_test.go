// package directory: tests/
package tests

import (
	"io"
	"net/http"
	"reservoir/utils/duration"
	"sync"
	"sync/atomic"
	"testing"
	"time"
)

// A stale entry is being revalidated on behalf of N coalesced clients. The eviction janitor's
// periodic expiry sweep runs while the (single) conditional request is still on its way: it sees an
// expired entry nobody holds a lock on and removes it. The 304 that comes back can no longer be applied,
// the shared fetch reports "not cacheable", and every one of the N clients goes to the origin by itself.
func TestHunt3_JanitorSweepDuringRevalidationFansOutToOrigin(t *testing.T) {
	env := SetupTestEnv(t)

	var hits, conditional int32
	var slow atomic.Bool
	env.Upstream.Config.Handler = http.HandlerFunc(func(w http.ResponseWriter, r *http.Request) {
		atomic.AddInt32(&hits, 1)
		if r.Header.Get("If-None-Match") == "\"v1\"" {
			atomic.AddInt32(&conditional, 1)
			if slow.Load() {
				time.Sleep(1000 * time.Millisecond)
			}
			w.WriteHeader(http.StatusNotModified)
			return
		}
		w.Header().Set("Cache-Control", "max-age=1")
		w.Header().Set("ETag", "\"v1\"")
		w.WriteHeader(http.StatusOK)
		w.Write([]byte("response body"))
	})
	env.Start()

	// cache.cleanup_interval = 2s (a plain configuration value); the ticker restarts now.
	env.Cfg.Cache.CleanupInterval.Overwrite(duration.Duration(2 * time.Second))
	t0 := time.Now()
	time.Sleep(50 * time.Millisecond)

	target := env.Upstream.URL + "/hunt3"

	// Prime the cache: fresh until about t0+1.05s.
	resp, err := env.Client.Get(target)
	if err != nil {
		t.Fatal(err)
	}
	io.Copy(io.Discard, resp.Body)
	resp.Body.Close()
	if h := atomic.LoadInt32(&hits); h != 1 {
		t.Fatalf("priming: %d origin hits", h)
	}

	// At t0+1.4s the entry is stale; the revalidation lasts until about t0+2.4s, the sweep runs at t0+2s.
	time.Sleep(time.Until(t0.Add(1400 * time.Millisecond)))
	slow.Store(true)

	const clients = 10
	var wg sync.WaitGroup
	for i := range clients {
		wg.Add(1)
		go func() {
			defer wg.Done()
			resp, err := env.Client.Get(target)
			if err != nil {
				t.Errorf("client %d: %v", i, err)
				return
			}
			defer resp.Body.Close()
			b, _ := io.ReadAll(resp.Body)
			if resp.StatusCode != 200 || string(b) != "response body" {
				t.Errorf("client %d: status=%d body=%q", i, resp.StatusCode, b)
			}
		}()
	}
	wg.Wait()

	total := atomic.LoadInt32(&hits)
	t.Logf("origin hits: %d total, %d of them conditional", total, atomic.LoadInt32(&conditional))
	// One fetch to prime, one revalidation for the ten concurrent clients.
	if total != 2 {
		t.Errorf("%d concurrent clients on a stale entry caused %d origin requests after priming, want 1 (a single revalidation)", clients, total-1)
	}
}
