// package directory: tests/
package tests

import (
	"fmt"
	"io"
	"net"
	"net/http"
	"net/url"
	"sync"
	"sync/atomic"
	"testing"
	"time"
)

// A client that sends a GET with a (legal) request body and disconnects before the body is complete
// is the one whose request runs the shared fetch. Its disconnect makes the shared origin fetch fail,
// and every other, perfectly ordinary client that was coalesced onto it gets 502 instead of the resource.
func TestHunt1_LeaderDisconnectMidBodyBreaksFollowers(t *testing.T) {
	env := SetupTestEnv(t)

	var hits int32
	env.Upstream.Config.Handler = http.HandlerFunc(func(w http.ResponseWriter, r *http.Request) {
		atomic.AddInt32(&hits, 1)
		time.Sleep(400 * time.Millisecond)
		w.Header().Set("Cache-Control", "max-age=60")
		w.Header().Set("ETag", "\"v1\"")
		w.WriteHeader(http.StatusOK)
		w.Write([]byte("response body"))
	})
	env.Start()

	up, _ := url.Parse(env.Upstream.URL)
	target := env.Upstream.URL + "/hunt1"

	// Leader: GET with Content-Length: 10, only 3 bytes of it sent.
	conn, err := net.Dial("tcp", env.ProxyServer.Listener.Addr().String())
	if err != nil {
		t.Fatal(err)
	}
	fmt.Fprintf(conn, "GET %s HTTP/1.1\r\nHost: %s\r\nContent-Length: 10\r\n\r\nabc", target, up.Host)

	time.Sleep(100 * time.Millisecond) // leader's fetch is now in flight at the origin

	const followers = 5
	var wg sync.WaitGroup
	type result struct {
		status int
		body   string
		err    error
	}
	results := make([]result, followers)
	for i := range followers {
		wg.Add(1)
		go func() {
			defer wg.Done()
			resp, err := env.Client.Get(target)
			if err != nil {
				results[i] = result{err: err}
				return
			}
			defer resp.Body.Close()
			b, err := io.ReadAll(resp.Body)
			results[i] = result{status: resp.StatusCode, body: string(b), err: err}
		}()
	}

	time.Sleep(100 * time.Millisecond) // followers are now coalesced onto the leader's fetch
	conn.Close()                       // the leader goes away

	wg.Wait()
	for i, r := range results {
		if r.err != nil || r.status != 200 || r.body != "response body" {
			t.Errorf("follower %d: status=%d body=%q err=%v (want 200 %q)", i, r.status, r.body, r.err, "response body")
		}
	}
	t.Logf("origin hits: %d", atomic.LoadInt32(&hits))
}
