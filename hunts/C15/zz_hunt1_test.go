// package directory: tests/   (run with: go test -race -vet=off -count=1 -run TestHunt1 ./tests/)
package tests

import (
	"fmt"
	"io"
	"net/http"
	"net/http/httptest"
	"net/url"
	"reservoir/config"
	"reservoir/proxy"
	"reservoir/utils/bytesize"
	"sync"
	"sync/atomic"
	"testing"
	"time"
)

// Two kinds of ordinary clients talk to one proxy whose cache is small (max_cache_size = 64K):
//   - "hit" clients keep asking for a handful of URLs that are already cached (cache hits),
//   - "fill" clients ask for new URLs all the time, so every store finds the cache full and evicts.
//
// A cache hit updates the stored entry's LastAccess under the key lock (MemoryCache.Get / FileCache.Get).
// The eviction that a store triggers (cacheJanitor.evict) walks over the *stored* metadata of all entries
// and reads LastAccess and Size without taking any key lock. That is an unsynchronised read/write pair on
// the same memory, reported by the race detector.
func hunt1Run(t *testing.T, cacheType config.CacheType) {
	const bodySize = 8 * 1024
	body := make([]byte, bodySize)
	for i := range body {
		body[i] = 'x'
	}

	upstream := httptest.NewServer(http.HandlerFunc(func(w http.ResponseWriter, r *http.Request) {
		w.Header().Set("Cache-Control", "max-age=600")
		w.Header().Set("ETag", `"v1"`)
		w.WriteHeader(http.StatusOK)
		w.Write(body)
	}))
	defer upstream.Close()

	cfg := config.NewDefault()
	cfg.Proxy.UpstreamDefaultHttps.Overwrite(false)
	cfg.Cache.File.Dir.Overwrite(t.TempDir())
	cfg.Cache.Type.Overwrite(cacheType)
	cfg.Cache.LockShards.Overwrite(32)
	cfg.Cache.MaxCacheSize.Overwrite(bytesize.ParseUnchecked("64K"))
	cfg.Logging.ToStdout.Overwrite(false)

	p, err := proxy.NewProxy(cfg, &FakeCA{}, t.Context())
	if err != nil {
		t.Fatalf("NewProxy: %v", err)
	}
	proxyServer := httptest.NewServer(p)
	defer func() {
		proxyServer.Close()
		p.Destroy()
	}()

	proxyURL, _ := url.Parse(proxyServer.URL)
	client := &http.Client{Transport: &http.Transport{Proxy: http.ProxyURL(proxyURL), MaxIdleConnsPerHost: 16}}
	defer client.CloseIdleConnections()

	get := func(path string) {
		resp, err := client.Get(upstream.URL + path)
		if err != nil {
			return
		}
		io.Copy(io.Discard, resp.Body)
		resp.Body.Close()
	}

	deadline := time.Now().Add(3 * time.Second)
	var wg sync.WaitGroup
	var seq atomic.Int64

	for w := 0; w < 4; w++ {
		wg.Add(1)
		go func() { // cache hits on a few hot URLs
			defer wg.Done()
			for i := 0; time.Now().Before(deadline); i++ {
				get(fmt.Sprintf("/hot/%d", i%3))
			}
		}()
		wg.Add(1)
		go func() { // always new URLs: the cache is full, every store evicts
			defer wg.Done()
			for time.Now().Before(deadline) {
				get(fmt.Sprintf("/fill/%d", seq.Add(1)))
			}
		}()
	}
	wg.Wait()
}

func TestHunt1_EvictionReadsLiveMetadata_Memory(t *testing.T) {
	hunt1Run(t, config.CacheTypeMemory)
}

func TestHunt1_EvictionReadsLiveMetadata_File(t *testing.T) {
	hunt1Run(t, config.CacheTypeFile)
}
