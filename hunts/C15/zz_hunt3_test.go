// package directory: webserver/api/endpoints/config/   (run with: go test -race -vet=off -count=1 -run TestHunt3 ./webserver/api/endpoints/config/)
package config_test

import (
	"fmt"
	"net/http"
	"net/http/httptest"
	"os"
	"path/filepath"
	"reservoir/config"
	"reservoir/logging"
	"reservoir/webserver/api/apitypes"
	configEndpoint "reservoir/webserver/api/endpoints/config"
	logEndpoint "reservoir/webserver/api/endpoints/log"
	"strings"
	"testing"
	"time"
)

// One dashboard administrator changes two logging settings with a single PATCH /api/config.
// Every changed property notifies its subscribers in a goroutine of its own (event.Fire), and the
// subscribers of logging.max_size and logging.max_backups both run logging.updateLogger, which assigns
// the package variable logging.fileLog without any synchronisation: two unsynchronised writes to the same
// memory. GET /api/log (logging.OpenLogFileRead) reads the same variable, also without synchronisation.
//
// The handlers are called the way api.WrapHandler calls them once the session cookie has been accepted.
func TestHunt3_ConfigChangeRacesOnLogWriter(t *testing.T) {
	dir := t.TempDir()
	if err := os.MkdirAll(filepath.Join(dir, "var"), 0o755); err != nil {
		t.Fatal(err)
	}
	t.Chdir(dir) // the config is persisted to the relative path var/config.json

	cfg := config.NewDefault()
	cfg.Logging.File.Overwrite(filepath.Join(dir, "proxy.log")) // --log-file
	cfg.Logging.ToStdout.Overwrite(false)
	logging.Init(cfg)

	ctx := apitypes.Context{Config: cfg}
	patch := &configEndpoint.ConfigEndpoint{}
	logs := &logEndpoint.LogEndpoint{}

	// A second dashboard tab that looks at the log while the settings are being changed.
	stop := make(chan struct{})
	done := make(chan struct{})
	go func() {
		defer close(done)
		for {
			select {
			case <-stop:
				return
			default:
			}
			rec := httptest.NewRecorder()
			logs.Get(rec, httptest.NewRequest(http.MethodGet, "/api/log", nil), ctx)
		}
	}()

	for i := 1; i <= 40; i++ {
		body := fmt.Sprintf(`{"logging":{"max_size":"%dM","max_backups":%d}}`, 100+i, i)
		req := httptest.NewRequest(http.MethodPatch, "/api/config", strings.NewReader(body))
		req.Header.Set("Content-Type", "application/json")
		rec := httptest.NewRecorder()
		patch.Patch(rec, req, ctx)
		if rec.Code != http.StatusAccepted {
			t.Fatalf("PATCH %d: status %d body %q", i, rec.Code, rec.Body.String())
		}
	}

	close(stop)
	<-done
	time.Sleep(200 * time.Millisecond) // let the notification goroutines finish
}
