// package directory: tests/   (run with: go test -race -vet=off -count=1 -run TestHunt2 ./tests/)
package tests

import (
	"fmt"
	"io"
	"net/http"
	"net/http/httptest"
	"net/url"
	"reservoir/config"
	"reservoir/proxy"
	"reservoir/utils/duration"
	"sync"
	"sync/atomic"
	"testing"
	"time"
)

// Cleanup cycles against revalidations.
//
// Configuration (all legal values of the config file): cache.cleanup_interval = 3ms,
// proxy.cache_policy.default_max_age = 25ms (force_default_max_age is true by default).
// Clients keep asking for a few URLs; whenever an entry has gone stale the proxy revalidates it, the origin
// answers 304 and fetcher.handleUpstream304 moves the stored entry's Expires forward through
// Cache.UpdateMetadata (under the key lock). The cleanup cycle (cacheJanitor.cleanExpiredEntries) scans the
// *stored* metadata of every entry and reads Expires without any key lock: unsynchronised read/write of the
// same time.Time.
func hunt2Run(t *testing.T, cacheType config.CacheType) {
	var revalidations atomic.Int64
	upstream := httptest.NewServer(http.HandlerFunc(func(w http.ResponseWriter, r *http.Request) {
		if r.Header.Get("If-None-Match") == `"v1"` {
			revalidations.Add(1)
			w.WriteHeader(http.StatusNotModified)
			return
		}
		w.Header().Set("ETag", `"v1"`)
		w.WriteHeader(http.StatusOK)
		w.Write([]byte("response body"))
	}))
	defer upstream.Close()

	cfg := config.NewDefault()
	cfg.Proxy.UpstreamDefaultHttps.Overwrite(false)
	cfg.Cache.File.Dir.Overwrite(t.TempDir())
	cfg.Cache.Type.Overwrite(cacheType)
	cfg.Cache.LockShards.Overwrite(32)
	cfg.Cache.CleanupInterval.Overwrite(duration.Duration(3 * time.Millisecond))
	cfg.Proxy.CachePolicy.DefaultMaxAge.Overwrite(duration.Duration(25 * time.Millisecond))
	cfg.Logging.ToStdout.Overwrite(false)

	p, err := proxy.NewProxy(cfg, &FakeCA{}, t.Context())
	if err != nil {
		t.Fatalf("NewProxy: %v", err)
	}
	proxyServer := httptest.NewServer(p)
	defer func() {
		proxyServer.Close()
		p.Destroy()
	}()

	proxyURL, _ := url.Parse(proxyServer.URL)
	client := &http.Client{Transport: &http.Transport{Proxy: http.ProxyURL(proxyURL), MaxIdleConnsPerHost: 16}}
	defer client.CloseIdleConnections()

	deadline := time.Now().Add(4 * time.Second)
	var wg sync.WaitGroup
	for w := 0; w < 12; w++ {
		wg.Add(1)
		go func() {
			defer wg.Done()
			for i := 0; time.Now().Before(deadline); i++ {
				resp, err := client.Get(fmt.Sprintf("%s/doc/%d", upstream.URL, w))
				if err != nil {
					continue
				}
				io.Copy(io.Discard, resp.Body)
				resp.Body.Close()
			}
		}()
	}
	wg.Wait()
	t.Logf("origin answered %d revalidations with 304", revalidations.Load())
}

func TestHunt2_CleanupScanReadsLiveExpires_Memory(t *testing.T) {
	hunt2Run(t, config.CacheTypeMemory)
}

func TestHunt2_CleanupScanReadsLiveExpires_File(t *testing.T) {
	hunt2Run(t, config.CacheTypeFile)
}
