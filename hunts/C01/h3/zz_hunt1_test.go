// package directory: tests/   (run: go test -vet=off -count=1 -run TestHunt1 ./tests/)
package tests

import (
	"context"
	"io"
	"net/http"
	"net/http/httptest"
	"net/url"
	"reservoir/config"
	"reservoir/logging"
	"reservoir/proxy"
	"testing"
	"time"
)

// A proxy with the chosen cache backend in front of an origin that answers every request-target with a
// body (and ETag) naming exactly the request-target it received.
func hunt1Env(t *testing.T, backend config.CacheType) (client *http.Client, origin string) {
	cfg := config.NewDefault()
	cfg.Proxy.UpstreamDefaultHttps.Overwrite(false)
	cfg.Cache.File.Dir.Overwrite(t.TempDir())
	cfg.Proxy.CachePolicy.IgnoreCacheControl.Overwrite(false)
	cfg.Proxy.CachePolicy.ForceDefaultMaxAge.Overwrite(false)
	cfg.Cache.Type.Overwrite(backend)
	cfg.Cache.LockShards.Overwrite(32)
	cfg.Logging.ToStdout.Overwrite(false)
	logging.Init(cfg)

	ctx, cancel := context.WithCancel(context.Background())
	p, err := proxy.NewProxy(cfg, &FakeCA{}, ctx)
	if err != nil {
		t.Fatal(err)
	}
	up := httptest.NewServer(http.HandlerFunc(func(w http.ResponseWriter, r *http.Request) {
		w.Header().Set("Cache-Control", "max-age=60")
		w.Header().Set("Content-Type", "text/plain")
		w.Header().Set("ETag", `"`+r.RequestURI+`"`)
		w.Write([]byte("body-of[" + r.RequestURI + "]"))
	}))
	ps := httptest.NewServer(p)
	pu, _ := url.Parse(ps.URL)
	tr := &http.Transport{Proxy: http.ProxyURL(pu)}
	t.Cleanup(func() {
		tr.CloseIdleConnections()
		ps.Close()
		up.Close()
		time.Sleep(50 * time.Millisecond)
		cancel()
		p.Destroy()
	})
	return &http.Client{Transport: tr}, up.URL
}

func hunt1Get(t *testing.T, c *http.Client, u string) (body, xcache, etag string) {
	resp, err := c.Get(u)
	if err != nil {
		t.Fatalf("GET %s: %v", u, err)
	}
	defer resp.Body.Close()
	b, _ := io.ReadAll(resp.Body)
	if resp.StatusCode != 200 {
		t.Fatalf("GET %s: status %d", u, resp.StatusCode)
	}
	return string(b), resp.Header.Get("X-Cache"), resp.Header.Get("ETag")
}

// "/files/a/b" and "/files/a//b" are different resources (an empty path segment is significant; RFC 3986
// section 6.2.2.3 removes dot-segments only), and the proxy does relay the two spellings to the origin
// unchanged. The cache key is built with path.Clean, which also collapses "//", so both are filed under
// one entry: the GET for the second resource is answered from the store with the body, ETag and length
// of the first.
func TestHunt1_EmptySegmentSharesEntry(t *testing.T) {
	for _, backend := range []config.CacheType{config.CacheTypeMemory, config.CacheTypeFile} {
		t.Run(string(backend), func(t *testing.T) {
			c, origin := hunt1Env(t, backend)
			if b, _, _ := hunt1Get(t, c, origin+"/files/a/b"); b != "body-of[/files/a/b]" {
				t.Fatalf("first GET: %q", b)
			}
			b, xc, et := hunt1Get(t, c, origin+"/files/a//b")
			if b != "body-of[/files/a//b]" {
				t.Errorf("GET /files/a//b was answered with %q (X-Cache=%s, ETag=%s): the body of another resource", b, xc, et)
			}
		})
	}
}

// Same defect, second door: the key ignores URL.ForceQuery, so "/list?" (which the proxy takes care to relay
// to the origin with its bare "?", see changeRequestToTarget) shares the entry of "/list". RFC 3986 section 6.2.3:
// "http://example.com/?" cannot be assumed to be equivalent to "http://example.com/".
func TestHunt1_BareQuestionMarkSharesEntry(t *testing.T) {
	c, origin := hunt1Env(t, config.CacheTypeMemory)
	if b, _, _ := hunt1Get(t, c, origin+"/list"); b != "body-of[/list]" {
		t.Fatalf("first GET: %q", b)
	}
	b, xc, et := hunt1Get(t, c, origin+"/list?")
	if b != "body-of[/list?]" {
		t.Errorf("GET /list? was answered with %q (X-Cache=%s, ETag=%s): the body of another resource", b, xc, et)
	}
}
