// package directory: tests/   (run: go test -vet=off -count=1 -run TestHunt3 ./tests/)
package tests

import (
	"bufio"
	"crypto/tls"
	"fmt"
	"io"
	"net"
	"net/http"
	"net/url"
	"strings"
	"testing"
	"time"
)

// An HTTP/1.0 client on a CONNECT tunnel asks for a resource whose origin response had no Content-Length
// (the origin answered the proxy's HTTP/1.1 request chunked). The stored entry therefore has no length, and
// the tunnel's hand-made responder frames the answer built from the store with "Transfer-Encoding: chunked",
// also for a request that says HTTP/1.0 (RFC 9112 section 6.1: a server MUST NOT do that). For an HTTP/1.0
// client the body is whatever follows the header section, so what it receives is the origin body EXTENDED
// by chunk-size lines and the terminating chunk. On the plain (non-CONNECT) path net/http's server
// sends the same stored entry to an HTTP/1.0 client unchunked and close-delimited, i.e. correctly.
func TestHunt3_HTTP10ClientOnTunnelGetsChunkFraming(t *testing.T) {
	env := SetupHttpsTestEnv(t)
	const body = "0123456789abcdefghijklmnopqrstuvwxyz"
	env.Upstream.Config.Handler = http.HandlerFunc(func(w http.ResponseWriter, r *http.Request) {
		w.Header().Set("Cache-Control", "max-age=60")
		w.Header().Set("Content-Type", "text/plain")
		// No Content-Length, flushed in two pieces: chunked towards the proxy
		w.Write([]byte(body[:10]))
		w.(http.Flusher).Flush()
		w.Write([]byte(body[10:]))
	})
	env.Start()
	up, _ := url.Parse(env.Upstream.URL)
	pu, _ := url.Parse(env.ProxyServer.URL)

	fetch := func() (head, payload string) {
		conn, err := net.Dial("tcp", pu.Host)
		if err != nil {
			t.Fatal(err)
		}
		defer conn.Close()
		fmt.Fprintf(conn, "CONNECT %s HTTP/1.1\r\nHost: %s\r\n\r\n", up.Host, up.Host)
		resp, err := http.ReadResponse(bufio.NewReader(conn), nil)
		if err != nil || resp.StatusCode != 200 {
			t.Fatalf("CONNECT: %v %v", err, resp)
		}
		tc := tls.Client(conn, &tls.Config{RootCAs: env.CACertPool, ServerName: up.Hostname()})
		if err := tc.Handshake(); err != nil {
			t.Fatal(err)
		}
		fmt.Fprintf(tc, "GET /h10 HTTP/1.0\r\nHost: %s\r\n\r\n", up.Host)
		// HTTP/1.0 semantics: no chunked decoding; the body runs to the announced Content-Length or else to the
		// close of the connection (the tunnel is not closed either, so the read ends on the deadline).
		tc.SetReadDeadline(time.Now().Add(1500 * time.Millisecond))
		raw, _ := io.ReadAll(tc)
		head, payload, _ = strings.Cut(string(raw), "\r\n\r\n")
		return head, payload
	}

	fetch() // fills the store
	head, payload := fetch()
	t.Logf("header section of the second answer:\n%s", head)
	if !strings.Contains(head, "X-Cache: HIT") {
		t.Fatalf("the second answer was not built from the store")
	}
	if payload != body {
		t.Errorf("the HTTP/1.0 client received %q after the header section; the origin body is %q", payload, body)
	}
}
