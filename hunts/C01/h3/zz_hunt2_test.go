// package directory: tests/   (run: go test -vet=off -count=1 -run TestHunt2 ./tests/)
package tests

import (
	"context"
	"io"
	"net/http"
	"net/http/httptest"
	"net/url"
	"reservoir/config"
	"reservoir/logging"
	"reservoir/proxy"
	"sync/atomic"
	"testing"
	"time"
)

// History over a versioned resource:
//
//	0. GET /doc                     -> version 1 is stored
//	1. GET /doc, Range: bytes=0-8   -> (not coalesced) goes upstream; the origin ignores Range and starts
//	                                   sending version 1 as a 200, slowly
//	2. the origin moves to version 2
//	   GET /doc, Range: bytes=0-8   -> goes upstream, 200 version 2 is stored: version 1 is REPLACED
//	   GET /doc                     -> HIT, version 2 (the store demonstrably holds version 2)
//	3. the slow transfer of step 1 ends; its fetcher stores version 1 over version 2
//	4. GET /doc, started after all of the above -> HIT with the body, ETag and length of version 1
//
// The request of step 4 starts long after version 1 was replaced in the store and still receives the
// replaced body (and keeps receiving it for the whole max-age), although origin and store had moved on.
func TestHunt2_ReplacedBodyComesBack(t *testing.T) {
	for _, backend := range []config.CacheType{config.CacheTypeMemory, config.CacheTypeFile} {
		t.Run(string(backend), func(t *testing.T) {
			var version atomic.Int64
			version.Store(1)
			release := make(chan struct{})
			arrived := make(chan struct{}, 1)
			bodies := map[int64]string{1: "version-1 version-1 version-1 version-1", 2: "VERSION-2 VERSION-2 VERSION-2 VERSION-2 (longer)"}
			etags := map[int64]string{1: `"v1"`, 2: `"v2"`}
			origin := http.HandlerFunc(func(w http.ResponseWriter, r *http.Request) {
				v := version.Load() // the representation is selected when the request arrives
				b := bodies[v]
				w.Header().Set("Cache-Control", "max-age=600")
				w.Header().Set("ETag", etags[v])
				w.Header().Set("Content-Type", "text/plain")
				// Range is ignored: a 200 with the whole body, which RFC 9110 section 14.2 allows
				w.Write([]byte(b[:10]))
				w.(http.Flusher).Flush()
				if r.Header.Get("X-Slow") != "" {
					arrived <- struct{}{}
					<-release // a slow transfer
				}
				w.Write([]byte(b[10:]))
			})

			cfg := config.NewDefault()
			cfg.Proxy.UpstreamDefaultHttps.Overwrite(false)
			cfg.Cache.File.Dir.Overwrite(t.TempDir())
			cfg.Proxy.CachePolicy.IgnoreCacheControl.Overwrite(false)
			cfg.Proxy.CachePolicy.ForceDefaultMaxAge.Overwrite(false)
			cfg.Cache.Type.Overwrite(backend)
			cfg.Cache.LockShards.Overwrite(32)
			cfg.Logging.ToStdout.Overwrite(false)
			logging.Init(cfg)
			ctx, cancel := context.WithCancel(context.Background())
			p, err := proxy.NewProxy(cfg, &FakeCA{}, ctx)
			if err != nil {
				t.Fatal(err)
			}
			up := httptest.NewServer(origin)
			ps := httptest.NewServer(p)
			pu, _ := url.Parse(ps.URL)
			tr := &http.Transport{Proxy: http.ProxyURL(pu)}
			client := &http.Client{Transport: tr}
			t.Cleanup(func() {
				tr.CloseIdleConnections()
				ps.Close()
				up.Close()
				time.Sleep(50 * time.Millisecond)
				cancel()
				p.Destroy()
			})

			do := func(rng string, slow bool) (int, string, http.Header) {
				req, _ := http.NewRequest("GET", up.URL+"/doc", nil)
				if rng != "" {
					req.Header.Set("Range", rng)
				}
				if slow {
					req.Header.Set("X-Slow", "1")
				}
				resp, err := client.Do(req)
				if err != nil {
					t.Fatal(err)
				}
				defer resp.Body.Close()
				b, _ := io.ReadAll(resp.Body)
				return resp.StatusCode, string(b), resp.Header
			}

			// 0.
			if _, b, _ := do("", false); b != bodies[1] {
				t.Fatalf("step 0: %q", b)
			}
			// 1.
			slowDone := make(chan string, 1)
			go func() { _, b, _ := do("bytes=0-8", true); slowDone <- b }()
			<-arrived
			// 2.
			version.Store(2)
			if st, b, _ := do("bytes=0-8", false); st != 206 || b != bodies[2][:9] {
				t.Fatalf("step 2: %d %q", st, b)
			}
			if _, b, hd := do("", false); b != bodies[2] || hd.Get("X-Cache") != "HIT" {
				t.Fatalf("step 2: the store does not hold version 2: %q %s", b, hd.Get("X-Cache"))
			}
			// 3.
			close(release)
			select {
			case <-slowDone:
			case <-time.After(5 * time.Second):
				t.Fatal("slow request did not finish")
			}
			// 4.
			_, b, hd := do("", false)
			if b != bodies[2] {
				t.Errorf("a request started after version 1 had been replaced by version 2 received %q (ETag %s, Content-Length %s, X-Cache %s); origin and store were at version 2",
					b, hd.Get("ETag"), hd.Get("Content-Length"), hd.Get("X-Cache"))
			}
		})
	}
}
