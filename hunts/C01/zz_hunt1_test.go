// package directory: tests/   (run: go test -vet=off -count=1 -run TestHunt1 ./tests/)
package tests

import (
	"fmt"
	"io"
	"net/http"
	"net/http/httptest"
	"net/url"
	"reservoir/config"
	"reservoir/logging"
	"reservoir/proxy"
	"testing"
	"time"
)

// C01 hunt, finding 1: the cache key is built from path.Clean(decoded path), but the origin is
// asked for the path the client sent. Two different resources of the same origin
// ("/files/a/b" and "/files/a//b", or "/files/x/../b" ...) therefore share one cache entry and
// the second one is answered from the store with the body, ETag and Content-Type of the first.

func hunt1Env(t *testing.T, cacheType config.CacheType, origin http.Handler) (originURL string, client *http.Client) {
	cfg := config.NewDefault()
	cfg.Proxy.UpstreamDefaultHttps.Overwrite(false)
	cfg.Cache.File.Dir.Overwrite(t.TempDir())
	cfg.Proxy.RetryOnRange416.Overwrite(false)
	cfg.Proxy.CachePolicy.IgnoreCacheControl.Overwrite(false)
	cfg.Proxy.CachePolicy.ForceDefaultMaxAge.Overwrite(false)
	cfg.Cache.Type.Overwrite(cacheType)
	cfg.Cache.LockShards.Overwrite(32)
	cfg.Logging.ToStdout.Overwrite(false)
	logging.Init(cfg)

	p, err := proxy.NewProxy(cfg, &FakeCA{}, t.Context())
	if err != nil {
		t.Fatalf("NewProxy: %v", err)
	}
	up := httptest.NewServer(origin)
	ps := httptest.NewServer(p)
	pu, _ := url.Parse(ps.URL)
	client = &http.Client{Transport: &http.Transport{Proxy: http.ProxyURL(pu)}}
	t.Cleanup(func() {
		up.Close()
		ps.Close()
		time.Sleep(100 * time.Millisecond)
		p.Destroy()
	})
	return up.URL, client
}

func hunt1Get(t *testing.T, c *http.Client, u string) (body string, h http.Header, status int) {
	t.Helper()
	resp, err := c.Get(u)
	if err != nil {
		t.Fatalf("GET %s: %v", u, err)
	}
	defer resp.Body.Close()
	b, err := io.ReadAll(resp.Body)
	if err != nil {
		t.Fatalf("GET %s: reading body: %v", u, err)
	}
	return string(b), resp.Header, resp.StatusCode
}

func hunt1(t *testing.T, cacheType config.CacheType) {
	// An origin on which every distinct request path is a distinct object (an object store, a
	// plain handler without a path-cleaning mux, ...). The body, ETag and Content-Type name the path.
	origin := http.HandlerFunc(func(w http.ResponseWriter, r *http.Request) {
		w.Header().Set("Cache-Control", "max-age=60")
		w.Header().Set("ETag", fmt.Sprintf("%q", "etag-of:"+r.URL.EscapedPath()))
		w.Header().Set("Content-Type", "text/plain; resource="+fmt.Sprintf("%q", r.URL.EscapedPath()))
		fmt.Fprintf(w, "object stored under the name %q\n", r.URL.EscapedPath())
	})
	originURL, client := hunt1Env(t, cacheType, origin)

	// Only paths that are NOT equivalent under RFC 3986 normalisation are used: an empty segment
	// ("//") is a segment like any other, and "%2F" is data, not a separator.
	first := "/files/a/b"
	for _, second := range []string{"/files/a//b", "/files//a/b", "/files/a%2Fb"} {
		wantFirst := fmt.Sprintf("object stored under the name %q\n", first)
		got, _, st := hunt1Get(t, client, originURL+first)
		if st != 200 || got != wantFirst {
			t.Fatalf("GET %s: status %d body %q", first, st, got)
		}

		wantSecond := fmt.Sprintf("object stored under the name %q\n", second)
		got, h, st := hunt1Get(t, client, originURL+second)
		if st != 200 {
			t.Fatalf("GET %s: status %d", second, st)
		}
		if got != wantSecond {
			t.Errorf("GET %s answered with another resource's body:\n   got  %q\n   want %q\n   X-Cache=%q Cache-Status=%q ETag=%s Content-Type=%q",
				second, got, wantSecond, h.Get("X-Cache"), h.Get("Cache-Status"), h.Get("ETag"), h.Get("Content-Type"))
		}
	}
}

func TestHunt1PathCollisionMemory(t *testing.T) { hunt1(t, config.CacheTypeMemory) }
func TestHunt1PathCollisionFile(t *testing.T)   { hunt1(t, config.CacheTypeFile) }
