// package directory: tests/   (run: go test -vet=off -count=1 -run TestHunt2 ./tests/)
package tests

import (
	"bytes"
	"compress/gzip"
	"io"
	"net/http"
	"net/http/httptest"
	"net/url"
	"reservoir/config"
	"reservoir/logging"
	"reservoir/proxy"
	"strconv"
	"strings"
	"testing"
	"time"
)

// C01 hunt, finding 2: when the client sends no Accept-Encoding, the proxy's upstream http.Client
// silently adds "Accept-Encoding: gzip" and decodes the answer. What is stored (and served as a
// 200 from the store) is the decoded byte sequence, a body the origin never produced, paired with
// the strong ETag the origin sent with the gzip byte sequence.

func hunt2(t *testing.T, cacheType config.CacheType) {
	identity := []byte(strings.Repeat("The quick brown fox jumps over the lazy dog. ", 200))
	var zbuf bytes.Buffer
	zw := gzip.NewWriter(&zbuf)
	zw.Write(identity)
	zw.Close()
	gz := zbuf.Bytes()

	// Origin in the style of Apache mod_deflate: two representations, each with its own strong ETag.
	origin := http.HandlerFunc(func(w http.ResponseWriter, r *http.Request) {
		w.Header().Set("Cache-Control", "max-age=60")
		w.Header().Set("Vary", "Accept-Encoding")
		w.Header().Set("Content-Type", "text/plain")
		if strings.Contains(r.Header.Get("Accept-Encoding"), "gzip") {
			w.Header().Set("Content-Encoding", "gzip")
			w.Header().Set("ETag", `"v1-gzip"`)
			w.Header().Set("Content-Length", strconv.Itoa(len(gz)))
			w.Write(gz)
			return
		}
		w.Header().Set("ETag", `"v1"`)
		w.Header().Set("Content-Length", strconv.Itoa(len(identity)))
		w.Write(identity)
	})
	originURL, client := hunt2Env(t, cacheType, origin)
	client.Transport.(*http.Transport).DisableCompression = true // the client itself sends no Accept-Encoding

	for i, wantXCache := range []string{"MISS", "HIT"} {
		resp, err := client.Get(originURL + "/doc.txt")
		if err != nil {
			t.Fatal(err)
		}
		body, err := io.ReadAll(resp.Body)
		resp.Body.Close()
		if err != nil {
			t.Fatal(err)
		}
		if resp.StatusCode != 200 || resp.Header.Get("X-Cache") != wantXCache {
			t.Fatalf("request %d: status %d X-Cache %q", i, resp.StatusCode, resp.Header.Get("X-Cache"))
		}
		etag := resp.Header.Get("ETag")
		var originBody []byte
		switch etag {
		case `"v1-gzip"`:
			originBody = gz
		case `"v1"`:
			originBody = identity
		default:
			t.Fatalf("unexpected ETag %q", etag)
		}
		if !bytes.Equal(body, originBody) {
			t.Errorf("request %d (X-Cache %s, Cache-Status %q): ETag %s was sent by the origin with a %d byte body (Content-Length %d, Content-Encoding gzip), "+
				"but the proxy delivered it with a different %d byte body (Content-Length %q, Content-Encoding %q); equal to the origin's identity body (ETag \"v1\"): %v",
				i, resp.Header.Get("X-Cache"), resp.Header.Get("Cache-Status"), etag, len(originBody), len(originBody),
				len(body), resp.Header.Get("Content-Length"), resp.Header.Get("Content-Encoding"), bytes.Equal(body, identity))
		}
	}
}

func TestHunt2DecodedBodyUnderGzipETagMemory(t *testing.T) { hunt2(t, config.CacheTypeMemory) }
func TestHunt2DecodedBodyUnderGzipETagFile(t *testing.T)   { hunt2(t, config.CacheTypeFile) }

func hunt2Env(t *testing.T, cacheType config.CacheType, origin http.Handler) (originURL string, client *http.Client) {
	cfg := config.NewDefault()
	cfg.Proxy.UpstreamDefaultHttps.Overwrite(false)
	cfg.Cache.File.Dir.Overwrite(t.TempDir())
	cfg.Proxy.RetryOnRange416.Overwrite(false)
	cfg.Proxy.CachePolicy.IgnoreCacheControl.Overwrite(false)
	cfg.Proxy.CachePolicy.ForceDefaultMaxAge.Overwrite(false)
	cfg.Cache.Type.Overwrite(cacheType)
	cfg.Cache.LockShards.Overwrite(32)
	cfg.Logging.ToStdout.Overwrite(false)
	logging.Init(cfg)

	p, err := proxy.NewProxy(cfg, &FakeCA{}, t.Context())
	if err != nil {
		t.Fatalf("NewProxy: %v", err)
	}
	up := httptest.NewServer(origin)
	ps := httptest.NewServer(p)
	pu, _ := url.Parse(ps.URL)
	client = &http.Client{Transport: &http.Transport{Proxy: http.ProxyURL(pu)}}
	t.Cleanup(func() {
		up.Close()
		ps.Close()
		time.Sleep(100 * time.Millisecond)
		p.Destroy()
	})
	return up.URL, client
}
