// package directory: tests/   (run: go test -vet=off -count=1 -run TestHunt3 ./tests/)
package tests

import (
	"fmt"
	"io"
	"net/http"
	"net/http/httptest"
	"net/url"
	"reservoir/config"
	"reservoir/logging"
	"reservoir/proxy"
	"strings"
	"sync/atomic"
	"testing"
	"time"
)

// C01 hunt, finding 3: the upstream request is sent with http.DefaultClient, which follows
// redirects. The final 200 (of another resource, possibly of another origin server) is stored under
// the key of the URL the client asked for, with the other resource's validators, content type and
// freshness lifetime, and is then served from the store as a 200 for the requested URL. The
// requested resource's own answer (an uncacheable 302) is never seen by the client, and a later
// change of the redirect is not seen either.

func hunt3(t *testing.T, cacheType config.CacheType) {
	// "Other" server: immutable, versioned artifacts.
	other := httptest.NewServer(http.HandlerFunc(func(w http.ResponseWriter, r *http.Request) {
		w.Header().Set("Cache-Control", "max-age=31536000, immutable")
		w.Header().Set("ETag", fmt.Sprintf("%q", "other"+r.URL.Path))
		w.Header().Set("Content-Type", "application/x-other-server")
		fmt.Fprintf(w, "artifact %s produced by the OTHER server", r.URL.Path)
	}))
	defer other.Close()

	// Requested origin: /latest is only a pointer (an explicitly uncacheable 302).
	var target atomic.Value
	target.Store("/v1.tar")
	origin := http.HandlerFunc(func(w http.ResponseWriter, r *http.Request) {
		w.Header().Set("Cache-Control", "no-store")
		w.Header().Set("Location", other.URL+target.Load().(string))
		w.WriteHeader(http.StatusFound)
		fmt.Fprint(w, "the requested origin's own answer for /latest")
	})
	originURL, client := hunt3Env(t, cacheType, origin)
	client.CheckRedirect = func(*http.Request, []*http.Request) error { return http.ErrUseLastResponse }

	get := func() (int, string, http.Header) {
		resp, err := client.Get(originURL + "/latest")
		if err != nil {
			t.Fatal(err)
		}
		defer resp.Body.Close()
		b, _ := io.ReadAll(resp.Body)
		return resp.StatusCode, string(b), resp.Header
	}
	fromStore := func(h http.Header) bool {
		cs := h.Get("Cache-Status")
		return strings.Contains(cs, "stored") || strings.Contains(cs, "hit")
	}

	st, body, h := get()
	t.Logf("1st GET /latest: %d %q Cache-Status=%q ETag=%s Content-Type=%q", st, body, h.Get("Cache-Status"), h.Get("ETag"), h.Get("Content-Type"))
	if st == 200 && fromStore(h) && strings.Contains(body, "OTHER server") {
		t.Errorf("store-built 200 for %s/latest carries a body the requested origin never produced: %q (ETag %s, Content-Type %q)", originURL, body, h.Get("ETag"), h.Get("Content-Type"))
	}

	target.Store("/v2.tar") // the pointer moves on
	st, body, h = get()
	t.Logf("2nd GET /latest (pointer now at /v2.tar): %d %q Cache-Status=%q", st, body, h.Get("Cache-Status"))
	if st == 200 && fromStore(h) && strings.Contains(body, "/v1.tar") {
		t.Errorf("after the origin moved /latest to /v2.tar the store still answers /latest with %q (Cache-Status %q)", body, h.Get("Cache-Status"))
	}
}

func TestHunt3RedirectTargetStoredUnderRequestedURLMemory(t *testing.T) {
	hunt3(t, config.CacheTypeMemory)
}
func TestHunt3RedirectTargetStoredUnderRequestedURLFile(t *testing.T) { hunt3(t, config.CacheTypeFile) }

func hunt3Env(t *testing.T, cacheType config.CacheType, origin http.Handler) (originURL string, client *http.Client) {
	cfg := config.NewDefault()
	cfg.Proxy.UpstreamDefaultHttps.Overwrite(false)
	cfg.Cache.File.Dir.Overwrite(t.TempDir())
	cfg.Proxy.RetryOnRange416.Overwrite(false)
	cfg.Proxy.CachePolicy.IgnoreCacheControl.Overwrite(false)
	cfg.Proxy.CachePolicy.ForceDefaultMaxAge.Overwrite(false)
	cfg.Cache.Type.Overwrite(cacheType)
	cfg.Cache.LockShards.Overwrite(32)
	cfg.Logging.ToStdout.Overwrite(false)
	logging.Init(cfg)

	p, err := proxy.NewProxy(cfg, &FakeCA{}, t.Context())
	if err != nil {
		t.Fatalf("NewProxy: %v", err)
	}
	up := httptest.NewServer(origin)
	ps := httptest.NewServer(p)
	pu, _ := url.Parse(ps.URL)
	client = &http.Client{Transport: &http.Transport{Proxy: http.ProxyURL(pu)}}
	t.Cleanup(func() {
		up.Close()
		ps.Close()
		time.Sleep(100 * time.Millisecond)
		p.Destroy()
	})
	return up.URL, client
}
