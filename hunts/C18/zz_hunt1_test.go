// package directory: config/   (package config)
package config

import (
	"flag"
	"os"
	"testing"
)

// The process was started with command-line flags (here: --no-dashboard, exactly what
// OverrideFromFlags does for it). A PATCH {"webserver":{"api_disabled":true}} is then ACCEPTED,
// because verify() looks at the flag-overridden value of dashboard_disabled, but what is written
// to var/config.json is the un-overridden value (dashboard_disabled=false, api_disabled=true).
// That file is a combination the program itself refuses: the next start (with or without the same
// flag, verification runs before the flags are applied) rejects the file and resets EVERYTHING to
// defaults. So an accepted update is not "what the next start will load".
func TestHunt1_FlagOverrideMasksVerification(t *testing.T) {
	defer os.Remove(configPath.Path)

	// --- first run of the program -------------------------------------------------------------
	cfg := NewDefault()
	if err := cfg.persist(); err != nil {
		t.Fatal(err)
	}
	cfg, err := LoadOrDefault(configPath.Path)
	if err != nil {
		t.Fatal(err)
	}
	// Run exactly what main() does for `reservoir --no-dashboard`. (A fresh flag set is needed only
	// because the test binary has its own -test.* flags registered and set on the global one.)
	oldArgs, oldFlags := os.Args, flag.CommandLine
	os.Args = []string{"reservoir", "--no-dashboard"}
	flag.CommandLine = flag.NewFlagSet(os.Args[0], flag.ExitOnError)
	OverrideFromFlags(cfg)
	os.Args, flag.CommandLine = oldArgs, oldFlags

	// An unrelated, perfectly fine setting that the operator changed earlier.
	if _, err := UpdatePartialFromConfig(cfg, map[string]any{"cache": map[string]any{"max_cache_size": "50G"}}); err != nil {
		t.Fatalf("setup update failed: %v", err)
	}

	// --- the update under test ---------------------------------------------------------------
	_, err = UpdatePartialFromConfig(cfg, map[string]any{"webserver": map[string]any{"api_disabled": true}})
	if err != nil {
		t.Logf("update rejected (%v): fine, nothing to check", err)
		return
	}
	onDisk, _ := os.ReadFile(configPath.Path)
	t.Logf("update ACCEPTED; config file now:\n%s", onDisk)

	// --- next start of the program -----------------------------------------------------------
	if _, lerr := load(configPath.Path); lerr != nil {
		t.Errorf("the accepted update wrote a config file that the next start rejects: %v", lerr)
	}
	next, err := LoadOrDefault(configPath.Path)
	if err != nil {
		t.Fatal(err)
	}
	if got := next.Webserver.ApiDisabled.Read(); got != true {
		t.Errorf("next start: webserver.api_disabled = %v, the accepted update set it to true", got)
	}
	if got := next.Cache.MaxCacheSize.Read().String(); got != "50G" {
		t.Errorf("next start: cache.max_cache_size = %s, want 50G (whole config was reset to defaults)", got)
	}
}

// Same defect with a plain value instead of a combination: started with --webserver-listen=...,
// PATCH {"webserver":{"listen":""}} is accepted (verify sees the flag value) and "" is persisted.
func TestHunt1b_FlagOverrideMasksEmptyListen(t *testing.T) {
	defer os.Remove(configPath.Path)

	cfg := NewDefault()
	cfg.Webserver.Listen.Overwrite("localhost:8081") // what --webserver-listen=localhost:8081 does

	_, err := UpdatePartialFromConfig(cfg, map[string]any{"webserver": map[string]any{"listen": ""}})
	if err != nil {
		t.Logf("update rejected (%v): fine", err)
		return
	}
	if _, lerr := load(configPath.Path); lerr != nil {
		t.Errorf("the accepted update wrote a config file that the next start rejects: %v", lerr)
	}
}
