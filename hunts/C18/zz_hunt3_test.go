// package directory: tests/   (package tests)
package tests

import (
	"context"
	"fmt"
	"os"
	"strings"
	"testing"
	"time"

	"reservoir/config"
	"reservoir/proxy"
)

// verify() only checks that proxy.listen / webserver.listen are non-empty and that
// cache.lock_shards >= 1 (config/proxy_config.go:32, config/webserver_config.go:18,
// config/cache_config.go:47). Values (and a combination) under which the program can never start are
// therefore ACCEPTED, from the file and through the API, persisted, and kill the process at the
// next start (main.go:102-116: every start-up error ends in panic).

const cfgFile = "var/config.json" // same relative path main() uses

func defaultConfigJSON(t *testing.T) string {
	os.Remove(cfgFile)
	if _, err := config.LoadOrDefault(cfgFile); err != nil { // missing file -> defaults are written
		t.Fatal(err)
	}
	data, err := os.ReadFile(cfgFile)
	if err != nil {
		t.Fatal(err)
	}
	return string(data)
}

// Does what main.startProxy does after config.LoadOrDefault and returns the error that makes main() panic.
func startLikeMain(cfg *config.Config) (err error) {
	defer func() {
		if r := recover(); r != nil {
			err = fmt.Errorf("start-up panicked: %v", r)
		}
	}()
	ctx, cancel := context.WithCancel(context.Background())
	defer cancel()
	errChan := make(chan error, 2)

	p, err := proxy.NewProxy(cfg, &FakeCA{}, ctx)
	if err != nil {
		return err
	}
	defer p.Destroy()
	p.Listen(cfg.Proxy.Listen.Read(), errChan, ctx) // main.go:34-36
	select {
	case err := <-errChan: // main.go:113-116: slog.Error + panic(err)
		return fmt.Errorf("service error (main panics): %w", err)
	case <-time.After(500 * time.Millisecond):
		return nil
	}
}

// Configuration loaded from file: "proxy.listen": "localhost" (no port) can never be listened on.
func TestHunt3_FileWithUnusableListenAddressIsAccepted(t *testing.T) {
	defer os.Remove(cfgFile)
	text := strings.Replace(defaultConfigJSON(t), `"listen": ":9999"`, `"listen": "localhost"`, 1)
	if err := os.WriteFile(cfgFile, []byte(text), 0644); err != nil {
		t.Fatal(err)
	}

	cfg, err := config.LoadOrDefault(cfgFile)
	if err != nil {
		t.Fatal(err)
	}
	if got := cfg.Proxy.Listen.Read(); got != "localhost" {
		t.Skipf("file was rejected and reset (listen=%q): fine", got)
	}
	if err := startLikeMain(cfg); err != nil {
		t.Errorf("config file with proxy.listen=\"localhost\" was ACCEPTED, but the proxy cannot run under it: %v", err)
	}
}

// Configuration submitted through the API: {"proxy":{"listen":"localhost:99999"}} and
// {"cache":{"lock_shards":4611686018427387904}} are accepted ("restart required") and persisted;
// the next start loads them and dies.
func TestHunt3b_ApiUpdateWithUnworkableValuesIsAccepted(t *testing.T) {
	for name, update := range map[string]map[string]any{
		"listen port out of range": {"proxy": map[string]any{"listen": "localhost:99999"}},
		"lock_shards 2^62":         {"cache": map[string]any{"lock_shards": float64(1 << 62)}}, // what the JSON body decodes to
	} {
		t.Run(name, func(t *testing.T) {
			defer os.Remove(cfgFile)
			defaultConfigJSON(t)
			running, err := config.LoadOrDefault(cfgFile)
			if err != nil {
				t.Fatal(err)
			}
			if _, err := config.UpdatePartialFromConfig(running, update); err != nil {
				t.Skipf("update rejected (%v): fine", err)
			}

			// next start
			next, err := config.LoadOrDefault(cfgFile)
			if err != nil {
				t.Fatal(err)
			}
			t.Logf("next start loaded proxy.listen=%q cache.lock_shards=%d", next.Proxy.Listen.Read(), next.Cache.LockShards.Read())
			if err := startLikeMain(next); err != nil {
				t.Errorf("update %v was ACCEPTED and persisted, but the proxy cannot run under it: %v", update, err)
			}
		})
	}
}
