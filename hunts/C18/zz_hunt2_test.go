// package directory: webserver/api/endpoints/config/   (package config; builds without the csp stub)
package config

import (
	"encoding/json"
	"io"
	"log/slog"
	"net/http"
	"net/http/httptest"
	"os"
	"strings"
	"sync"
	"testing"
	"time"

	"reservoir/config"
	"reservoir/webserver/api/apitypes"
)

// PATCH /api/config requests are served concurrently (net/http: one goroutine per connection) and
// ConfigEndpoint.Patch (config.go:61) calls config.UpdatePartialFromConfig without any
// serialisation; UpdatePartialFromConfig (config/update.go:105) takes no lock either. Stage /
// CommitStaged / RollbackStaged (config/config_prop.go:49-72) are unsynchronised load-modify-store
// sequences, the "value to roll back to" slot (commitable.previousValue) is shared by all in-flight
// updates, and persist() serialises whatever happens to be committed at that instant.
//
// The server below is the real Patch handler behind a real HTTP server (only the session check of
// api.WrapHandler is left out; it does not serialise anything either).

func startAPI(t *testing.T) (*config.Config, *httptest.Server) {
	slog.SetDefault(slog.New(slog.NewTextHandler(io.Discard, nil)))
	cfg := config.NewDefault()
	ep := &ConfigEndpoint{}
	srv := httptest.NewServer(http.HandlerFunc(func(w http.ResponseWriter, r *http.Request) {
		ep.Patch(w, r, apitypes.Context{Config: cfg})
	}))
	t.Cleanup(srv.Close)
	t.Cleanup(func() { os.Remove("var/config.json") })
	return cfg, srv
}

func patch(t *testing.T, srv *httptest.Server, body string) int {
	req, _ := http.NewRequest("PATCH", srv.URL+"/api/config", strings.NewReader(body))
	req.Header.Set("Content-Type", "application/json")
	resp, err := srv.Client().Do(req)
	if err != nil {
		t.Error(err)
		return 0
	}
	io.Copy(io.Discard, resp.Body)
	resp.Body.Close()
	return resp.StatusCode
}

func lockShardsOnDisk(t *testing.T) float64 {
	data, err := os.ReadFile("var/config.json")
	if err != nil {
		t.Fatal(err)
	}
	var f struct {
		Cache struct {
			LockShards float64 `json:"lock_shards"`
		} `json:"cache"`
	}
	if err := json.Unmarshal(data, &f); err != nil {
		t.Fatalf("config file is not JSON: %v", err)
	}
	return f.Cache.LockShards
}

// History: four clients each keep sending the same INVALID update {"cache":{"lock_shards":0}}.
// Every request is answered 500 (rejected), so the running settings must stay exactly as they were.
// Instead the running cache.lock_shards becomes 0, and from then on every later valid update of
// any other setting is refused as well.
func TestHunt2_ConcurrentRejectedUpdatesChangeRunningSettings(t *testing.T) {
	cfg, srv := startAPI(t)
	if patch(t, srv, `{"proxy":{"retry_on_invalid_range":false}}`) != http.StatusAccepted { // writes var/config.json
		t.Fatal("setup update failed")
	}

	const clients = 4
	deadline := time.Now().Add(5 * time.Second)
	rounds, accepted := 0, 0
	for time.Now().Before(deadline) && cfg.Cache.LockShards.Read() == 1024 {
		rounds++
		var wg sync.WaitGroup
		var mu sync.Mutex
		for c := 0; c < clients; c++ {
			wg.Add(1)
			go func() {
				defer wg.Done()
				if patch(t, srv, `{"cache":{"lock_shards":0}}`) == http.StatusAccepted {
					mu.Lock()
					accepted++
					mu.Unlock()
				}
			}()
		}
		wg.Wait()
	}

	if accepted != 0 {
		t.Errorf("%d of the invalid updates were answered 202 Accepted", accepted)
	}
	if got := cfg.Cache.LockShards.Read(); got != 1024 {
		t.Errorf("after %d rounds of rejected updates the running cache.lock_shards is %d, want the untouched 1024", rounds, got)
	}
	if got := lockShardsOnDisk(t); got != 1024 {
		t.Errorf("config file: lock_shards = %v, want the untouched 1024", got)
	}
	if code := patch(t, srv, `{"proxy":{"retry_on_range_416":false}}`); code != http.StatusAccepted {
		t.Errorf("a later valid update of an unrelated setting is answered %d", code)
	}
}

// History: client A sends the invalid {"cache":{"lock_shards":0}} (always answered 500), client B at
// the same time sends a valid toggle of proxy.retry_on_range_416 (answered 202). B's persist()
// serialises the whole Config while A's value is committed but not yet rolled back: the file on disk
// now holds lock_shards 0, the value of a REJECTED update, and the next start refuses that file
// (config.LoadOrDefault resets everything to defaults).
func TestHunt2b_RejectedValueIsWrittenToDiskByConcurrentAcceptedUpdate(t *testing.T) {
	_, srv := startAPI(t)

	// Client A: one invalid update after the other, never two at the same time.
	stop := make(chan struct{})
	var wg sync.WaitGroup
	wg.Add(1)
	go func() {
		defer wg.Done()
		for {
			select {
			case <-stop:
				return
			default:
			}
			if code := patch(t, srv, `{"cache":{"lock_shards":0}}`); code != http.StatusInternalServerError {
				t.Errorf("invalid update answered %d", code)
				return
			}
		}
	}()
	defer wg.Wait()
	defer close(stop)

	// Client B: valid updates of an unrelated setting, one after the other.
	deadline := time.Now().Add(8 * time.Second)
	good := 0
	for round := 1; time.Now().Before(deadline); round++ {
		body := `{"proxy":{"retry_on_range_416":true}}`
		if round%2 == 0 {
			body = `{"proxy":{"retry_on_range_416":false}}`
		}
		if patch(t, srv, body) != http.StatusAccepted {
			continue // it saw A's transient value in verify() and was refused; try again
		}
		good++
		if got := lockShardsOnDisk(t); got != 1024 {
			t.Fatalf("valid update #%d was accepted (202) while {\"cache\":{\"lock_shards\":0}} was being rejected (500): "+
				"var/config.json now contains \"lock_shards\": %v", good, got)
		}
	}
	t.Logf("%d valid updates accepted, race not hit", good)
}
