// package directory: the module root (package main, next to main.go). Needs the two permitted build stubs:
// webserver/dashboard/csp/header_gen.go and webserver/dashboard/frontend/build/index.html.
package main

import (
	"context"
	"crypto/ecdsa"
	"crypto/elliptic"
	"crypto/rand"
	"crypto/x509"
	"crypto/x509/pkix"
	"encoding/json"
	"encoding/pem"
	"math/big"
	"net"
	"os"
	"path/filepath"
	"reservoir/config"
	"reservoir/db"
	"testing"
	"time"
)

func hunt3CA(t *testing.T, dir string) (string, string) {
	priv, err := ecdsa.GenerateKey(elliptic.P256(), rand.Reader)
	if err != nil {
		t.Fatal(err)
	}
	serial, _ := rand.Int(rand.Reader, new(big.Int).Lsh(big.NewInt(1), 128))
	tmpl := x509.Certificate{
		SerialNumber:          serial,
		Subject:               pkix.Name{Organization: []string{"hunt"}},
		NotBefore:             time.Now().Add(-time.Hour),
		NotAfter:              time.Now().Add(time.Hour),
		KeyUsage:              x509.KeyUsageCertSign | x509.KeyUsageDigitalSignature,
		BasicConstraintsValid: true,
		IsCA:                  true,
	}
	der, err := x509.CreateCertificate(rand.Reader, &tmpl, &tmpl, &priv.PublicKey, priv)
	if err != nil {
		t.Fatal(err)
	}
	certFile, keyFile := filepath.Join(dir, "ca.crt"), filepath.Join(dir, "ca.key")
	os.WriteFile(certFile, pem.EncodeToMemory(&pem.Block{Type: "CERTIFICATE", Bytes: der}), 0644)
	keyBytes, _ := x509.MarshalPKCS8PrivateKey(priv)
	os.WriteFile(keyFile, pem.EncodeToMemory(&pem.Block{Type: "PRIVATE KEY", Bytes: keyBytes}), 0600)
	return certFile, keyFile
}

func hunt3Patch(t *testing.T, cfg *config.Config, doc map[string]any) error {
	// round-trip through JSON like the PATCH /api/config handler
	raw, _ := json.Marshal(doc)
	var updates map[string]any
	json.Unmarshal(raw, &updates)
	_, err := config.UpdatePartialFromConfig(cfg, updates)
	return err
}

// proxy.listen and webserver.listen may be given the same address. Each value is fine on its own, the
// combination is not: at the next start the second listener cannot bind, the error arrives on errChan and
// main() panics. verify() never compares the two.
func TestHunt3_SameListenAddressAccepted(t *testing.T) {
	old, _ := os.Getwd()
	dir := t.TempDir()
	os.Chdir(dir)
	defer os.Chdir(old)
	os.MkdirAll("var", 0755)

	cfg, err := config.LoadOrDefault("var/config.json")
	if err != nil {
		t.Fatal(err)
	}
	certFile, keyFile := hunt3CA(t, dir)
	if err := hunt3Patch(t, cfg, map[string]any{"proxy": map[string]any{"ca_cert": certFile, "ca_key": keyFile}}); err != nil {
		t.Fatalf("CA paths rejected: %v", err)
	}

	// a port that is free on this machine
	l, err := net.Listen("tcp", "127.0.0.1:0")
	if err != nil {
		t.Fatal(err)
	}
	addr := l.Addr().String()
	l.Close()

	err = hunt3Patch(t, cfg, map[string]any{
		"proxy":     map[string]any{"listen": addr},
		"webserver": map[string]any{"listen": addr},
	})
	if err != nil {
		t.Logf("rejected, as the property demands: %v", err)
		return
	}
	t.Errorf("update with proxy.listen = webserver.listen = %s was ACCEPTED", addr)

	// The next start: exactly the steps of main().
	next, err := config.LoadOrDefault("var/config.json")
	if err != nil {
		t.Fatal(err)
	}
	if next.Proxy.Listen.Read() != addr || next.Webserver.Listen.Read() != addr {
		t.Fatalf("next start loaded proxy.listen=%s webserver.listen=%s", next.Proxy.Listen.Read(), next.Webserver.Listen.Read())
	}
	errChan := make(chan error)
	ctx, cancel := context.WithCancel(context.Background())
	defer cancel()
	if err := db.MigrateDatabases(); err != nil {
		t.Fatal(err)
	}
	if err := startProxy(next, errChan, ctx); err != nil {
		t.Fatalf("startProxy: %v", err)
	}
	if err := startWebServer(next, errChan, ctx); err != nil {
		t.Fatalf("startWebServer: %v", err)
	}
	select {
	case err := <-errChan:
		t.Errorf("the process cannot run under the accepted configuration; main() panics with: %v", err)
	case <-time.After(2 * time.Second):
		t.Logf("both servers are up")
	}
}
