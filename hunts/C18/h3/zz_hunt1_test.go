// package directory: config/   (package config, internal test)
package config

import (
	"encoding/json"
	"flag"
	"os"
	"testing"
)

// huntStart imitates what main() does at start-up: load var/config.json (or reset it to defaults),
// then apply the command-line flags.
func huntStart(t *testing.T, args ...string) *Config {
	t.Helper()
	cfg, err := LoadOrDefault("var/config.json")
	if err != nil {
		t.Fatalf("start: %v", err)
	}
	flag.CommandLine = flag.NewFlagSet("reservoir", flag.ContinueOnError)
	os.Args = append([]string{"reservoir"}, args...)
	OverrideFromFlags(cfg)
	return cfg
}

// huntPatch does what the PATCH /api/config handler does with the request body.
func huntPatch(t *testing.T, cfg *Config, body string) (UpdateStatus, error) {
	t.Helper()
	var updates map[string]any
	if err := json.Unmarshal([]byte(body), &updates); err != nil {
		t.Fatalf("body is not JSON: %v", err)
	}
	return UpdatePartialFromConfig(cfg, updates)
}

func huntChdir(t *testing.T) {
	t.Helper()
	old, _ := os.Getwd()
	dir := t.TempDir()
	if err := os.Chdir(dir); err != nil {
		t.Fatal(err)
	}
	t.Cleanup(func() { os.Chdir(old) })
	if err := os.MkdirAll("var", 0755); err != nil {
		t.Fatal(err)
	}
}

// The process runs with a command-line override (--listen). The update document carries the invalid value
// under the exact key and a valid value under a key that encoding/json folds onto the same field
// ("liſten": U+017F LATIN SMALL LETTER LONG S folds to 's'). dryRun() decodes the merged document with
// encoding/json, where the folded key comes later and wins, so it verifies ":9999"; setPropsFromMap matches
// keys exactly and stages "not an address"; the live verify() reads the command-line override and passes.
// The invalid value is persisted, and the next start throws the whole file away.
func TestHunt1_InvalidListenAcceptedBehindOverride(t *testing.T) {
	huntChdir(t)

	cfg := huntStart(t, "--listen", ":9999")

	// An ordinary accepted update first, so that there is something to lose.
	if _, err := huntPatch(t, cfg, `{"cache":{"max_cache_size":"5G"}}`); err != nil {
		t.Fatalf("plain update rejected: %v", err)
	}

	// Control: the invalid value on its own is rejected, as the property demands.
	if _, err := huntPatch(t, cfg, `{"proxy":{"listen":"not an address"}}`); err == nil {
		t.Fatalf("control: invalid listen address on its own was accepted")
	}

	before, _ := os.ReadFile("var/config.json")
	status, err := huntPatch(t, cfg, `{"proxy":{"listen":"not an address","liſten":":9999"}}`)
	after, _ := os.ReadFile("var/config.json")
	t.Logf("update status=%v err=%v", status, err)

	if err == nil {
		t.Errorf("update with proxy.listen=\"not an address\" was ACCEPTED (status %v)", status)
	}
	if string(before) != string(after) {
		t.Errorf("config file changed; it now contains proxy.listen=%q", huntFileListen(t))
	}

	// Next start, with or without the flag: load() verifies the file values before the flags are applied.
	next := huntStart(t)
	if got := next.Cache.MaxCacheSize.Read().String(); got != "5G" {
		t.Errorf("next start did not load the accepted configuration: cache.max_cache_size=%s, want 5G (file was reset to defaults)", got)
	}
}

// Same hole with a boolean combination: running with --no-dashboard, api_disabled=true is accepted although
// the file says dashboard_disabled=false, a combination that verify() rejects and main() panics on.
func TestHunt1_InvalidCombinationAcceptedBehindOverride(t *testing.T) {
	huntChdir(t)

	cfg := huntStart(t, "--no-dashboard")
	if _, err := huntPatch(t, cfg, `{"cache":{"max_cache_size":"5G"}}`); err != nil {
		t.Fatalf("plain update rejected: %v", err)
	}
	if _, err := huntPatch(t, cfg, `{"webserver":{"api_disabled":true}}`); err == nil {
		t.Fatalf("control: api_disabled=true with dashboard_disabled=false in the file was accepted")
	}

	status, err := huntPatch(t, cfg, `{"webserver":{"api_disabled":true,"dashboard_diſabled":true}}`)
	t.Logf("update status=%v err=%v", status, err)
	if err == nil {
		t.Errorf("update was ACCEPTED (status %v); file now has api_disabled=true, dashboard_disabled=false", status)
	}

	fresh, lerr := load("var/config.json")
	if lerr != nil {
		t.Errorf("the file written by the accepted update is refused at the next start: %v", lerr)
	} else if fresh.Webserver.ApiDisabled.Read() && !fresh.Webserver.DashboardDisabled.Read() {
		t.Errorf("next start loads api_disabled=true with dashboard_disabled=false")
	}
}

func huntFileListen(t *testing.T) string {
	data, err := os.ReadFile("var/config.json")
	if err != nil {
		t.Fatal(err)
	}
	var doc struct {
		Proxy struct {
			Listen string `json:"listen"`
		} `json:"proxy"`
	}
	json.Unmarshal(data, &doc)
	return doc.Proxy.Listen
}
