// package directory: tests/   (package tests, end-to-end environment)
package tests

import (
	"encoding/json"
	"fmt"
	"io"
	"net/http"
	"os/signal"
	"reservoir/config"
	"sync/atomic"
	"syscall"
	"testing"
	"time"
)

// What the PATCH /api/config handler does with the request body.
func hunt2Patch(t *testing.T, cfg *config.Config, body string) error {
	t.Helper()
	var updates map[string]any
	if err := json.Unmarshal([]byte(body), &updates); err != nil {
		t.Fatalf("body is not JSON: %v", err)
	}
	_, err := config.UpdatePartialFromConfig(cfg, updates)
	return err
}

// An accepted update U1 notifies the components from goroutines, and the handlers re-read the live
// settings. A following update U2 that is rejected only AFTER its values were committed to the live
// configuration (live verify() or persist() failing) exposes the rejected values for a moment; a U1 handler
// that runs in that moment installs the rejected value in the component. The rollback notifies nobody, so
// the component keeps following the rejected value.
//
// Here: U2 carries cache.max_cache_size=1B. Once the memory cache has picked that up it evicts everything
// it holds whenever it stores an object, although the setting (and the config file) say hundreds of megabytes.
func hunt2Run(t *testing.T, rejected func(env *TestEnv) error) {
	env := SetupTestEnv(t)
	var upstreamHits atomic.Int64
	env.Upstream.Config.Handler = http.HandlerFunc(func(w http.ResponseWriter, r *http.Request) {
		upstreamHits.Add(1)
		w.Header().Set("Cache-Control", "max-age=600")
		w.WriteHeader(http.StatusOK)
		w.Write([]byte("response body"))
	})
	env.Start()

	get := func(url string) {
		resp, err := env.Client.Get(url)
		if err != nil {
			t.Fatalf("request failed: %v", err)
		}
		io.Copy(io.Discard, resp.Body)
		resp.Body.Close()
	}
	// Does the cache keep more than one object? Fetch A, fetch B, fetch A again: with room for both, the
	// origin is asked twice. A cache that follows max_cache_size=1B evicts A to store B and asks three times.
	caches := func(name string) bool {
		a := env.Upstream.URL + "/" + name + "-a"
		b := env.Upstream.URL + "/" + name + "-b"
		before := upstreamHits.Load()
		get(a)
		get(b)
		get(a)
		return upstreamHits.Load()-before == 2
	}

	if !caches("warmup") {
		t.Fatalf("sanity: proxy does not keep two objects")
	}

	deadline := time.Now().Add(8 * time.Second)
	for i := 1; time.Now().Before(deadline); i++ {
		// The process is idle, as it is when an administrator sends two requests in a row.
		time.Sleep(2 * time.Millisecond)
		// U1: valid, accepted.
		if err := hunt2Patch(t, env.Cfg, fmt.Sprintf(`{"cache":{"max_cache_size":"%dM"}}`, 100+i%500)); err != nil {
			t.Fatalf("U1 rejected: %v", err)
		}
		// U2: rejected.
		if err := rejected(env); err == nil {
			t.Fatalf("U2 was accepted")
		} else if i == 1 {
			t.Logf("U2 is rejected with: %v", err)
		}
		time.Sleep(2 * time.Millisecond) // let all notification handlers finish

		setting := env.Cfg.Cache.MaxCacheSize.Read()
		if !caches(fmt.Sprintf("obj-%d", i)) {
			// confirm that it is permanent and not a late handler
			time.Sleep(100 * time.Millisecond)
			if caches(fmt.Sprintf("obj-%d-again", i)) {
				continue
			}
			t.Fatalf("after %d rounds of (accepted update, rejected update): cache.max_cache_size is %s in the live settings, "+
				"but the cache evicts an object as soon as the next one is stored: it follows the 1B of the REJECTED update", i, setting)
		}
	}
	t.Logf("no violation observed")
}

// Variant A: no fault needed. U2 = several keys of which a later one fails; the failing key gets past the
// dry run because encoding/json folds "webſerver" (U+017F) onto "webserver" and lets it win, while the live
// verify() after the commit sees webserver.listen="bad".
func TestHunt2_RejectedValueSticksInCache_LaterKeyFails(t *testing.T) {
	hunt2Run(t, func(env *TestEnv) error {
		return hunt2Patch(t, env.Cfg, `{"cache":{"max_cache_size":"1B"},"webserver":{"listen":"bad"},"webſerver":{"listen":"localhost:8080"}}`)
	})
}

// Variant B: plain, valid document; the configuration file write fails part-way (file size limit, the
// same effect as a full disk).
func TestHunt2_RejectedValueSticksInCache_WriteFails(t *testing.T) {
	signal.Ignore(syscall.SIGXFSZ)
	var old syscall.Rlimit
	if err := syscall.Getrlimit(syscall.RLIMIT_FSIZE, &old); err != nil {
		t.Skip(err)
	}
	t.Cleanup(func() { syscall.Setrlimit(syscall.RLIMIT_FSIZE, &old) })

	hunt2Run(t, func(env *TestEnv) error {
		syscall.Setrlimit(syscall.RLIMIT_FSIZE, &syscall.Rlimit{Cur: 300, Max: old.Max})
		defer syscall.Setrlimit(syscall.RLIMIT_FSIZE, &old)
		return hunt2Patch(t, env.Cfg, `{"cache":{"max_cache_size":"1B"}}`)
	})
}
