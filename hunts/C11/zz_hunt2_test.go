// package directory: tests/   (run: go test -vet=off -count=1 -run TestHunt2 ./tests/)
package tests

import (
	"bufio"
	"bytes"
	"crypto/tls"
	"crypto/x509"
	"encoding/asn1"
	"fmt"
	"net"
	"net/http"
	"net/http/httptest"
	"os/exec"
	"reservoir/config"
	"reservoir/proxy"
	"reservoir/proxy/certs"
	"strings"
	"testing"
	"time"
)

// hunt2Leaf opens a CONNECT tunnel to target and returns the certificate the proxy presents (no verification here).
func hunt2Leaf(t *testing.T, proxyAddr, target string) *x509.Certificate {
	t.Helper()
	conn, err := net.DialTimeout("tcp", proxyAddr, 5*time.Second)
	if err != nil {
		t.Fatal(err)
	}
	defer conn.Close()
	conn.SetDeadline(time.Now().Add(10 * time.Second))
	fmt.Fprintf(conn, "CONNECT %s HTTP/1.1\r\nHost: %s\r\n\r\n", target, target)
	resp, err := http.ReadResponse(bufio.NewReader(conn), &http.Request{Method: http.MethodConnect})
	if err != nil {
		t.Fatal(err)
	}
	if resp.StatusCode != 200 {
		t.Fatalf("CONNECT %s answered %d", target, resp.StatusCode)
	}
	tc := tls.Client(conn, &tls.Config{InsecureSkipVerify: true})
	if err := tc.Handshake(); err != nil {
		t.Fatalf("handshake for %s: %v", target, err)
	}
	return tc.ConnectionState().PeerCertificates[0]
}

// hunt2IPSANs returns the raw octets of every iPAddress entry of the subjectAltName extension.
func hunt2IPSANs(t *testing.T, c *x509.Certificate) [][]byte {
	t.Helper()
	var out [][]byte
	for _, ext := range c.Extensions {
		if !ext.Id.Equal(asn1.ObjectIdentifier{2, 5, 29, 17}) {
			continue
		}
		var seq asn1.RawValue
		if _, err := asn1.Unmarshal(ext.Value, &seq); err != nil {
			t.Fatal(err)
		}
		rest := seq.Bytes
		for len(rest) > 0 {
			var v asn1.RawValue
			var err error
			if rest, err = asn1.Unmarshal(rest, &v); err != nil {
				t.Fatal(err)
			}
			if v.Class == asn1.ClassContextSpecific && v.Tag == 7 { // iPAddress
				out = append(out, v.Bytes)
			}
		}
	}
	return out
}

// An IPv6 literal is named by an iPAddress subjectAltName of exactly its sixteen octets (RFC 5280 section 4.2.1.6);
// a client compares the octets of the address it connected to with the octets in the certificate
// (RFC 9110 section 4.3.4 / RFC 6125 / RFC 9525 section 6.5: "octet-for-octet").
// The IPv4-mapped literal [::ffff:a.b.c.d] is a legal IPv6 CONNECT target; the certificate the proxy makes for it
// names the four-octet IPv4 address a.b.c.d instead, which is a different host identity; OpenSSL based clients
// (curl, Python, wget, ...) refuse it: "subjectAltName does not match ::ffff:a.b.c.d".
func TestHunt2IPv4MappedIPv6LiteralIsNotNamed(t *testing.T) {
	certFile, keyFile := GenerateTestCA(t)
	ca, err := certs.NewPrivateCA(certFile, keyFile)
	if err != nil {
		t.Fatal(err)
	}
	cfg := config.NewDefault()
	cfg.Cache.Type.Overwrite(config.CacheTypeMemory)
	cfg.Cache.File.Dir.Overwrite(t.TempDir())
	cfg.Cache.LockShards.Overwrite(32)
	p, err := proxy.NewProxy(cfg, ca, t.Context())
	if err != nil {
		t.Fatal(err)
	}
	ps := httptest.NewServer(p)
	t.Cleanup(func() { ps.Close(); p.Destroy() })
	proxyAddr := strings.TrimPrefix(ps.URL, "http://")

	for _, tc := range []struct {
		target string
		want   []byte // the octets that name the CONNECT host
	}{
		{"192.0.2.7:443", net.ParseIP("192.0.2.7").To4()},                  // control: IPv4 literal, 4 octets
		{"[2001:db8::7]:8443", net.ParseIP("2001:db8::7").To16()},          // control: IPv6 literal, 16 octets
		{"[::ffff:192.0.2.7]:443", net.ParseIP("::ffff:192.0.2.7").To16()}, // IPv6 literal (IPv4-mapped), 16 octets
		{"[::ffff:c000:207]:443", net.ParseIP("::ffff:c000:207").To16()},   // the same address in hex spelling
	} {
		leaf := hunt2Leaf(t, proxyAddr, tc.target)
		sans := hunt2IPSANs(t, leaf)
		named := false
		for _, s := range sans {
			if bytes.Equal(s, tc.want) {
				named = true
			}
		}
		if !named {
			t.Errorf("CONNECT %s: certificate does not name that host: want iPAddress SAN % x (%d octets), certificate has iPAddress SANs %x, dNSName SANs %q",
				tc.target, tc.want, len(tc.want), sans, leaf.DNSNames)
		}
	}

	// The same thing seen by a real client, if one is installed: curl (OpenSSL) through the proxy.
	if curl, err := exec.LookPath("curl"); err == nil {
		out, err := exec.Command(curl, "-sv", "--max-time", "5", "--proxy", ps.URL, "--cacert", certFile, "https://[::ffff:192.0.2.7]/").CombinedOutput()
		for _, l := range strings.Split(string(out), "\n") {
			if strings.Contains(l, "CONNECT [") || strings.Contains(l, "subjectAltName") || strings.Contains(l, "SSL") {
				t.Logf("curl: %s", l)
			}
		}
		if err != nil && strings.Contains(string(out), "subjectAltName does not match") {
			t.Errorf("curl refuses the certificate presented for [::ffff:192.0.2.7]: %v", err)
		}
	}
}
