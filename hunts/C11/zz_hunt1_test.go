// package directory: tests/   (run: go test -vet=off -count=1 -run TestHunt1 ./tests/)
package tests

import (
	"bufio"
	"crypto/tls"
	"crypto/x509"
	"fmt"
	"net"
	"net/http"
	"net/http/httptest"
	"os"
	"reservoir/config"
	"reservoir/proxy"
	"reservoir/proxy/certs"
	"strings"
	"sync"
	"testing"
	"time"
)

// hunt1Tunnel opens one CONNECT tunnel to target through the proxy at proxyAddr, completes the TLS
// handshake as a verifying client (trusting only the configured CA, expecting the CONNECT host) and
// returns the leaf certificate the proxy presented.
func hunt1Tunnel(proxyAddr, target string, roots *x509.CertPool) (*x509.Certificate, error) {
	conn, err := net.DialTimeout("tcp", proxyAddr, 5*time.Second)
	if err != nil {
		return nil, err
	}
	defer conn.Close()
	conn.SetDeadline(time.Now().Add(10 * time.Second))
	fmt.Fprintf(conn, "CONNECT %s HTTP/1.1\r\nHost: %s\r\n\r\n", target, target)
	br := bufio.NewReader(conn)
	resp, err := http.ReadResponse(br, &http.Request{Method: http.MethodConnect})
	if err != nil {
		return nil, err
	}
	if resp.StatusCode != 200 {
		return nil, fmt.Errorf("CONNECT answered %d", resp.StatusCode)
	}
	host, _, _ := net.SplitHostPort(target)
	tc := tls.Client(conn, &tls.Config{RootCAs: roots, ServerName: host})
	if err := tc.Handshake(); err != nil {
		return nil, err
	}
	return tc.ConnectionState().PeerCertificates[0], nil
}

// Many tunnels to a host the proxy has not seen before open at the same moment. The property says the
// certificate is reused per host while valid "also when many tunnels to a new host open at once", so
// all of them (and a later one) must be presented the one certificate of that host.
func TestHunt1BurstToNewHostGetsOneCertificate(t *testing.T) {
	certFile, keyFile := GenerateTestCA(t)
	ca, err := certs.NewPrivateCA(certFile, keyFile)
	if err != nil {
		t.Fatal(err)
	}
	cfg := config.NewDefault()
	cfg.Cache.Type.Overwrite(config.CacheTypeMemory)
	cfg.Cache.File.Dir.Overwrite(t.TempDir())
	cfg.Cache.LockShards.Overwrite(32)
	p, err := proxy.NewProxy(cfg, ca, t.Context())
	if err != nil {
		t.Fatal(err)
	}
	ps := httptest.NewServer(p)
	t.Cleanup(func() { ps.Close(); p.Destroy() })
	proxyAddr := strings.TrimPrefix(ps.URL, "http://")

	roots := x509.NewCertPool()
	pemBytes, _ := os.ReadFile(certFile)
	roots.AppendCertsFromPEM(pemBytes)

	const n = 48
	const rounds = 8
	violations := 0
	for round := 0; round < rounds; round++ {
		target := fmt.Sprintf("burst-%d.example:443", round) // a host the proxy has not seen before
		var (
			wg      sync.WaitGroup
			mu      sync.Mutex
			serials = map[string]int{}
			start   = make(chan struct{})
		)
		for i := 0; i < n; i++ {
			wg.Add(1)
			go func() {
				defer wg.Done()
				<-start
				leaf, err := hunt1Tunnel(proxyAddr, target, roots)
				if err != nil {
					t.Errorf("tunnel failed: %v", err)
					return
				}
				mu.Lock()
				serials[leaf.SerialNumber.String()]++
				mu.Unlock()
			}()
		}
		close(start)
		wg.Wait()

		// Every one of them is valid on its own (checked by the verifying handshake in hunt1Tunnel) ...
		// ... but they are not one certificate reused per host:
		if len(serials) != 1 {
			violations++
			t.Errorf("%d tunnels to the new host %s opened at once were presented %d DIFFERENT valid certificates (want 1, reused): %v",
				n, target, len(serials), serials)
		}

		// Most certificates handed out in the burst are never seen again: a later tunnel gets only the last one stored.
		later, err := hunt1Tunnel(proxyAddr, target, roots)
		if err != nil {
			t.Fatal(err)
		}
		t.Logf("%s: later tunnel got serial %s (seen %d times in the burst of %d)", target, later.SerialNumber, serials[later.SerialNumber.String()], n)
	}
	t.Logf("%d of %d bursts got more than one certificate for one host", violations, rounds)
}
