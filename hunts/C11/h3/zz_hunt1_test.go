// package directory: tests/   (run: go test -vet=off -count=1 -run TestHunt1 ./tests/ -v)
package tests

import (
	"bufio"
	"crypto/tls"
	"crypto/x509"
	"fmt"
	"net"
	"net/http"
	"strings"
	"testing"
	"time"
)

// Sends one raw CONNECT to the proxy, completes the TLS handshake inside the tunnel without any
// verification and hands back the status line and the leaf the proxy presented (nil if none).
func hunt1Connect(t *testing.T, env *TestEnv, target, hostHeader string) (string, *x509.Certificate) {
	t.Helper()
	c, err := net.DialTimeout("tcp", strings.TrimPrefix(env.ProxyServer.URL, "http://"), 2*time.Second)
	if err != nil {
		t.Fatal(err)
	}
	defer c.Close()
	c.SetDeadline(time.Now().Add(5 * time.Second))
	fmt.Fprintf(c, "CONNECT %s HTTP/1.1\r\nHost: %s\r\n\r\n", target, hostHeader)
	resp, err := http.ReadResponse(bufio.NewReader(c), &http.Request{Method: "CONNECT"})
	if err != nil {
		t.Fatalf("CONNECT %s: reading the proxy's answer: %v", target, err)
	}
	if resp.StatusCode != http.StatusOK {
		return resp.Status, nil
	}
	tc := tls.Client(c, &tls.Config{InsecureSkipVerify: true})
	if err := tc.Handshake(); err != nil {
		t.Fatalf("CONNECT %s: handshake: %v", target, err)
	}
	return resp.Status, tc.ConnectionState().PeerCertificates[0]
}

// An internationalised DNS name written the way RFC 3986 writes it in a URI authority (reg-name with
// pct-encoded UTF-8 octets) is a CONNECT target net/http accepts: the server decodes it and calls the
// handler with Host "bücher.de:443". The proxy answers 500 instead of opening a tunnel with a certificate.
func TestHunt1_InternationalisedNameGetsNoCertificate(t *testing.T) {
	env := SetupHttpsTestEnv(t)
	env.Start()

	// control: the very same host in its A-label spelling works
	status, leaf := hunt1Connect(t, env, "xn--bcher-kva.de:443", "xn--bcher-kva.de:443")
	if leaf == nil {
		t.Fatalf("control failed: CONNECT xn--bcher-kva.de:443 -> %s", status)
	}

	for _, tc := range []struct{ target, hostHeader string }{
		{"b%C3%BCcher.de:443", "b%C3%BCcher.de:443"},     // pct-encoded reg-name, RFC 3986 section 3.2.2
		{"b\xc3\xbccher.de:443", "xn--bcher-kva.de:443"}, // raw UTF-8 in the request target, A-label in Host
	} {
		status, leaf := hunt1Connect(t, env, tc.target, tc.hostHeader)
		if leaf == nil {
			t.Errorf("CONNECT %q: no tunnel and no certificate, the proxy answered %q", tc.target, status)
			continue
		}
		t.Logf("CONNECT %q: %s, certificate DNS=%q", tc.target, status, leaf.DNSNames)
	}
}
