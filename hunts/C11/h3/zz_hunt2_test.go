// package directory: tests/   (run: go test -vet=off -count=1 -run TestHunt2 ./tests/ -v)
package tests

import (
	"bufio"
	"crypto/tls"
	"crypto/x509"
	"fmt"
	"net"
	"net/http"
	"strings"
	"testing"
	"time"
)

func hunt2Connect(t *testing.T, env *TestEnv, target string) (string, *x509.Certificate) {
	t.Helper()
	c, err := net.DialTimeout("tcp", strings.TrimPrefix(env.ProxyServer.URL, "http://"), 2*time.Second)
	if err != nil {
		t.Fatal(err)
	}
	defer c.Close()
	c.SetDeadline(time.Now().Add(5 * time.Second))
	fmt.Fprintf(c, "CONNECT %s HTTP/1.1\r\nHost: %s\r\n\r\n", target, target)
	resp, err := http.ReadResponse(bufio.NewReader(c), &http.Request{Method: "CONNECT"})
	if err != nil {
		t.Fatalf("CONNECT %s: reading the proxy's answer: %v", target, err)
	}
	if resp.StatusCode != http.StatusOK {
		return resp.Status, nil
	}
	tc := tls.Client(c, &tls.Config{InsecureSkipVerify: true})
	if err := tc.Handshake(); err != nil {
		t.Fatalf("CONNECT %s: handshake: %v", target, err)
	}
	return resp.Status, tc.ConnectionState().PeerCertificates[0]
}

// A scoped (link-local) IPv6 literal, written as RFC 6874 prescribes ("%25" before the zone), is a CONNECT
// target net/http accepts. The certificate presented for it does not name the address at all: it has no
// iPAddress entry, and carries the string "fe80::1%eth0" as a dNSName instead.
func TestHunt2_ScopedIPv6LiteralIsNotNamedAsAnAddress(t *testing.T) {
	env := SetupHttpsTestEnv(t)
	env.Start()
	want := net.ParseIP("fe80::1")

	// control: the same address without a zone is named properly
	status, leaf := hunt2Connect(t, env, "[fe80::1]:443")
	if leaf == nil {
		t.Fatalf("control: CONNECT [fe80::1]:443 -> %s", status)
	}
	if len(leaf.IPAddresses) != 1 || !leaf.IPAddresses[0].Equal(want) || len(leaf.DNSNames) != 0 {
		t.Fatalf("control: unexpected names DNS=%q IP=%v", leaf.DNSNames, leaf.IPAddresses)
	}

	status, leaf = hunt2Connect(t, env, "[fe80::1%25eth0]:8443")
	if leaf == nil {
		t.Fatalf("CONNECT [fe80::1%%25eth0]:8443 -> %s", status)
	}
	t.Logf("presented for [fe80::1%%25eth0]:8443: DNS=%q IP=%v", leaf.DNSNames, leaf.IPAddresses)
	if err := leaf.VerifyHostname("fe80::1"); err != nil {
		t.Errorf("the certificate does not name the address of the target: %v", err)
	}
	if len(leaf.DNSNames) != 0 {
		t.Errorf("an IPv6 literal ended up as dNSName entries %q", leaf.DNSNames)
	}
}
