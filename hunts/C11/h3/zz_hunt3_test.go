// package directory: proxy/   (run: go test -vet=off -count=1 -run TestHunt3 ./proxy/ -v)
package proxy

import (
	"bufio"
	"crypto/ecdsa"
	"crypto/elliptic"
	"crypto/rand"
	"crypto/tls"
	"crypto/x509"
	"crypto/x509/pkix"
	"encoding/pem"
	"io"
	"math/big"
	"net"
	"net/http"
	"os"
	"path/filepath"
	"reservoir/proxy/certs"
	"testing"
	"testing/synctest"
	"time"
)

// A ResponseWriter whose connection can be taken over, as the one net/http hands to ServeHTTP.
type hunt3Writer struct {
	conn net.Conn
	h    http.Header
}

func (w *hunt3Writer) Header() http.Header         { return w.h }
func (w *hunt3Writer) Write(b []byte) (int, error) { return len(b), nil }
func (w *hunt3Writer) WriteHeader(int)             {}
func (w *hunt3Writer) Hijack() (net.Conn, *bufio.ReadWriter, error) {
	return w.conn, nil, nil
}

// net.Pipe is unbuffered: when both ends write at the same moment (the client's alert against the proxy's
// handshake flight) they block each other forever. This drains the client's end into a queue so that the proxy's
// writes always complete, as they would on a TCP socket.
type hunt3Conn struct {
	net.Conn
	ch   chan []byte
	rest []byte
}

func newHunt3Conn(c net.Conn) *hunt3Conn {
	hc := &hunt3Conn{Conn: c, ch: make(chan []byte, 4096)}
	go func() {
		defer close(hc.ch)
		for {
			buf := make([]byte, 32*1024)
			n, err := c.Read(buf)
			if n > 0 {
				hc.ch <- buf[:n]
			}
			if err != nil {
				return
			}
		}
	}()
	return hc
}

func (c *hunt3Conn) Read(b []byte) (int, error) {
	if len(c.rest) == 0 {
		chunk, ok := <-c.ch
		if !ok {
			return 0, io.EOF
		}
		c.rest = chunk
	}
	n := copy(b, c.rest)
	c.rest = c.rest[n:]
	return n, nil
}

func hunt3CA(t *testing.T) (certFile, keyFile string, pool *x509.CertPool) {
	priv, err := ecdsa.GenerateKey(elliptic.P256(), rand.Reader)
	if err != nil {
		t.Fatal(err)
	}
	tmpl := x509.Certificate{
		SerialNumber:          big.NewInt(1),
		Subject:               pkix.Name{Organization: []string{"hunt3 CA"}},
		NotBefore:             time.Now().Add(-time.Hour),
		NotAfter:              time.Now().Add(10 * 365 * 24 * time.Hour),
		KeyUsage:              x509.KeyUsageCertSign | x509.KeyUsageDigitalSignature,
		BasicConstraintsValid: true,
		IsCA:                  true,
	}
	der, err := x509.CreateCertificate(rand.Reader, &tmpl, &tmpl, &priv.PublicKey, priv)
	if err != nil {
		t.Fatal(err)
	}
	dir := t.TempDir()
	certFile, keyFile = filepath.Join(dir, "ca.crt"), filepath.Join(dir, "ca.key")
	os.WriteFile(certFile, pem.EncodeToMemory(&pem.Block{Type: "CERTIFICATE", Bytes: der}), 0o600)
	kb, _ := x509.MarshalPKCS8PrivateKey(priv)
	os.WriteFile(keyFile, pem.EncodeToMemory(&pem.Block{Type: "PRIVATE KEY", Bytes: kb}), 0o600)
	caCert, _ := x509.ParseCertificate(der)
	pool = x509.NewCertPool()
	pool.AddCert(caCert)
	return
}

// Opens one CONNECT tunnel through Proxy.ServeHTTP, waits `pause` after the proxy's 200 before sending the
// ClientHello, and verifies the presented certificate the way any TLS client does (name, chain, validity at
// the current time). Returns the handshake error and the leaf.
func hunt3Tunnel(t *testing.T, p *Proxy, pool *x509.CertPool, pause time.Duration) (error, *x509.Certificate) {
	rawClientSide, proxySide := net.Pipe()
	clientSide := newHunt3Conn(rawClientSide)
	done := make(chan struct{})
	go func() {
		defer close(done)
		req, _ := http.NewRequest(http.MethodConnect, "http://origin.example:443", nil)
		req.Host = "origin.example:443"
		p.ServeHTTP(&hunt3Writer{conn: proxySide, h: http.Header{}}, req)
	}()
	defer func() { clientSide.Close(); <-done }()

	resp, err := http.ReadResponse(bufio.NewReader(clientSide), &http.Request{Method: http.MethodConnect})
	if err != nil || resp.StatusCode != http.StatusOK {
		t.Fatalf("CONNECT not answered with 200: %v %v", resp, err)
	}
	time.Sleep(pause)
	var leaf *x509.Certificate
	tc := tls.Client(clientSide, &tls.Config{
		ServerName:         "origin.example",
		InsecureSkipVerify: true, // verification is done below, identically, so that the leaf can be kept for the report
		VerifyConnection: func(cs tls.ConnectionState) error {
			leaf = cs.PeerCertificates[0]
			_, err := leaf.Verify(x509.VerifyOptions{Roots: pool, DNSName: "origin.example", CurrentTime: time.Now()})
			return err
		},
	})
	err = tc.Handshake()
	return err, leaf
}

// History: a tunnel to origin.example at t0 (certificate issued, valid 240 h); a second tunnel whose CONNECT
// arrives 61 s before that certificate runs out; the second client needs a little over a minute between the
// proxy's "200" and its ClientHello (nothing in handleCONNECT limits that time). The certificate was picked
// before the 200 was written and is presented after it has expired. The clock is the synctest fake clock, so
// the 240 hours pass instantly; nothing else is faked, the unchanged handler code runs.
func TestHunt3_ReusedCertificateExpiresBeforeItIsPresented(t *testing.T) {
	synctest.Test(t, func(t *testing.T) {
		certFile, keyFile, pool := hunt3CA(t)
		ca, err := certs.NewPrivateCA(certFile, keyFile)
		if err != nil {
			t.Fatal(err)
		}
		p := &Proxy{ca: ca} // handleCONNECT needs nothing else until a request is read from the tunnel

		err, first := hunt3Tunnel(t, p, pool, 0)
		if err != nil {
			t.Fatalf("first tunnel: %v", err)
		}
		t.Logf("t0              = %s", time.Now().UTC().Format(time.RFC3339))
		t.Logf("first tunnel: certificate serial %x, NotAfter %s", first.SerialNumber, first.NotAfter.Format(time.RFC3339))

		// go to 61 s before the end of the certificate's life
		time.Sleep(time.Until(first.NotAfter) - 61*time.Second)
		t.Logf("second CONNECT at %s", time.Now().UTC().Format(time.RFC3339))

		err, second := hunt3Tunnel(t, p, pool, 62*time.Second)
		t.Logf("ClientHello at    %s", time.Now().UTC().Format(time.RFC3339))
		if second != nil {
			t.Logf("second tunnel: certificate serial %x, NotAfter %s", second.SerialNumber, second.NotAfter.Format(time.RFC3339))
			if time.Now().After(second.NotAfter) {
				t.Errorf("the client was presented a certificate that is outside its validity period (expired %s ago)", time.Since(second.NotAfter))
			}
		}
		if err != nil {
			t.Errorf("second tunnel: client-side verification failed: %v", err)
		}

		// control: the same slow client immediately afterwards gets a fresh certificate and is content
		err, third := hunt3Tunnel(t, p, pool, 62*time.Second)
		if err != nil {
			t.Fatalf("control tunnel: %v", err)
		}
		t.Logf("control tunnel (same 62 s pause): certificate serial %x, NotAfter %s, verified", third.SerialNumber, third.NotAfter.Format(time.RFC3339))
	})
}
