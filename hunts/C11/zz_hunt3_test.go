// package directory: tests/   (run: go test -vet=off -count=1 -run TestHunt3 ./tests/)
package tests

import (
	"bufio"
	"bytes"
	"context"
	"crypto/ecdsa"
	"crypto/elliptic"
	"crypto/rand"
	"crypto/tls"
	"crypto/x509"
	"crypto/x509/pkix"
	"encoding/pem"
	"io"
	"math/big"
	"net"
	"net/http"
	"net/url"
	"os"
	"path/filepath"
	"reservoir/config"
	"reservoir/proxy"
	"reservoir/proxy/certs"
	"sync"
	"testing"
	"testing/synctest"
	"time"
)

// hunt3Writer is an http.ResponseWriter whose connection can be hijacked, as the one of net/http's server is.
type hunt3Writer struct {
	conn net.Conn
	h    http.Header
}

func (w *hunt3Writer) Header() http.Header         { return w.h }
func (w *hunt3Writer) Write(b []byte) (int, error) { return w.conn.Write(b) }
func (w *hunt3Writer) WriteHeader(int)             {}
func (w *hunt3Writer) Hijack() (net.Conn, *bufio.ReadWriter, error) {
	return w.conn, bufio.NewReadWriter(bufio.NewReader(w.conn), bufio.NewWriter(w.conn)), nil
}

// hunt3Half is one direction of an in-memory connection with a send buffer, like a TCP socket has
// (net.Pipe has none, so two peers that write at the same time would block each other).
type hunt3Half struct {
	mu     sync.Mutex
	cond   *sync.Cond
	buf    bytes.Buffer
	closed bool
}

func newHunt3Half() *hunt3Half { h := &hunt3Half{}; h.cond = sync.NewCond(&h.mu); return h }

type hunt3Conn struct{ r, w *hunt3Half }

func hunt3Pipe() (net.Conn, net.Conn) {
	a, b := newHunt3Half(), newHunt3Half()
	return &hunt3Conn{r: a, w: b}, &hunt3Conn{r: b, w: a}
}

func (c *hunt3Conn) Read(p []byte) (int, error) {
	c.r.mu.Lock()
	defer c.r.mu.Unlock()
	for c.r.buf.Len() == 0 && !c.r.closed {
		c.r.cond.Wait()
	}
	if c.r.buf.Len() == 0 {
		return 0, io.EOF
	}
	return c.r.buf.Read(p)
}

func (c *hunt3Conn) Write(p []byte) (int, error) {
	c.w.mu.Lock()
	defer c.w.mu.Unlock()
	if c.w.closed {
		return 0, io.ErrClosedPipe
	}
	c.w.cond.Broadcast()
	return c.w.buf.Write(p)
}

func (c *hunt3Conn) Close() error {
	for _, h := range []*hunt3Half{c.r, c.w} {
		h.mu.Lock()
		h.closed = true
		h.cond.Broadcast()
		h.mu.Unlock()
	}
	return nil
}
func (c *hunt3Conn) LocalAddr() net.Addr              { return &net.TCPAddr{} }
func (c *hunt3Conn) RemoteAddr() net.Addr             { return &net.TCPAddr{} }
func (c *hunt3Conn) SetDeadline(time.Time) error      { return nil }
func (c *hunt3Conn) SetReadDeadline(time.Time) error  { return nil }
func (c *hunt3Conn) SetWriteDeadline(time.Time) error { return nil }

// hunt3Connect sends "CONNECT target" into the proxy's handler over an in-memory connection, waits `latency`
// (the way from the proxy's "200" to the client and of the ClientHello back) and completes a verifying TLS handshake.
func hunt3Connect(p *proxy.Proxy, target string, roots *x509.CertPool, latency time.Duration) (*x509.Certificate, error) {
	clientSide, proxySide := hunt3Pipe()
	defer clientSide.Close()
	done := make(chan struct{})
	go func() {
		defer close(done)
		req := &http.Request{Method: http.MethodConnect, Host: target, URL: &url.URL{Host: target}, Header: http.Header{},
			Proto: "HTTP/1.1", ProtoMajor: 1, ProtoMinor: 1, RemoteAddr: "client"}
		p.ServeHTTP(&hunt3Writer{conn: proxySide, h: http.Header{}}, req)
	}()
	defer func() { clientSide.Close(); <-done }()

	resp, err := http.ReadResponse(bufio.NewReader(clientSide), &http.Request{Method: http.MethodConnect})
	if err != nil {
		return nil, err
	}
	if resp.StatusCode != 200 {
		return nil, &net.AddrError{Err: "CONNECT refused: " + resp.Status}
	}
	time.Sleep(latency)
	host, _, _ := net.SplitHostPort(target)
	tc := tls.Client(clientSide, &tls.Config{RootCAs: roots, ServerName: host}) // Time: nil -> time.Now, the same clock the proxy uses
	if err := tc.Handshake(); err != nil {
		return nil, err
	}
	return tc.ConnectionState().PeerCertificates[0], nil
}

// The proxy keeps a host's certificate until "NotAfter is before now" at the moment the CONNECT arrives. A tunnel
// that opens in the last instants of the certificate's life is therefore still answered with the old certificate,
// and by the time the client sees it in the handshake (one round trip later) it is outside its validity period.
// testing/synctest supplies the clock; proxy and client read the same one, nothing in the program is altered.
func TestHunt3TunnelOpenedJustBeforeExpiryIsPresentedAnExpiredCertificate(t *testing.T) {
	synctest.Test(t, func(t *testing.T) {
		// A CA that is valid throughout (GenerateTestCA's lives for an hour only).
		priv, _ := ecdsa.GenerateKey(elliptic.P256(), rand.Reader)
		tmpl := x509.Certificate{
			SerialNumber: big.NewInt(1), Subject: pkix.Name{Organization: []string{"hunt3 CA"}},
			NotBefore: time.Now().Add(-time.Hour), NotAfter: time.Now().Add(365 * 24 * time.Hour),
			KeyUsage: x509.KeyUsageCertSign | x509.KeyUsageDigitalSignature, BasicConstraintsValid: true, IsCA: true,
		}
		der, err := x509.CreateCertificate(rand.Reader, &tmpl, &tmpl, &priv.PublicKey, priv)
		if err != nil {
			t.Fatal(err)
		}
		dir := t.TempDir()
		certFile, keyFile := filepath.Join(dir, "ca.crt"), filepath.Join(dir, "ca.key")
		os.WriteFile(certFile, pem.EncodeToMemory(&pem.Block{Type: "CERTIFICATE", Bytes: der}), 0o600)
		pk, _ := x509.MarshalPKCS8PrivateKey(priv)
		os.WriteFile(keyFile, pem.EncodeToMemory(&pem.Block{Type: "PRIVATE KEY", Bytes: pk}), 0o600)
		caCert, _ := x509.ParseCertificate(der)
		roots := x509.NewCertPool()
		roots.AddCert(caCert)

		ca, err := certs.NewPrivateCA(certFile, keyFile)
		if err != nil {
			t.Fatal(err)
		}
		cfg := config.NewDefault()
		cfg.Cache.Type.Overwrite(config.CacheTypeMemory)
		cfg.Cache.File.Dir.Overwrite(t.TempDir())
		cfg.Cache.LockShards.Overwrite(32)
		cfg.Logging.ToStdout.Overwrite(false)
		ctx, cancel := context.WithCancel(context.Background())
		p, err := proxy.NewProxy(cfg, ca, ctx)
		if err != nil {
			t.Fatal(err)
		}
		defer func() { cancel(); p.Destroy(); synctest.Wait() }()

		const target = "late.example:443"
		const latency = 20 * time.Millisecond

		first, err := hunt3Connect(p, target, roots, latency)
		if err != nil {
			t.Fatalf("first tunnel: %v", err)
		}
		t.Logf("now %s: first tunnel got serial %s valid until %s", time.Now().UTC().Format(time.RFC3339Nano), first.SerialNumber, first.NotAfter.UTC().Format(time.RFC3339))

		// Ten days pass. The next tunnel opens 5 ms before the certificate runs out.
		time.Sleep(time.Until(first.NotAfter) - 5*time.Millisecond)
		t.Logf("now %s: opening a tunnel to the same host", time.Now().UTC().Format(time.RFC3339Nano))
		second, err := hunt3Connect(p, target, roots, latency)
		if err != nil {
			t.Errorf("now %s: tunnel opened 5 ms before NotAfter, client could not accept the certificate it was presented: %v", time.Now().UTC().Format(time.RFC3339Nano), err)
		} else if time.Now().After(second.NotAfter) {
			t.Errorf("presented certificate %s is outside its validity period", second.SerialNumber)
		}

		// Control: once it is expired at CONNECT time the proxy does replace it.
		third, err := hunt3Connect(p, target, roots, latency)
		if err != nil {
			t.Fatalf("third tunnel: %v", err)
		}
		if third.SerialNumber.Cmp(first.SerialNumber) == 0 {
			t.Errorf("expired certificate was not replaced")
		}
		t.Logf("now %s: third tunnel got the replacement, serial %s valid until %s", time.Now().UTC().Format(time.RFC3339Nano), third.SerialNumber, third.NotAfter.UTC().Format(time.RFC3339))
	})
}
