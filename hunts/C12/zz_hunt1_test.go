// package directory: cache/   (copy to cache/zz_hunt1_test.go)
package cache

import (
	"bytes"
	"fmt"
	"io"
	"log/slog"
	"os"
	"reservoir/config"
	"reservoir/metrics"
	"reservoir/utils/bytesize"
	"sync"
	"testing"
	"time"
)

// A full cache makes every store run an eviction first. The eviction finishes with
// metrics.BytesCached.Set(<size read a moment earlier>), which wipes out whatever a concurrent
// store or removal added to / subtracted from the reported size in between. Afterwards nothing
// is running, yet the reported size differs from what is stored (and can go negative).
func huntSetRace(t *testing.T, mk func(cfg *config.Config) (Cache[TestMeta], func() (int64, int))) {
	metrics.Global = metrics.NewMetrics() // fresh process
	slog.SetDefault(slog.New(slog.NewTextHandler(io.Discard, &slog.HandlerOptions{Level: slog.LevelError})))
	rounds := 0
	defer func() { t.Logf("rounds: %d", rounds) }()
	cfg := config.NewDefault()
	cfg.Cache.MaxCacheSize.Overwrite(bytesize.ParseUnchecked("1K"))
	cfg.Cache.CleanupInterval.Overwrite(90 * 60 * 1e9) // default: 90 minutes, never fires here
	c, actual := mk(cfg)
	defer c.Destroy()

	const workers = 8 // eight clients fetching eight different cacheable objects at the same time
	body := make([]byte, 600)
	deadline := time.Now().Add(30 * time.Second)
	for round := 0; time.Now().Before(deadline); round++ {
		var wg sync.WaitGroup
		for w := 0; w < workers; w++ {
			wg.Add(1)
			go func(w int) {
				defer wg.Done()
				e, err := c.Cache(FromString(fmt.Sprintf("k-%d-%d", w, round%3)), bytes.NewReader(body), time.Now().Add(time.Hour), TestMeta{})
				if err == nil {
					e.Data.Close()
				}
			}(w)
		}
		wg.Wait()
		rounds++

		// quiescent: nothing is running, the janitor ticks every 90 minutes
		bytesStored, entries := actual()
		repBytes := metrics.Global.Cache.BytesCached.Get()
		repEntries := metrics.Global.Cache.CacheEntries.Get()
		if repBytes != bytesStored || repEntries != int64(entries) {
			t.Fatalf("round %d: reported bytes_cached=%d cache_entries=%d, actually stored bytes=%d entries=%d",
				round, repBytes, repEntries, bytesStored, entries)
		}
	}
}

func TestHunt1_SetRace_Memory(t *testing.T) {
	huntSetRace(t, func(cfg *config.Config) (Cache[TestMeta], func() (int64, int)) {
		c := NewMemoryCache[TestMeta](cfg, 50, cfg.Cache.MaxCacheSize.Read().Bytes(), cfg.Cache.CleanupInterval.Read().Cast(), 32, t.Context())
		return c, func() (int64, int) {
			c.mu.RLock()
			defer c.mu.RUnlock()
			var n int64
			for _, e := range c.entries {
				n += int64(len(e.data))
			}
			return n, len(c.entries)
		}
	})
}

func TestHunt1_SetRace_File(t *testing.T) {
	dir := t.TempDir()
	huntSetRace(t, func(cfg *config.Config) (Cache[TestMeta], func() (int64, int)) {
		c := NewFileCache[TestMeta](cfg, dir, cfg.Cache.MaxCacheSize.Read().Bytes(), cfg.Cache.CleanupInterval.Read().Cast(), 32, t.Context())
		return c, func() (int64, int) {
			des, err := os.ReadDir(dir)
			if err != nil {
				t.Fatal(err)
			}
			var n int64
			for _, de := range des {
				fi, err := de.Info()
				if err != nil {
					t.Fatal(err)
				}
				n += fi.Size()
			}
			return n, len(des)
		}
	})
}
