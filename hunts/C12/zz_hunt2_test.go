// package directory: tests/   (copy to tests/zz_hunt2_test.go)
package tests

import (
	"context"
	"io"
	"net/http"
	"net/http/httptest"
	"net/url"
	"os"
	"reservoir/config"
	"reservoir/metrics"
	"reservoir/proxy"
	"testing"
)

// Restart over a dirty directory: the file cache clears its directory with os.RemoveAll and throws
// the error away. os.RemoveAll refuses (EINVAL) any path that is "." or ends in "/.", so with
// --cache-dir . (or cache.file.dir "var/cache/.") the files of the previous run survive the restart
// while the new process reports 0 bytes / 0 entries and can return none of them.
func TestHunt2_RestartOverDirtyDirectory_DotPath(t *testing.T) {
	upstream := httptest.NewServer(http.HandlerFunc(func(w http.ResponseWriter, r *http.Request) {
		w.Header().Set("Cache-Control", "max-age=3600")
		w.Write([]byte("0123456789"))
	}))
	defer upstream.Close()

	base := t.TempDir()
	newCfg := func() *config.Config {
		cfg := config.NewDefault()
		cfg.Proxy.UpstreamDefaultHttps.Overwrite(false)
		cfg.Cache.Type.Overwrite(config.CacheTypeFile)
		cfg.Cache.File.Dir.Overwrite(base + "/cache/.") // what --cache-dir / cache.file.dir would carry
		cfg.Cache.LockShards.Overwrite(32)
		return cfg
	}
	dirState := func() (files int, bytes int64) {
		des, err := os.ReadDir(base + "/cache")
		if err != nil {
			t.Fatal(err)
		}
		for _, de := range des {
			fi, _ := de.Info()
			bytes += fi.Size()
		}
		return len(des), bytes
	}

	// ---- first run: one object gets cached
	metrics.Global = metrics.NewMetrics()
	ctx1, stop1 := context.WithCancel(context.Background())
	p1, err := proxy.NewProxy(newCfg(), &FakeCA{}, ctx1)
	if err != nil {
		t.Fatal(err)
	}
	srv1 := httptest.NewServer(p1)
	pu, _ := url.Parse(srv1.URL)
	client := &http.Client{Transport: &http.Transport{Proxy: http.ProxyURL(pu)}}
	resp, err := client.Get(upstream.URL + "/a")
	if err != nil {
		t.Fatal(err)
	}
	io.Copy(io.Discard, resp.Body)
	resp.Body.Close()
	files, bytes := dirState()
	if files != 1 || bytes != 10 || metrics.Global.Cache.BytesCached.Get() != 10 || metrics.Global.Cache.CacheEntries.Get() != 1 {
		t.Fatalf("first run: unexpected state files=%d bytes=%d reported=%d/%d", files, bytes,
			metrics.Global.Cache.BytesCached.Get(), metrics.Global.Cache.CacheEntries.Get())
	}
	// the process goes away without cleaning up (kill, crash, or simply exit: Destroy does not clear the directory either)
	srv1.Close()
	p1.Destroy()
	stop1()

	// ---- second run over the dirty directory
	metrics.Global = metrics.NewMetrics() // new process, counters start at zero
	p2, err := proxy.NewProxy(newCfg(), &FakeCA{}, t.Context())
	if err != nil {
		t.Fatal(err)
	}
	defer p2.Destroy()

	files, bytes = dirState()
	repBytes := metrics.Global.Cache.BytesCached.Get()
	repEntries := metrics.Global.Cache.CacheEntries.Get()
	if int64(files) != repEntries || bytes != repBytes {
		t.Fatalf("after restart: reported bytes_cached=%d cache_entries=%d, but the cache directory holds %d bytes in %d files",
			repBytes, repEntries, bytes, files)
	}
}
