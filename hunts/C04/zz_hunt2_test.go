// package directory: tests/   (run: go test -vet=off -count=1 ./tests/ -run TestHunt2)
package tests

import (
	"io"
	"net/http"
	"strings"
	"sync/atomic"
	"testing"
	"time"
)

// C04 claims: "a 200 GET response that carries a positive max-age ... is stored and reused while fresh".
// max-age is delta-seconds = 1*DIGIT with no upper bound (RFC 9111 1.2.2: a value too large to represent
// must be treated as 2^31 or the largest representable value, never as "uncacheable").
// proxy/headers/cache_control.go:26-35 parses it with ParseInt(…, 64) and multiplies by time.Second:
//   - values >= 9223372037 overflow the Duration to a negative number  -> ShouldCache says "max-age < 1" -> not stored
//   - values >  2^63-1 fail ParseInt -> whole header "unparseable" -> treated as no-cache -> not stored
//   - some values wrap to a tiny positive Duration (18446744074 s -> 0.29 s) -> stored, but stale after 0.29 s
func TestHunt2_LargePositiveMaxAge(t *testing.T) {
	cases := []struct {
		name, maxAge string
		pause        time.Duration
	}{
		{"control-9223372036", "9223372036", 0},
		{"ms-instead-of-s-31536000000", "31536000000", 0}, // "one year" given in milliseconds, seen in the wild
		{"9223372037", "9223372037", 0},
		{"2^63", "9223372036854775808", 0},
		{"wraps-to-290ms-18446744074", "18446744074", 600 * time.Millisecond},
	}
	for _, c := range cases {
		t.Run(c.name, func(t *testing.T) {
			env := SetupTestEnv(t)
			var hits int32
			env.Upstream.Config.Handler = http.HandlerFunc(func(w http.ResponseWriter, r *http.Request) {
				atomic.AddInt32(&hits, 1)
				w.Header().Set("Cache-Control", "max-age="+c.maxAge)
				w.WriteHeader(http.StatusOK)
				io.WriteString(w, "body")
			})
			env.Start()
			u := env.Upstream.URL + "/big-max-age"

			var status [2]string
			for i := 0; i < 2; i++ {
				if i == 1 {
					time.Sleep(c.pause)
				}
				resp, err := env.Client.Get(u)
				if err != nil {
					t.Fatal(err)
				}
				io.Copy(io.Discard, resp.Body)
				resp.Body.Close()
				status[i] = resp.Header.Get("Cache-Status")
			}
			t.Logf("max-age=%s -> origin requests=%d, Cache-Status #1=%q #2=%q", c.maxAge, atomic.LoadInt32(&hits), status[0], status[1])
			if !strings.Contains(status[0], "stored") {
				t.Errorf("200 GET response with positive max-age=%s was not stored: Cache-Status %q", c.maxAge, status[0])
			}
			if n := atomic.LoadInt32(&hits); n != 1 || !strings.Contains(status[1], "hit") {
				t.Errorf("max-age=%s: request %v after storing was not answered from the store: origin saw %d requests, Cache-Status %q", c.maxAge, c.pause, n, status[1])
			}
		})
	}
}
