// package directory: tests/   (run: go test -vet=off -count=1 ./tests/ -run TestHunt3)
package tests

import (
	"fmt"
	"io"
	"net/http"
	"sync/atomic"
	"testing"
)

// C04 claims: "A response is reused from the store only if ... the origin did not mark it no-store,
// no-cache, private ...; any request that cannot be answered this way reaches the origin."
// proxy/headers/cache_control.go:22 recognises the three directives only by exact string equality, so the
// argument form of the same directives (RFC 9111 5.2.2.4 no-cache="f1, f2", 5.2.2.7 private="f1") is not
// recognised at all: the whole response INCLUDING the header fields the origin marked private / no-cache
// is stored and replayed to other clients without the origin being contacted.
func TestHunt3_PrivateAndNoCacheWithFieldArgument(t *testing.T) {
	for _, cc := range []string{
		`private="Set-Cookie", max-age=60`,
		`no-cache="Set-Cookie", max-age=60`,
		`max-age=60, private=Set-Cookie`,
		// control: the unqualified form is honoured
		`private, max-age=60`,
	} {
		t.Run(cc, func(t *testing.T) {
			env := SetupTestEnv(t)
			var hits int32
			env.Upstream.Config.Handler = http.HandlerFunc(func(w http.ResponseWriter, r *http.Request) {
				n := atomic.AddInt32(&hits, 1)
				w.Header().Set("Cache-Control", cc)
				w.Header().Set("Set-Cookie", fmt.Sprintf("session=user-%d", n))
				w.WriteHeader(http.StatusOK)
				fmt.Fprintf(w, "account page of user-%d", n)
			})
			env.Start()
			u := env.Upstream.URL + "/account"

			get := func() (string, string, string) {
				resp, err := env.Client.Get(u)
				if err != nil {
					t.Fatal(err)
				}
				b, _ := io.ReadAll(resp.Body)
				resp.Body.Close()
				return string(b), resp.Header.Get("Set-Cookie"), resp.Header.Get("Cache-Status")
			}
			b1, c1, s1 := get()
			before := atomic.LoadInt32(&hits)
			b2, c2, s2 := get()
			after := atomic.LoadInt32(&hits)
			t.Logf("Cache-Control: %s", cc)
			t.Logf("  #1 body=%q Set-Cookie=%q Cache-Status=%q", b1, c1, s1)
			t.Logf("  #2 body=%q Set-Cookie=%q Cache-Status=%q (origin requests during #2: %d)", b2, c2, s2, after-before)
			if after == before {
				t.Errorf("response marked %q by the origin was reused from the store: the second request never reached the origin and got Set-Cookie %q, body %q", cc, c2, b2)
			}
		})
	}
}
