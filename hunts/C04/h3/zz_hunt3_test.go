// package directory: tests/   (run: go test -vet=off -count=1 -run TestHunt3 ./tests/ -v)
package tests

// C04 finding 3: the origin marks a 200 GET response "Cache-Control: no-store, private" and nominates that field in
// "Connection: Cache-Control" (i.e. it addresses the directive to its direct peer, which is this proxy). The proxy
// strips the nominated field as hop-by-hop BEFORE it evaluates storability, sees "no Cache-Control", stores the
// response for default_max_age (1h) and answers later requests from the store, with ignore_cache_control=false.
// (This is not the known "Connection: close, X" case: no "close" is involved and net/http leaves the field alone.)

import (
	"bufio"
	"fmt"
	"io"
	"net"
	"net/http"
	"net/http/httptest"
	"net/url"
	"reservoir/config"
	"reservoir/logging"
	"reservoir/proxy"
	"strings"
	"sync/atomic"
	"testing"
	"time"
)

// An origin that writes its answer byte for byte.
func hunt3Origin(t *testing.T, extraHeader string, hits *int32) net.Listener {
	ln, err := net.Listen("tcp", "127.0.0.1:0")
	if err != nil {
		t.Fatal(err)
	}
	go func() {
		for {
			c, err := ln.Accept()
			if err != nil {
				return
			}
			go func(c net.Conn) {
				defer c.Close()
				br := bufio.NewReader(c)
				for {
					req, err := http.ReadRequest(br)
					if err != nil {
						return
					}
					io.Copy(io.Discard, req.Body)
					n := atomic.AddInt32(hits, 1)
					body := fmt.Sprintf("secret-%d", n)
					fmt.Fprintf(c, "HTTP/1.1 200 OK\r\nContent-Type: text/plain\r\nCache-Control: no-store, private\r\n%sContent-Length: %d\r\n\r\n%s",
						extraHeader, len(body), body)
				}
			}(c)
		}
	}()
	return ln
}

func hunt3Run(t *testing.T, extraHeader string) (originHits int32, bodies []string, lastCacheStatus, lastCC string) {
	var hits int32
	ln := hunt3Origin(t, extraHeader, &hits)
	defer ln.Close()

	cfg := config.NewDefault()
	cfg.Proxy.UpstreamDefaultHttps.Overwrite(false)
	cfg.Proxy.CachePolicy.IgnoreCacheControl.Overwrite(false) // origin directives are honoured
	cfg.Proxy.CachePolicy.ForceDefaultMaxAge.Overwrite(false)
	cfg.Cache.File.Dir.Overwrite(t.TempDir())
	cfg.Cache.Type.Overwrite(config.CacheTypeMemory)
	cfg.Cache.LockShards.Overwrite(32)
	cfg.Logging.ToStdout.Overwrite(false)
	logging.Init(cfg)

	p, err := proxy.NewProxy(cfg, &FakeCA{}, t.Context())
	if err != nil {
		t.Fatal(err)
	}
	ps := httptest.NewServer(p)
	defer func() { ps.Close(); time.Sleep(50 * time.Millisecond); p.Destroy() }()

	proxyURL, _ := url.Parse(ps.URL)
	tr := &http.Transport{Proxy: http.ProxyURL(proxyURL)}
	defer tr.CloseIdleConnections()
	client := &http.Client{Transport: tr}

	for i := 0; i < 3; i++ {
		resp, err := client.Get("http://" + ln.Addr().String() + "/account")
		if err != nil {
			t.Fatal(err)
		}
		b, _ := io.ReadAll(resp.Body)
		resp.Body.Close()
		bodies = append(bodies, string(b))
		lastCacheStatus = resp.Header.Get("Cache-Status")
		lastCC = resp.Header.Get("Cache-Control")
	}
	return atomic.LoadInt32(&hits), bodies, lastCacheStatus, lastCC
}

func TestHunt3_NoStoreNominatedInConnectionIsStoredAndReused(t *testing.T) {
	// control: the same response without the Connection field is not stored, every GET reaches the origin
	n, bodies, cs, _ := hunt3Run(t, "")
	if n < 3 || bodies[2] == bodies[0] {
		t.Fatalf("control: no-store response must reach the origin every time: hits=%d bodies=%v Cache-Status=%q", n, bodies, cs)
	}

	n, bodies, cs, cc := hunt3Run(t, "Connection: Cache-Control\r\n")
	if n < 3 {
		t.Errorf("VIOLATION: origin sent \"Cache-Control: no-store, private\" (+ \"Connection: Cache-Control\"), ignore_cache_control=false, yet 3 client GETs caused only %d origin request(s)", n)
	}
	if bodies[1] == bodies[0] || bodies[2] == bodies[0] || strings.Contains(cs, "hit") {
		t.Errorf("VIOLATION: the no-store/private response was answered from the store: bodies=%v, Cache-Status of the last answer=%q, Cache-Control relayed to the client=%q", bodies, cs, cc)
	}
}
