// package directory: tests/   (run: go test -vet=off -count=1 -run TestHunt1 ./tests/ -v)
package tests

// C04 finding 1: a response that the origin marked "no-store, private, max-age=0" and that was stored while
// the operator had ignore_cache_control=true keeps being answered from the store after the operator has
// switched ignore_cache_control to false through the configuration API (PATCH /api/config ->
// config.UpdatePartialFromConfig). At that point the operator has NOT chosen to ignore origin directives,
// the origin DID mark the response no-store/private/max-age=0, and yet the request never reaches the origin.

import (
	"fmt"
	"io"
	"net/http"
	"net/http/httptest"
	"net/url"
	"os"
	"reservoir/config"
	"reservoir/logging"
	"reservoir/proxy"
	"strings"
	"sync/atomic"
	"testing"
	"time"
)

func TestHunt1_IgnoreSwitchedOffStillServesNoStore(t *testing.T) {
	// UpdatePartialFromConfig persists to var/config.json relative to the working directory (as the server does)
	if err := os.MkdirAll("var", 0o755); err != nil {
		t.Fatal(err)
	}
	t.Cleanup(func() { os.Remove("var/config.json") })

	var hits int32
	upstream := httptest.NewServer(http.HandlerFunc(func(w http.ResponseWriter, r *http.Request) {
		n := atomic.AddInt32(&hits, 1)
		w.Header().Set("Cache-Control", "no-store, private, max-age=0")
		w.WriteHeader(http.StatusOK)
		fmt.Fprintf(w, "secret-%d", n)
	}))
	defer upstream.Close()

	// The shipped defaults: ignore_cache_control=true, force_default_max_age=true, default_max_age=1h, memory cache.
	// (No Overwrite() on the cache_policy settings: that is the command-line override, which would hide the API update.)
	cfg := config.NewDefault()
	cfg.Proxy.UpstreamDefaultHttps.Overwrite(false)
	cfg.Cache.File.Dir.Overwrite(t.TempDir())
	cfg.Logging.ToStdout.Overwrite(false)
	logging.Init(cfg)
	if !cfg.Proxy.CachePolicy.IgnoreCacheControl.Read() {
		t.Fatal("precondition: default ignore_cache_control should be true")
	}

	p, err := proxy.NewProxy(cfg, &FakeCA{}, t.Context())
	if err != nil {
		t.Fatal(err)
	}
	ps := httptest.NewServer(p)
	defer func() { ps.Close(); time.Sleep(50 * time.Millisecond); p.Destroy() }()

	proxyURL, _ := url.Parse(ps.URL)
	tr := &http.Transport{Proxy: http.ProxyURL(proxyURL)}
	client := &http.Client{Transport: tr}
	defer tr.CloseIdleConnections()

	get := func(path string) (string, string) {
		resp, err := client.Get(upstream.URL + path)
		if err != nil {
			t.Fatalf("GET %s: %v", path, err)
		}
		defer resp.Body.Close()
		b, _ := io.ReadAll(resp.Body)
		return string(b), resp.Header.Get("Cache-Status")
	}

	// 1. directives ignored: the no-store response is stored (as the property says it should be)
	body1, _ := get("/account")
	if body1 != "secret-1" || atomic.LoadInt32(&hits) != 1 {
		t.Fatalf("setup: body=%q hits=%d", body1, hits)
	}

	// 2. the operator stops ignoring origin directives (this is exactly what PATCH /api/config does)
	status, err := config.UpdatePartialFromConfig(cfg, map[string]any{
		"proxy": map[string]any{"cache_policy": map[string]any{"ignore_cache_control": false}},
	})
	if err != nil || status != config.UpdateStatusSuccess {
		t.Fatalf("config update: status=%v err=%v", status, err)
	}
	if cfg.Proxy.CachePolicy.IgnoreCacheControl.Read() {
		t.Fatal("ignore_cache_control still true after update")
	}

	// control: the new setting is live, a new no-store URL is neither stored nor reused
	before := atomic.LoadInt32(&hits)
	get("/other")
	mid := atomic.LoadInt32(&hits)
	get("/other")
	if after := atomic.LoadInt32(&hits); !(mid > before && after > mid) {
		t.Fatalf("control: with directives honoured a no-store response must reach the origin every time (hits %d -> %d -> %d)", before, mid, after)
	}

	// 3. the same URL again: directives are honoured now and the origin marked the response no-store, private,
	//    max-age=0, so it must not be answered from the store; the request has to reach the origin.
	before = atomic.LoadInt32(&hits)
	body2, cs := get("/account")
	after := atomic.LoadInt32(&hits)
	if after == before {
		t.Errorf("VIOLATION: ignore_cache_control=false, origin said %q, but the request did not reach the origin: body=%q Cache-Status=%q (origin hits stayed at %d)",
			"no-store, private, max-age=0", body2, cs, after)
	}
	if strings.Contains(cs, "hit") || body2 == "secret-1" {
		t.Errorf("VIOLATION: stored no-store/private response reused: body=%q Cache-Status=%q", body2, cs)
	}
}
