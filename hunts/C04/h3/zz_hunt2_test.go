// package directory: tests/   (run: go test -vet=off -count=1 -run TestHunt2 ./tests/ -v)
package tests

// C04 finding 2: with cache.type=file a 200 answer to a GET that carries "Cache-Control: max-age=60" but has an
// empty body (Content-Length: 0) is never stored and never reused: every client request reaches the origin
// (twice, in fact). The memory backend stores and reuses the very same response, and the file backend does so
// as soon as the body has one byte.

import (
	"io"
	"net/http"
	"net/http/httptest"
	"net/url"
	"reservoir/config"
	"reservoir/logging"
	"reservoir/proxy"
	"sync/atomic"
	"testing"
	"time"
)

func hunt2Run(t *testing.T, cacheType config.CacheType, body string) (originHits int32, secondCacheStatus string) {
	var hits int32
	upstream := httptest.NewServer(http.HandlerFunc(func(w http.ResponseWriter, r *http.Request) {
		atomic.AddInt32(&hits, 1)
		w.Header().Set("Cache-Control", "max-age=60")
		w.Header().Set("Content-Type", "text/plain")
		w.WriteHeader(http.StatusOK)
		io.WriteString(w, body)
	}))
	defer upstream.Close()

	cfg := config.NewDefault()
	cfg.Proxy.UpstreamDefaultHttps.Overwrite(false)
	cfg.Proxy.CachePolicy.IgnoreCacheControl.Overwrite(false)
	cfg.Proxy.CachePolicy.ForceDefaultMaxAge.Overwrite(false)
	cfg.Cache.File.Dir.Overwrite(t.TempDir())
	cfg.Cache.Type.Overwrite(cacheType)
	cfg.Cache.LockShards.Overwrite(32)
	cfg.Logging.ToStdout.Overwrite(false)
	logging.Init(cfg)

	p, err := proxy.NewProxy(cfg, &FakeCA{}, t.Context())
	if err != nil {
		t.Fatal(err)
	}
	ps := httptest.NewServer(p)
	defer func() { ps.Close(); time.Sleep(50 * time.Millisecond); p.Destroy() }()

	proxyURL, _ := url.Parse(ps.URL)
	tr := &http.Transport{Proxy: http.ProxyURL(proxyURL)}
	defer tr.CloseIdleConnections()
	client := &http.Client{Transport: tr}

	for i := 0; i < 2; i++ {
		resp, err := client.Get(upstream.URL + "/empty")
		if err != nil {
			t.Fatal(err)
		}
		got, _ := io.ReadAll(resp.Body)
		resp.Body.Close()
		if resp.StatusCode != 200 || string(got) != body {
			t.Fatalf("request %d: status=%d body=%q", i+1, resp.StatusCode, got)
		}
		secondCacheStatus = resp.Header.Get("Cache-Status")
	}
	return atomic.LoadInt32(&hits), secondCacheStatus
}

func TestHunt2_FileCacheNeverStoresEmpty200(t *testing.T) {
	// controls
	if n, cs := hunt2Run(t, config.CacheTypeMemory, ""); n != 1 {
		t.Errorf("control (memory backend, empty body): origin hits=%d Cache-Status=%q", n, cs)
	}
	if n, cs := hunt2Run(t, config.CacheTypeFile, "x"); n != 1 {
		t.Errorf("control (file backend, one byte): origin hits=%d Cache-Status=%q", n, cs)
	}

	// 200 + GET + max-age=60 + empty body on the file backend: must be stored and the second GET answered from the store
	n, cs := hunt2Run(t, config.CacheTypeFile, "")
	if n != 1 {
		t.Errorf("VIOLATION: file backend, 200 GET response with max-age=60 and empty body is not stored/reused: 2 client GETs caused %d origin requests, Cache-Status of the second answer = %q", n, cs)
	}
}
