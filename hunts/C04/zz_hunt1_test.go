// package directory: tests/   (run: go test -vet=off -count=1 ./tests/ -run TestHunt1)
package tests

import (
	"io"
	"net/http"
	"strings"
	"sync/atomic"
	"testing"
	"time"
)

// C04 claims: "a 200 GET response that carries ... no Cache-Control and no past Expires, is stored
// and reused while fresh". An Expires one hour in the FUTURE, written in one of the two obsolete
// HTTP-date formats every recipient must accept (RFC 9110 5.6.7: rfc850-date, asctime-date),
// is taken for an invalid date = "already expired", so the response is never stored.
func TestHunt1_FutureExpiresInObsoleteDateFormat(t *testing.T) {
	future := time.Now().Add(1 * time.Hour).UTC()
	cases := []struct{ name, expires string }{
		{"control-imf-fixdate", future.Format(http.TimeFormat)},
		{"rfc850-date", future.Format("Monday, 02-Jan-06 15:04:05 GMT")},
		{"asctime-date", future.Format(time.ANSIC)},
	}
	for _, c := range cases {
		t.Run(c.name, func(t *testing.T) {
			// sanity: the value is a valid HTTP-date in the future according to net/http itself
			if ts, err := http.ParseTime(c.expires); err != nil || !ts.After(time.Now()) {
				t.Fatalf("test bug: %q is not a future HTTP-date: %v %v", c.expires, ts, err)
			}
			env := SetupTestEnv(t)
			var hits int32
			env.Upstream.Config.Handler = http.HandlerFunc(func(w http.ResponseWriter, r *http.Request) {
				atomic.AddInt32(&hits, 1)
				w.Header().Set("Expires", c.expires) // no Cache-Control at all
				w.WriteHeader(http.StatusOK)
				io.WriteString(w, "body")
			})
			env.Start()
			u := env.Upstream.URL + "/obsolete-expires"

			var status [2]string
			for i := 0; i < 2; i++ {
				resp, err := env.Client.Get(u)
				if err != nil {
					t.Fatal(err)
				}
				io.Copy(io.Discard, resp.Body)
				resp.Body.Close()
				status[i] = resp.Header.Get("Cache-Status")
			}
			t.Logf("Expires: %s -> origin requests=%d, Cache-Status #1=%q #2=%q", c.expires, atomic.LoadInt32(&hits), status[0], status[1])
			if !strings.Contains(status[0], "stored") {
				t.Errorf("first response (200 GET, no Cache-Control, Expires in the future) was not stored: Cache-Status %q", status[0])
			}
			if n := atomic.LoadInt32(&hits); n != 1 || !strings.Contains(status[1], "hit") {
				t.Errorf("second request was not answered from the store: origin saw %d requests, Cache-Status %q", n, status[1])
			}
		})
	}
}
