// package directory: tests/   (run: go test -vet=off -count=1 ./tests/ -run TestHunt2)
package tests

import (
	"io"
	"net/http"
	"testing"
)

// C07, last clause: "an If-Range that does not match the stored validator yields the full 200".
//
// A client resumes a download of what used to be a 2000 byte file (ETag "old"): it has the first
// 1000 bytes and sends "Range: bytes=1000-" guarded by "If-Range: "old"". Meanwhile the resource
// was replaced by a 36 byte one with ETag "new". The origin does not implement Range and answers
// the full 200. The If-Range does not match the stored validator, so the Range has to be ignored
// and the full 200 sent (that is the whole point of If-Range, RFC 9110 section 13.1.5 / 14.2:
// preconditions are evaluated before the Range is looked at). The proxy checks the range against
// the new size first and answers 416, so the guarded resume can never complete.
func hunt2Run(t *testing.T, env *TestEnv) {
	content := []byte("0123456789abcdefghijklmnopqrstuvwxyz")

	env.Upstream.Config.Handler = http.HandlerFunc(func(w http.ResponseWriter, r *http.Request) {
		w.Header().Set("Cache-Control", "max-age=60")
		w.Header().Set("ETag", "\"new\"")
		w.Header().Set("Last-Modified", "Tue, 02 Jan 2024 03:04:05 GMT")
		w.WriteHeader(http.StatusOK)
		w.Write(content)
	})
	env.Start()
	url := env.Upstream.URL + "/if-range-resume"

	do := func(rng, ifRange string) (int, http.Header, string) {
		req, _ := http.NewRequest("GET", url, nil)
		req.Header.Set("Range", rng)
		req.Header.Set("If-Range", ifRange)
		resp, err := env.Client.Do(req)
		if err != nil {
			t.Fatalf("request failed: %v", err)
		}
		defer resp.Body.Close()
		body, err := io.ReadAll(resp.Body)
		if err != nil {
			t.Fatalf("reading body failed: %v", err)
		}
		return resp.StatusCode, resp.Header, string(body)
	}

	// Sanity: with a range that fits, the same mismatching If-Range does give the full 200.
	if st, _, body := do("bytes=0-4", "\"old\""); st != http.StatusOK || body != string(content) {
		t.Fatalf("sanity: mismatching If-Range with bytes=0-4: got %d %q, want the full 200", st, body)
	}

	for _, c := range [][2]string{
		{"bytes=1000-", "\"old\""},                       // entity-tag validator
		{"bytes=1000-1999", "\"old\""},                   //
		{"bytes=-2000", "\"old\""},                       // suffix longer than the new representation
		{"bytes=1000-", "Mon, 01 Jan 2024 00:00:00 GMT"}, // date validator, older than the stored one
	} {
		st, h, body := do(c[0], c[1])
		t.Logf("Range=%q If-Range=%q -> %d Content-Range=%q ETag=%q body=%q", c[0], c[1], st, h.Get("Content-Range"), h.Get("ETag"), body)
		if st != http.StatusOK || body != string(content) {
			t.Errorf("Range %q with If-Range %q (stored validators: ETag \"new\", Last-Modified Tue, 02 Jan 2024 03:04:05 GMT): want the full 200, got %d (Content-Range %q) body %q",
				c[0], c[1], st, h.Get("Content-Range"), body)
		}
	}
}

func TestHunt2IfRangeMismatchUnsatisfiablePlain(t *testing.T)   { hunt2Run(t, SetupTestEnv(t)) }
func TestHunt2IfRangeMismatchUnsatisfiableConnect(t *testing.T) { hunt2Run(t, SetupHttpsTestEnv(t)) }
