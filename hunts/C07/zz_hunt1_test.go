// package directory: tests/   (run: go test -vet=off -count=1 ./tests/ -run TestHunt1)
package tests

import (
	"io"
	"net/http"
	"testing"
	"time"
)

// C07, last clause: "an If-Range that does not match the stored validator yields the full 200".
//
// The origin does not implement Range (it always answers the full 200) and gives the
// representation Last-Modified = T. The client asks for bytes 0-4 "if the representation is still
// the one last modified at T+1h". T+1h is not the stored validator (T), so the only correct answer
// is the full 200 (RFC 9110 section 13.1.5: an HTTP-date in If-Range matches only when it is
// exactly the Last-Modified). The proxy answers 206 with a slice of the T representation instead.
func hunt1Run(t *testing.T, env *TestEnv) {
	content := []byte("0123456789abcdefghijklmnopqrstuvwxyz")
	lastModified := time.Date(2024, 1, 2, 3, 4, 5, 0, time.UTC)

	env.Upstream.Config.Handler = http.HandlerFunc(func(w http.ResponseWriter, r *http.Request) {
		w.Header().Set("Cache-Control", "max-age=60")
		w.Header().Set("Last-Modified", lastModified.Format(http.TimeFormat))
		w.WriteHeader(http.StatusOK)
		w.Write(content)
	})
	env.Start()
	url := env.Upstream.URL + "/if-range-date"

	do := func(ifRange string) (int, http.Header, string) {
		req, _ := http.NewRequest("GET", url, nil)
		req.Header.Set("Range", "bytes=0-4")
		req.Header.Set("If-Range", ifRange)
		resp, err := env.Client.Do(req)
		if err != nil {
			t.Fatalf("request failed: %v", err)
		}
		defer resp.Body.Close()
		body, err := io.ReadAll(resp.Body)
		if err != nil {
			t.Fatalf("reading body failed: %v", err)
		}
		return resp.StatusCode, resp.Header, string(body)
	}

	// Sanity: the stored validator itself matches -> 206 is fine.
	if st, _, body := do(lastModified.Format(http.TimeFormat)); st != http.StatusPartialContent || body != "01234" {
		t.Fatalf("sanity: If-Range equal to the stored Last-Modified: got %d %q, want 206 \"01234\"", st, body)
	}
	// Sanity: an older date is recognised as a mismatch -> full 200.
	if st, _, body := do(lastModified.Add(-time.Hour).Format(http.TimeFormat)); st != http.StatusOK || body != string(content) {
		t.Fatalf("sanity: older If-Range date: got %d %q, want the full 200", st, body)
	}

	// The violation: a date that is NOT the stored Last-Modified (one hour / one second later).
	for _, d := range []time.Duration{time.Hour, time.Second} {
		ifRange := lastModified.Add(d).Format(http.TimeFormat)
		st, h, body := do(ifRange)
		t.Logf("stored Last-Modified=%q If-Range=%q -> %d Content-Range=%q Last-Modified=%q body=%q",
			lastModified.Format(http.TimeFormat), ifRange, st, h.Get("Content-Range"), h.Get("Last-Modified"), body)
		if st != http.StatusOK || body != string(content) {
			t.Errorf("If-Range %q does not match the stored Last-Modified %q, want the full 200, got %d (Content-Range %q) body %q",
				ifRange, lastModified.Format(http.TimeFormat), st, h.Get("Content-Range"), body)
		}
	}
}

func TestHunt1IfRangeLaterDatePlain(t *testing.T)   { hunt1Run(t, SetupTestEnv(t)) }
func TestHunt1IfRangeLaterDateConnect(t *testing.T) { hunt1Run(t, SetupHttpsTestEnv(t)) }
