// package directory: tests/   (copy to /tmp/hunt-C07-h3/tests/zz_hunt2_test.go)
package tests

import (
	"bytes"
	"io"
	"net/http"
	"testing"
)

// C07: "an If-Range that does not match the stored validator yields the full 200".
// Only the first If-Range field line is looked at. A request that carries a second If-Range line
// with a validator that does not match the stored one still gets a 206; with the two lines
// in the other order the same request gets the full 200.
func TestHunt2SecondIfRangeLineIsIgnored(t *testing.T) {
	env := SetupTestEnv(t)
	content := []byte("0123456789abcdefghijklmnopqrstuvwxyz")
	env.Upstream.Config.Handler = http.HandlerFunc(func(w http.ResponseWriter, r *http.Request) {
		w.Header().Set("Cache-Control", "max-age=60")
		w.Header().Set("ETag", "\"v1\"")
		w.WriteHeader(http.StatusOK)
		w.Write(content)
	})
	env.Start()
	target := env.Upstream.URL + "/hunt2"

	get := func(ifRange []string) (*http.Response, []byte) {
		req, _ := http.NewRequest("GET", target, nil)
		req.Header.Set("Range", "bytes=0-3")
		req.Header["If-Range"] = ifRange // one field line per value
		resp, err := env.Client.Do(req)
		if err != nil {
			t.Fatalf("request failed: %v", err)
		}
		defer resp.Body.Close()
		body, _ := io.ReadAll(resp.Body)
		return resp, body
	}

	// Control: mismatching line first -> full 200
	if resp, body := get([]string{"\"v0\"", "\"v1\""}); resp.StatusCode != 200 || !bytes.Equal(body, content) {
		t.Fatalf("control: expected full 200, got %d %q", resp.StatusCode, body)
	}
	// Same two validators, other order: the mismatching one is not looked at
	if resp, body := get([]string{"\"v1\"", "\"v0\""}); resp.StatusCode != 200 || !bytes.Equal(body, content) {
		t.Errorf("If-Range: \"v1\" + If-Range: \"v0\": expected the full 200, got %d Content-Range=%q body=%q",
			resp.StatusCode, resp.Header.Get("Content-Range"), body)
	}
}
