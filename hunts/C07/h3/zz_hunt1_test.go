// package directory: tests/   (copy to /tmp/hunt-C07-h3/tests/zz_hunt1_test.go)
package tests

import (
	"bytes"
	"io"
	"net/http"
	"testing"
)

// C07: "an If-Range that does not match the stored validator yields the full 200".
// An If-Range field with an empty value cannot match the stored validator ("v1" / a Last-Modified date),
// yet the proxy treats it as absent: it builds a 206 (or a 416) instead of sending the full 200.
// Every other non-matching If-Range (another ETag, another date, plain garbage) correctly gets the 200.
func TestHunt1EmptyIfRangeIsTakenForAMatch(t *testing.T) {
	env := SetupTestEnv(t)
	content := []byte("0123456789abcdefghijklmnopqrstuvwxyz")
	env.Upstream.Config.Handler = http.HandlerFunc(func(w http.ResponseWriter, r *http.Request) {
		// An origin without range support: it answers every request with the full representation
		w.Header().Set("Cache-Control", "max-age=60")
		w.Header().Set("ETag", "\"v1\"")
		w.Header().Set("Last-Modified", "Sun, 06 Nov 1994 08:49:37 GMT")
		w.WriteHeader(http.StatusOK)
		w.Write(content)
	})
	env.Start()
	target := env.Upstream.URL + "/hunt1"

	get := func(rangeValue string, ifRange []string) (*http.Response, []byte) {
		req, _ := http.NewRequest("GET", target, nil)
		req.Header.Set("Range", rangeValue)
		req.Header["If-Range"] = ifRange // an empty value is sent as "If-Range: \r\n"
		resp, err := env.Client.Do(req)
		if err != nil {
			t.Fatalf("request failed: %v", err)
		}
		defer resp.Body.Close()
		body, _ := io.ReadAll(resp.Body)
		return resp, body
	}

	// Control: a non-matching, syntactically meaningless If-Range gets the full 200, as the property says.
	if resp, body := get("bytes=0-3", []string{"garbage"}); resp.StatusCode != 200 || !bytes.Equal(body, content) {
		t.Fatalf("control: expected full 200 for If-Range: garbage, got %d %q", resp.StatusCode, body)
	}

	// The empty If-Range does not match the stored validator either.
	if resp, body := get("bytes=0-3", []string{""}); resp.StatusCode != 200 || !bytes.Equal(body, content) {
		t.Errorf("satisfiable range, empty If-Range: expected the full 200, got %d Content-Range=%q body=%q",
			resp.StatusCode, resp.Header.Get("Content-Range"), body)
	}
	if resp, body := get("bytes=100-200", []string{""}); resp.StatusCode != 200 || !bytes.Equal(body, content) {
		t.Errorf("unsatisfiable range, empty If-Range: expected the full 200, got %d Content-Range=%q body=%q",
			resp.StatusCode, resp.Header.Get("Content-Range"), body)
	}
}
