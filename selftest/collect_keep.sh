#!/bin/sh
# usage: selftest/collect_keep.sh <worktree-id> <Knn>  — copy a finished refactoring worktree's patch+notes into keepall and remove the worktree
here="$(cd "$(dirname "$0")/.." && pwd)"
w="/tmp/keep-$1"; k="$2"
[ -s "$w/_keep/patch.diff" ] || { echo "no patch in $w"; exit 2; }
git -C /repo apply --check "$w/_keep/patch.diff" || { echo "patch does not apply to /repo"; exit 2; }
cp "$w/_keep/patch.diff" "$here/selftest/keepall/$k.diff"
[ -f "$w/_keep/notes.md" ] && cp "$w/_keep/notes.md" "$here/selftest/keepall/$k.notes.md"
git -C /repo worktree remove --force "$w" && rm -rf "$w"
echo "$k <- $1 ($(grep -c '^[+-][^+-]' "$here/selftest/keepall/$k.diff") changed lines)"
