#!/bin/sh
# usage: selftest/mutate.sh <patch-file> <property> [tier]
# Applies a patch to a scratch copy of /repo (outside /repo and /verif), runs
# the checker against it, removes the copy. Prints the checker's verdict lines.
set -e
here="$(cd "$(dirname "$0")/.." && pwd)"
patch="$(realpath "$1")"; prop="$2"; tier="${3:-quick}"
d="$(mktemp -d /tmp/rv-mut.XXXXXX)"
trap 'rm -rf "$d"' EXIT
rsync -a --exclude .git /repo/ "$d/"
( cd "$d" && patch -p1 -s < "$patch" )
. "$here/env.sh"
( cd "$d" && go build ./cache/... ./proxy/... ./config/... ./utils/... >/dev/null 2>&1 ) || echo "NOTE: mutant does not build"
VERIF_REPO="$d" "$here/bin/checker" -verif "$here" -out "$d/.verif-out" -repo "$d" -tier "$tier" "$prop" | grep -E "^(==|VIOLATION|KNOWN|  FAIL)" | sed "s#$d/##g"
