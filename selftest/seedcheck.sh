#!/bin/sh
# usage: selftest/seedcheck.sh <patch.diff> [props...]   — applies the patch to a scratch copy of /repo and runs the checks
here="$(cd "$(dirname "$0")/.." && pwd)"
patch="$(realpath "$1")"; shift
props="$*"; [ -z "$props" ] && props="C01 C02 C03 C04 C05 C06 C07 C08 C09 C10 C11 C12 C13 C14 C15 C16 C17 C18 C19 C20"
d="$(mktemp -d /tmp/rv-seed.XXXXXX)"; trap 'rm -rf "$d"' EXIT
rsync -a --exclude .git --exclude _seed /repo/ "$d/"
( cd "$d" && git apply --unsafe-paths -p1 "$patch" 2>/dev/null || patch -p1 -s < "$patch" ) || { echo "patch does not apply"; exit 2; }
. "$here/env.sh"
for p in $props; do
  "$here/bin/checker" -verif "$here" -out "$d/.o" -repo "$d" -tier quick "$p" 2>&1 | grep -E "^(VIOLATION|  FAIL)" | sed "s#$d/##g" | cut -c1-400
done
