#!/bin/sh
# Single-step behaviour-preserving refactorings (selftest/micro/W*-p*.diff: one extract / inline / invert / reorder /
# signature step each, 8 per area) must be silent on all 20 checks.
cd "$(dirname "$0")/.." || exit 2
. ./env.sh
( cd checker && go build -o ../bin/checker . ) || exit 2
ls selftest/micro/*.diff | xargs -P 8 -I{} sh -c '
  out=$(selftest/seedcheck.sh "{}" 2>&1)
  if [ -z "$out" ]; then echo "ok   silent  {}"; else echo "FALSE-ALARM  {}"; echo "$out" | grep -E "FAIL|apply" | cut -c1-200 | sed "s/^/      /"; fi' | sort > /tmp/micro.out
cat /tmp/micro.out
bad=$(grep -c "^FALSE-ALARM" /tmp/micro.out)
echo "micro: $(grep -c '^ok' /tmp/micro.out) silent, $bad with false alarms"
[ "$bad" = 0 ]
