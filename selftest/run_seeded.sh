#!/bin/sh
# Every independently seeded change kept under seeded/<id>/ must be reported by the check of its property.
cd "$(dirname "$0")/.." || exit 2
. ./env.sh
( cd checker && go build -o ../bin/checker . ) || exit 2
ls -d seeded/C*/ | xargs -P 6 -I{} sh -c '
  d="{}"; prop=$(basename "$d" | cut -c1-3)
  out=$(selftest/seedcheck.sh "$d/patch.diff" "$prop" 2>&1)
  if echo "$out" | grep -q "^VIOLATION property=$prop"; then echo "ok   caught  $d: $(echo "$out" | grep FAIL | head -1 | cut -c1-110)"; else echo "MISS         $d"; fi' | sort > /tmp/seeded.out
cat /tmp/seeded.out
bad=$(grep -vc "^ok" /tmp/seeded.out)
echo "seeded: $(grep -c '^ok' /tmp/seeded.out) caught, $bad missed"
[ "$bad" = 0 ]
