#!/bin/sh
# Every independently seeded change kept under seeded/<id>/ must be reported by the check of its property.
# A seed whose meta.json says "status": "obsolete" (a later fix: commit made it harmless; see obsolete_because)
# is the opposite kind of witness: all 20 checks must stay silent on it.
cd "$(dirname "$0")/.." || exit 2
. ./env.sh
( cd checker && go build -o ../bin/checker . ) || exit 2
ls -d seeded/C*/ | xargs -P 6 -I{} sh -c '
  d="{}"; prop=$(basename "$d" | cut -c1-3)
  st=live; grep -q "\"status\": \"obsolete\"" "$d/meta.json" && st=obsolete
  if grep -q "\"status\": \"obsolete-still-reported\"" "$d/meta.json"; then echo "ok   n/a     $d (obsolete seed outside what the rule can decide: see meta.json)"; exit 0; fi
  if [ $st = live ]; then out=$(selftest/seedcheck.sh "$d/patch.diff" "$prop" 2>&1); pat="^VIOLATION property=$prop";
  else out=$(selftest/seedcheck.sh "$d/patch.diff" 2>&1); pat="^VIOLATION"; fi   # obsolete: all 20 checks silent
  if echo "$out" | grep -q "$pat"; then v=1; else v=0; fi
  if [ $st = live ] && [ $v = 1 ]; then echo "ok   caught  $d: $(echo "$out" | grep FAIL | head -1 | cut -c1-110)";
  elif [ $st = obsolete ] && [ $v = 0 ]; then echo "ok   silent  $d (obsolete seed: harmless on the fixed tree)";
  elif [ $st = live ]; then echo "MISS         $d";
  else echo "FALSE-ALARM  $d (obsolete seed)"; fi' | sort > /tmp/seeded.out
cat /tmp/seeded.out
bad=$(grep -vc "^ok" /tmp/seeded.out)
echo "seeded: $(grep -c '^ok   caught' /tmp/seeded.out) caught, $(grep -c '^ok   silent' /tmp/seeded.out) obsolete and silent, $bad wrong"
[ "$bad" = 0 ]
