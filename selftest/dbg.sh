#!/bin/sh
# usage: selftest/dbg.sh <scratch-repo-dir> <prop>... — runs the checks against an existing scratch copy (debug aid)
here="$(cd "$(dirname "$0")/.." && pwd)"; . "$here/env.sh"
d="$1"; shift
for p in "$@"; do "$here/bin/checker" -verif "$here" -out "$d/.o" -repo "$d" -tier quick "$p" 2>&1 | grep -E "^(==|VIOLATION|  FAIL)" | sed "s#$d/##g" | cut -c1-${COLS:-260}; done
