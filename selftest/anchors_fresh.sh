#!/bin/sh
# The alias table (tables/anchors.tsv) describes the tree the rules were written against: /repo at the commit the
# checks were last brought in line with. After a legitimate change of /repo (a fix: commit) regenerate it:
#   selftest/anchors_fresh.sh --write
cd "$(dirname "$0")/.." || exit 2
. ./env.sh
( cd checker && go build -o ../bin/checker . ) || exit 2
./bin/checker -repo /repo -verif "$PWD" anchors 2>/dev/null | grep -v "^loaded" > /tmp/anchors.now
if [ "$1" = "--write" ]; then cp /tmp/anchors.now tables/anchors.tsv; echo "tables/anchors.tsv rewritten ($(wc -l < tables/anchors.tsv) lines)"; rm -f /tmp/anchors.now; exit 0; fi
if cmp -s /tmp/anchors.now tables/anchors.tsv; then echo "ok   anchors table matches /repo"; rm -f /tmp/anchors.now; exit 0; fi
echo "STALE tables/anchors.tsv differs from /repo's current tree:"; diff /tmp/anchors.now tables/anchors.tsv | cut -c1-160 | head -20; rm -f /tmp/anchors.now; exit 1
