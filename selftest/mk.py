#!/usr/bin/env python3
"""usage: mk.py <out.diff> <file> <old> <new> [<file> <old> <new> ...]
Builds a unified diff (paths a/ b/) that replaces <old> by <new> once in /repo/<file>."""
import sys, difflib
out = sys.argv[1]; a = sys.argv[2:]
res = []
for i in range(0, len(a), 3):
    f, old, new = a[i], a[i+1].encode().decode('unicode_escape'), a[i+2].encode().decode('unicode_escape')
    s = open('/repo/'+f).read()
    assert s.count(old) >= 1, "old text not found in "+f+": "+old
    t = s.replace(old, new, 1)
    res += list(difflib.unified_diff(s.splitlines(True), t.splitlines(True), 'a/'+f, 'b/'+f))
open(out, 'w').write(''.join(res))
