#!/bin/sh
# usage: selftest/mkcombo.sh <Knn> <out.diff> <python-edit-script>
# Builds a "refactored and then broken" mutant: applies a behaviour-preserving patch from selftest/keepall to a
# scratch copy of /repo, runs the edit script in it (cwd = the copy), checks that it builds, and writes the
# combined diff against /repo.
. /verif/env.sh
w=$(mktemp -d /tmp/rv-combo.XXXXXX); trap 'rm -rf "$w"' EXIT
rsync -a --exclude .git /repo/ "$w/r/"
src=/verif/selftest/keepall/$1.diff; [ -f "$1" ] && src=$(realpath "$1"); ( cd "$w/r" && patch -p1 -s < "$src" ) || exit 2
( cd "$w/r" && python3 "$3" && gofmt -l cache config proxy utils webserver && go build ./cache/... ./config/... ./proxy/... ./utils/... ) || { echo "edit/build failed"; exit 2; }
( cd "$w" && diff -ruN --exclude=.git /repo r | grep -v "^Only in\|^diff " | sed 's#^--- /repo/#--- a/#; s#^+++ r/#+++ b/#' ) > "$2"
echo "$2: $(grep -c '^[+-][^+-]' "$2") changed lines"
