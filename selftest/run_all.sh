#!/bin/sh
# Self-test of the checker in both directions (not a registered check: it works on scratch copies).
#   selftest/break/<Cnn>-*.diff : mutants that break property Cnn and must be reported (VIOLATION)
#   selftest/keep/<Cnn>-*.diff  : behaviour-preserving edits that must stay silent
# One scratch copy and one checker process per variant; copies are removed immediately.
cd "$(dirname "$0")/.." || exit 2
. ./env.sh
( cd checker && go build -o ../bin/checker . ) || exit 2
for f in selftest/break/*.diff; do echo "$f break"; done > /tmp/selftest.list
for f in selftest/keep/*.diff; do echo "$f keep"; done >> /tmp/selftest.list
cat /tmp/selftest.list | xargs -P 6 -L 1 sh -c '
  f="$0"; kind="$1"; prop=$(basename "$f" | cut -c1-3)
  out=$(selftest/mutate.sh "$f" "$prop" 2>&1)
  if echo "$out" | grep -q "NOTE: mutant does not build"; then echo "BROKEN       $f (does not build any more: re-make it)"; exit 0; fi
  if echo "$out" | grep -q "^VIOLATION"; then v=1; else v=0; fi
  if [ "$kind" = break ] && [ $v = 1 ]; then echo "ok   caught  $f";
  elif [ "$kind" = keep ] && [ $v = 0 ]; then echo "ok   silent  $f";
  elif [ "$kind" = break ]; then echo "MISS         $f";
  else echo "FALSE-ALARM  $f"; fi' | sort > /tmp/selftest.out
rm -f /tmp/selftest.list
cat /tmp/selftest.out
n=$(grep -c "^ok" /tmp/selftest.out); bad=$(grep -vc "^ok" /tmp/selftest.out)
echo "selftest: $n ok, $bad not ok"
[ "$bad" = 0 ]
