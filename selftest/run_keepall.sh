#!/bin/sh
# Behaviour-preserving refactorings (selftest/keepall/K*.diff, each touching several files) must be
# silent on all 20 checks: a report on one of them is a false alarm of the checker.
cd "$(dirname "$0")/.." || exit 2
. ./env.sh
( cd checker && go build -o ../bin/checker . ) || exit 2
ls selftest/keepall/*.diff | xargs -P 4 -I{} sh -c '
  out=$(selftest/seedcheck.sh "{}" 2>&1)
  if [ -z "$out" ]; then echo "ok   silent  {}"; else echo "FALSE-ALARM  {}"; echo "$out" | grep FAIL | cut -c1-200 | sed "s/^/      /"; fi' > /tmp/keepall.out
cat /tmp/keepall.out
# known, documented false alarms (DESIGN section 22): behaviour-preserving restructurings a sufficient-condition rule
# cannot prove. They are expected to be reported; one that has become silent should be moved to selftest/keepall/.
for f in selftest/keepall-open/*.diff; do
  [ -f "$f" ] || continue
  out=$(selftest/seedcheck.sh "$f" 2>&1)
  if [ -z "$out" ]; then echo "NOW-SILENT   $f (move it to selftest/keepall/)"; else echo "open         $f: $(echo "$out" | grep -c FAIL) obligation(s) still reported: $(echo "$out" | grep FAIL | sed 's/^ *FAIL \([A-Z0-9.]*\).*/\1/' | sort -u | tr '\n' ' ')"; fi
done
bad=$(grep -c "^FALSE-ALARM" /tmp/keepall.out)
echo "keepall: $(grep -c '^ok' /tmp/keepall.out) silent, $bad with false alarms"
[ "$bad" = 0 ]
