# Environment every checker build/run needs (see DESIGN.md §1).
export PATH=/opt/veriftools/go1.26.8/bin:$PATH
export GOTOOLCHAIN=local GOFLAGS=-mod=mod GOPROXY=off GOSUMDB=off GOWORK=off
unset GOWORK_FILE 2>/dev/null || true
