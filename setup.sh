#!/bin/sh
# Builds the static checker from files on disk only (module cache, offline).
set -e
cd "$(dirname "$0")"
. ./env.sh
cd checker
go build -o ../bin/checker .
