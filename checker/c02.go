package main

import (
	"fmt"
	"go/token"
	"go/types"
	"os"
	"regexp"
	"sort"
	"strings"

	"golang.org/x/tools/go/ssa"
)

func init() { register("C02", checkC02) }

var verbRe = regexp.MustCompile(`%[-+# 0]*[0-9]*(\.[0-9]+)?[a-zA-Z]`)

// reqFieldReads: which *http.Request fields (dotted path) a value derives from.
func reqFieldSources(v ssa.Value, req *ssa.Parameter) map[string]bool {
	return reqFieldSourcesCtx(v, nil, req)
}

// reqFieldSourcesCtx: the fields of the request parameter req that v is computed from, also
// through same-package helpers that were handed the request or one of its fields.
func reqFieldSourcesCtx(v ssa.Value, ctx dctx, req *ssa.Parameter) map[string]bool {
	out := map[string]bool{}
	derivesFromDeep(v, ctx, func(x ssa.Value, cx dctx) bool {
		root, p := ctxFieldPath(x, cx)
		if root == ssa.Value(req) && len(p) > 0 {
			out[strings.Join(p, ".")] = true
		}
		// methods of url.URL that read several fields
		if call, ok := x.(*ssa.Call); ok {
			if n := calleeName(call); n == "(*net/url.URL).EscapedPath" || n == "(*net/url.URL).RequestURI" || n == "(*net/url.URL).String" {
				if root, p := ctxFieldPath(callArgs(call)[0], cx); root == ssa.Value(req) && len(p) == 1 && p[0] == "URL" {
					out["URL.Path"], out["URL.RawPath"] = true, true
					if n != "(*net/url.URL).EscapedPath" {
						out["URL.RawQuery"], out["URL.ForceQuery"] = true, true
					}
				}
			}
		}
		// control dependence through the merge of constant alternatives (scheme := "http"; if r.TLS != nil {...})
		return false
	})
	return out
}

// callsInDerivation: names of functions applied on the way from the request to v.
func callsInDerivation(v ssa.Value) map[string]bool { return callsInDerivationCtx(v, nil) }

func callsInDerivationCtx(v ssa.Value, ctx dctx) map[string]bool {
	out := map[string]bool{}
	derivesFromDeep(v, ctx, func(x ssa.Value, _ dctx) bool {
		if c, ok := x.(*ssa.Call); ok && helperBody(c) == nil {
			out[calleeName(c)] = true
		}
		return false
	})
	return out
}

// isFixedString: v ranges over a finite set of string constants (a constant, a merge of
// constants, or a same-package helper all of whose returns are such).
func isFixedString(v ssa.Value, depth int) bool {
	if depth > 5 {
		return false
	}
	if _, ok := constString(v); ok {
		return true
	}
	if phi, ok := v.(*ssa.Phi); ok {
		for _, e := range phi.Edges {
			if !isFixedString(e, depth+1) {
				return false
			}
		}
		return len(phi.Edges) > 0
	}
	if call, ok := v.(*ssa.Call); ok {
		if g := helperBody(call); g != nil {
			n, all := 0, true
			eachInstr(g, func(in ssa.Instruction) {
				if ret, ok := in.(*ssa.Return); ok && !isRecoverReturn(ret) {
					n++
					vals := retVals(ret)
					if len(vals) != 1 || !isFixedString(vals[0], depth+1) {
						all = false
					}
				}
			})
			return all && n > 0
		}
	}
	return false
}

// condRequestFields: request fields that decide which alternative of a merge (phi, or the
// returns of a helper) is taken.
func condRequestFields(v ssa.Value, req *ssa.Parameter) map[string]bool {
	out := map[string]bool{}
	derivesFromDeep(v, nil, func(x ssa.Value, cx dctx) bool {
		var conds []ssa.Value
		if phi, ok := x.(*ssa.Phi); ok {
			conds = append(conds, condLeaves(condOfPhi(phi))...)
		}
		if call, ok := x.(*ssa.Call); ok {
			if g := helperBody(call); g != nil {
				inner := append(append(dctx{}, cx...), call)
				for _, blk := range g.Blocks {
					if iff, ok := blk.Instrs[len(blk.Instrs)-1].(*ssa.If); ok {
						for _, l := range condLeaves(iff.Cond) {
							if root, p := ctxFieldPath(l, inner); root == ssa.Value(req) && len(p) > 0 {
								out[p[0]] = true
							}
						}
					}
				}
			}
		}
		for _, l := range conds {
			if root, p := ctxFieldPath(l, cx); root == ssa.Value(req) && len(p) > 0 {
				out[p[0]] = true
			}
		}
		return false
	})
	return out
}

func checkC02(c *Ctx, r *Report) {
	r.Decided = []string{
		"R1 the key builder reads scheme (TLS), Method, Host, URL.Path and URL.RawQuery of the request and all five reach the hashed string",
		"R2 the components are framed injectively: in the single format expression every client-controlled component except possibly the last is quoted/escaped (a raw join would let a separator move across a boundary)",
		"R3 Host passes a case fold; the path passes path.Clean and the trailing-slash distinction that Clean drops is restored under strings.HasSuffix(original path, \"/\"); Method and RawQuery reach the key unmodified",
		"R6 the path component of the key is the escaped path (EscapedPath / RawPath), so an encoded slash is not a separator",
		"R5 the key names what is fetched: the request fields feeding the key (besides method and transport) are exactly those the upstream target URL is built from in changeRequestToTarget (Host, URL.Path, URL.RawQuery)",
		"R4 package proxy builds a key only by MakeFromRequest, once per request; every key handed to the cache interface and to singleflight derives from that one call on the same request",
	}
	r.NotDec = []string{"percent-encoding equivalences (net/http decodes URL.Path before the proxy sees it)", "hash collisions of BLAKE2b-256", "injectivity as a semantic fact for all strings (the framing rule is a sufficient structural condition)"}
	li := BuildLocks(c)

	fs := c.FuncsNamed(cachePkg + ".MakeFromRequest")
	if len(fs) == 0 {
		r.Undecided("C02.R1", "MakeFromRequest", "-", "unresolved anchor")
		return
	}
	f := fs[0]
	req := f.Params[0]
	// the string that is hashed: argument of FromString / NewCacheKey reached from the return
	var keyStr ssa.Value
	eachInstr(f, func(in ssa.Instruction) {
		if call, ok := in.(*ssa.Call); ok {
			n := calleeName(call)
			if n == cachePkg+".FromString" || n == cachePkg+".NewCacheKey" {
				keyStr = call.Call.Args[0]
			}
		}
	})
	if keyStr == nil {
		r.Undecided("C02.R1", "hashed string", c.Pos(f.Pos()), "no call to FromString/NewCacheKey in MakeFromRequest")
		return
	}
	// what the hashed string is computed from: the value itself and, when it is assembled piecewise (a
	// strings.Builder, a Join), each of its components
	roots := []ssa.Value{keyStr}
	if sg, ok := keySegments(keyStr, 0); ok {
		for _, s := range sg {
			if s.val != nil {
				roots = append(roots, s.val)
			}
		}
	}
	srcs := map[string]bool{}
	keyCalls := map[string]bool{}
	condFields := map[string]bool{}
	for _, rt := range roots {
		for k := range reqFieldSources(rt, req) {
			srcs[k] = true
		}
		for k := range callsInDerivation(rt) {
			keyCalls[k] = true
		}
		for k := range condRequestFields(rt, req) {
			condFields[k] = true
		}
	}
	for _, want := range []string{"TLS", "Method", "Host", "URL.Path", "URL.RawQuery"} {
		alt := want
		if want == "URL.Path" && (srcs["URL.RawPath"] || keyCalls["(*net/url.URL).EscapedPath"]) {
			alt = "URL.RawPath"
			srcs["URL.Path"] = true
		}
		// TLS influences the key through control flow (which scheme constant is chosen)
		if want == "TLS" && !srcs["TLS"] && condFields["TLS"] {
			srcs["TLS"] = true
		}
		r.Check(srcs[want], "C02.R1", "key depends on request."+alt, c.Pos(f.Pos()), "component reaches the hashed string", "the cache key does not depend on request."+want+": two requests differing only there share an entry")
	}

	// ---- R2/R3 framing
	segs, ok := keySegments(keyStr, 0)
	if !ok {
		r.Undecided("C02.R2", "framing expression", c.Pos(f.Pos()), "the hashed string is not built by constant-format Sprintf / concatenation / Join of a literal list / a straight-line strings.Builder; injectivity of another construction is not decided")
		return
	}
	var ops []ssa.Value
	var verbs []string
	var escapedSeg []bool
	var nextLit []string // the constant text that follows each component
	for i, sg := range segs {
		if sg.val != nil {
			ops = append(ops, sg.val)
			verbs = append(verbs, sg.how)
			escapedSeg = append(escapedSeg, sg.escaped)
			nl := ""
			if i+1 < len(segs) && segs[i+1].val == nil {
				nl = segs[i+1].lit
			}
			nextLit = append(nextLit, nl)
		}
	}
	if len(ops) < 2 {
		r.Undecided("C02.R2", "framing expression", c.Pos(f.Pos()), "the hashed string has fewer than two components in the form "+segsString(segs)+": how the request's parts are framed inside it is not decided")
		return
	}
	lastArb := -1
	for i := range ops {
		if !isFixedString(ops[i], 0) {
			lastArb = i
		}
	}
	for i, op := range ops {
		verb := verbs[i]
		name := fmt.Sprintf("component #%d", i+1)
		s := reqFieldSources(op, req)
		var sl []string
		for k := range s {
			sl = append(sl, k)
		}
		if len(sl) > 0 {
			name += " (" + strings.Join(uniq(sl), ",") + ")"
		}
		calls := callsInDerivation(op)
		escaped := escapedSeg[i] || calls["strconv.Quote"] || calls["net/url.QueryEscape"] || calls["net/url.PathEscape"] || calls["encoding/hex.EncodeToString"]
		switch {
		case isFixedString(op, 0):
			r.OkT("C02.R2", name, c.Pos(f.Pos()), "fixed alphabet (finite set of constants)")
		case escaped:
			r.Ok("C02.R2", name, c.Pos(f.Pos()), "rendered with "+verb+" / an escaping function: its extent in the key is unambiguous")
		case i == lastArb:
			r.Ok("C02.R2", name, c.Pos(f.Pos()), "last client-controlled component: nothing follows it")
		case nextLit[i] != "" && calls["(*net/url.URL).EscapedPath"] && onlyPathCalls(calls) && strings.ContainsRune("?#|\"\\ <>^`{}", rune(nextLit[i][0])):
			// URL.EscapedPath() percent-encodes every byte outside unreserved / sub-delims / ":@/": the component cannot
			// contain the character that follows it, so its end is unambiguous
			r.Ok("C02.R2", name, c.Pos(f.Pos()), fmt.Sprintf("an escaped path cannot contain %q, which delimits it", nextLit[i][0]))
		default:
			r.Fail("C02.R2", name, c.Pos(f.Pos()), "client-controlled component is joined raw ("+verb+") before another one: a separator character inside it can be moved across the boundary, so two different requests produce the same key")
		}
		// R3 per component
		if s["Host"] {
			r.Check(calls["strings.ToLower"] || calls["strings.ToUpper"] || calls["strings.EqualFold"], "C02.R3", "Host is case-folded", c.Pos(f.Pos()), "passes strings.ToLower/ToUpper", "Host reaches the key without a case fold: example.com and EXAMPLE.com get different entries")
			// ... and letter case is the only thing two spellings of a host may differ in: any other rewriting
			// (a port or a suffix cut off, a split, a prefix trimmed) maps different servers to one entry
			bad := ""
			for cn := range calls {
				if cn == "strings.ToLower" || cn == "strings.ToUpper" {
					continue
				}
				if strings.HasPrefix(cn, "strings.") || strings.HasPrefix(cn, "net.") || strings.HasPrefix(cn, "net/url.") || strings.HasPrefix(cn, "(*net/url.") || strings.HasPrefix(cn, "path.") || strings.HasPrefix(cn, "regexp.") || strings.HasPrefix(cn, "(*regexp.") || strings.HasPrefix(cn, "bytes.") {
					bad = cn
				}
			}
			r.Check(bad == "", "C02.R3", "Host reaches the key with a case fold only", c.Pos(f.Pos()), "no other rewriting of the host", "Host is passed through "+bad+" before keying: hosts that differ in more than letter case (another port, another suffix) can share an entry")
		}
		if s["Method"] || s["URL.RawQuery"] {
			bad := ""
			for cn := range calls {
				if strings.HasPrefix(cn, "strings.") || strings.HasPrefix(cn, "sort.") || strings.HasPrefix(cn, "path.") || strings.HasPrefix(cn, "net/url.Parse") {
					bad = cn
				}
			}
			what := "Method"
			if s["URL.RawQuery"] {
				what = "RawQuery"
			}
			r.Check(bad == "", "C02.R3", what+" reaches the key unmodified", c.Pos(f.Pos()), "no normaliser applied", what+" is passed through "+bad+" before keying: requests that differ in "+what+" can share an entry")
		}
		if s["URL.Path"] {
			cleaned := calls["path.Clean"] || calls["path.Join"] || calls["path/filepath.Clean"]
			r.Check(cleaned, "C02.R3", "path passes a dot-segment / duplicate-slash remover", c.Pos(f.Pos()), "path.Clean", "path reaches the key without path.Clean: /a/../b and /b get different entries")
			folded := calls["strings.ToLower"] || calls["strings.ToUpper"]
			r.Check(!folded, "C02.R3", "path case is preserved", c.Pos(f.Pos()), "no case fold on the path", "the path is case-folded: /A and /a share an entry")
			// the path keyed is the path as spelled on the wire: with the decoded URL.Path an encoded slash
			// (%2F) becomes a separator and /a%2Fb is answered from the entry of /a/b
			// URL.RawPath by itself is not it: it is empty whenever the spelling on the wire equals Go's default
			// encoding, and a fall-back to the decoded URL.Path then keys "/a%2541" like the raw spelling "/a%41"
			escaped := calls["(*net/url.URL).EscapedPath"] || calls["(*net/url.URL).RequestURI"] || calls["(*net/url.URL).String"]
			r.Check(escaped, "C02.R6", "the path component is the escaped path", c.Pos(f.Pos()), "URL.EscapedPath() / RawPath", "the key is built from the percent-decoded URL.Path: /a%2Fb, /a%2F../b and /p%2F%2Fq are keyed like /a/b, /b and /p/q although they are different paths (no dot-segment or duplicate slash involved)")
			if calls["path.Clean"] {
				// trailing slash restore: operand depends (phi) on HasSuffix(r.URL.Path, "/") and one edge appends "/"
				// the suffix tests that decide whether "/" is appended again: strings.HasSuffix(original path, sfx),
				// directly in the condition or inside a same-package predicate the condition calls
				type sfxTest struct {
					sfx string
					arg ssa.Value
					ctx dctx
				}
				suffixTests := func(leaf ssa.Value, cx dctx) []sfxTest {
					var out []sfxTest
					call, ok := leaf.(*ssa.Call)
					if !ok {
						return nil
					}
					sfxOf := func(v ssa.Value) []string {
						if sfx, ok := constString(v); ok {
							return []string{sfx}
						}
						if g := tableElementOf(v); g != nil {
							if tab, ok := globalStringTable(g); ok {
								return tab
							}
						}
						return nil
					}
					if calleeName(call) == "strings.HasSuffix" {
						for _, sfx := range sfxOf(call.Call.Args[1]) {
							out = append(out, sfxTest{sfx, call.Call.Args[0], cx})
						}
						return out
					}
					if g := helperBody(call); g != nil {
						inner := append(append(dctx{}, cx...), call)
						eachInstr(g, func(in ssa.Instruction) {
							if c2, ok := in.(*ssa.Call); ok && calleeName(c2) == "strings.HasSuffix" {
								for _, sfx := range sfxOf(c2.Call.Args[1]) {
									out = append(out, sfxTest{sfx, c2.Call.Args[0], inner})
								}
							}
						})
					}
					return out
				}
				restored := false
				dotForms := map[string]bool{}
				derivesFromDeep(op, nil, func(x ssa.Value, cx dctx) bool {
					// the value "<cleaned> + /" and the conditions under which it is the one chosen: the tests that
					// control a merge it flows into, or that guard a return handing it out of a helper
					bo, ok := x.(*ssa.BinOp)
					if !ok || bo.Op != token.ADD {
						return false
					}
					if sfx, ok := constString(bo.Y); !ok || sfx != "/" {
						return false
					}
					var leaves []ssa.Value
					if bo.Referrers() != nil {
						for _, ref := range *bo.Referrers() {
							switch y := ref.(type) {
							case *ssa.Phi:
								leaves = append(leaves, condLeaves(condOfPhi(y))...)
							case *ssa.Return:
								for _, fc := range factsAt(bo.Parent(), y) {
									leaves = append(leaves, condLeaves(fc.cond)...)
								}
							}
						}
					}
					if os.Getenv("VERIF_DBG") != "" {
						fmt.Fprintf(os.Stderr, "DBG slash value %s in %s: %d leaves, ctx=%d\n", bo.Name(), bo.Parent().Name(), len(leaves), len(cx))
						for _, l := range leaves {
							fmt.Fprintf(os.Stderr, "   leaf %s %T tests=%d\n", l.String(), l, len(suffixTests(l, cx)))
						}
					}
					for _, l := range leaves {
						for _, t := range suffixTests(l, cx) {
							onOriginal := reqFieldSourcesCtx(t.arg, t.ctx, req)["URL.Path"] && !callsInDerivationCtx(t.arg, t.ctx)["path.Clean"]
							if !onOriginal {
								continue
							}
							if t.sfx == "/" {
								restored = true
							}
							dotForms[t.sfx] = true
						}
					}
					return false
				})
				r.Check(restored, "C02.R3", "trailing slash survives path.Clean", c.Pos(f.Pos()), "\"/\" is re-appended under strings.HasSuffix(original path, \"/\")", "path.Clean drops the trailing slash and nothing restores it: /dir/ is answered from the entry of /dir")
				// removing a final "." or ".." segment leaves a path that ends in "/" (RFC 3986 5.2.4): /dir/. and /dir/sub/..
				// name /dir/, not /dir
				r.Check(dotForms["/."] && dotForms["/.."], "C02.R3", "a trailing dot-segment keeps the slash it stands for", c.Pos(f.Pos()), "\"/\" is also re-appended for paths ending in \"/.\" and \"/..\"", "the trailing-slash restoration looks only at a literal final \"/\": /dir/. and /dir/sub/.. (which name /dir/ after dot-segment removal) are keyed as /dir, so they share the entry of /dir and not that of /dir/")
			}
		}
	}
	r.Floor("C02.R2", len(ops), 5, "key components")
	nR3 := 0
	for _, o := range r.Obligs {
		if o.Rule == "C02.R3" {
			nR3++
		}
	}
	r.Floor("C02.R3", nR3, 6, "normalisation obligations (host fold, method/query untouched, path clean / case / slash restore)")

	// ---- R5: the key names the resource that is fetched. The request fields the key is built from
	// (apart from method and transport) are exactly the fields the upstream target URL is built from.
	for _, tf := range c.FuncsNamed(proxyPkg + ".changeRequestToTarget") {
		treq := tf.Params[0]
		target := map[string]bool{}
		// the value stored into req.URL, and everything stored into the fields of a url.URL on the way
		// (in this function or in the same-package helpers it was split into)
		for _, hc := range helperContexts(tf, 2) {
			eachInstr(hc.fn, func(in ssa.Instruction) {
				st, ok := in.(*ssa.Store)
				if !ok {
					return
				}
				isURLField := false
				if _, base, is := fieldOf(st.Addr); is && structName(base.Type()) == "net/url.URL" {
					isURLField = true
				}
				root, pth := ctxFieldPath(st.Addr, hc.ctx)
				isReqURL := root == ssa.Value(treq) && len(pth) == 1 && pth[0] == "URL"
				if !isURLField && !isReqURL {
					return
				}
				for k := range reqFieldSourcesCtx(st.Val, hc.ctx, treq) {
					target[k] = true
				}
				// a part of the request may be handed in separately (changeRequestToTarget(req, req.Host, ...)): what every
				// caller passes for that parameter, read as fields of the request it passes alongside
				if len(hc.ctx) == 0 {
					for qi, q := range tf.Params {
						if q == treq || !derivesFrom(st.Val, func(v ssa.Value) bool { return v == ssa.Value(q) }) {
							continue
						}
						var common map[string]bool
						for _, site := range li.Callers[tf] {
							call, okc := asCall(site.in)
							if !okc || qi >= len(callArgs(call)) {
								common = map[string]bool{}
								break
							}
							creq, isP := resolveVal(callArgs(call)[0]).(*ssa.Parameter)
							if !isP {
								common = map[string]bool{}
								break
							}
							cur := reqFieldSources(callArgs(call)[qi], creq)
							if common == nil {
								common = cur
							} else {
								for k := range common {
									if !cur[k] {
										delete(common, k)
									}
								}
							}
						}
						for k := range common {
							target[k] = true
						}
					}
				}
			})
		}
		keyS := map[string]bool{}
		for k := range srcs {
			if k != "Method" && k != "TLS" && k != "URL" {
				keyS[k] = true
			}
		}
		delete(target, "URL.Fragment") // never sent to the origin
		delete(target, "URL")
		delete(keyS, "URL")
		delete(target, "URL.ForceQuery") // a bare "?" does not change the query string ("" in both cases)
		delete(keyS, "URL.ForceQuery")
		var onlyKey, onlyTarget []string
		for k := range keyS {
			if !target[k] {
				onlyKey = append(onlyKey, k)
			}
		}
		for k := range target {
			if !keyS[k] {
				onlyTarget = append(onlyTarget, k)
			}
		}
		sort.Strings(onlyKey)
		sort.Strings(onlyTarget)
		r.Check(len(onlyKey) == 0 && len(onlyTarget) == 0 && len(target) >= 3, "C02.R5", "key and upstream target are built from the same request fields", c.Pos(tf.Pos()),
			"both from "+strings.Join(keysOf(target), ", "),
			fmt.Sprintf("the key and the upstream target URL are built from different request fields (key only: %v; target only: %v): two requests that are sent to different resources can get the same key, or the entry is filed under a name other than the resource fetched", onlyKey, onlyTarget))
	}
	if len(c.FuncsNamed(proxyPkg+".changeRequestToTarget")) == 0 {
		r.Undecided("C02.R5", "changeRequestToTarget", "-", "unresolved anchor")
	}

	// ---- R4
	nKeyUse := 0
	visiting := map[ssa.Value]bool{}
	var keyOrigin func(v ssa.Value, depth int) (bool, string)
	keyOrigin = func(v ssa.Value, depth int) (bool, string) {
		if depth > 30 {
			return false, "derivation too deep"
		}
		v = resolveVal(v)
		if visiting[v] {
			return true, "" // recursive call chain: decided by the non-recursive callers
		}
		visiting[v] = true
		defer delete(visiting, v)
		switch x := v.(type) {
		case *ssa.Alloc:
			if sts := storesTo(x); len(sts) == 1 {
				return keyOrigin(sts[0].Val, depth+1)
			}
		case *ssa.Call:
			if calleeName(x) == cachePkg+".MakeFromRequest" {
				return true, ""
			}
			return false, "key produced by " + calleeName(x)
		case *ssa.Parameter:
			fn := x.Parent()
			idx := -1
			for i, p := range fn.Params {
				if p == x {
					idx = i
				}
			}
			cs := li.Callers[fn]
			if len(cs) == 0 {
				return false, "parameter of " + fnKey(fn) + " without a resolved caller"
			}
			for _, s := range cs {
				call, ok := asCall(s.in)
				if !ok {
					return false, "unresolved caller"
				}
				a := callArgs(call)
				if idx >= len(a) {
					return false, "argument mismatch"
				}
				if ok, why := keyOrigin(a[idx], depth+1); !ok {
					return false, "via " + fnKey(s.caller) + ": " + why
				}
			}
			return true, ""
		case *ssa.FreeVar:
			if b := freeVarBinding(x); b != nil {
				return keyOrigin(b, depth+1)
			}
		case *ssa.UnOp:
			if x.Op == token.MUL {
				if fv, ok := x.X.(*ssa.FreeVar); ok {
					if b := freeVarBinding(fv); b != nil {
						// binding is the cell; its single store
						for _, st := range storesTo(b) {
							return keyOrigin(st.Val, depth+1)
						}
					}
				}
			}
		}
		return false, "key value " + v.String() + " is not traceable to MakeFromRequest"
	}
	isCacheKey := func(t types.Type) bool {
		return stripTypeArgs(types.TypeString(t, nil)) == cachePkg+".CacheKey"
	}
	for _, fn := range li.Fns {
		if originPkgPath(fn) != proxyPkg {
			continue
		}
		eachCall(fn, func(call ssa.CallInstruction, n string) {
			switch {
			case n == cachePkg+".NewCacheKey" || n == cachePkg+".FromString":
				r.Fail("C02.R4", fnKey(fn)+" builds a key with "+n, c.InstrPos(call), "package proxy constructs a cache key other than by MakeFromRequest: store and lookup may be keyed differently")
			case strings.HasPrefix(n, "("+cachePkg+".Cache)."):
				for _, a := range call.Common().Args {
					if !isCacheKey(a.Type()) {
						continue
					}
					nKeyUse++
					ok, why := keyOrigin(a, 0)
					r.Check(ok, "C02.R4", fmt.Sprintf("%s: key of %s", fnKey(fn), n[strings.LastIndex(n, ".")+1:]), c.InstrPos(call), "derives from the request's single MakeFromRequest call through parameters", "key passed to the cache does not derive from MakeFromRequest: "+why)
				}
			case n == "(*golang.org/x/sync/singleflight.Group).Do":
				nKeyUse++
				root, p := fieldPath(call.Common().Args[1])
				okd := len(p) == 1 && p[0] == "Hex"
				why := "coalescing key is not key.Hex"
				if okd {
					okd, why = keyOrigin(root, 0)
				}
				r.Check(okd, "C02.R4", fnKey(fn)+": singleflight key", c.InstrPos(call), "key.Hex of the request's cache key", "singleflight is keyed by something else than the request's cache key: "+why)
			case n == cachePkg+".MakeFromRequest":
				nKeyUse++
				// the same request object must travel with the key
				reqArg := call.Common().Args[0]
				kv, _ := call.(ssa.Value)
				okSame := false
				eachCall(fn, func(c2 ssa.CallInstruction, _ string) {
					hasKey, hasReq := false, false
					for _, a := range c2.Common().Args {
						if kv != nil && sameVal(a, kv) {
							hasKey = true
						}
						if sameVal(a, reqArg) {
							hasReq = true
						}
					}
					if hasKey && hasReq {
						okSame = true
					}
				})
				r.Check(okSame, "C02.R4", fnKey(fn)+": key and request travel together", c.InstrPos(call), "the key is passed on together with the request it was computed from", "the key computed from one request object is used with another")
			}
		})
		// composite literals of CacheKey
		eachInstr(fn, func(in ssa.Instruction) {
			if a, ok := in.(*ssa.Alloc); ok {
				if p, ok := a.Type().Underlying().(*types.Pointer); ok && isCacheKey(p.Elem()) && a.Comment == "complit" {
					r.Fail("C02.R4", fnKey(fn)+" builds a CacheKey literal", c.InstrPos(in), "package proxy constructs a cache key literal")
				}
			}
		})
	}
	r.Floor("C02.R4", nKeyUse, 6, "key uses in package proxy")
}

// condOfPhi: a pseudo condition value set for a phi — returns the phi itself so
// condLeaves explores the branch conditions selecting its edges.
func condOfPhi(phi *ssa.Phi) ssa.Value { return phi }

// onlyPathCalls: the component passed nothing but the escaped-path getter and alphabet-preserving path functions.
func onlyPathCalls(calls map[string]bool) bool {
	for cn := range calls {
		switch cn {
		case "(*net/url.URL).EscapedPath", "path.Clean", "strings.HasSuffix", "strings.HasPrefix", "strings.ToLower", "strings.ToUpper":
		default:
			return false
		}
	}
	return true
}
