package main

import (
	"fmt"
	"go/token"
	"go/types"
	"sort"
	"strings"

	"golang.org/x/tools/go/ssa"
)

func init() {
	register("C05", checkC05)
	register("C06", checkC06)
	register("C09", checkC09)
}

const fetcherT = "(*" + proxyPkg + ".fetcher)."

func findCall(f *ssa.Function, name string) *ssa.Call {
	var out *ssa.Call
	eachInstr(f, func(in ssa.Instruction) {
		if x, ok := in.(*ssa.Call); ok && calleeName(x) == name && out == nil {
			out = x
		}
	})
	return out
}

func findCalls(f *ssa.Function, name string) []*ssa.Call {
	var out []*ssa.Call
	eachInstr(f, func(in ssa.Instruction) {
		if x, ok := in.(*ssa.Call); ok && calleeName(x) == name {
			out = append(out, x)
		}
	})
	return out
}

func callerKeys(li *LockInfo, f *ssa.Function) []string {
	var cs []string
	for _, s := range li.Callers[f] {
		cs = append(cs, fnKey(s.caller))
	}
	return uniq(cs)
}

func checkC05(c *Ctx, r *Report) {
	r.Decided = []string{
		"R1 getFromCacheOrFetch runs only inside the closure handed to singleflight.Do, keyed by key.Hex of the same key; nothing reachable from the closure re-enters dedupFetch",
		"R2 with shared==true every return of a cached result passes Close of the shared handle and a fresh Cache.Get whose entry replaces the shared one, or leaves through fetchDirectlyFromUpstream",
		"R3 no single-use object escapes the closure: every non-error return of getFromCacheOrFetch is a cached result (Type != Direct); direct results are closed and turned into ErrNotCacheable; followers of an uncacheable leader fetch their own response with their own request",
		"R4 the shared fetch runs with a context detached from the leader's cancellation (WithoutCancel/Background), not with the leader's request context",
		"R7 a revalidation whose entry disappeared (expiry sweep, eviction) is resolved inside the flight, not by sending every coalesced client to the origin",
		"R6 a request carrying a body (ContentLength != 0) is relayed directly: the shared flight and fetchUpstream (with its second-send fallbacks) are reachable in dedupFetch only under req.ContentLength == 0",
		"R5 inside the flight, request headers are added only to a Clone of the request (the flight's request shares its header map with the leader's), so a fallback to per-client fetches sends every client's own request",
	}
	r.NotDec = []string{"'exactly one' origin request under every arrival order (singleflight timing)", "slow readers", "completeness of bodies as bytes"}
	li := BuildLocks(c)
	fs := c.FuncsNamed(fetcherT + "dedupFetch")
	gs := c.FuncsNamed(fetcherT + "getFromCacheOrFetch")
	// R7: an entry that disappears while it is being revalidated (expiry sweep of the janitor, eviction, delete) must
	// not send every coalesced client to the origin: the 304 path may not leave the flight as "not cacheable" when
	// the entry is merely gone — the flight has to produce one answer for everybody.
	for _, f := range c.FuncsNamed(fetcherT + "handleUpstream304") {
		// the renewal, or the call of a helper that does nothing but make it and hand its error back (f.extendExpiry(key))
		upd, _ := cacheCallOrWrapper(f, "("+cachePkg+".Cache).UpdateMetadata")
		if upd == nil {
			r.Undecided("C05.R7", "handleUpstream304: UpdateMetadata", c.Pos(f.Pos()), "unresolved anchor")
			continue
		}
		fanOut := ""
		eachInstr(f, func(in ssa.Instruction) {
			ret, ok := in.(*ssa.Return)
			if !ok || isRecoverReturn(ret) {
				return
			}
			vals := retVals(ret)
			if len(vals) < 2 || !onlyWhenNil(f, ret, ssa.Value(upd), false) {
				return
			}
			if derivesFromDeep(vals[1], nil, func(v ssa.Value, _ dctx) bool {
				u, ok := v.(*ssa.UnOp)
				if !ok {
					return false
				}
				gl, ok := u.X.(*ssa.Global)
				return ok && gname(gl) == "ErrNotCacheable"
			}) {
				fanOut = c.InstrPos(ret)
			}
		})
		r.Check(fanOut == "", "C05.R7", "(*reservoir/proxy.fetcher).handleUpstream304: an entry lost during its revalidation does not fan out to every coalesced client", c.InstrPos(upd), "the UpdateMetadata failure is resolved inside the flight", "when the entry is gone by the time the 304 arrives (the janitor's expiry sweep removes stale entries, and nothing protects one that is being revalidated) the flight ends with ErrNotCacheable at "+fanOut+" and each of the N waiting clients fetches the resource itself: N+1 origin requests instead of one revalidation")
	}
	// R6: a request body can be read once and comes from one client's connection: a request that carries one is
	// neither handed to the shared flight (the leader's half-sent body would fail every follower) nor sent a
	// second time after a cache-side failure (the body is already consumed) — in dedupFetch the flight and every
	// fetchUpstream call are reachable only for body-less requests
	for _, f := range fs {
		n6 := 0
		eachInstr(f, func(in ssa.Instruction) {
			call, ok := in.(*ssa.Call)
			if !ok {
				return
			}
			n := calleeName(call)
			what := ""
			switch {
			case strings.HasSuffix(n, "singleflight.Group).Do"):
				what = "the shared flight"
			case n == fetcherT+"fetchUpstream":
				what = "fetchUpstream (which falls back to a second send)"
			default:
				return
			}
			n6++
			fsx := factStrs(f, call)
			bodyless := false
			for k := range fsx {
				if strings.HasSuffix(k, ".ContentLength==0=true") {
					bodyless = true
				}
			}
			r.Check(bodyless, "C05.R6", fmt.Sprintf("dedupFetch: %s only for requests without a body (#%d)", what, n6), c.InstrPos(call), "dominated by req.ContentLength == 0", "a request that carries a body reaches "+what+": its body streams from one client's connection (a leader that hangs up mid-body fails every coalesced follower with 502) and is gone when the request is sent again after a cache-side failure")
		})
		r.Floor("C05.R6", n6, 2, "flight / fetchUpstream call sites in dedupFetch")
	}
	// R5: the request object handed to the flight shares its header map with the leader's own request
	// (WithContext makes a shallow copy): whatever the flight adds to a request it adds to a Clone
	if len(gs) > 0 {
		n5 := 0
		for _, h := range pkgGroup(li, gs[0]) {
			eachInstr(h, func(in ssa.Instruction) {
				x, ok := in.(*ssa.Call)
				if !ok {
					return
				}
				n := calleeName(x)
				if n != "(net/http.Header).Set" && n != "(net/http.Header).Add" {
					return
				}
				args := callArgs(x)
				rt, p := fieldPath(args[0])
				if len(p) == 0 || p[len(p)-1] != "Header" || structName(rt.Type()) != "net/http.Request" {
					return
				}
				if nm, isC := constString(args[1]); isC && nm == "User-Agent" {
					if v, isV := constString(args[2]); isV && v == "" {
						return // suppresses net/http's default User-Agent; adds nothing
					}
				}
				n5++
				onClone := false
				if cl, isCall := resolveVal(rt).(*ssa.Call); isCall && calleeName(cl) == "(*net/http.Request).Clone" {
					onClone = true
				}
				r.Check(onClone, "C05.R5", fmt.Sprintf("%s: request header write #%d targets a private clone", fnKey(h), n5), c.InstrPos(x), "receiver is req.Clone(...).Header", "the shared fetch writes a header into the request object it was given, whose header map is the leader client's own: when the flight falls back to per-client fetches, the leader's request carries the proxy's conditional and that client alone receives a 304 / a different answer than the others")
			})
		}
		r.Floor("C05.R5", n5, 2, "request header writes inside the flight")
	}
	if len(fs) == 0 || len(gs) == 0 {
		r.Undecided("C05.R1", "anchors", "-", "dedupFetch / getFromCacheOrFetch not found")
		return
	}
	f, g := fs[0], gs[0]
	nForget := 0
	for _, pf := range li.Fns {
		if originPkgPath(pf) != proxyPkg {
			continue
		}
		eachCall(pf, func(call ssa.CallInstruction, n string) {
			if n == "(*golang.org/x/sync/singleflight.Group).Forget" {
				nForget++
				r.Fail("C05.R1", fnKey(pf)+": singleflight key is forgotten", c.InstrPos(call), "Group.Forget releases the key while a fetch may still be in flight: the next identical request starts a second origin fetch instead of joining the running one")
			}
		})
	}
	if nForget == 0 {
		r.OkT("C05.R1", "the coalescing key is never released early", "-", "no singleflight.Group.Forget in package proxy")
	}
	do := findCall(f, "(*golang.org/x/sync/singleflight.Group).Do")
	if do == nil {
		if dc := findCall(f, "(*golang.org/x/sync/singleflight.Group).DoChan"); dc != nil {
			r.Undecided("C05.R2", "coalescing through DoChan", c.InstrPos(dc), "dedupFetch coalesces through singleflight.DoChan: the shared-handle rule (R2) is written for Do's (v, err, shared) results and is not decided for this shape")
			return
		}
		r.Fail("C05.R1", "dedupFetch coalesces through singleflight", c.Pos(f.Pos()), "no singleflight.Do in dedupFetch: identical concurrent requests each fetch from the origin")
		return
	}
	mc, _ := do.Call.Args[2].(*ssa.MakeClosure)
	if mc == nil {
		r.Undecided("C05.R1", "singleflight function", c.InstrPos(do), "the function passed to Do is not a closure literal")
		return
	}
	cl := mc.Fn.(*ssa.Function)
	// R1
	callers := callerKeys(li, g)
	r.Check(onlyReachedFrom(li, g, cl, 0), "C05.R1", "getFromCacheOrFetch is only called from the singleflight closure", c.Pos(g.Pos()), "reached only from "+fnKey(cl)+" (directly or through a helper only it calls)", "getFromCacheOrFetch is called outside the coalescing closure: "+strings.Join(callers, ", "))
	inner := findCall(cl, fetcherT+"getFromCacheOrFetch")
	var innerCtx dctx
	if inner == nil {
		// the closure may hand the work to a helper (return f.sharedFetch(req, key, clientHd))
		for _, hc := range helperContexts(cl, 2) {
			if x := findCall(hc.fn, fetcherT+"getFromCacheOrFetch"); x != nil && inner == nil {
				inner, innerCtx = x, hc.ctx
			}
		}
	}
	if inner != nil {
		keyArg := inner.Call.Args[2]
		for hop := 0; hop < 3 && len(innerCtx) > 0; hop++ {
			prm, isP := resolveVal(keyArg).(*ssa.Parameter)
			if !isP {
				break
			}
			a, c2, okA := paramArg(prm, innerCtx)
			if !okA {
				break
			}
			keyArg, innerCtx = a, c2
		}
		root, p := fieldPath(do.Call.Args[1])
		var bound ssa.Value
		if fv, ok := resolveFree(keyArg).(*ssa.FreeVar); ok {
			for i, x := range cl.FreeVars {
				if x == fv {
					bound = mc.Bindings[i]
				}
			}
		}
		r.Check(len(p) == 1 && p[0] == "Hex" && bound != nil && sameRootCell(bound, root), "C05.R1", "coalescing key is the Hex of the key fetched inside", c.InstrPos(do), "Do(key.Hex, …getFromCacheOrFetch(…, key, …))", "singleflight is keyed by something else than the cache key the closure fetches")
	} else {
		r.Fail("C05.R1", "closure calls getFromCacheOrFetch", c.InstrPos(do), "the coalesced function does not call getFromCacheOrFetch")
	}
	reach := syncReach(li, []*ssa.Function{cl})
	r.Check(!reach[f], "C05.R1", "closure does not re-enter dedupFetch", c.InstrPos(do), fmt.Sprintf("%d functions reachable from the closure, dedupFetch not among them", len(reach)), "a function reachable from the singleflight closure calls dedupFetch again (self-deadlock on the same key)")

	// R2
	shared := extractOf(do, 2)
	errv := extractOf(do, 1)
	if shared == nil || errv == nil {
		r.Fail("C05.R2", "shared flag is used", c.InstrPos(do), "the shared result of singleflight.Do is discarded: followers use the leader's data handle")
	} else {
		prune := orFilter(pruneTruth(f, shared, true), pruneNil(f, errv, true))
		isGet := func(in ssa.Instruction) bool {
			x, ok := in.(*ssa.Call)
			return ok && calleeName(x) == "("+cachePkg+".Cache).Get"
		}
		isClose := func(in ssa.Instruction) bool {
			x, ok := in.(*ssa.Call)
			if !ok || !x.Call.IsInvoke() || x.Call.Method.Name() != "Close" {
				return false
			}
			_, p := fieldPath(x.Call.Value)
			return len(p) >= 3 && strings.Join(p[len(p)-3:], ".") == "Cached.Entry.Data"
		}
		okRet := func(e ssa.Instruction) bool {
			ret := e.(*ssa.Return)
			vals := retVals(ret)
			if len(vals) == 2 && !isNilConst(vals[1]) {
				// error return or passthrough of a direct fetch
				return true
			}
			// `return f.fetchDirectlyFromUpstream(req)`: the call sits in the returning block
			// (a flow-insensitive look at the named result cell would also see the other returns' stores)
			for _, in := range ret.Block().Instrs {
				if x, ok := in.(*ssa.Call); ok && calleeName(x) == fetcherT+"fetchDirectlyFromUpstream" {
					return true
				}
			}
			return false
		}
		var bad []string
		for _, e := range exitsAvoiding(do, isGet, prune) {
			if !okRet(e) {
				bad = append(bad, "return at "+c.InstrPos(e)+" without a fresh Cache.Get")
			}
		}
		// a nil handle needs no Close: ignore the Data == nil edge of the guard around it
		var dataIfs []ssa.Value
		for _, b := range f.Blocks {
			if iff, ok := b.Instrs[len(b.Instrs)-1].(*ssa.If); ok {
				if bo, ok := iff.Cond.(*ssa.BinOp); ok && (isNilConst(bo.X) || isNilConst(bo.Y)) {
					other := bo.X
					if isNilConst(bo.X) {
						other = bo.Y
					}
					if _, p := fieldPath(other); len(p) >= 3 && strings.Join(p[len(p)-3:], ".") == "Cached.Entry.Data" {
						dataIfs = append(dataIfs, other)
					}
				}
			}
		}
		pruneClose := prune
		for _, dv := range dataIfs {
			pruneClose = orFilter(pruneClose, pruneNil(f, dv, false))
		}
		for _, e := range exitsAvoiding(do, isClose, pruneClose) {
			if !okRet(e) {
				bad = append(bad, "return at "+c.InstrPos(e)+" without closing the shared handle")
			}
		}
		// the re-Get result replaces the shared entry
		replaced := false
		for _, gc := range findCalls(f, "("+cachePkg+".Cache).Get") {
			ent := extractOf(gc, 0)
			eachInstr(f, func(in ssa.Instruction) {
				st, ok := in.(*ssa.Store)
				if !ok || ent == nil || st.Val != ssa.Value(ent) {
					return
				}
				_, p := fieldPath(st.Addr)
				if len(p) >= 2 && strings.Join(p[len(p)-2:], ".") == "Cached.Entry" {
					if ge := extractOf(gc, 1); ge != nil && onlyWhenNil(f, st, ge, true) {
						replaced = true
					}
				}
			})
		}
		if !replaced {
			bad = append(bad, "the entry obtained by the follower's own Get is not stored into the result")
		}
		r.Check(len(bad) == 0, "C05.R2", "a coalesced caller never keeps the shared data handle", c.InstrPos(do), "with shared==true all cached returns pass Close(shared Data) and a fresh Get that replaces Cached.Entry (or fetch directly)", strings.Join(uniq(bad), "; "))
	}

	// R3 (over getFromCacheOrFetch and the helpers it was split into)
	grp := pkgGroup(li, g)
	inGrp := map[*ssa.Function]bool{}
	for _, h := range grp {
		inGrp[h] = true
	}
	// only functions that produce a fetchResult are of interest
	producesResult := func(h *ssa.Function) bool {
		res := h.Signature.Results()
		return res.Len() == 2 && strings.HasSuffix(canonTypes(res.At(0).Type().String()), "proxy.fetchResult") && res.At(1).Type().String() == "error"
	}
	nRet, nDirect := 0, 0
	for _, h := range grp {
		if !producesResult(h) || h.Parent() != nil {
			continue
		}
		// functions that themselves start an upstream fetch and hand back its raw result are the producers
		// whose result must be filtered by the callers; they are not part of the "what leaves the closure" set
		hk := fnKey(h)
		if hk == fetcherT+"fetchUpstream" || hk == fetcherT+"fetchDirectlyFromUpstream" || hk == fetcherT+"handleCacheMiss" {
			continue
		}
		eachInstr(h, func(in ssa.Instruction) {
			ret, ok := in.(*ssa.Return)
			if !ok || isRecoverReturn(ret) {
				return
			}
			vals := retVals(ret)
			fsx := factStrsCtx(li, h, ret)
			directSide := false
			for k := range fsx {
				if strings.HasSuffix(k, ".Type==1=true") {
					directSide = true
				}
			}
			if directSide {
				nDirect++
				isNC := false
				if u, ok := vals[1].(*ssa.UnOp); ok {
					if gl, ok := u.X.(*ssa.Global); ok && gname(gl) == "ErrNotCacheable" {
						isNC = true
					}
				}
				closed := mustPassBeforeFrom(h, ret, func(in2 ssa.Instruction) bool {
					x, ok := in2.(*ssa.Call)
					if !ok || !x.Call.IsInvoke() || x.Call.Method.Name() != "Close" {
						return false
					}
					_, p := fieldPath(x.Call.Value)
					return len(p) >= 3 && strings.Join(p[len(p)-3:], ".") == "Direct.Response.Body"
				})
				r.Check(isNC && closed, "C05.R3", fmt.Sprintf("%s: direct result #%d is closed and reported as ErrNotCacheable", fnKey(h), nDirect), c.InstrPos(ret), "Body.Close() then ErrNotCacheable", "a direct upstream response is neither closed nor converted to ErrNotCacheable inside the coalescing closure")
				return
			}
			if len(vals) != 2 || !isNilConst(vals[1]) {
				return
			}
			nRet++
			key := fmt.Sprintf("%s: success return #%d is a cached result", fnKey(h), nRet)
			v := resolveVal(vals[0])
			if ex, isEx := v.(*ssa.Extract); isEx {
				if call, isCall := ex.Tuple.(*ssa.Call); isCall {
					delegated := false
					for _, cal := range li.Callees[call] {
						ck := fnKey(cal)
						if inGrp[cal] && ck != fetcherT+"fetchUpstream" && ck != fetcherT+"fetchDirectlyFromUpstream" && ck != fetcherT+"handleCacheMiss" {
							delegated = true
						}
					}
					if delegated {
						r.OkT("C05.R3", key, c.InstrPos(ret), "result of a helper of the same group, checked there")
						return
					}
				}
				ok := false
				for k := range fsx {
					if strings.HasSuffix(k, ".Type==1=false") || strings.HasSuffix(k, ".Type==0=true") {
						ok = true
					}
				}
				r.Check(ok, "C05.R3", key, c.InstrPos(ret), "on the Type != fetchTypeDirect edge", "a direct (single-use) upstream response can be returned out of the coalescing closure and be shared between clients: "+strings.Join(keysOf(fsx), " ∧ "))
				return
			}
			if prm, isP := v.(*ssa.Parameter); isP {
				_ = prm
				ok := false
				for k := range fsx {
					if strings.HasSuffix(k, ".Type==1=false") || strings.HasSuffix(k, ".Type==0=true") {
						ok = true
					}
				}
				r.Check(ok, "C05.R3", key, c.InstrPos(ret), "parameter returned only on the Type != fetchTypeDirect edge", "a helper hands a possibly direct (single-use) result back unchanged")
				return
			}
			okT := true
			if a, isA := resolveValAlloc(vals[0]); isA {
				for _, ref := range *a.Referrers() {
					if fa, ok := ref.(*ssa.FieldAddr); ok {
						if fv, _, _ := fieldOf(fa); fv != nil && fname(fv) == "Type" {
							for _, st := range storesTo(fa) {
								if k, isC := constInt(st.Val); !isC || k != 0 {
									okT = false
								}
							}
						}
					}
				}
			}
			r.Check(okT, "C05.R3", key, c.InstrPos(ret), "locally constructed cached result", "a locally built result with Type != fetchTypeCached is returned from the closure")
		})
	}
	r.Floor("C05.R3", nRet, 2, "success returns of the cache-or-fetch group")
	r.Floor("C05.R3", nDirect, 1, "direct-result branches in the cache-or-fetch group")
	// dedupFetch fallbacks use the caller's own request
	nFb := 0
	fallbacks := directFallbacks(f)
	for _, fb := range fallbacks {
		nFb++
		r.Check(fb.req == ssa.Value(paramNamed(f, "req")), "C05.R3", fmt.Sprintf("dedupFetch fallback #%d fetches with the caller's own request", nFb), c.InstrPos(fb.call), "argument is dedupFetch's req parameter", "a fallback fetch does not use the calling client's own request")
	}
	// required fallbacks: ErrNotCacheable branch and shared∧Direct branch
	haveNC, haveSD := false, false
	for _, fb := range fallbacks {
		fsx := fb.facts
		if hasFact(fsx, "Is(Do(", true) && hasFact(fsx, "ErrNotCacheable)", true) {
			haveNC = true
		}
		if hasFact(fsx, "#2", true) && hasFact(fsx, ".Type==1", true) {
			haveSD = true
		}
	}
	r.Check(haveNC, "C05.R3", "uncacheable outcome: every waiter fetches its own response", c.Pos(f.Pos()), "errors.Is(err, ErrNotCacheable) → fetchDirectlyFromUpstream(req)", "dedupFetch has no fallback for ErrNotCacheable: followers of an uncacheable fetch get an error or a consumed body")
	r.Check(haveSD, "C05.R3", "shared direct result: follower fetches its own response", c.Pos(f.Pos()), "shared ∧ Type==Direct → fetchDirectlyFromUpstream(req)", "a follower may receive the leader's direct (single-use) response")

	// R4: every request the coalescing closure sends upstream (in its own body or in the helpers it goes through)
	// carries a context that is detached from the leader's: where the detachment is written — in the closure, or in
	// each arm of the helper that fetches — does not matter, that every send is covered does
	nSend := 0
	for _, hc := range helperContexts(cl, 5) {
		eachInstr(hc.fn, func(in ssa.Instruction) {
			call, ok := in.(*ssa.Call)
			if !ok {
				return
			}
			n := calleeName(call)
			if n != fetcherT+"fetchUpstream" && n != fetcherT+"fetchDirectlyFromUpstream" && n != fetcherT+"sendRequestToUpstream" {
				return
			}
			nSend++
			reqArg := argOf(call, "req", 1)
			detached := reqDetached(reqArg, hc.ctx, 0)
			r.Check(detached, "C05.R4", fmt.Sprintf("shared fetch is detached from the leader's cancellation (%s in %s)", n[strings.LastIndex(n, ".")+1:], fnKey(hc.fn)), c.InstrPos(call), "request carries context.WithoutCancel/Background", "the coalesced fetch runs with the leader's own request context: when that client disconnects the fetch is cancelled and every follower receives the error")
		})
	}
	r.Floor("C05.R4", nSend, 1, "upstream sends reachable from the coalescing closure")
}

// reqDetached: the *http.Request v (seen in a body entered through ctx) carries a context that does not end with
// the client's connection: it was given one by WithContext / Clone, and that context is context.WithoutCancel(...),
// Background or TODO, possibly decorated (WithValue, WithTimeout, ...) or taken from another such request.
func reqDetached(v ssa.Value, ctx dctx, d int) bool {
	if d > 12 {
		return false
	}
	switch x := resolveVal(v).(type) {
	case *ssa.Call:
		switch calleeName(x) {
		case "(*net/http.Request).WithContext", "(*net/http.Request).Clone":
			return ctxDetached(callArgs(x)[1], ctx, d+1)
		}
		if g := helperBody(x); g != nil && len(ctx) < 6 {
			all, n := true, 0
			eachInstr(g, func(in ssa.Instruction) {
				if ret, ok := in.(*ssa.Return); ok && !isRecoverReturn(ret) {
					n++
					if vs := retVals(ret); len(vs) == 0 || !reqDetached(vs[0], append(append(dctx{}, ctx...), x), d+1) {
						all = false
					}
				}
			})
			return all && n > 0
		}
	case *ssa.Parameter:
		if a, c2, ok := paramArg(x, ctx); ok {
			return reqDetached(a, c2, d+1)
		}
	case *ssa.FreeVar:
		if b := freeVarBinding(x); b != nil {
			return reqDetached(b, ctx, d+1)
		}
	case *ssa.Phi:
		for _, e := range x.Edges {
			if !reqDetached(e, ctx, d+1) {
				return false
			}
		}
		return len(x.Edges) > 0
	case *ssa.UnOp:
		if x.Op == token.MUL {
			sts := storesTo(x.X)
			for _, st := range sts {
				if !reqDetached(st.Val, ctx, d+1) {
					return false
				}
			}
			if len(sts) > 0 {
				return true
			}
			return reqDetached(x.X, ctx, d+1)
		}
	}
	return false
}

func ctxDetached(v ssa.Value, ctx dctx, d int) bool {
	if d > 12 {
		return false
	}
	switch x := resolveVal(v).(type) {
	case *ssa.Call:
		switch calleeName(x) {
		case "context.WithoutCancel", "context.Background", "context.TODO":
			return true
		case "context.WithValue":
			return ctxDetached(callArgs(x)[0], ctx, d+1)
		case "(*net/http.Request).Context":
			return reqDetached(callArgs(x)[0], ctx, d+1)
		}
	case *ssa.Extract:
		if call, ok := x.Tuple.(*ssa.Call); ok {
			switch calleeName(call) {
			case "context.WithTimeout", "context.WithDeadline", "context.WithCancel":
				return ctxDetached(callArgs(call)[0], ctx, d+1)
			}
		}
	case *ssa.Parameter:
		if a, c2, ok := paramArg(x, ctx); ok {
			return ctxDetached(a, c2, d+1)
		}
	case *ssa.FreeVar:
		if b := freeVarBinding(x); b != nil {
			return ctxDetached(b, ctx, d+1)
		}
	case *ssa.Phi:
		for _, e := range x.Edges {
			if !ctxDetached(e, ctx, d+1) {
				return false
			}
		}
		return len(x.Edges) > 0
	case *ssa.MakeInterface:
		return ctxDetached(x.X, ctx, d+1)
	case *ssa.ChangeInterface:
		return ctxDetached(x.X, ctx, d+1)
	}
	return false
}

// resolveValAlloc: v (or the single-store cell it loads) is a local allocation.
func resolveValAlloc(v ssa.Value) (*ssa.Alloc, bool) {
	v = resolveVal(v)
	if u, ok := v.(*ssa.UnOp); ok {
		if a, ok := u.X.(*ssa.Alloc); ok {
			return a, true
		}
	}
	a, ok := v.(*ssa.Alloc)
	return a, ok
}

// mustPassBeforeFrom: every path from entry to site passes a marker.
func mustPassBeforeFrom(fn *ssa.Function, site ssa.Instruction, marker func(ssa.Instruction) bool) bool {
	// restricted to paths consistent with the facts at site is not needed: use plain reachability avoiding markers
	hits := walkFrom(pos{fn.Blocks[0], 0}, marker, isInstr(site), nil)
	if len(hits) == 0 {
		return true
	}
	// allow: marker in the same block right before
	return false
}

func checkC06(c *Ctx, r *Report) {
	r.Decided = []string{
		"R1 If-None-Match / If-Modified-Since are set only from the ETag / LastModified stored with the entry just looked up, on a clone of the request",
		"R2 client conditionals are stripped (the four regular ones; reader and remover tables agree) before the key is built and before anything is fetched",
		"R3 the 304 path writes only Expires (= now + live default) through UpdateMetadata, reaches no store/delete, and returns the entry re-read under the same key",
		"R4 the status switch has arms exactly for 200, 304, 416 plus a relaying default",
	}
	r.NotDec = []string{"that the old body is never served again (C01/C12/C14 cover the structural part)", "weak-validator semantics", "repeated revalidation cycles over time"}
	li := BuildLocks(c)
	// ---- R1
	nSet := 0
	for _, f := range li.Fns {
		if originPkgPath(f) != proxyPkg {
			continue
		}
		eachCall(f, func(call ssa.CallInstruction, n string) {
			if n != "(net/http.Header).Set" && n != "(net/http.Header).Add" {
				return
			}
			args := callArgs(call)
			name, isC := constString(args[1])
			if !isC || (name != "If-None-Match" && name != "If-Modified-Since") {
				return
			}
			nSet++
			want := "ETag"
			if name == "If-Modified-Since" {
				want = "LastModified"
			}
			okSrc := false
			var get *ssa.Call
			for _, gc := range findCalls(f, "("+cachePkg+".Cache).Get") {
				get = gc
			}
			derivesFrom(args[2], func(v ssa.Value) bool {
				root, p := fieldPath(v)
				if len(p) >= 1 && p[len(p)-1] == want && (len(p) < 3 || strings.Join(p[len(p)-3:], ".") == "Metadata.Object."+want) {
					rr := resolveVal(root)
					// follow an alias like `validators := &stale.Metadata.Object`
					if fa, isFA := rr.(*ssa.FieldAddr); isFA {
						r2, p2 := fieldPath(fa)
						if len(p2) >= 2 && strings.Join(p2[len(p2)-2:], ".") == "Metadata.Object" {
							rr = resolveVal(r2)
						}
					}
					if e, ok := rr.(*ssa.Extract); ok && get != nil && e.Tuple == ssa.Value(get) {
						okSrc = true
					}
					// the entry is a parameter: every caller passes the result of its own cache lookup
					if prm, ok := rr.(*ssa.Parameter); ok {
						idx := -1
						for i, q := range f.Params {
							if q == prm {
								idx = i
							}
						}
						cs := li.Callers[f]
						all := len(cs) > 0
						for _, site := range cs {
							call, okc := asCall(site.in)
							if !okc {
								all = false
								break
							}
							a := callArgs(call)
							if idx >= len(a) {
								all = false
								break
							}
							e, okE := resolveVal(a[idx]).(*ssa.Extract)
							if !okE {
								all = false
								break
							}
							gc, okG := e.Tuple.(*ssa.Call)
							if !okG || calleeName(gc) != "("+cachePkg+".Cache).Get" {
								all = false
							}
						}
						if all {
							okSrc = true
						}
					}
				}
				return false
			})
			// the validator itself may be a parameter of a helper that builds the conditional request
			// (conditionalRequest(req, etag, lastModified)): every caller passes the stored field of the entry it looked up
			if !okSrc {
				derivesFrom(args[2], func(v ssa.Value) bool {
					prm, isP := v.(*ssa.Parameter)
					if !isP || prm.Parent() != f {
						return false
					}
					idx := -1
					for i, q := range f.Params {
						if q == prm {
							idx = i
						}
					}
					cs := li.Callers[f]
					all := len(cs) > 0 && idx >= 0
					for _, site := range cs {
						cc, okc := asCall(site.in)
						if !okc || idx >= len(callArgs(cc)) {
							all = false
							break
						}
						root, pth := fieldPath(callArgs(cc)[idx])
						e, okE := resolveVal(root).(*ssa.Extract)
						if len(pth) < 3 || strings.Join(pth[len(pth)-3:], ".") != "Metadata.Object."+want || !okE {
							all = false
							break
						}
						if gc, okG := e.Tuple.(*ssa.Call); !okG || calleeName(gc) != "("+cachePkg+".Cache).Get" {
							all = false
						}
					}
					if all {
						okSrc = true
					}
					return false
				})
			}
			// and nothing client-supplied
			fromClient := derivesFrom(args[2], func(v ssa.Value) bool {
				if x, ok := v.(*ssa.Call); ok && calleeName(x) == "(net/http.Header).Get" {
					return true
				}
				return false
			})
			recvRoot, _ := fieldPath(args[0])
			onClone := false
			if x, ok := resolveVal(recvRoot).(*ssa.Call); ok && calleeName(x) == "(*net/http.Request).Clone" {
				onClone = true
			}
			r.Check(okSrc && !fromClient && onClone, "C06.R1", fnKey(f)+": "+name+" from the stored "+want, c.InstrPos(call), "value is the looked-up entry's Metadata.Object."+want+", set on a clone", "the revalidation header "+name+" is not taken (only) from the stored entry's "+want+" or is set on the client's own request")
		})
	}
	r.Floor("C06.R1", nSet, 2, "conditional header assignments")
	// ... and what is stored as the entry's validators is what the origin sent with that response: the
	// ETag / Last-Modified fields of the stored object derive from the response's own headers and from
	// nothing else (in particular not from the clock: an invented Last-Modified makes the origin answer
	// 304 to a date it never issued, and the stale body stays in service)
	nStoreV := 0
	for _, f := range li.Fns {
		if originPkgPath(f) != proxyPkg {
			continue
		}
		eachInstr(f, func(in ssa.Instruction) {
			st, ok := in.(*ssa.Store)
			if !ok {
				return
			}
			fv, _, is := fieldOf(st.Addr)
			if !is || (fname(fv) != "ETag" && fname(fv) != "LastModified") {
				return
			}
			if n, okN := scopeLookupType(fv.Pkg(), "cachedRequestInfo").(*types.TypeName); !okN || n == nil {
				return
			}
			owner := false
			if stt, okS := scopeLookupType(fv.Pkg(), "cachedRequestInfo").Type().Underlying().(*types.Struct); okS {
				for i := 0; i < stt.NumFields(); i++ {
					if stt.Field(i) == fv {
						owner = true
					}
				}
			}
			if !owner {
				return
			}
			nStoreV++
			hdr := map[string]string{"ETag": "ETag", "LastModified": "Last-Modified"}[fname(fv)]
			fromHeader, fromClock, other := false, false, ""
			derivesFromDeep(st.Val, nil, func(v ssa.Value, dc dctx) bool {
				call, ok := v.(*ssa.Call)
				if !ok {
					return false
				}
				switch n := calleeName(call); n {
				case "(net/http.Header).Get", "(net/http.Header).Values":
					a := callArgs(call)
					if name, isC := constString(a[1]); isC && name == hdr {
						// the header map may have been handed to a helper (parseLastModified(resp.Header)):
						// its path is read through the entering call sites
						if root, pth := ctxFieldPath(a[0], dc); len(pth) > 0 && pth[len(pth)-1] == "Header" {
							if _, isResp := root.Type().Underlying().(*types.Pointer); isResp && strings.HasSuffix(root.Type().String(), "net/http.Response") {
								fromHeader = true
							}
						}
					} else {
						other = "header " + atomStr(a[1])
					}
				case "time.Now", "time.Since", "time.Until":
					fromClock = true
				}
				return false
			})
			r.Check(fromHeader && !fromClock && other == "", "C06.R1", fnKey(f)+": stored "+fname(fv)+" is the origin's "+hdr, c.InstrPos(st), "derives from resp.Header.Get(\""+hdr+"\") only (zero / empty when the origin sent none)", "the validator stored with the entry is not (only) the "+hdr+" the origin sent with this response (clock="+fmt.Sprint(fromClock)+" "+other+"): revalidation then asks the origin with a validator it never issued, and clients are handed it as if it were the origin's")
		})
	}
	r.Floor("C06.R1", nStoreV, 2, "stores of the entry's validators")
	// ... and the client cannot take the validators out again: the headers it nominates in its Connection
	// field are removed from the request on entry, before the proxy adds anything of its own — the removal at
	// send time then finds no client-supplied Connection list that could name If-None-Match / If-Modified-Since
	for _, f := range c.FuncsNamed("(*" + proxyPkg + ".Proxy).handleHTTP") {
		reqP := f.Params[len(f.Params)-1]
		isEarlyStrip := func(in ssa.Instruction) bool {
			x, ok := in.(*ssa.Call)
			if !ok || calleeName(x) != proxyPkg+".removeHopByHopHeaders" {
				return false
			}
			root, pth := fieldPath(callArgs(x)[0])
			return resolveVal(root) == ssa.Value(reqP) && len(pth) == 1 && pth[0] == "Header"
		}
		var first ssa.Instruction
		eachInstr(f, func(in ssa.Instruction) {
			if first != nil {
				return
			}
			if x, ok := in.(*ssa.Call); ok {
				switch calleeName(x) {
				case headersPkg + ".ParseHeaderDirective", cachePkg + ".MakeFromRequest", "(*" + proxyPkg + ".Proxy).processRequest":
					first = in
				}
			}
		})
		ok := first != nil && mustPassBefore(f, first, isEarlyStrip, nil)
		r.Check(ok, "C06.R1", "client-nominated hop-by-hop headers are removed on entry", c.Pos(f.Pos()), "removeHopByHopHeaders(req.Header) precedes header parsing, keying and processing", "the request's Connection list is still in place when the proxy adds its validators: `Connection: If-None-Match, If-Modified-Since` from the client makes the send-time hop-by-hop removal delete the stored validators, and the stale entry is re-downloaded unconditionally")
	}

	// ---- R2
	for _, f := range c.FuncsNamed("(*" + proxyPkg + ".Proxy).handleHTTP") {
		strip := findCall(f, "(*"+headersPkg+".HeaderDirectives).StripRegularConditionals")
		mk := findCall(f, cachePkg+".MakeFromRequest")
		pr := findCall(f, "(*"+proxyPkg+".Proxy).processRequest")
		// The strip happens exactly for the methods whose answers the proxy may serve or renew from its store (GET and
		// HEAD: a 304 to a client validator would be taken for the proxy's own revalidation). For every other method
		// the conditionals are the client's business with the origin (If-Match on PUT is its lost-update guard) and
		// must arrive (C08). Compared as a truth table over the method tests on the paths to processRequest.
		ok := strip != nil && pr != nil
		detail := ""
		if ok {
			root, p := fieldPath(callArgs(strip)[1])
			reqArg := argOf(pr, "req", 2)
			ok = len(p) == 1 && p[0] == "Header" && reqArg != nil && sameVal(root, reqArg)
			switch {
			case !ok:
			case mk != nil:
				// the key is made here, from the request that is then processed
				ok = sameVal(mk.Call.Args[0], reqArg)
			default:
				// the key is made by processRequest itself, from the request it is handed (after the strip, which precedes the call)
				ok = false
				if g := helperBody(pr); g != nil {
					if mk2 := findCall(g, cachePkg+".MakeFromRequest"); mk2 != nil {
						for i, q := range g.Params {
							if resolveVal(mk2.Call.Args[0]) == ssa.Value(q) && i < len(pr.Call.Args) && sameVal(pr.Call.Args[i], reqArg) {
								ok = true
							}
						}
					}
				}
			}
		}
		if ok {
			bs := &boolSummer{li: li}
			paths, okP := bs.pathsTo(f, pr)
			if !okP {
				ok, detail = false, "paths through handleHTTP could not be summarised"
			}
			var bad []string
			for _, pth := range paths {
				isGet, knownGet := pth.cond["$proxyReq.Method==\"GET\""]
				isHead, knownHead := pth.cond["$proxyReq.Method==\"HEAD\""]
				// does this path execute the strip?  (the strip is on the path iff the path condition of reaching it is implied)
				stripped := false
				if sp, okS := bs.pathsTo(f, strip); okS {
					for _, q := range sp {
						consistent := true
						for a, v := range q.cond {
							if pv, has := pth.cond[a]; has && pv != v {
								consistent = false
							}
						}
						// the strip lies before processRequest: a path to pr that is consistent with a path to the strip passes it
						if consistent && instrDominatesOrSameArm(strip, pr) {
							stripped = true
						}
					}
				}
				mayBeCacheable := (!knownGet || isGet) || (!knownHead || isHead)
				definitelyOther := knownGet && !isGet && knownHead && !isHead
				switch {
				case mayBeCacheable && !definitelyOther && !stripped:
					bad = append(bad, "a GET/HEAD request reaches processRequest with the client's conditionals in place ["+pth.cond.String()+"]")
				case definitelyOther && stripped:
					bad = append(bad, "conditionals are stripped from a request that is neither GET nor HEAD ["+pth.cond.String()+"]")
				case stripped && !knownGet && !knownHead:
					bad = append(bad, "conditionals are stripped whatever the method: If-Match / If-Unmodified-Since of a PUT, POST or DELETE never reach the origin")
				}
			}
			if len(bad) > 0 {
				ok, detail = false, strings.Join(uniq(bad), "; ")
			}
		}
		r.Check(ok, "C06.R2", "client conditionals are stripped before keying and fetching", c.Pos(f.Pos()), "StripRegularConditionals(req.Header) runs exactly for GET and HEAD, on the header map that is keyed and forwarded", "client conditionals are not stripped exactly where the proxy answers for the origin: "+detail)
	}
	var stripped, declared []string
	for _, f := range c.FuncsNamed("(*" + headersPkg + ".HeaderDirectives).StripRegularConditionals") {
		eachCall(f, func(call ssa.CallInstruction, n string) {
			if strings.HasSuffix(n, ".Header).SyncRemove") {
				_, p := fieldPath(callArgs(call)[0])
				if len(p) > 0 {
					stripped = append(stripped, p[len(p)-1])
				}
			}
		})
	}
	for _, f := range c.FuncsNamed("(*" + headersPkg + ".HeaderDirectives).StripRegularConditionals") {
		for _, fld := range []string{"IfMatch", "IfModifiedSince", "IfNoneMatch", "IfUnmodifiedSince"} {
			fld := fld
			// a removal: a call, on this directive, of a method that deletes its header from the map it is
			// given on every one of its own paths (not only when the proxy managed to parse the value)
			deletesAlways := func(g *ssa.Function) bool {
				if g == nil || g.Blocks == nil || len(g.Params) < 2 {
					return false
				}
				isDel := func(in ssa.Instruction) bool {
					x, ok := in.(*ssa.Call)
					if !ok {
						return false
					}
					if b, isB := x.Call.Value.(*ssa.Builtin); isB && b.Name() == "delete" {
						if _, pth := fieldPath(x.Call.Args[1]); resolveVal(x.Call.Args[0]) == ssa.Value(g.Params[1]) && len(pth) > 0 && pth[len(pth)-1] == "name" {
							return true
						}
					}
					if calleeName(x) == "(net/http.Header).Del" {
						a := callArgs(x)
						if _, pth := fieldPath(a[1]); resolveVal(a[0]) == ssa.Value(g.Params[1]) && len(pth) > 0 && pth[len(pth)-1] == "name" {
							return true
						}
					}
					return false
				}
				return len(exitsFromEntryAvoiding(g, isDel, nil)) == 0
			}
			marker := func(in ssa.Instruction) bool {
				x, ok := in.(*ssa.Call)
				if !ok || !strings.HasSuffix(calleeName(x), ".Header).SyncRemove") {
					return false
				}
				if !deletesAlways(unwrapSynthetic(staticCallee(x))) {
					return false
				}
				_, p := fieldPath(callArgs(x)[0])
				return len(p) > 0 && p[len(p)-1] == fld
			}
			ex := exitsFromEntryAvoiding(f, marker, nil)
			r.Check(len(ex) == 0, "C06.R2", "StripRegularConditionals removes "+fld+" on every path", c.Pos(f.Pos()), "no return before the removal", "StripRegularConditionals can return without removing "+fld+" from the request (a path skips the removal, or the remover deletes the header only when the proxy could parse its value — an If-Modified-Since in the obsolete RFC 850 / asctime formats is then forwarded): the client's validator reaches the origin and its 304 is taken for the proxy's own revalidation")
		}
	}
	sort.Strings(stripped)
	want := []string{"IfMatch", "IfModifiedSince", "IfNoneMatch", "IfUnmodifiedSince"}
	r.Check(strings.Join(stripped, ",") == strings.Join(want, ","), "C06.R2", "the remover covers the four regular conditionals", "-", strings.Join(stripped, ","), "StripRegularConditionals removes "+strings.Join(stripped, ",")+" instead of "+strings.Join(want, ","))
	for _, f := range c.FuncsNamed(headersPkg + ".ParseHeaderDirective") {
		names := map[string]string{}
		eachInstr(f, func(in ssa.Instruction) {
			call, ok := in.(*ssa.Call)
			if !ok || !strings.HasSuffix(calleeName(call), headersPkg+".NewHeader") {
				return
			}
			if s, isC := constString(call.Call.Args[0]); isC {
				// which field receives it
				for _, ref := range *call.Referrers() {
					if st, ok := ref.(*ssa.Store); ok {
						if fv, _, is := fieldOf(st.Addr); is {
							names[fname(fv)] = s
						}
					}
				}
			}
		})
		exp := map[string]string{"IfMatch": "If-Match", "IfModifiedSince": "If-Modified-Since", "IfNoneMatch": "If-None-Match", "IfUnmodifiedSince": "If-Unmodified-Since"}
		for k, v := range exp {
			declared = append(declared, k+"="+names[k])
			r.Check(names[k] == v, "C06.R2", "directive "+k+" is bound to header "+v, c.Pos(f.Pos()), "reader and remover name the same header", "HeaderDirectives."+k+" is bound to header name "+fmt.Sprintf("%q", names[k])+": SyncRemove deletes the wrong key")
		}
	}

	// ---- R3
	for _, f := range c.FuncsNamed(fetcherT + "handleUpstream304") {
		updSite, updReal := cacheCallOrWrapper(f, "("+cachePkg+".Cache).UpdateMetadata")
		get := findCall(f, "("+cachePkg+".Cache).Get")
		if updSite == nil || get == nil {
			r.Fail("C06.R3", "304 renews the lifetime and re-reads the entry", c.Pos(f.Pos()), "handleUpstream304 does not call UpdateMetadata and Get")
			continue
		}
		// the key the renewal is made under, seen from f (through the wrapper's parameter if there is one)
		updKey := resolveVal(callArgs(updReal)[1])
		if prm, isP := updKey.(*ssa.Parameter); isP && updReal != updSite {
			if a, _, okA := paramArg(prm, dctx{updSite}); okA {
				updKey = resolveVal(a)
			}
		}
		upd := updSite
		sameKey := updKey == resolveVal(callArgs(get)[1]) && updKey == ssa.Value(paramNamed(f, "key"))
		r.Check(sameKey && instrDominates(upd, get), "C06.R3", "304: UpdateMetadata(key) then Get(key)", c.InstrPos(upd), "same key parameter, in this order", "the 304 path does not re-read the entry under the key it just renewed")
		// ... and what it hands back is that re-read entry: an entry object looked up before the renewal may have been
		// replaced in the store meanwhile (a Range request's 200), its body is then not the one the 304 confirmed
		staleRet := ""
		eachInstr(f, func(in ssa.Instruction) {
			ret, ok := in.(*ssa.Return)
			if !ok || isRecoverReturn(ret) {
				return
			}
			vals := retVals(ret)
			if len(vals) < 2 || isNilConst(vals[0]) {
				return
			}
			if ex, isE := resolveVal(vals[0]).(*ssa.Extract); isE && ex.Index == 0 {
				if gc, isC := ex.Tuple.(*ssa.Call); isC && calleeName(gc) == "("+cachePkg+".Cache).Get" && instrDominates(upd, gc) {
					return
				}
			}
			staleRet = c.InstrPos(ret)
		})
		r.Check(staleRet == "", "C06.R3", "304: the entry handed back is the one re-read after the renewal", c.Pos(f.Pos()), "every entry returned is the result of the Get that follows UpdateMetadata", "the 304 path returns at "+staleRet+" an entry that is not the result of a lookup made after the renewal: when another request replaced the stored response while the origin was being asked, the client is served the replaced body as current")
		reach := syncReach(li, []*ssa.Function{f})
		bad := ""
		for gfn := range reach {
			eachCall(gfn, func(call ssa.CallInstruction, n string) {
				if n == "("+cachePkg+".Cache).Cache" || n == "("+cachePkg+".Cache).Delete" {
					bad = n + " in " + fnKey(gfn)
				}
			})
		}
		r.Check(bad == "", "C06.R3", "304 path reaches no store or delete", c.Pos(f.Pos()), "only UpdateMetadata / Get", "the 304 path can reach "+bad+": a not-modified answer replaces or drops the stored body")
		// modifier closure writes only Expires = now + default
		if mc, ok := callArgs(updReal)[2].(*ssa.MakeClosure); ok {
			cl := mc.Fn.(*ssa.Function)
			var written []string
			okVal := false
			eachInstr(cl, func(in ssa.Instruction) {
				st, ok := in.(*ssa.Store)
				if !ok {
					return
				}
				fv, base, is := fieldOf(st.Addr)
				if !is || !strings.HasPrefix(structName(base.Type()), cachePkg+".EntryMetadata") {
					return
				}
				written = append(written, fname(fv))
				sv := st.Val
				// the new expiry may be computed just before the update and captured (expires := time.Now().Add(...))
				if ld, isLd := sv.(*ssa.UnOp); isLd && ld.Op == token.MUL {
					if fvar, isFV := ld.X.(*ssa.FreeVar); isFV {
						if b := freeVarBinding(fvar); b != nil {
							if sts := storesTo(b); len(sts) == 1 {
								sv = resolveVal(sts[0].Val)
							}
						}
					}
				} else if fvar, isFV := resolveVal(sv).(*ssa.FreeVar); isFV {
					if b := freeVarBinding(fvar); b != nil {
						sv = resolveVal(b)
					}
				}
				s := atomStr(sv)
				if strings.HasPrefix(s, "Add(Now(),") && strings.Contains(s, "CachePolicy.DefaultMaxAge") {
					okVal = true
				}
			})
			written = uniq(written)
			r.Check(len(written) == 1 && written[0] == "Expires" && okVal, "C06.R3", "304 modifier writes only Expires = now + live default", c.Pos(cl.Pos()), "write set {Expires}", "the 304 modifier writes "+strings.Join(written, ",")+" / not now+default_max_age")
		} else {
			r.Undecided("C06.R3", "304 modifier", c.InstrPos(upd), "modifier is not a closure literal")
		}
	}

	// ---- R4
	for _, f := range c.FuncsNamed(fetcherT + "handleUpstreamResponse") {
		arms := map[string]string{}
		eachCall(f, func(call ssa.CallInstruction, n string) {
			if !strings.HasPrefix(n, fetcherT+"handleUpstream") {
				return
			}
			fsx := factStrs(f, call.(ssa.Instruction))
			for k := range fsx {
				if strings.HasPrefix(k, "$resp.StatusCode==") && strings.HasSuffix(k, "=true") {
					arms[strings.TrimSuffix(strings.TrimPrefix(k, "$resp.StatusCode=="), "=true")] = strings.TrimPrefix(n, fetcherT)
				}
			}
		})
		var al []string
		for k, v := range arms {
			al = append(al, k+"→"+v)
		}
		sort.Strings(al)
		ok := arms["200"] == "handleUpstream200" && arms["304"] == "handleUpstream304" && arms["416"] == "handleUpstream416" && len(arms) == 3
		r.Check(ok, "C06.R4", "status arms are exactly 200, 304, 416", c.Pos(f.Pos()), strings.Join(al, ", "), "status dispatch changed: "+strings.Join(al, ", ")+" (expected 200→handleUpstream200, 304→handleUpstream304, 416→handleUpstream416, anything else relayed)")
	}
	_ = declared
}

func checkC09(c *Ctx, r *Report) {
	r.Decided = []string{
		"R1 error discipline: every error returned by a cache.Cache call in package proxy (Get, Cache, UpdateMetadata) either is the classified miss (ErrCacheEntryNotFound → fetch), or reaches only returns that carry ErrNotCacheable, or is handled on the spot by a direct fetch — it never flows into the 5xx branch of processRequest",
		"R2 the fallbacks exist and are wired: every fetch entry of dedupFetch (coalesced and non-coalesced) maps ErrNotCacheable to fetchDirectlyFromUpstream(req)",
		"R3 every cache function releases each lock it takes on every exit (a leaked shard lock hangs all later requests of that shard)",
		"R4 sibling cross-check: whether a backend refuses an empty body is reported (memory accepts, file refuses) and is covered by R1's fallback",
		"R5 neither backend holds a shard lock while it copies the origin body (io.Copy / ReadAll of the response reader): a slow origin cannot stall the other requests of the same shard",
	}
	r.NotDec = []string{"hangs and dropped connections caused by the transport", "a second origin request being observable by the origin (the fallback re-fetches)", "panics (C16)"}
	li := BuildLocks(c)
	_ = li
	nCalls := 0
	for _, f := range li.Fns {
		if originPkgPath(f) != proxyPkg {
			continue
		}
		eachInstr(f, func(in ssa.Instruction) {
			call, ok := in.(*ssa.Call)
			if !ok {
				return
			}
			n := calleeName(call)
			if n != "("+cachePkg+".Cache).Get" && n != "("+cachePkg+".Cache).Cache" && n != "("+cachePkg+".Cache).UpdateMetadata" {
				// a same-package wrapper that does nothing but make such a call and return its error (extendExpiry):
				// its call site is where the cache error has to be classified
				wrapped := ""
				if h := helperBody(call); h != nil && call.Type().String() == "error" {
					for _, cn := range []string{"(" + cachePkg + ".Cache).UpdateMetadata", "(" + cachePkg + ".Cache).Cache"} {
						if site, real := cacheCallOrWrapper(f, cn); site == call && real != call {
							wrapped = cn
						}
					}
				}
				if wrapped == "" {
					return
				}
				n = wrapped
			} else if call.Type().String() == "error" && isCacheErrorWrapper(f, call) {
				return // decided at the wrapper's call sites
			}
			nCalls++
			method := n[strings.LastIndex(n, ".")+1:]
			key := fmt.Sprintf("%s: error of cache.%s", fnKey(f), method)
			var errv ssa.Value
			if call.Type().String() == "error" {
				errv = call
			} else if e := extractOf(call, 1); e != nil {
				errv = e
			}
			// A call whose whole tuple is returned directly (return f.cache.Get(key)) is not accepted
			if errv == nil {
				r.Fail("C09.R1", key, c.InstrPos(call), "the cache error is passed on unclassified (result tuple returned as is): it reaches the caller's 502 branch")
				return
			}
			var bad []string
			// all returns reachable on the err != nil side
			exits := exitsAvoiding(call, func(in2 ssa.Instruction) bool {
				x, ok := in2.(*ssa.Call)
				return ok && calleeName(x) == fetcherT+"fetchDirectlyFromUpstream"
			}, pruneNil(f, errv, false))
			for _, e := range exits {
				ret := e.(*ssa.Return)
				if isRecoverReturn(ret) {
					continue
				}
				vals := retVals(ret)
				ev := vals[len(vals)-1]
				if isNilConst(ev) {
					// e.g. the miss path continues to a successful fetch. Not so after a failed store: the store was
					// handed the origin's body, which may be (partly) consumed whatever the error says, so reporting
					// success there makes the caller relay a drained body.
					if method == "Cache" {
						bad = append(bad, "return at "+c.InstrPos(ret)+" reports success after a failed store (the response body was handed to the store and may be consumed: the client gets the headers and a truncated body)")
					}
					continue
				}
				// acceptable: carries ErrNotCacheable
				carries := false
				derivesFromDeep(ev, nil, func(v ssa.Value, _ dctx) bool {
					if u, ok := v.(*ssa.UnOp); ok {
						if gl, ok := u.X.(*ssa.Global); ok && gname(gl) == "ErrNotCacheable" {
							carries = true
						}
					}
					return false
				})
				if carries {
					continue
				}
				// acceptable: the error returned is not the cache's (e.g. the upstream fetch failed on the miss path)
				if !derivesFrom(ev, func(v ssa.Value) bool { return v == errv }) {
					continue
				}
				bad = append(bad, "return at "+c.InstrPos(ret)+" hands the cache error up without ErrNotCacheable")
			}
			if len(bad) > 0 {
				r.Fail("C09.R1", key, c.InstrPos(call), strings.Join(uniq(bad), "; ")+": the origin's good answer becomes a 502")
			} else {
				r.Ok("C09.R1", key, c.InstrPos(call), "on the error edge every return carries ErrNotCacheable, is the classified miss, or falls back to a direct fetch")
			}
		})
	}
	r.Floor("C09.R1", nCalls, 5, "cache interface calls in package proxy")

	// R2
	for _, f := range c.FuncsNamed(fetcherT + "dedupFetch") {
		n := 0
		eachInstr(f, func(in ssa.Instruction) {
			call, ok := in.(*ssa.Call)
			if !ok {
				return
			}
			cn := calleeName(call)
			if cn != fetcherT+"fetchUpstream" && cn != "(*golang.org/x/sync/singleflight.Group).Do" {
				return
			}
			n++
			errv := extractOf(call, 1)
			okFb := false
			for _, fb := range directFallbacks(f) {
				fsx := fb.facts
				pref := "Is(" + atomStr(call) + "#1,ErrNotCacheable)"
				if fsx[pref+"=true"] {
					okFb = true
				}
			}
			_ = errv
			r.Check(okFb, "C09.R2", fmt.Sprintf("dedupFetch: ErrNotCacheable of %s falls back to a direct fetch", cn[strings.LastIndex(cn, ".")+1:]), c.InstrPos(call), "errors.Is(err, ErrNotCacheable) → fetchDirectlyFromUpstream(req)", "a fetch entry of dedupFetch does not map ErrNotCacheable to a direct fetch: cache-side refusals surface as 502")
		})
		r.Floor("C09.R2", n, 2, "fetch entries of dedupFetch")
	}
	// the 5xx sink exists where expected (anchor for R1)
	for _, f := range c.FuncsNamed("(*" + proxyPkg + ".Proxy).processRequest") {
		d := findCall(f, fetcherT+"dedupFetch")
		r.Check(d != nil, "C09.R1", "processRequest fetches through dedupFetch", c.Pos(f.Pos()), "single fetch entry", "processRequest no longer calls dedupFetch (anchor of the error-flow rule)")
	}

	// R3: a cache operation on the request path never leaves a shard / map lock behind
	// (a leaked lock turns later good origin answers into hangs)
	unp := map[*ssa.Function][]string{}
	for i, u := range li.Unpaired {
		fn := li.UnpairedAt[i].Parent()
		unp[fn] = append(unp[fn], u+" at "+c.InstrPos(li.UnpairedAt[i]))
	}
	n3 := 0
	hasOps := map[*ssa.Function]bool{}
	for i := range li.Ops {
		hasOps[li.Ops[i].fn] = true
	}
	for _, fn := range li.Fns {
		if originPkgPath(fn) != cachePkg || !hasOps[fn] {
			continue
		}
		n3++
		if len(unp[fn]) > 0 {
			r.Fail("C09.R3", fnKey(fn)+": locks are released on every exit", c.Pos(fn.Pos()), strings.Join(uniq(unp[fn]), "; ")+": every later request mapping to that shard blocks forever although the origin answers")
		} else {
			r.Ok("C09.R3", fnKey(fn)+": locks are released on every exit", c.Pos(fn.Pos()), "acquire/release paired on all paths (incl. error and continue paths)")
		}
	}
	r.Floor("C09.R3", n3, 15, "cache functions with lock operations")
	// ... and never waits for a lock its own goroutine may hold (store -> evict under the key's shard lock):
	// the client of a good origin answer would hang
	nSelf := 0
	selfBad := map[ssa.Instruction]string{}
	for _, e := range li.Edges {
		if e.blocking && e.from == e.to {
			selfBad[e.site] = fmt.Sprintf("blocking acquisition of %s while %s may already be held by the same goroutine", e.to, e.from)
		}
	}
	for i := range li.Ops {
		op := &li.Ops[i]
		if originPkgPath(op.fn) != cachePkg || !op.kind.acquire() || !op.kind.blocking() {
			continue
		}
		nSelf++
		key := fmt.Sprintf("%s: %s %s #%d cannot wait for its own caller", fnKey(op.fn), kindName(op.kind), op.class, ordinalOf(li, op))
		if why, bad := selfBad[op.in]; bad {
			r.Fail("C09.R3", key, c.InstrPos(op.in), why+": the request that stores a good origin answer deadlocks on itself")
		} else {
			r.Ok("C09.R3", key, c.InstrPos(op.in), "may-held set at the acquisition does not contain the class")
		}
	}
	r.Floor("C09.R3", nSelf, 8, "blocking lock acquisitions in package cache")
	// R5: nobody waits for somebody else's download. The origin body is copied into the store (ReadFrom / io.Copy from
	// the reader handed to Cache) without a lock that requests for OTHER keys need: the shard lock covers many keys.
	nCopy := 0
	for _, fn := range li.Fns {
		if originPkgPath(fn) != cachePkg {
			continue
		}
		eachInstr(fn, func(in ssa.Instruction) {
			call, ok := in.(*ssa.Call)
			if !ok {
				return
			}
			n := calleeName(call)
			if n != "(*bytes.Buffer).ReadFrom" && n != "io.Copy" && n != "io.ReadAll" && n != "io.CopyN" && n != "io.CopyBuffer" {
				return
			}
			// the source is a reader parameter of the store function (the origin body)
			fromParam := false
			for _, a := range callArgs(call) {
				if prm, ok := resolveVal(unconv(a)).(*ssa.Parameter); ok && prm.Parent() == fn {
					if _, isIface := prm.Type().Underlying().(*types.Interface); isIface {
						fromParam = true
					}
				}
			}
			if !fromParam {
				return
			}
			nCopy++
			held := li.HeldMay(call)
			key := fmt.Sprintf("%s: the origin body is copied without a lock shared with other keys (#%d)", fnKey(fn), nCopy)
			if held["S"] {
				r.Fail("C09.R5", key, c.InstrPos(call), "the body is read from the origin while the key's SHARD lock is held ["+held.String()+"]: every request whose key maps to the same shard (hit or miss) waits until this download has finished, however slow that origin is — an answer its own origin gave at once hangs")
			} else {
				r.Ok("C09.R5", key, c.InstrPos(call), "no shard lock held during the copy")
			}
		})
	}
	r.Floor("C09.R5", nCopy, 2, "origin body copies in the cache backends")

	// R4 sibling: empty-body refusal
	refuses := map[string]bool{}
	for _, name := range []string{"(*" + cachePkg + ".MemoryCache).cacheInternal", "(*" + cachePkg + ".FileCache).Cache"} {
		for _, f := range c.FuncsNamed(name) {
			eachInstr(f, func(in ssa.Instruction) {
				ret, ok := in.(*ssa.Return)
				if !ok || isRecoverReturn(ret) {
					return
				}
				vals := retVals(ret)
				if len(vals) == 2 && !isNilConst(vals[1]) {
					fsx := factStrs(f, ret)
					for k := range fsx {
						if strings.HasSuffix(k, "==0=true") && (strings.Contains(k, "Copy(") || strings.Contains(k, "ReadFrom(")) {
							refuses[name] = true
						}
					}
				}
			})
		}
	}
	var rl []string
	for k := range refuses {
		rl = append(rl, k)
	}
	sort.Strings(rl)
	r.OkT("C09.R4", "empty-body refusal per backend", "-", fmt.Sprintf("backends refusing a 0-byte body: %v (refusals are store errors and therefore subject to R1's fallback)", rl))
}

// instrDominatesOrSameArm: a executes before b on the paths that contain both (a dominates b, or a sits in a
// conditional arm that rejoins before b).
func instrDominatesOrSameArm(a, b ssa.Instruction) bool {
	if instrDominates(a, b) {
		return true
	}
	return reachableInstr(a, b, nil) && !reachableInstr(b, a, nil)
}

// fbSite is a call of fetchDirectlyFromUpstream made by f or by a same-package helper f hands the work to
// (directOnCacheTrouble(req, err)): the facts holding there, in f's terms, and the request it fetches with, resolved to
// f's value.
type fbSite struct {
	call  *ssa.Call
	facts map[string]bool
	req   ssa.Value
}

func directFallbacks(f *ssa.Function) []fbSite {
	var out []fbSite
	for _, hc := range helperContexts(f, 2) {
		for _, fc := range findCalls(hc.fn, fetcherT+"fetchDirectlyFromUpstream") {
			facts := ctxFactStrs(hc.fn, fc, hc.ctx)
			// what held where the helper was entered holds inside it too
			for i, cs := range hc.ctx {
				var g *ssa.Function = f
				if i > 0 {
					g = helperBody(hc.ctx[i-1])
				}
				if g == nil {
					continue
				}
				for k := range ctxFactStrs(g, cs, hc.ctx[:i]) {
					facts[k] = true
				}
			}
			req, rctx := resolveVal(argOf(fc, "req", 1)), hc.ctx
			for hop := 0; hop < 4; hop++ {
				prm, isP := req.(*ssa.Parameter)
				if !isP {
					break
				}
				a, c2, okA := paramArg(prm, rctx)
				if !okA {
					break
				}
				req, rctx = resolveVal(a), c2
			}
			out = append(out, fbSite{fc, facts, req})
		}
	}
	return out
}

// cacheCallOrWrapper: the call of the cache method `name` made by f — directly (site == real), or through a
// same-package helper that makes it on every way through and returns its error as its own only result
// (func (f *fetcher) extendExpiry(key) error { return f.cache.UpdateMetadata(key, ...) }): site is then the call of the
// helper in f, which stands for the cache call in orderings and as the error value; real is the cache call itself.
func cacheCallOrWrapper(f *ssa.Function, name string) (site, real *ssa.Call) {
	if x := findCall(f, name); x != nil {
		return x, x
	}
	eachInstr(f, func(in ssa.Instruction) {
		k, ok := in.(*ssa.Call)
		if !ok || site != nil {
			return
		}
		h := helperBody(k)
		if h == nil || h.Signature.Results().Len() != 1 || h.Signature.Results().At(0).Type().String() != "error" {
			return
		}
		x := findCall(h, name)
		if x == nil || len(exitsFromEntryAvoiding(h, isInstr(x), nil)) > 0 {
			return
		}
		tail := true
		eachInstr(h, func(i2 ssa.Instruction) {
			if ret, isRet := i2.(*ssa.Return); isRet && !isRecoverReturn(ret) {
				if vs := retVals(ret); len(vs) != 1 || resolveVal(vs[0]) != ssa.Value(x) {
					tail = false
				}
			}
		})
		if tail {
			site, real = k, x
		}
	})
	return site, real
}

// isCacheErrorWrapper: f does nothing with the error of cache call x but return it as its own only result on every
// way through (and x is made on every way through).
func isCacheErrorWrapper(f *ssa.Function, x *ssa.Call) bool {
	if f.Signature.Results().Len() != 1 || f.Signature.Results().At(0).Type().String() != "error" {
		return false
	}
	if len(exitsFromEntryAvoiding(f, isInstr(x), nil)) > 0 {
		return false
	}
	ok, n := true, 0
	eachInstr(f, func(in ssa.Instruction) {
		if ret, isRet := in.(*ssa.Return); isRet && !isRecoverReturn(ret) {
			n++
			if vs := retVals(ret); len(vs) != 1 || resolveVal(vs[0]) != ssa.Value(x) {
				ok = false
			}
		}
	})
	return ok && n > 0
}

// onlyReachedFrom: every caller of g is root, or a function that is itself only reached from root (a helper the
// coalescing closure hands its work to).
func onlyReachedFrom(li *LockInfo, g, root *ssa.Function, depth int) bool {
	cs := li.Callers[g]
	if len(cs) == 0 || depth > 3 {
		return false
	}
	for _, site := range cs {
		caller := site.in.Parent()
		if caller == root {
			continue
		}
		if !onlyReachedFrom(li, caller, root, depth+1) {
			return false
		}
	}
	return true
}
