package main

// E1 (paths on the SSA CFG) and small SSA helpers shared by all rules.

import (
	"fmt"
	"go/constant"
	"go/token"
	"go/types"
	"sort"
	"strings"

	"golang.org/x/tools/go/ssa"
)

// ---------- callee identification (always through type information) ----------

// calleeName returns a stable full name of the called function or method:
// "os.Create", "(*sync.RWMutex).Lock", "(net/http.Header).Set",
// "(reservoir/cache.Cache).Get" (interface method). Type arguments stripped.
// "" for dynamic calls of function values.
func calleeName(call ssa.CallInstruction) string {
	cc := call.Common()
	if cc.IsInvoke() {
		// a call through a package-level variable of an (unexported, module-declared) interface type that only ever
		// holds the value its initialiser gives it (var upstreamClient httpDoer = &http.Client{…} — a seam for
		// tests): the call is a call of that value's method
		if u, ok := cc.Value.(*ssa.UnOp); ok && u.Op == token.MUL {
			if g, ok := u.X.(*ssa.Global); ok {
				if t := globalIfaceConcrete(g); t != nil {
					if sel := types.NewMethodSet(t).Lookup(cc.Method.Pkg(), cc.Method.Name()); sel != nil {
						if fo, ok := sel.Obj().(*types.Func); ok {
							return stripTypeArgs(fo.FullName())
						}
					}
				}
			}
		}
		return stripTypeArgs(cc.Method.FullName())
	}
	switch v := cc.Value.(type) {
	case *ssa.Function:
		return funcName(v)
	case *ssa.MakeClosure:
		if f, ok := v.Fn.(*ssa.Function); ok {
			return funcName(f)
		}
	case *ssa.Builtin:
		return "builtin." + v.Name()
	case *ssa.UnOp:
		// a call through a package-level function variable that is only ever the function its initialiser names
		// (var now = time.Now — a seam for tests): the call is a call of that function
		if g, ok := v.X.(*ssa.Global); ok && v.Op == token.MUL {
			if f := globalFuncValue(g); f != nil {
				return funcName(f)
			}
		}
	}
	return ""
}

var globalFuncMemo = map[*ssa.Global]*ssa.Function{}

// globalFuncValue: the one function a package-level variable of function type holds (assigned by the package
// initialiser, never written anywhere else in the module); nil if there is no such function.
func globalFuncValue(g *ssa.Global) *ssa.Function {
	if f, done := globalFuncMemo[g]; done {
		return f
	}
	globalFuncMemo[g] = nil
	if g.Pkg == nil {
		return nil
	}
	if _, isFn := g.Type().(*types.Pointer).Elem().Underlying().(*types.Signature); !isFn {
		return nil
	}
	var val *ssa.Function
	n := 0
	for _, m := range g.Pkg.Members {
		fn, isFn := m.(*ssa.Function)
		if !isFn {
			continue
		}
		var all []*ssa.Function
		var collect func(f *ssa.Function)
		collect = func(f *ssa.Function) {
			all = append(all, f)
			for _, a := range f.AnonFuncs {
				collect(a)
			}
		}
		collect(fn)
		for _, f2 := range all {
			eachInstr(f2, func(in ssa.Instruction) {
				if st, ok := in.(*ssa.Store); ok && st.Addr == ssa.Value(g) {
					n++
					if f3 := closureFn(unconv(st.Val)); f3 != nil && f2.Name() == "init" {
						val = f3
					} else {
						val = nil
						n += 100
					}
				}
			})
		}
	}
	// methods of the package's types may write it too
	if g.Pkg.Prog != nil {
		for _, mem := range g.Pkg.Members {
			tp, isT := mem.(*ssa.Type)
			if !isT {
				continue
			}
			for _, recv := range []types.Type{tp.Type(), types.NewPointer(tp.Type())} {
				ms := g.Pkg.Prog.MethodSets.MethodSet(recv)
				for i := 0; i < ms.Len(); i++ {
					if mf := g.Pkg.Prog.MethodValue(ms.At(i)); mf != nil && mf.Blocks != nil {
						eachInstr(mf, func(in ssa.Instruction) {
							if st, ok := in.(*ssa.Store); ok && st.Addr == ssa.Value(g) {
								n += 100
							}
						})
					}
				}
			}
		}
	}
	if n == 1 && val != nil {
		globalFuncMemo[g] = val
		return val
	}
	return nil
}

func funcName(f *ssa.Function) string {
	if f.Parent() != nil {
		return fnKey(f)
	}
	o := originOf(f)
	if obj := o.Object(); obj != nil {
		if fo, ok := obj.(*types.Func); ok {
			s := stripTypeArgs(fo.FullName())
			if a, ok := nameAlias[s]; ok {
				return a
			}
			return s
		}
	}
	// bound method closures / thunks: "(*T).m$bound"
	s := stripTypeArgs(o.String())
	s = strings.TrimSuffix(s, "$bound")
	s = strings.TrimSuffix(s, "$thunk")
	return s
}

// staticCallee returns the statically known callee function (or nil).
func staticCallee(call ssa.CallInstruction) *ssa.Function {
	cc := call.Common()
	if cc.IsInvoke() {
		return nil
	}
	switch v := cc.Value.(type) {
	case *ssa.Function:
		return v
	case *ssa.MakeClosure:
		f, _ := v.Fn.(*ssa.Function)
		return f
	}
	return nil
}

// callArgs returns the arguments including the receiver as element 0 for
// method calls (both invoke-mode and static method calls already do for static).
func callArgs(call ssa.CallInstruction) []ssa.Value {
	cc := call.Common()
	if cc.IsInvoke() {
		return append([]ssa.Value{cc.Value}, cc.Args...)
	}
	return cc.Args
}

func asCall(in ssa.Instruction) (ssa.CallInstruction, bool) {
	switch v := in.(type) {
	case *ssa.Call:
		return v, true
	case *ssa.Defer:
		return v, true
	case *ssa.Go:
		return v, true
	}
	return nil, false
}

// eachInstr visits every instruction of fn (not nested closures).
func eachInstr(fn *ssa.Function, f func(in ssa.Instruction)) {
	for _, b := range fn.Blocks {
		for _, in := range b.Instrs {
			f(in)
		}
	}
}

// eachCall visits every call/defer/go instruction with its resolved name.
func eachCall(fn *ssa.Function, f func(call ssa.CallInstruction, name string)) {
	eachInstr(fn, func(in ssa.Instruction) {
		if c, ok := asCall(in); ok {
			f(c, calleeName(c))
		}
	})
}

// closuresOf returns the anonymous functions directly or transitively nested in fn.
func closuresOf(fn *ssa.Function) []*ssa.Function {
	var out []*ssa.Function
	for _, a := range fn.AnonFuncs {
		out = append(out, a)
		out = append(out, closuresOf(a)...)
	}
	return out
}

// ---------- value helpers ----------

func constString(v ssa.Value) (string, bool) {
	if c, ok := v.(*ssa.Const); ok && c.Value != nil && c.Value.Kind() == constant.String {
		return constant.StringVal(c.Value), true
	}
	return "", false
}

func constInt(v ssa.Value) (int64, bool) {
	// see through conversions of constants
	for {
		switch x := v.(type) {
		case *ssa.Convert:
			v = x.X
			continue
		case *ssa.ChangeType:
			v = x.X
			continue
		}
		break
	}
	if c, ok := v.(*ssa.Const); ok && c.Value != nil && c.Value.Kind() == constant.Int {
		i, ok := constant.Int64Val(c.Value)
		return i, ok
	}
	return 0, false
}

func constBool(v ssa.Value) (bool, bool) {
	if c, ok := v.(*ssa.Const); ok && c.Value != nil && c.Value.Kind() == constant.Bool {
		return constant.BoolVal(c.Value), true
	}
	return false, false
}

func isNilConst(v ssa.Value) bool {
	c, ok := v.(*ssa.Const)
	return ok && c.Value == nil
}

// unconv strips value-preserving wrappers: ChangeType, Convert, MakeInterface,
// ChangeInterface.
func unconv(v ssa.Value) ssa.Value {
	for {
		switch x := v.(type) {
		case *ssa.ChangeType:
			v = x.X
		case *ssa.Convert:
			v = x.X
		case *ssa.MakeInterface:
			v = x.X
		case *ssa.ChangeInterface:
			v = x.X
		default:
			return v
		}
	}
}

// fieldOf returns the struct field variable addressed/read by v if v is a
// FieldAddr or Field instruction.
func fieldOf(v ssa.Value) (*types.Var, ssa.Value, bool) {
	switch x := v.(type) {
	case *ssa.FieldAddr:
		st := derefStruct(x.X.Type())
		if st == nil {
			return nil, nil, false
		}
		return st.Field(x.Field), x.X, true
	case *ssa.Field:
		st := derefStruct(x.X.Type())
		if st == nil {
			return nil, nil, false
		}
		return st.Field(x.Field), x.X, true
	}
	return nil, nil, false
}

func derefStruct(t types.Type) *types.Struct {
	if p, ok := t.Underlying().(*types.Pointer); ok {
		t = p.Elem()
	}
	st, _ := t.Underlying().(*types.Struct)
	return st
}

// originVar maps a field of an instantiated generic struct back to the field
// of the generic declaration so fields can be compared across instantiations.
func originVar(v *types.Var) *types.Var {
	if v == nil {
		return nil
	}
	return v.Origin()
}

// fieldKey names a field as "pkg.Type.field" using the struct it belongs to.
func fieldKeyOf(x ssa.Value, idx int) string {
	t := x.Type()
	if p, ok := t.Underlying().(*types.Pointer); ok {
		t = p.Elem()
	}
	name := stripTypeArgs(types.TypeString(t, nil))
	st, _ := t.Underlying().(*types.Struct)
	if st == nil {
		return name + ".?"
	}
	return name + "." + fname(st.Field(idx))
}

// fieldPath: for a load (UnOp *) of FieldAddr chains, returns the dotted path of
// field names from the root value, e.g. cached.Metadata.Object.ETag ->
// root=cached, ["Metadata","Object","ETag"]. Pointer loads between are skipped.
func fieldPath(v ssa.Value) (root ssa.Value, path []string) {
	for {
		switch x := v.(type) {
		case *ssa.UnOp:
			if x.Op == token.MUL {
				v = x.X
				continue
			}
			return v, path
		case *ssa.FieldAddr:
			st := derefStruct(x.X.Type())
			path = append([]string{fname(st.Field(x.Field))}, path...)
			v = x.X
			continue
		case *ssa.Field:
			st := derefStruct(x.X.Type())
			path = append([]string{fname(st.Field(x.Field))}, path...)
			v = x.X
			continue
		case *ssa.ChangeType:
			v = x.X
			continue
		case *ssa.Alloc:
			// a local snapshot of a struct (`stored := entry.Metadata.Object`): assigned once, as a whole,
			// from a load, and never written afterwards — its fields are the fields of what was copied
			if len(path) > 0 {
				if src, ok := structSnapshotSource(x); ok {
					v = src
					continue
				}
			}
			return v, path
		}
		return v, path
	}
}

// structSnapshotSource: alloc is a struct-typed local with exactly one store, of a loaded struct value,
// and no store into any of its fields; returns the address the value was loaded from.
func structSnapshotSource(a *ssa.Alloc) (ssa.Value, bool) {
	if _, ok := a.Type().Underlying().(*types.Pointer).Elem().Underlying().(*types.Struct); !ok {
		return nil, false
	}
	refs := a.Referrers()
	if refs == nil {
		return nil, false
	}
	var src ssa.Value
	n := 0
	for _, r := range *refs {
		switch x := r.(type) {
		case *ssa.Store:
			if x.Addr != ssa.Value(a) {
				return nil, false // the address itself is stored somewhere
			}
			n++
			ld, ok := x.Val.(*ssa.UnOp)
			if !ok || ld.Op != token.MUL {
				return nil, false
			}
			src = ld.X
		case *ssa.FieldAddr:
			if fr := x.Referrers(); fr != nil {
				for _, r2 := range *fr {
					if st, ok := r2.(*ssa.Store); ok && st.Addr == ssa.Value(x) {
						return nil, false // a field is written after the copy
					}
				}
			}
		case *ssa.UnOp, *ssa.DebugRef:
		default:
			return nil, false // escapes (call argument, closure capture, ...)
		}
	}
	if n != 1 || src == nil {
		return nil, false
	}
	return src, true
}

// ---------- E1: path queries ----------

type pos struct {
	b *ssa.BasicBlock
	i int
}

func posOf(in ssa.Instruction) pos {
	b := in.Block()
	for i, x := range b.Instrs {
		if x == in {
			return pos{b, i}
		}
	}
	return pos{b, 0}
}

// instrDominates reports whether a executes before b on every path reaching b.
func instrDominates(a, b ssa.Instruction) bool {
	pa, pb := posOf(a), posOf(b)
	if pa.b == pb.b {
		return pa.i < pb.i
	}
	return pa.b.Dominates(pb.b)
}

type edgeFilter func(from *ssa.BasicBlock, succIdx int) bool // true = edge is removed

// reachable computes the set of (block) reachable from start position following
// CFG edges, never continuing past an instruction for which stop returns true
// (the stop instruction itself is "reached" and reported via hit). Returns the
// list of instructions satisfying target that can be reached without passing a
// stop instruction.
func walkFrom(start pos, stop func(ssa.Instruction) bool, target func(ssa.Instruction) bool, skip edgeFilter) []ssa.Instruction {
	var hits []ssa.Instruction
	seen := map[*ssa.BasicBlock]bool{}
	var visit func(b *ssa.BasicBlock, from int)
	visit = func(b *ssa.BasicBlock, from int) {
		for i := from; i < len(b.Instrs); i++ {
			in := b.Instrs[i]
			if target != nil && target(in) {
				hits = append(hits, in)
			}
			if stop != nil && stop(in) {
				return
			}
		}
		for si, s := range b.Succs {
			if skip != nil && skip(b, si) {
				continue
			}
			if !seen[s] {
				seen[s] = true
				visit(s, 0)
			}
		}
	}
	visit(start.b, start.i)
	return hits
}

func isExit(in ssa.Instruction) bool {
	switch in.(type) {
	case *ssa.Return:
		return true
	}
	return false
}

func isReturn(in ssa.Instruction) bool { _, ok := in.(*ssa.Return); return ok }

// mustPassBefore: every path from function entry to `site` executes an
// instruction matching marker first. Returns false if some path avoids it.
func mustPassBefore(fn *ssa.Function, site ssa.Instruction, marker func(ssa.Instruction) bool, skip edgeFilter) bool {
	hits := walkFrom(pos{fn.Blocks[0], 0}, marker, func(in ssa.Instruction) bool { return in == site }, skip)
	// If the site itself matches marker it is hit before stop is evaluated; that's fine.
	return len(hits) == 0
}

// exitsAvoiding returns the Return instructions reachable from just after
// `site` without executing an instruction matching marker.
func exitsAvoiding(site ssa.Instruction, marker func(ssa.Instruction) bool, skip edgeFilter) []ssa.Instruction {
	p := posOf(site)
	p.i++
	return walkFrom(p, marker, isReturn, skip)
}

// exitsFromEntryAvoiding returns the Return instructions reachable from entry
// without executing a marker.
func exitsFromEntryAvoiding(fn *ssa.Function, marker func(ssa.Instruction) bool, skip edgeFilter) []ssa.Instruction {
	return walkFrom(pos{fn.Blocks[0], 0}, marker, isReturn, skip)
}

// reachableInstr: can `to` be reached from just after `from`?
func reachableInstr(from, to ssa.Instruction, skip edgeFilter) bool {
	p := posOf(from)
	p.i++
	return len(walkFrom(p, nil, func(in ssa.Instruction) bool { return in == to }, skip)) > 0
}

// onlyViaEdge reports whether `site` is reachable from entry only through the
// given edge of ifBlock (succIdx 0 = true edge, 1 = false edge): i.e. removing
// that edge makes the site unreachable, and the site is reachable at all.
func onlyViaEdge(fn *ssa.Function, site ssa.Instruction, ifBlock *ssa.BasicBlock, succIdx int) bool {
	isSite := func(in ssa.Instruction) bool { return in == site }
	all := walkFrom(pos{fn.Blocks[0], 0}, nil, isSite, nil)
	if len(all) == 0 {
		return false
	}
	without := walkFrom(pos{fn.Blocks[0], 0}, nil, isSite, func(b *ssa.BasicBlock, si int) bool { return b == ifBlock && si == succIdx })
	return len(without) == 0
}

// condEdges: decompose the boolean value cond into the set of (If-block,
// succIdx) "atoms": for `if v` returns that block. Used together with
// onlyViaEdge. Returns the If instructions in fn whose Cond is (after
// stripping NOTs) the value v, with the polarity (true if cond==v, false if
// cond==!v).
type ifUse struct {
	blk      *ssa.BasicBlock
	positive bool // the If's condition equals v (true) or !v (false)
}

func ifsOn(fn *ssa.Function, v ssa.Value) []ifUse {
	var out []ifUse
	for _, b := range fn.Blocks {
		if len(b.Instrs) == 0 {
			continue
		}
		iff, ok := b.Instrs[len(b.Instrs)-1].(*ssa.If)
		if !ok {
			continue
		}
		c, pos := stripNot(iff.Cond)
		if c == v {
			out = append(out, ifUse{b, pos})
		}
	}
	return out
}

// stripNot removes leading NOT operators; positive reports parity.
func stripNot(v ssa.Value) (ssa.Value, bool) {
	positive := true
	for {
		u, ok := v.(*ssa.UnOp)
		if !ok || u.Op != token.NOT {
			return v, positive
		}
		positive = !positive
		v = u.X
	}
}

// guardedByTruth reports whether `site` executes only when boolean SSA value v
// has the given truth: there is an If on v (or !v) whose corresponding edge is
// the only way to reach site. Handles `v` being tested through a phi of
// short-circuit evaluation only via the direct If forms enumerated here.
func guardedByTruth(fn *ssa.Function, site ssa.Instruction, v ssa.Value, truth bool) bool {
	for _, u := range ifsOn(fn, v) {
		// edge index for v==truth: if positive, true-edge(0) means v true.
		idx := 0
		if u.positive != truth {
			idx = 1
		}
		if onlyViaEdge(fn, site, u.blk, idx) {
			return true
		}
	}
	return false
}

// pruneTruth returns an edge filter that removes edges contradicting v==truth.
func pruneTruth(fn *ssa.Function, v ssa.Value, truth bool) edgeFilter {
	uses := ifsOn(fn, v)
	return func(b *ssa.BasicBlock, si int) bool {
		for _, u := range uses {
			if u.blk == b {
				// edge si taken when cond true (si==0) / false (si==1); cond==v if positive
				condTrue := si == 0
				vTrue := condTrue == u.positive
				return vTrue != truth
			}
		}
		return false
	}
}

func orFilter(fs ...edgeFilter) edgeFilter {
	return func(b *ssa.BasicBlock, si int) bool {
		for _, f := range fs {
			if f != nil && f(b, si) {
				return true
			}
		}
		return false
	}
}

// errNilEdges: for a value `err` of error type, returns the If blocks testing
// err != nil / err == nil, with the successor index taken when err == nil.
type nilTest struct {
	blk    *ssa.BasicBlock
	nilIdx int // successor index for "value is nil"
}

func nilTestsOn(fn *ssa.Function, v ssa.Value) []nilTest {
	var out []nilTest
	for _, b := range fn.Blocks {
		if len(b.Instrs) == 0 {
			continue
		}
		iff, ok := b.Instrs[len(b.Instrs)-1].(*ssa.If)
		if !ok {
			continue
		}
		c, positive := stripNot(iff.Cond)
		bo, ok := c.(*ssa.BinOp)
		if !ok || (bo.Op != token.EQL && bo.Op != token.NEQ) {
			continue
		}
		var other ssa.Value
		if bo.X == v || forwardedLoad(bo.X) == v {
			other = bo.Y
		} else if bo.Y == v || forwardedLoad(bo.Y) == v {
			other = bo.X
		} else {
			continue
		}
		if !isNilConst(other) {
			continue
		}
		isEq := bo.Op == token.EQL
		if !positive {
			isEq = !isEq
		}
		idx := 1
		if isEq {
			idx = 0
		}
		out = append(out, nilTest{b, idx})
	}
	return out
}

// onlyWhenNil reports whether site executes only when v == nil (nilWanted) or
// only when v != nil (!nilWanted).
func onlyWhenNil(fn *ssa.Function, site ssa.Instruction, v ssa.Value, nilWanted bool) bool {
	for _, t := range nilTestsOn(fn, v) {
		idx := t.nilIdx
		if !nilWanted {
			idx = 1 - idx
		}
		if onlyViaEdge(fn, site, t.blk, idx) {
			return true
		}
	}
	return false
}

// pruneNil returns a filter removing edges that contradict v==nil (isNil) / v!=nil.
func pruneNil(fn *ssa.Function, v ssa.Value, isNil bool) edgeFilter {
	tests := nilTestsOn(fn, v)
	return func(b *ssa.BasicBlock, si int) bool {
		for _, t := range tests {
			if t.blk == b {
				edgeIsNil := si == t.nilIdx
				return edgeIsNil != isNil
			}
		}
		return false
	}
}

// extractOf returns the Extract instructions of tuple-valued call v by index.
func extractOf(v ssa.Value, idx int) *ssa.Extract {
	refs := v.Referrers()
	if refs == nil {
		return nil
	}
	for _, r := range *refs {
		if e, ok := r.(*ssa.Extract); ok && e.Tuple == v && e.Index == idx {
			return e
		}
	}
	return nil
}

// ---------- simple provenance (E4) ----------

// derivesFrom reports whether v is computed (through phis, conversions,
// arithmetic, field reads, calls' arguments) from a value satisfying src.
// depth-limited, intraprocedural; loads from local allocs follow stores.
func derivesFrom(v ssa.Value, src func(ssa.Value) bool) bool {
	seen := map[ssa.Value]bool{}
	var rec func(v ssa.Value, d int) bool
	rec = func(v ssa.Value, d int) bool {
		if v == nil || seen[v] || d > 40 {
			return false
		}
		seen[v] = true
		if src(v) {
			return true
		}
		switch x := v.(type) {
		case *ssa.Phi:
			for _, e := range x.Edges {
				if rec(e, d+1) {
					return true
				}
			}
		case *ssa.UnOp:
			if x.Op == token.MUL {
				// load: follow stores to the same local alloc / field address
				if rec(x.X, d+1) {
					return true
				}
				for _, s := range storesTo(x.X) {
					if rec(s.Val, d+1) {
						return true
					}
				}
				return false
			}
			return rec(x.X, d+1)
		case *ssa.BinOp:
			return rec(x.X, d+1) || rec(x.Y, d+1)
		case *ssa.Convert:
			return rec(x.X, d+1)
		case *ssa.ChangeType:
			return rec(x.X, d+1)
		case *ssa.MakeInterface:
			return rec(x.X, d+1)
		case *ssa.ChangeInterface:
			return rec(x.X, d+1)
		case *ssa.TypeAssert:
			return rec(x.X, d+1)
		case *ssa.Extract:
			return rec(x.Tuple, d+1)
		case *ssa.Field:
			return rec(x.X, d+1)
		case *ssa.FieldAddr:
			return rec(x.X, d+1)
		case *ssa.IndexAddr:
			return rec(x.X, d+1)
		case *ssa.Index:
			return rec(x.X, d+1)
		case *ssa.Slice:
			return rec(x.X, d+1)
		case *ssa.Lookup:
			return rec(x.X, d+1)
		case *ssa.Call:
			for _, a := range callArgs(x) {
				if rec(a, d+1) {
					return true
				}
			}
		case *ssa.Alloc:
			// local aggregate (varargs array, composite literal, spilled parameter): whatever was stored into it
			for _, st := range storesTo(x) {
				if rec(st.Val, d+1) {
					return true
				}
			}
			// everything stored into an element / field of the aggregate, at any nesting depth (a literal table of structs)
			var inner func(a ssa.Value, depth int) bool
			inner = func(a ssa.Value, depth int) bool {
				if depth > 4 || a.Referrers() == nil {
					return false
				}
				for _, ref := range *a.Referrers() {
					switch y := ref.(type) {
					case *ssa.IndexAddr:
						if y.X != a {
							continue
						}
						for _, st := range storesTo(y) {
							if rec(st.Val, d+1) {
								return true
							}
						}
						if inner(y, depth+1) {
							return true
						}
					case *ssa.FieldAddr:
						if y.X != a {
							continue
						}
						for _, st := range storesTo(y) {
							if rec(st.Val, d+1) {
								return true
							}
						}
						if inner(y, depth+1) {
							return true
						}
					}
				}
				return false
			}
			if inner(x, 0) {
				return true
			}
		}
		return false
	}
	return rec(v, 0)
}

// factStrsMentioning: the facts at site (in the spellings of factStrs) whose condition is computed from a field
// named field — also when the field is reached through a local table (an array of {name, &c.Field} walked by a loop).
func factStrsMentioning(fn *ssa.Function, site ssa.Instruction, field string) map[string]bool {
	out := map[string]bool{}
	for _, f := range factsAt(fn, site) {
		hit := derivesFrom(f.cond, func(v ssa.Value) bool {
			switch y := v.(type) {
			case *ssa.FieldAddr, *ssa.Field:
				fv, _, is := fieldOf(y)
				return is && fname(fv) == field
			}
			return false
		})
		if !hit {
			continue
		}
		out[fmt.Sprintf("%s=%v", atomStr(f.cond), f.truth)] = true
		if a, pos := normAtom(f.cond, nil); a != "" {
			out[fmt.Sprintf("%s=%v", a, f.truth == pos)] = true
		}
	}
	return out
}

// storesTo returns Store instructions whose address is addr, or (for FieldAddr
// of a local Alloc) the same field of the same alloc.
func storesTo(addr ssa.Value) []*ssa.Store {
	var out []*ssa.Store
	add := func(a ssa.Value) {
		if refs := a.Referrers(); refs != nil {
			for _, r := range *refs {
				if s, ok := r.(*ssa.Store); ok && s.Addr == a {
					out = append(out, s)
				}
			}
		}
	}
	add(addr)
	if fa, ok := addr.(*ssa.FieldAddr); ok {
		if refs := fa.X.Referrers(); refs != nil {
			for _, r := range *refs {
				if fa2, ok := r.(*ssa.FieldAddr); ok && fa2 != fa && fa2.X == fa.X && fa2.Field == fa.Field {
					add(fa2)
				}
			}
		}
	}
	return out
}

// isParam reports whether v is the parameter named name of its function.
func isParamNamed(v ssa.Value, name string) bool {
	p, ok := v.(*ssa.Parameter)
	return ok && pname(p) == name
}

func paramNamed(fn *ssa.Function, name string) *ssa.Parameter {
	for _, p := range fn.Params {
		if pname(p) == name {
			return p
		}
	}
	return nil
}

// freeVarSource: for a closure's FreeVar, return the binding value in the
// MakeClosure that created it (first creator found).
func freeVarBinding(fv *ssa.FreeVar) ssa.Value {
	fn := fv.Parent()
	idx := -1
	for i, f := range fn.FreeVars {
		if f == fv {
			idx = i
		}
	}
	if idx < 0 || fn.Parent() == nil {
		return nil
	}
	var out ssa.Value
	par := fn.Parent()
	eachInstr(par, func(in ssa.Instruction) {
		if mc, ok := in.(*ssa.MakeClosure); ok && mc.Fn == fn && idx < len(mc.Bindings) {
			out = mc.Bindings[idx]
		}
	})
	return out
}

// resolveVal sees through loads of single-assignment local cells (parameters
// spilled to an Alloc because a field address is taken) and conversions.
func resolveVal(v ssa.Value) ssa.Value {
	for i := 0; i < 8; i++ {
		u, ok := v.(*ssa.UnOp)
		if !ok || u.Op != token.MUL {
			return v
		}
		a, ok := u.X.(*ssa.Alloc)
		if !ok {
			return v
		}
		st := storesTo(a)
		if len(st) != 1 {
			return v
		}
		v = st[0].Val
	}
	return v
}

// sameVal: two SSA values denote the same run-time value (identical, or loads
// of the same single-assignment cell).
func sameVal(a, b ssa.Value) bool {
	if a == b {
		return true
	}
	return resolveVal(a) == resolveVal(b)
}

// retVals returns the values a Return actually returns, seeing through the
// "defer-spilled" form (results stored into result cells, rundefers, reload):
// for a result that is a load of a local cell, the last store to that cell in
// the same block before the return is used. Results whose store is not in the
// same block are returned as is.
func retVals(ret *ssa.Return) []ssa.Value {
	out := make([]ssa.Value, len(ret.Results))
	b := ret.Block()
	for i, rv := range ret.Results {
		out[i] = rv
		u, ok := rv.(*ssa.UnOp)
		if !ok || u.Op != token.MUL {
			continue
		}
		cell, ok := u.X.(*ssa.Alloc)
		if !ok {
			continue
		}
		for _, in := range b.Instrs {
			if in == ssa.Instruction(u) {
				break
			}
			if st, ok := in.(*ssa.Store); ok && st.Addr == ssa.Value(cell) {
				out[i] = st.Val
			}
		}
	}
	return out
}

// isRecoverBlockReturn: the synthetic return of a function's recover block.
func isRecoverReturn(ret *ssa.Return) bool {
	f := ret.Parent()
	return f.Recover != nil && ret.Block() == f.Recover
}

// atomStr renders a value structurally (parameters by name, field paths,
// short callee names, constants) so facts can be compared with expectations.
func atomStr(v ssa.Value) string {
	return atomStrD(v, 0)
}

func atomStrD(v ssa.Value, d int) string {
	if v == nil || d > 8 {
		return "?"
	}
	switch x := v.(type) {
	case *ssa.Const:
		if x.Value == nil {
			return "nil"
		}
		return x.Value.ExactString()
	case *ssa.Parameter:
		return "$" + pname(x)
	case *ssa.FreeVar:
		// a captured parameter of the enclosing function goes by that parameter's canonical name
		if b := freeVarBinding(x); b != nil {
			if p, ok := cellValue(b).(*ssa.Parameter); ok && p.Name() == x.Name() {
				return "$" + pname(p)
			}
			if a, ok := resolveVal(b).(*ssa.Alloc); ok {
				if sts := storesTo(a); len(sts) >= 1 {
					if p, ok := sts[0].Val.(*ssa.Parameter); ok && p.Name() == x.Name() {
						return "$" + pname(p)
					}
				}
			}
		}
		return "$" + x.Name()
	case *ssa.Global:
		return gname(x)
	case *ssa.Convert:
		return atomStrD(x.X, d+1)
	case *ssa.ChangeType:
		return atomStrD(x.X, d+1)
	case *ssa.MakeInterface:
		return atomStrD(x.X, d+1)
	case *ssa.ChangeInterface:
		return atomStrD(x.X, d+1)
	case *ssa.BinOp:
		return atomStrD(x.X, d+1) + x.Op.String() + atomStrD(x.Y, d+1)
	case *ssa.Extract:
		return atomStrD(x.Tuple, d+1) + "#" + string(rune('0'+x.Index))
	case *ssa.Call:
		n := calleeName(x)
		if i := strings.LastIndex(n, "."); i >= 0 {
			n = n[i+1:]
		}
		if n == "" && !x.Call.IsInvoke() {
			// call of a function value: name it after the field / variable holding it
			if _, p := fieldPath(x.Call.Value); len(p) > 0 {
				n = p[len(p)-1]
			} else if fv, ok := resolveFree(x.Call.Value).(*ssa.FreeVar); ok {
				n = fv.Name()
			} else if pv, ok := resolveVal(x.Call.Value).(*ssa.Parameter); ok {
				n = "$" + pname(pv)
			}
		}
		var as []string
		for _, a := range callArgs(x) {
			as = append(as, atomStrD(a, d+1))
		}
		return n + "(" + strings.Join(as, ",") + ")"
	case *ssa.UnOp:
		if x.Op == token.MUL {
			root, p := fieldPath(x)
			rr := resolveVal(root)
			if rr != ssa.Value(x) {
				base := atomStrD(rr, d+1)
				if len(p) > 0 {
					return base + "." + strings.Join(p, ".")
				}
				return base
			}
			return "*" + atomStrD(x.X, d+1)
		}
		return x.Op.String() + atomStrD(x.X, d+1)
	case *ssa.Field:
		root, p := fieldPath(x)
		return atomStrD(resolveVal(root), d+1) + "." + strings.Join(p, ".")
	case *ssa.FieldAddr:
		root, p := fieldPath(x)
		return "&" + atomStrD(resolveVal(root), d+1) + "." + strings.Join(p, ".")
	case *ssa.Alloc:
		if sts := storesTo(x); len(sts) == 1 {
			return atomStrD(sts[0].Val, d+1)
		}
		if x.Comment != "" {
			return x.Comment
		}
		return "local"
	case *ssa.Phi:
		if x.Comment != "" {
			return "phi:" + x.Comment
		}
		return "phi"
	case *ssa.Slice:
		if arr, ok := x.X.(*ssa.Alloc); ok {
			// varargs array: list what was stored into its elements
			type ent struct {
				i int64
				s string
			}
			var ents []ent
			if refs := arr.Referrers(); refs != nil {
				for _, ref := range *refs {
					if ia, ok := ref.(*ssa.IndexAddr); ok {
						idx, _ := constInt(ia.Index)
						for _, st := range storesTo(ia) {
							ents = append(ents, ent{idx, atomStrD(st.Val, d+1)})
						}
					}
				}
			}
			sort.Slice(ents, func(i, j int) bool { return ents[i].i < ents[j].i })
			var ss []string
			for _, e := range ents {
				ss = append(ss, e.s)
			}
			return strings.Join(ss, ",")
		}
		return atomStrD(x.X, d+1) + "[:]"
	}
	return v.Name()
}

// factStrs: the facts holding at site as "atom=true|false" strings.
func factStrs(fn *ssa.Function, site ssa.Instruction) map[string]bool {
	out := map[string]bool{}
	for _, f := range factsAt(fn, site) {
		out[fmt.Sprintf("%s=%v", atomStr(f.cond), f.truth)] = true
		// canonical form as well: x!="GET"=false also reads x=="GET"=true, x<1=true reads x>0=false, ...
		if a, pos := normAtom(f.cond, nil); a != "" {
			out[fmt.Sprintf("%s=%v", a, f.truth == pos)] = true
		}
		if _, isPhi := f.cond.(*ssa.Phi); isPhi && f.truth {
			// a && b && c known true: every conjunct is known true
			for _, g := range conjuncts(fn, f.cond, 0) {
				out[fmt.Sprintf("%s=%v", atomStr(g.cond), g.truth)] = true
			}
		}
		if _, isPhi := f.cond.(*ssa.Phi); isPhi && !f.truth {
			// a || b || c known false: every disjunct is known false
			for _, g := range disjuncts(fn, f.cond, 0) {
				out[fmt.Sprintf("%s=%v", atomStr(g.cond), g.truth)] = true
				if a, pos := normAtom(g.cond, nil); a != "" {
					out[fmt.Sprintf("%s=%v", a, g.truth == pos)] = true
				}
			}
		}
	}
	return out
}

func hasFact(fs map[string]bool, substr string, truth bool) bool {
	suffix := fmt.Sprintf("=%v", truth)
	for k := range fs {
		if strings.HasSuffix(k, suffix) && strings.Contains(k, substr) {
			return true
		}
	}
	return false
}

// cellValue: for a local single-assignment cell (Alloc with exactly one store,
// e.g. a spilled parameter) returns the stored value; otherwise resolveVal(v).
func cellValue(v ssa.Value) ssa.Value {
	v = resolveVal(v)
	if a, ok := v.(*ssa.Alloc); ok {
		if sts := storesTo(a); len(sts) == 1 {
			return resolveVal(sts[0].Val)
		}
	}
	return v
}

// ---------- helper-transparent views (robustness against extract-helper refactorings) ----------

// acctKind classifies a function of package cache as an accounting helper by
// its effect on the process-wide cache metrics (never by its name):
// addSize / subSize (BytesCached.Add / Sub) or incEntries / decEntries
// (CacheEntries.Add|Increment / Sub|Decrement). "" if it is none.
func acctKind(f *ssa.Function) string {
	if f == nil || f.Blocks == nil || originPkgPath(f) != "reservoir/cache" {
		return ""
	}
	kind := ""
	n := 0
	eachCall(f, func(call ssa.CallInstruction, name string) {
		args := callArgs(call)
		if len(args) == 0 {
			return
		}
		_, p := fieldPath(args[0])
		if len(p) < 2 {
			return
		}
		fld := p[len(p)-1]
		m := name[strings.LastIndex(name, ".")+1:]
		switch {
		case fld == "BytesCached" && m == "Add":
			kind = "addSize"
			n++
		case fld == "BytesCached" && m == "Sub":
			kind = "subSize"
			n++
		case fld == "CacheEntries" && (m == "Add" || m == "Increment"):
			kind = "incEntries"
			n++
		case fld == "CacheEntries" && (m == "Sub" || m == "Decrement"):
			kind = "decEntries"
			n++
		}
	})
	if n != 1 {
		return ""
	}
	// a helper does nothing else of substance: no map operations, no locks
	other := false
	eachInstr(f, func(in ssa.Instruction) {
		switch in.(type) {
		case *ssa.MapUpdate, *ssa.Lookup:
			other = true
		}
	})
	if other {
		return ""
	}
	return kind
}

// callKind: the accounting kind of a call instruction ("" if none).
func callAcctKind(call ssa.CallInstruction) string {
	if sc := staticCallee(call); sc != nil {
		return acctKind(unwrapSynthetic(sc))
	}
	return ""
}

// compositeAcct: f does nothing but call accounting helpers with its own parameters (accountRemoved(counter, size)
// = decrementCacheEntries() + decrementCacheSize(counter, size)). Returns, per accounting kind it performs, the
// index of f's parameter that is handed on as the size (-1 if the kind takes none).
func compositeAcct(f *ssa.Function) map[string]int {
	if f == nil || f.Blocks == nil || originPkgPath(f) != "reservoir/cache" || len(f.Blocks) != 1 || acctKind(f) != "" {
		return nil
	}
	out := map[string]int{}
	ok := true
	for _, in := range f.Blocks[0].Instrs {
		switch x := in.(type) {
		case *ssa.Call:
			k := callAcctKind(x)
			if k == "" {
				ok = false
				continue
			}
			idx := -1
			if len(x.Call.Args) == 2 {
				for pi, q := range f.Params {
					if unconv(x.Call.Args[1]) == ssa.Value(q) {
						idx = pi
					}
				}
				if idx < 0 {
					ok = false
				}
			}
			out[k] = idx
		case *ssa.Return, *ssa.DebugRef:
		default:
			ok = false
		}
	}
	if !ok || len(out) == 0 {
		return nil
	}
	return out
}

// condAcct is one accounting effect of a composite helper that chooses between effects by a bool parameter
// (accountStored(counter, size, replacedSize, overwritten): -replacedSize if overwritten, else +1 entry; +size always).
type condAcct struct {
	sizeIdx    int  // parameter handed on as the size, -1 if the kind takes none
	guardIdx   int  // bool parameter the effect depends on, -1 if it always happens
	guardTruth bool // the effect happens when that parameter has this value
}

// compositeAcctCond: f does nothing but call accounting helpers with its own parameters, possibly choosing between
// them by one of its bool parameters.
func compositeAcctCond(f *ssa.Function) map[string]condAcct {
	if f == nil || f.Blocks == nil || originPkgPath(f) != "reservoir/cache" || len(f.Blocks) < 2 || len(f.Blocks) > 6 || acctKind(f) != "" {
		return nil
	}
	out := map[string]condAcct{}
	ok := true
	var ifs []*ssa.BasicBlock
	for _, b := range f.Blocks {
		for _, in := range b.Instrs {
			switch x := in.(type) {
			case *ssa.If:
				cv, _ := stripNot(x.Cond)
				prm, isP := cv.(*ssa.Parameter)
				if !isP || !isBoolType(prm.Type()) {
					ok = false
				}
				ifs = append(ifs, b)
			case *ssa.Call:
				if callAcctKind(x) == "" {
					ok = false
				}
			case *ssa.Return, *ssa.DebugRef, *ssa.Jump:
			default:
				ok = false
			}
		}
	}
	if !ok || len(ifs) != 1 {
		return nil
	}
	ib := ifs[0]
	cv, positive := stripNot(ib.Instrs[len(ib.Instrs)-1].(*ssa.If).Cond)
	gi := -1
	for pi, q := range f.Params {
		if ssa.Value(q) == cv {
			gi = pi
		}
	}
	for _, b := range f.Blocks {
		for _, in := range b.Instrs {
			x, isC := in.(*ssa.Call)
			if !isC {
				continue
			}
			k := callAcctKind(x)
			ca := condAcct{sizeIdx: -1, guardIdx: -1}
			if len(x.Call.Args) == 2 {
				for pi, q := range f.Params {
					if unconv(x.Call.Args[1]) == ssa.Value(q) {
						ca.sizeIdx = pi
					}
				}
				if ca.sizeIdx < 0 {
					return nil
				}
			}
			switch {
			case onlyViaEdge(f, x, ib, 0):
				ca.guardIdx, ca.guardTruth = gi, positive
			case onlyViaEdge(f, x, ib, 1):
				ca.guardIdx, ca.guardTruth = gi, !positive
			}
			if _, dup := out[k]; dup {
				return nil
			}
			out[k] = ca
		}
	}
	if len(out) == 0 {
		return nil
	}
	return out
}

// acctGuardOfCall: for a call of a choosing composite helper, the argument that decides whether the effect of the
// given kind happens, and the value it must have.
func acctGuardOfCall(call *ssa.Call, kind string) (arg ssa.Value, truth bool, guarded bool) {
	if sc := staticCallee(call); sc != nil {
		if ca, ok := compositeAcctCond(unwrapSynthetic(sc))[kind]; ok && ca.guardIdx >= 0 && ca.guardIdx < len(call.Call.Args) {
			return call.Call.Args[ca.guardIdx], ca.guardTruth, true
		}
	}
	return nil, false, false
}

// acctKindsOfCall: the accounting effects of a call: one for a plain accounting helper, several for a composite one.
func acctKindsOfCall(call ssa.CallInstruction) []string {
	if k := callAcctKind(call); k != "" {
		return []string{k}
	}
	if sc := staticCallee(call); sc != nil {
		var ks []string
		for k := range compositeAcct(unwrapSynthetic(sc)) {
			ks = append(ks, k)
		}
		if len(ks) == 0 {
			for k := range compositeAcctCond(unwrapSynthetic(sc)) {
				ks = append(ks, k)
			}
		}
		sort.Strings(ks)
		return ks
	}
	return nil
}

// acctSizeArg: the argument of call that is the size added / subtracted for kind.
func acctSizeArg(call *ssa.Call, kind string) ssa.Value {
	if callAcctKind(call) == kind {
		if len(call.Call.Args) == 2 {
			return call.Call.Args[1]
		}
		return nil
	}
	if sc := staticCallee(call); sc != nil {
		if idx, ok := compositeAcct(unwrapSynthetic(sc))[kind]; ok && idx >= 0 && idx < len(call.Call.Args) {
			return call.Call.Args[idx]
		}
		if ca, ok := compositeAcctCond(unwrapSynthetic(sc))[kind]; ok && ca.sizeIdx >= 0 && ca.sizeIdx < len(call.Call.Args) {
			return call.Call.Args[ca.sizeIdx]
		}
	}
	return nil
}

// factStrsCtx: the facts holding at site, plus the facts that hold at EVERY call
// site of the enclosing function (transitively, bounded), translated into the
// callee's vocabulary (caller argument expressions are rewritten to "$param").
// This makes guard rules indifferent to extract-helper refactorings: a guard
// established in the caller still counts for code moved into the helper.
func factStrsCtx(li *LockInfo, fn *ssa.Function, site ssa.Instruction) map[string]bool {
	return factStrsCtxD(li, fn, site, 0)
}

func factStrsCtxD(li *LockInfo, fn *ssa.Function, site ssa.Instruction, depth int) map[string]bool {
	out := factStrs(fn, site)
	if li == nil || depth >= 3 {
		return out
	}
	// closures: the facts at their creation site in the parent hold if the closure is only
	// invoked synchronously from there (range-over-func bodies); handled via Callers too.
	cs := li.Callers[fn]
	if len(cs) == 0 {
		return out
	}
	var common map[string]bool
	for _, s := range cs {
		if s.isGo {
			return out
		}
		cf := factStrsCtxD(li, s.caller, s.in, depth+1)
		tr := map[string]bool{}
		call, ok := asCall(s.in)
		if !ok {
			return out
		}
		args := callArgs(call)
		type rep struct{ from, to string }
		var reps []rep
		for i, p := range fn.Params {
			if i < len(args) {
				a := atomStr(args[i])
				if a != "" && a != "?" && a != "$"+p.Name() {
					reps = append(reps, rep{a, "$" + p.Name()})
				}
			}
		}
		// longest first, so that "x.y" is rewritten before "x"
		sort.Slice(reps, func(i, j int) bool { return len(reps[i].from) > len(reps[j].from) })
		for k := range cf {
			t := k
			for _, rp := range reps {
				t = replaceToken(t, rp.from, rp.to)
			}
			tr[t] = true
		}
		if common == nil {
			common = tr
		} else {
			for k := range common {
				if !tr[k] {
					delete(common, k)
				}
			}
		}
	}
	for k := range common {
		out[k] = true
	}
	return out
}

// replaceToken replaces occurrences of from in s that are not part of a longer identifier.
func replaceToken(s, from, to string) string {
	if from == "" {
		return s
	}
	var b strings.Builder
	for {
		i := strings.Index(s, from)
		if i < 0 {
			b.WriteString(s)
			return b.String()
		}
		end := i + len(from)
		okL := i == 0 || !isIdentChar(s[i-1])
		okR := end >= len(s) || !isIdentChar(s[end])
		b.WriteString(s[:i])
		if okL && okR {
			b.WriteString(to)
		} else {
			b.WriteString(from)
		}
		s = s[end:]
	}
}

func isIdentChar(c byte) bool {
	return c == '_' || c == '$' || (c >= '0' && c <= '9') || (c >= 'a' && c <= 'z') || (c >= 'A' && c <= 'Z')
}

// pkgGroup: fn, its closures, and the same-package functions it reaches through
// static calls (transitively): the code a maintainer may have split fn into.
func pkgGroup(li *LockInfo, roots ...*ssa.Function) []*ssa.Function {
	seen := map[*ssa.Function]bool{}
	var out []*ssa.Function
	var visit func(f *ssa.Function, d int)
	visit = func(f *ssa.Function, d int) {
		if f == nil || seen[f] || f.Blocks == nil || d > 4 {
			return
		}
		seen[f] = true
		out = append(out, f)
		for _, a := range f.AnonFuncs {
			visit(a, d)
		}
		eachCall(f, func(call ssa.CallInstruction, _ string) {
			if sc := staticCallee(call); sc != nil {
				g := unwrapSynthetic(sc)
				if g != nil && originPkgPath(g) == originPkgPath(roots[0]) {
					visit(g, d+1)
				}
			}
		})
	}
	for _, r := range roots {
		visit(r, 0)
	}
	return out
}

// factStrsDeep: factStrs plus what a same-package predicate helper guarantees. When the site is
// guarded by `ok` of `v, ok := helper(...)` (or by a bool-returning helper) being b, every fact
// common to all returns of the helper that may yield b also holds at the site. The helper's facts
// are rendered in the helper's own terms (parameters by name).
func factStrsDeep(fn *ssa.Function, site ssa.Instruction) map[string]bool {
	out := factStrs(fn, site)
	for _, fc := range factsAt(fn, site) {
		idx := 0
		v := fc.cond
		if ex, ok := v.(*ssa.Extract); ok {
			idx = ex.Index
			v = ex.Tuple
		}
		// a comparison of a helper's integer result with a constant (i := indexOf(...); i < 0): the returns whose
		// constant result contradicts the known outcome cannot be the one taken
		var cmp *ssa.BinOp
		cmpSwapped := false
		if bo, isB := v.(*ssa.BinOp); isB {
			if _, isK := constInt(bo.Y); isK {
				cmp, v = bo, bo.X
			} else if _, isK := constInt(bo.X); isK {
				cmp, v, cmpSwapped = bo, bo.Y, true
			}
			if ex, ok := v.(*ssa.Extract); ok {
				idx = ex.Index
				v = ex.Tuple
			}
		}
		call, ok := v.(*ssa.Call)
		if !ok {
			continue
		}
		h := unwrapSynthetic(staticCallee(call))
		if h == nil || h.Blocks == nil || originPkgPath(h) != originPkgPath(fn) {
			continue
		}
		var common map[string]bool
		decided := true
		eachInstr(h, func(in ssa.Instruction) {
			ret, ok := in.(*ssa.Return)
			if !ok || isRecoverReturn(ret) {
				return
			}
			vals := retVals(ret)
			if idx >= len(vals) {
				decided = false
				return
			}
			if cmp != nil {
				if rk, isK := constInt(vals[idx]); isK {
					var ck int64
					a, b := rk, int64(0)
					if cmpSwapped {
						ck, _ = constInt(cmp.X)
						a, b = ck, rk
					} else {
						ck, _ = constInt(cmp.Y)
						b = ck
					}
					res, known := false, true
					switch cmp.Op {
					case token.LSS:
						res = a < b
					case token.LEQ:
						res = a <= b
					case token.GTR:
						res = a > b
					case token.GEQ:
						res = a >= b
					case token.EQL:
						res = a == b
					case token.NEQ:
						res = a != b
					default:
						known = false
					}
					if known && res != fc.truth {
						return // this return cannot be the one taken
					}
				}
			}
			if k, isC := vals[idx].(*ssa.Const); isC && k.Value != nil && k.Value.Kind() == constant.Bool && cmp == nil {
				if constant.BoolVal(k.Value) != fc.truth {
					return // this return cannot be the one taken
				}
			}
			fs := factStrs(h, ret)
			if common == nil {
				common = fs
				return
			}
			for k := range common {
				if !fs[k] {
					delete(common, k)
				}
			}
		})
		if decided {
			for k := range common {
				out[k] = true
			}
		}
	}
	return out
}

// ---------- context-sensitive provenance through same-package helpers ----------

// dctx is the stack of call sites entered while walking backwards from a value
// into the bodies of same-package helpers (innermost last).
type dctx []*ssa.Call

func (c dctx) top() *ssa.Call {
	if len(c) == 0 {
		return nil
	}
	return c[len(c)-1]
}

// helperBody: the body to descend into for a call — a static callee with source in the same
// package as the caller (what an extract-helper refactoring produces); nil otherwise.
func helperBody(call *ssa.Call) *ssa.Function {
	g := unwrapSynthetic(staticCallee(call))
	if g == nil || g.Blocks == nil || call.Parent() == nil || originPkgPath(g) != originPkgPath(call.Parent()) {
		return nil
	}
	return g
}

// paramArg: if p is a parameter of the helper entered by the innermost call of ctx, the argument
// passed for it and the remaining context.
func paramArg(p *ssa.Parameter, ctx dctx) (ssa.Value, dctx, bool) {
	call := ctx.top()
	if call == nil {
		return nil, ctx, false
	}
	g := helperBody(call)
	if g == nil || p.Parent() != g {
		return nil, ctx, false
	}
	args := callArgs(call)
	for i, q := range g.Params {
		if q == p && i < len(args) {
			return args[i], ctx[:len(ctx)-1], true
		}
	}
	return nil, ctx, false
}

// derivesFromDeep is derivesFrom that also walks into same-package helpers: from a call to the
// helper's returned values (pushing the call on the context) and from a helper's parameter back
// to the argument of the call it was entered through. src sees the context of each value.
func derivesFromDeep(v ssa.Value, ctx0 dctx, src func(ssa.Value, dctx) bool) bool {
	type key struct {
		v   ssa.Value
		n   int
		top *ssa.Call
		sig string // the whole chain of entering calls: the same helper body reached through different outer calls is a different visit
	}
	seen := map[key]bool{}
	ctxSig := func(ctx dctx) string {
		if len(ctx) <= 1 {
			return ""
		}
		var b strings.Builder
		for _, c := range ctx[:len(ctx)-1] {
			fmt.Fprintf(&b, "%p;", c)
		}
		return b.String()
	}
	var rec func(v ssa.Value, ctx dctx, d int) bool
	rec = func(v ssa.Value, ctx dctx, d int) bool {
		if v == nil || d > 60 {
			return false
		}
		k := key{v, len(ctx), ctx.top(), ctxSig(ctx)}
		if seen[k] {
			return false
		}
		seen[k] = true
		if src(v, ctx) {
			return true
		}
		switch x := v.(type) {
		case *ssa.Parameter:
			if a, c2, ok := paramArg(x, ctx); ok {
				return rec(a, c2, d+1)
			}
		case *ssa.FreeVar:
			if b := freeVarBinding(x); b != nil {
				return rec(b, ctx, d+1)
			}
		case *ssa.Phi:
			for _, e := range x.Edges {
				if rec(e, ctx, d+1) {
					return true
				}
			}
		case *ssa.UnOp:
			if x.Op == token.MUL {
				if rec(x.X, ctx, d+1) {
					return true
				}
				for _, s := range storesTo(x.X) {
					if rec(s.Val, ctx, d+1) {
						return true
					}
				}
				return false
			}
			return rec(x.X, ctx, d+1)
		case *ssa.BinOp:
			return rec(x.X, ctx, d+1) || rec(x.Y, ctx, d+1)
		case *ssa.Convert:
			return rec(x.X, ctx, d+1)
		case *ssa.ChangeType:
			return rec(x.X, ctx, d+1)
		case *ssa.MakeInterface:
			return rec(x.X, ctx, d+1)
		case *ssa.ChangeInterface:
			return rec(x.X, ctx, d+1)
		case *ssa.TypeAssert:
			return rec(x.X, ctx, d+1)
		case *ssa.Extract:
			if call, ok := x.Tuple.(*ssa.Call); ok && len(ctx) < 4 {
				if g := helperBody(call); g != nil {
					if src(call, ctx) {
						return true
					}
					found := false
					eachInstr(g, func(in ssa.Instruction) {
						if ret, ok := in.(*ssa.Return); ok && !isRecoverReturn(ret) && !found {
							if vals := retVals(ret); x.Index < len(vals) {
								found = rec(vals[x.Index], append(append(dctx{}, ctx...), call), d+1)
							}
						}
					})
					return found
				}
			}
			return rec(x.Tuple, ctx, d+1)
		case *ssa.Field:
			return rec(x.X, ctx, d+1)
		case *ssa.FieldAddr:
			return rec(x.X, ctx, d+1)
		case *ssa.IndexAddr:
			return rec(x.X, ctx, d+1)
		case *ssa.Index:
			return rec(x.X, ctx, d+1)
		case *ssa.Slice:
			return rec(x.X, ctx, d+1)
		case *ssa.Lookup:
			return rec(x.X, ctx, d+1)
		case *ssa.Call:
			if g := helperBody(x); g != nil && len(ctx) < 4 {
				found := false
				eachInstr(g, func(in ssa.Instruction) {
					if ret, ok := in.(*ssa.Return); ok && !isRecoverReturn(ret) && !found {
						for _, rv := range retVals(ret) {
							if rec(rv, append(append(dctx{}, ctx...), x), d+1) {
								found = true
							}
						}
					}
				})
				return found
			}
			for _, a := range callArgs(x) {
				if rec(a, ctx, d+1) {
					return true
				}
			}
		case *ssa.Alloc:
			for _, st := range storesTo(x) {
				if rec(st.Val, ctx, d+1) {
					return true
				}
			}
			if refs := x.Referrers(); refs != nil {
				for _, ref := range *refs {
					switch a := ref.(type) {
					case *ssa.IndexAddr:
						for _, st := range storesTo(a) {
							if rec(st.Val, ctx, d+1) {
								return true
							}
						}
					case *ssa.FieldAddr:
						for _, st := range storesTo(a) {
							if rec(st.Val, ctx, d+1) {
								return true
							}
						}
					}
				}
			}
		}
		return false
	}
	return rec(v, ctx0, 0)
}

// ctxFieldPath is fieldPath with the root resolved through the helper context: a path rooted at
// a helper's parameter continues with the path of the argument it was called with.
func ctxFieldPath(v ssa.Value, ctx dctx) (ssa.Value, []string) {
	root, p := fieldPath(v)
	root = resolveVal(root)
	for i := 0; i < 6; i++ {
		prm, ok := root.(*ssa.Parameter)
		if !ok {
			break
		}
		a, c2, ok := paramArg(prm, ctx)
		if !ok {
			break
		}
		r2, p2 := fieldPath(a)
		root, ctx = resolveVal(r2), c2
		p = append(append([]string{}, p2...), p...)
	}
	return root, p
}

// fnCtx is a function body together with the chain of call sites through which it is entered
// from a rule's anchor function (nil for the anchor itself).
type fnCtx struct {
	fn  *ssa.Function
	ctx dctx
}

// helperContexts lists the anchor and the same-package helpers it calls (transitively up to
// depth), each with its entering context: the bodies a maintainer may have split the anchor into.
func helperContexts(f *ssa.Function, depth int) []fnCtx {
	out := []fnCtx{{f, nil}}
	var visit func(g *ssa.Function, ctx dctx, d int)
	visit = func(g *ssa.Function, ctx dctx, d int) {
		if d >= depth {
			return
		}
		eachInstr(g, func(in ssa.Instruction) {
			call, ok := in.(*ssa.Call)
			if !ok {
				return
			}
			h := helperBody(call)
			if h == nil || h == f {
				return
			}
			for _, c := range ctx {
				if helperBody(c) == h {
					return // recursion
				}
			}
			nc := append(append(dctx{}, ctx...), call)
			out = append(out, fnCtx{h, nc})
			visit(h, nc, d+1)
		})
	}
	visit(f, nil, 0)
	return out
}

// ctxAtom renders v as atomStr does, but with the parameters of helpers replaced by what the
// anchor passed for them (so `$host` inside cachedCert(host) reads as the caller's expression).
func ctxAtom(v ssa.Value, ctx dctx) string { return ctxRewrite(atomStr(v), ctx) }

// ctxRewrite replaces helper parameters (`$name`) in a rendered atom / fact by the caller's expressions.
func ctxRewrite(s string, ctx dctx) string {
	for i := len(ctx) - 1; i >= 0; i-- {
		call := ctx[i]
		g := helperBody(call)
		if g == nil {
			break
		}
		args := callArgs(call)
		type rep struct{ from, to string }
		var reps []rep
		for j, p := range g.Params {
			if j < len(args) {
				reps = append(reps, rep{"$" + p.Name(), atomStr(args[j])})
			}
		}
		sort.Slice(reps, func(a, b int) bool { return len(reps[a].from) > len(reps[b].from) })
		// two-phase replacement so that a substituted text is not rewritten again
		for k, rp := range reps {
			s = replaceToken(s, rp.from, fmt.Sprintf("\x00%d\x00", k))
		}
		for k, rp := range reps {
			s = strings.ReplaceAll(s, fmt.Sprintf("\x00%d\x00", k), rp.to)
		}
	}
	return s
}

// ctxFactStrs: the facts at a site of a helper, in the anchor's terms.
func ctxFactStrs(g *ssa.Function, site ssa.Instruction, ctx dctx) map[string]bool {
	out := map[string]bool{}
	for k := range factStrs(g, site) {
		out[ctxRewrite(k, ctx)] = true
	}
	return out
}

// nilFacts: what the facts say about the nil-ness of the value whose atom starts with prefix.
func nilFacts(fs map[string]bool, prefix string) (nonNil, isNil bool) {
	for k := range fs {
		if !strings.HasPrefix(k, prefix) {
			continue
		}
		switch {
		case strings.HasSuffix(k, "!=nil=true"), strings.HasSuffix(k, "==nil=false"):
			nonNil = true
		case strings.HasSuffix(k, "!=nil=false"), strings.HasSuffix(k, "==nil=true"):
			isNil = true
		}
	}
	return
}

// closureFn: the function a func-typed value denotes when it is a function literal or a named
// function (possibly converted / wrapped in MakeClosure); nil otherwise.
func closureFn(v ssa.Value) *ssa.Function {
	switch x := v.(type) {
	case *ssa.MakeClosure:
		if fn, ok := x.Fn.(*ssa.Function); ok {
			return fn
		}
	case *ssa.Function:
		return x
	case *ssa.ChangeType:
		return closureFn(x.X)
	case *ssa.MakeInterface:
		return closureFn(x.X)
	case *ssa.Call:
		// a factory: a module function all of whose returns hand back one and the same function literal
		g := unwrapSynthetic(staticCallee(x))
		if g == nil || g.Blocks == nil || !isModPath(originPkgPath(g)) {
			return nil
		}
		var only *ssa.Function
		ok := true
		eachInstr(g, func(in ssa.Instruction) {
			ret, isRet := in.(*ssa.Return)
			if !isRet || isRecoverReturn(ret) {
				return
			}
			if len(ret.Results) != 1 {
				ok = false
				return
			}
			f := closureFn(ret.Results[0])
			if f == nil || (only != nil && only != f) {
				ok = false
				return
			}
			only = f
		})
		if ok {
			return only
		}
	}
	return nil
}

// factStrsDeepAll: factStrs plus, for every fact that is the result b of a same-package bool helper,
// the facts common to all of the helper's paths that return b (helper evaluated through its boolean
// summary: `if isBodiless(status, body) {...} else if ...` gives, on the else side, the negation of
// every disjunct).
func factStrsDeepAll(fn *ssa.Function, site ssa.Instruction) map[string]bool {
	out := factStrsDeep(fn, site)
	bs := &boolSummer{}
	for _, fc := range factsAt(fn, site) {
		call, ok := fc.cond.(*ssa.Call)
		if !ok {
			continue
		}
		h := helperBody(call)
		if h == nil || h.Signature.Results().Len() != 1 || !isBoolType(h.Signature.Results().At(0).Type()) {
			continue
		}
		paths, ok := bs.summarise(h, map[string]string{}, 1)
		if !ok {
			// the predicate has a loop: a membership test over a constant table (for _, k := range table { if x == k
			// { return true } }; return false). What a false result guarantees is read off its `return false` sites.
			if !fc.truth {
				for k := range loopPredicateFalseFacts(h) {
					out[k] = true
				}
			}
			continue
		}
		var common map[string]bool
		for _, p := range paths {
			for _, rc := range bs.evalBoolOnPath(h, p, p.cond, map[string]string{}, 1) {
				if rc.val != fc.truth {
					continue
				}
				cur := map[string]bool{}
				for a, v := range rc.cond {
					cur[fmt.Sprintf("%s=%v", a, v)] = true
				}
				if common == nil {
					common = cur
				} else {
					for k := range common {
						if !cur[k] {
							delete(common, k)
						}
					}
				}
			}
		}
		for k := range common {
			out[k] = true
		}
	}
	return out
}

// globalStringTable returns the string constants a package-level array / slice variable is initialised
// with (the element stores of the package initialiser); ok is false when some element is not a constant
// or the variable is assigned anywhere else.
func globalStringTable(g *ssa.Global) (out []string, ok bool) {
	if g == nil || g.Pkg == nil {
		return nil, false
	}
	initFn := g.Pkg.Func("init")
	if initFn == nil {
		return nil, false
	}
	ok = true
	backing := map[ssa.Value]bool{ssa.Value(g): true}
	// a slice variable: init allocates an array, fills it and stores the slice of it into the variable
	eachInstr(initFn, func(in ssa.Instruction) {
		if st, isSt := in.(*ssa.Store); isSt && st.Addr == ssa.Value(g) {
			if sl, isSl := unconv(st.Val).(*ssa.Slice); isSl {
				backing[sl.X] = true
			}
			// an array variable: the literal is built in a temporary and copied over as a whole
			if u, isU := unconv(st.Val).(*ssa.UnOp); isU && u.Op == token.MUL {
				backing[u.X] = true
			}
		}
	})
	eachInstr(initFn, func(in ssa.Instruction) {
		st, isSt := in.(*ssa.Store)
		if !isSt {
			return
		}
		ia, isIA := st.Addr.(*ssa.IndexAddr)
		if !isIA || !backing[ia.X] {
			return
		}
		if s, isC := constString(st.Val); isC {
			out = append(out, s)
		} else {
			ok = false
		}
	})
	// assigned outside init?
	for _, m := range g.Pkg.Members {
		fn, isFn := m.(*ssa.Function)
		if !isFn || fn == initFn {
			continue
		}
		var fns []*ssa.Function
		fns = append(fns, fn)
		fns = append(fns, fn.AnonFuncs...)
		for _, f2 := range fns {
			eachInstr(f2, func(in ssa.Instruction) {
				if st, isSt := in.(*ssa.Store); isSt {
					if st.Addr == ssa.Value(g) {
						ok = false
					}
					if ia, isIA := st.Addr.(*ssa.IndexAddr); isIA && ia.X == ssa.Value(g) {
						ok = false
					}
				}
			})
		}
	}
	return out, ok && len(out) > 0
}

// tableElementOf: v is an element read from a package-level array / slice variable (x[i], also through the
// value copy a range loop makes); returns that variable.
func tableElementOf(v ssa.Value) *ssa.Global {
	var base ssa.Value
	switch x := v.(type) {
	case *ssa.Index:
		base = x.X
	case *ssa.UnOp:
		if ia, ok := x.X.(*ssa.IndexAddr); ok && x.Op == token.MUL {
			base = ia.X
		}
	}
	if base == nil {
		return nil
	}
	if g, ok := base.(*ssa.Global); ok {
		return g
	}
	if u, ok := base.(*ssa.UnOp); ok && u.Op == token.MUL {
		if g, ok := u.X.(*ssa.Global); ok {
			return g
		}
	}
	return nil
}

// globalIntTable: the integer constants a package-level array / slice variable is initialised with.
func globalIntTable(g *ssa.Global) (out []int64, ok bool) {
	if g == nil || g.Pkg == nil {
		return nil, false
	}
	initFn := g.Pkg.Func("init")
	if initFn == nil {
		return nil, false
	}
	ok = true
	backing := map[ssa.Value]bool{ssa.Value(g): true}
	eachInstr(initFn, func(in ssa.Instruction) {
		if st, isSt := in.(*ssa.Store); isSt && st.Addr == ssa.Value(g) {
			if sl, isSl := unconv(st.Val).(*ssa.Slice); isSl {
				backing[sl.X] = true
			}
			if u, isU := unconv(st.Val).(*ssa.UnOp); isU && u.Op == token.MUL {
				backing[u.X] = true
			}
		}
	})
	eachInstr(initFn, func(in ssa.Instruction) {
		st, isSt := in.(*ssa.Store)
		if !isSt {
			return
		}
		ia, isIA := st.Addr.(*ssa.IndexAddr)
		if !isIA || !backing[ia.X] {
			return
		}
		if k, isC := constInt(st.Val); isC {
			out = append(out, k)
		} else {
			ok = false
		}
	})
	for _, m := range g.Pkg.Members {
		fn, isFn := m.(*ssa.Function)
		if !isFn || fn == initFn {
			continue
		}
		for _, f2 := range append([]*ssa.Function{fn}, fn.AnonFuncs...) {
			eachInstr(f2, func(in ssa.Instruction) {
				if st, isSt := in.(*ssa.Store); isSt {
					if st.Addr == ssa.Value(g) {
						ok = false
					}
					if ia, isIA := st.Addr.(*ssa.IndexAddr); isIA && ia.X == ssa.Value(g) {
						ok = false
					}
				}
			})
		}
	}
	return out, ok && len(out) > 0
}

// loopPredicateFalseFacts: for a bool-valued helper with a membership loop, the facts that hold whenever it
// returns false: the branch facts dominating each `return false`, intersected, plus "x==k=false" for every
// constant k of a package-level table when the function can only reach that return by exhausting a loop whose
// body returns true on x == table[i].
func loopPredicateFalseFacts(h *ssa.Function) map[string]bool {
	var common map[string]bool
	eachInstr(h, func(in ssa.Instruction) {
		ret, ok := in.(*ssa.Return)
		if !ok || len(ret.Results) != 1 {
			return
		}
		b, isC := constBool(ret.Results[0])
		if !isC {
			// a non-constant result: give up on this helper
			common = map[string]bool{}
			return
		}
		if b {
			return
		}
		cur := map[string]bool{}
		for k := range factStrs(h, ret) {
			cur[k] = true
		}
		// membership tests that lead to `return true` and are evaluated for every element before this return is reached
		eachInstr(h, func(i2 ssa.Instruction) {
			iff, ok := i2.(*ssa.If)
			if !ok {
				return
			}
			bo, ok := iff.Cond.(*ssa.BinOp)
			if !ok || bo.Op != token.EQL {
				return
			}
			var subj, elem ssa.Value
			if g := tableElementOf(unconv(bo.Y)); g != nil {
				subj, elem = bo.X, bo.Y
			} else if g := tableElementOf(unconv(bo.X)); g != nil {
				subj, elem = bo.Y, bo.X
			}
			if elem == nil {
				return
			}
			// the true edge returns true
			tb := iff.Block().Succs[0]
			rt, isRet := tb.Instrs[len(tb.Instrs)-1].(*ssa.Return)
			if !isRet || len(rt.Results) != 1 {
				return
			}
			if v, isC := constBool(rt.Results[0]); !isC || !v {
				return
			}
			// the loop is a range over the whole table: its exit (to this return) is the exhausted edge
			if !reachableInstr(iff, iff, nil) || !reachableInstr(iff, ret, nil) {
				return
			}
			tab, ok := globalIntTable(tableElementOf(unconv(elem)))
			if !ok {
				return
			}
			// the return must not be reachable from the function entry without passing the loop's test at least ... the
			// loop header dominates it and every iteration passes the test: require the test's block to dominate the
			// loop's back edge, i.e. no `continue` before it
			hdr := loopHeaderOf(iff.Block())
			if hdr == nil || !hdr.Dominates(ret.Block()) {
				return
			}
			for _, k := range tab {
				cur[fmt.Sprintf("%s==%d=false", atomStr(unconvNum(subj)), k)] = true
			}
		})
		if common == nil {
			common = cur
		} else {
			for k := range common {
				if !cur[k] {
					delete(common, k)
				}
			}
		}
	})
	if common == nil {
		return map[string]bool{}
	}
	return common
}

// loopHeaderOf: the innermost block that dominates b and is reachable from b (the header of the loop b is in).
func loopHeaderOf(b *ssa.BasicBlock) *ssa.BasicBlock {
	var hdr *ssa.BasicBlock
	for d := b; d != nil; d = d.Idom() {
		// is there a path b -> ... -> d ?  (then d is on a cycle with b and dominates it: a loop header)
		seen := map[*ssa.BasicBlock]bool{}
		st := append([]*ssa.BasicBlock{}, b.Succs...)
		found := false
		for len(st) > 0 && !found {
			x := st[len(st)-1]
			st = st[:len(st)-1]
			if x == d {
				found = true
				break
			}
			if seen[x] {
				continue
			}
			seen[x] = true
			st = append(st, x.Succs...)
		}
		if found {
			hdr = d
		}
	}
	return hdr
}

// deepMarker lifts a marker predicate over calls of same-package helpers: a call counts as the marker when every
// path through the helper passes one — directly, in a further helper, or inside the function literal that this
// call hands to the helper and that the helper invokes on every path (p.modify(func(state) { ...marker... })).
func deepMarker(base func(ssa.Instruction) bool, depth int) func(ssa.Instruction) bool {
	var self func(in ssa.Instruction) bool
	self = func(in ssa.Instruction) bool {
		if base(in) {
			return true
		}
		call, ok := in.(*ssa.Call)
		if !ok || depth > 2 {
			return false
		}
		h := helperBody(call)
		if h == nil {
			return false
		}
		inner := deepMarker(base, depth+1)
		args := callArgs(call)
		isM := func(in2 ssa.Instruction) bool {
			if inner(in2) {
				return true
			}
			c2, ok := in2.(*ssa.Call)
			if !ok {
				return false
			}
			// the helper invokes one of its function-typed parameters: look into what this call bound to it
			p, ok := cellValue(c2.Call.Value).(*ssa.Parameter)
			if !ok || p.Parent() != h {
				return false
			}
			for ai, q := range h.Params {
				if q != p || ai >= len(args) {
					continue
				}
				cl := closureFn(args[ai])
				if cl == nil || cl.Blocks == nil {
					return false
				}
				return len(exitsFromEntryAvoiding(cl, inner, nil)) == 0
			}
			return false
		}
		return len(exitsFromEntryAvoiding(h, isM, nil)) == 0
	}
	return self
}

// argOf: the argument a call passes for the callee's parameter that the rules know as name (parameters of
// unexported functions get reordered; names survive, see pname); the argument at index fallback if the callee
// cannot be resolved or has no such parameter. Indexes count the receiver, as call.Common().Args / fn.Params do
// for static calls.
func argOf(call ssa.CallInstruction, name string, fallback int) ssa.Value {
	args := call.Common().Args
	if g := unwrapSynthetic(staticCallee(call)); g != nil && len(g.Params) == len(args) {
		for i, p := range g.Params {
			if pname(p) == name {
				return args[i]
			}
		}
	}
	if fallback < len(args) {
		return args[fallback]
	}
	return nil
}

var globalIfaceMemo = map[*ssa.Global]types.Type{}

// globalIfaceConcrete: the concrete type of the one value a package-level interface variable holds (assigned by the
// package initialiser, never written anywhere else in its package); nil if there is no such type.
func globalIfaceConcrete(g *ssa.Global) types.Type {
	if t, done := globalIfaceMemo[g]; done {
		return t
	}
	globalIfaceMemo[g] = nil
	if g.Pkg == nil || !isModPath(g.Pkg.Pkg.Path()) {
		return nil
	}
	if _, isI := g.Type().(*types.Pointer).Elem().Underlying().(*types.Interface); !isI {
		return nil
	}
	var val types.Type
	n := 0
	scan := func(f2 *ssa.Function, isInit bool) {
		eachInstr(f2, func(in ssa.Instruction) {
			if st, ok := in.(*ssa.Store); ok && st.Addr == ssa.Value(g) {
				n++
				if mi, ok := st.Val.(*ssa.MakeInterface); ok && isInit {
					val = mi.X.Type()
				} else {
					n += 100
				}
			}
		})
	}
	for _, m := range g.Pkg.Members {
		switch x := m.(type) {
		case *ssa.Function:
			var all []*ssa.Function
			var collect func(f *ssa.Function)
			collect = func(f *ssa.Function) {
				all = append(all, f)
				for _, a := range f.AnonFuncs {
					collect(a)
				}
			}
			collect(x)
			for _, f2 := range all {
				scan(f2, x.Name() == "init")
			}
		case *ssa.Type:
			for _, recv := range []types.Type{x.Type(), types.NewPointer(x.Type())} {
				ms := g.Pkg.Prog.MethodSets.MethodSet(recv)
				for i := 0; i < ms.Len(); i++ {
					if mf := g.Pkg.Prog.MethodValue(ms.At(i)); mf != nil && mf.Blocks != nil {
						scan(mf, false)
					}
				}
			}
		}
	}
	if n == 1 && val != nil {
		globalIfaceMemo[g] = val
		return val
	}
	return nil
}

// liftPair: two instructions, each given with the chain of call sites through which its body is entered from a
// common anchor, as instructions of the deepest body both belong to (a helper is represented there by its call site).
func liftPair(a ssa.Instruction, actx dctx, b ssa.Instruction, bctx dctx) (ssa.Instruction, ssa.Instruction) {
	k := 0
	for k < len(actx) && k < len(bctx) && actx[k] == bctx[k] {
		k++
	}
	if len(actx) > k {
		a = actx[k]
	}
	if len(bctx) > k {
		b = bctx[k]
	}
	return a, b
}

// returnsResultOf: the function containing call hands result #idx of call back as its own result #idx on some
// return (`return helper(x)` or `v, err := helper(x); ...; return v, nil`).
func returnsResultOf(call *ssa.Call, idx int) bool {
	f := call.Parent()
	found := false
	eachInstr(f, func(in ssa.Instruction) {
		ret, ok := in.(*ssa.Return)
		if !ok || isRecoverReturn(ret) {
			return
		}
		vs := retVals(ret)
		if idx >= len(vs) {
			return
		}
		v := resolveVal(vs[idx])
		if v == ssa.Value(call) {
			found = true
		}
		if ex, isE := v.(*ssa.Extract); isE && ex.Tuple == ssa.Value(call) && ex.Index == idx {
			found = true
		}
	})
	return found
}

// anchorSites: the instructions of the anchor function f that stand for instruction in of g, where g is f itself, a
// function literal created (at any nesting) inside f — the literal takes effect where it is created and handed on —
// or a helper f calls (transitively, bounded): the call sites in f.
func anchorSites(li *LockInfo, f, g *ssa.Function, in ssa.Instruction, depth int) []ssa.Instruction {
	if g == f {
		return []ssa.Instruction{in}
	}
	if depth > 3 || g == nil {
		return nil
	}
	var out []ssa.Instruction
	if p := g.Parent(); p != nil {
		eachInstr(p, func(i2 ssa.Instruction) {
			if mc, ok := i2.(*ssa.MakeClosure); ok && mc.Fn == ssa.Value(g) {
				// where the literal is used: the calls it is passed to (or the creation itself)
				used := false
				if refs := mc.Referrers(); refs != nil {
					for _, ref := range *refs {
						if call, isC := ref.(*ssa.Call); isC {
							used = true
							out = append(out, anchorSites(li, f, p, call, depth+1)...)
						}
					}
				}
				if !used {
					out = append(out, anchorSites(li, f, p, mc, depth+1)...)
				}
			}
		})
		return out
	}
	for _, cs := range li.Callers[g] {
		out = append(out, anchorSites(li, f, cs.in.Parent(), cs.in, depth+1)...)
	}
	return out
}

// forwardedLoad: x is a load of a local cell that was stored to earlier in the same block with no call in between
// (`size, err = io.Copy(...); if err != nil` where err is a named result captured by a deferred literal): the value
// stored. nil otherwise.
func forwardedLoad(x ssa.Value) ssa.Value {
	ld, ok := x.(*ssa.UnOp)
	if !ok || ld.Op != token.MUL {
		return nil
	}
	cell, ok := ld.X.(*ssa.Alloc)
	if !ok {
		return nil
	}
	b := ld.Block()
	var val ssa.Value
	for _, in := range b.Instrs {
		if in == ssa.Instruction(ld) {
			break
		}
		switch y := in.(type) {
		case *ssa.Store:
			if y.Addr == ssa.Value(cell) {
				val = y.Val
			}
		case *ssa.Call, *ssa.Defer, *ssa.Go:
			val = nil
		}
	}
	return val
}

// funcValueBody: the body a func-typed value runs and the parameters of that body that correspond to the arguments of
// a call through the value: a function literal (its own parameters), a method value x.m (the method, without its
// receiver), a named function.
func funcValueBody(v ssa.Value) (*ssa.Function, []*ssa.Parameter) {
	switch x := v.(type) {
	case *ssa.MakeClosure:
		fn, ok := x.Fn.(*ssa.Function)
		if !ok {
			return nil, nil
		}
		if strings.HasSuffix(fn.Name(), "$bound") || strings.Contains(fn.Synthetic, "bound method wrapper") {
			if m := unwrapSynthetic(fn); m != nil && m != fn && m.Blocks != nil && len(m.Params) > 0 {
				return m, m.Params[1:]
			}
			return nil, nil
		}
		return fn, fn.Params
	case *ssa.Function:
		return x, x.Params
	case *ssa.ChangeType:
		return funcValueBody(x.X)
	}
	return nil, nil
}
