package main

// Reporting: obligations, violations, known findings, evidence.

import (
	"bufio"
	"encoding/json"
	"fmt"
	"os"
	"path/filepath"
	"sort"
	"strings"
	"time"
)

type Oblig struct {
	Rule   string `json:"rule"` // e.g. "C12.R1"
	Key    string `json:"key"`  // construct key (rule+construct identity, never a line)
	Pos    string `json:"pos"`  // file:line for the reader
	OK     bool   `json:"ok"`
	How    string `json:"how"`                     // "rule" | "table" | "floor" | "undecided"
	Detail string `json:"detail"`                  // why it holds / what fails
	Path   bool   `json:"path_argument,omitempty"` // needed a path/provenance argument (non-trivial)
}

type Report struct {
	Prop    string
	Tier    string
	Start   time.Time
	Obligs  []Oblig
	Notes   []string
	Decided []string // clauses decided (text for evidence)
	NotDec  []string // clauses not decided
	Assume  []string
	Exhaust bool
	seen    map[string]bool
	ctx     *Ctx
}

func NewReport(prop, tier string, c *Ctx) *Report {
	return &Report{Prop: prop, Tier: tier, Start: time.Now(), seen: map[string]bool{}, ctx: c, Notes: append([]string(nil), aliasNotes...)}
}

func (r *Report) add(o Oblig) {
	id := o.Rule + "\x00" + o.Key
	if r.seen[id] {
		// Same construct seen through another instantiation: a failure wins.
		if !o.OK {
			for i := range r.Obligs {
				if r.Obligs[i].Rule == o.Rule && r.Obligs[i].Key == o.Key && r.Obligs[i].OK {
					r.Obligs[i] = o
				}
			}
		}
		return
	}
	r.seen[id] = true
	r.Obligs = append(r.Obligs, o)
}

// Ok records a discharged obligation that needed a path/provenance argument.
func (r *Report) Ok(rule, key, pos, why string) {
	r.add(Oblig{Rule: rule, Key: key, Pos: pos, OK: true, How: "rule", Detail: why, Path: true})
}

// OkT records an obligation discharged by a table/enumeration lookup.
func (r *Report) OkT(rule, key, pos, why string) {
	r.add(Oblig{Rule: rule, Key: key, Pos: pos, OK: true, How: "table", Detail: why})
}

func (r *Report) Fail(rule, key, pos, what string) {
	r.add(Oblig{Rule: rule, Key: key, Pos: pos, OK: false, How: "rule", Detail: what, Path: true})
}

func (r *Report) Undecided(rule, key, pos, what string) {
	r.add(Oblig{Rule: rule, Key: key, Pos: pos, OK: false, How: "undecided", Detail: "undecided: " + what})
}

// Check is Ok/Fail by condition.
func (r *Report) Check(cond bool, rule, key, pos, okWhy, failWhat string) bool {
	if cond {
		r.Ok(rule, key, pos, okWhy)
	} else {
		r.Fail(rule, key, pos, failWhat)
	}
	return cond
}

// Floor fails the rule if fewer than min instances were matched.
func (r *Report) Floor(rule string, n, min int, what string) {
	if n < min {
		r.add(Oblig{Rule: rule, Key: "instance-floor:" + what, Pos: "-", OK: false, How: "floor",
			Detail: fmt.Sprintf("reason=instance-floor: matched %d %s, floor %d (rule would pass vacuously)", n, what, min)})
	} else {
		r.add(Oblig{Rule: rule, Key: "instance-floor:" + what, Pos: "-", OK: true, How: "floor",
			Detail: fmt.Sprintf("matched %d %s (floor %d)", n, what, min)})
	}
}

func (r *Report) Count(rule string) (n, ok int) {
	for _, o := range r.Obligs {
		if o.Rule == rule {
			n++
			if o.OK {
				ok++
			}
		}
	}
	return
}

type finding struct {
	state, prop, rule, key, what string
}

func loadFindings(path string) ([]finding, error) {
	f, err := os.Open(path)
	if err != nil {
		if os.IsNotExist(err) {
			return nil, nil
		}
		return nil, err
	}
	defer f.Close()
	var out []finding
	sc := bufio.NewScanner(f)
	sc.Buffer(make([]byte, 1<<20), 1<<20)
	for sc.Scan() {
		line := sc.Text()
		if strings.HasPrefix(line, "#") || strings.TrimSpace(line) == "" {
			continue
		}
		parts := strings.Split(line, "\t")
		if len(parts) < 5 {
			continue
		}
		out = append(out, finding{parts[0], parts[1], parts[2], parts[3], parts[4]})
	}
	return out, sc.Err()
}

// Finish prints the verdict, writes the replay report and the evidence file,
// and returns the process exit code.
var outDirGlobal string

func (r *Report) Finish(verifDir string) int {
	out := outDirGlobal
	if out == "" {
		out = verifDir
	}
	findings, err := loadFindings(filepath.Join(verifDir, "known-findings.tsv"))
	if err != nil {
		fmt.Printf("error reading known-findings.tsv: %v\n", err)
	}
	known := map[string]finding{}
	for _, f := range findings {
		if f.state == "open" && f.prop == r.Prop {
			known[f.rule+"\x00"+f.key] = f
		}
	}
	sort.SliceStable(r.Obligs, func(i, j int) bool {
		a, b := r.Obligs[i], r.Obligs[j]
		if a.Rule != b.Rule {
			return a.Rule < b.Rule
		}
		return a.Key < b.Key
	})
	var viol, knownHit []Oblig
	matched := map[string]bool{}
	for _, o := range r.Obligs {
		if o.OK {
			continue
		}
		id := o.Rule + "\x00" + o.Key
		if f, ok := known[id]; ok {
			matched[id] = true
			o.Detail = f.what + " [" + o.Detail + "]"
			knownHit = append(knownHit, o)
		} else {
			viol = append(viol, o)
		}
	}
	nOK, nPath := 0, 0
	perRule := map[string][2]int{}
	for _, o := range r.Obligs {
		pr := perRule[o.Rule]
		pr[0]++
		if o.OK {
			nOK++
			pr[1]++
			if o.Path {
				nPath++
			}
		}
		perRule[o.Rule] = pr
	}
	rules := make([]string, 0, len(perRule))
	for k := range perRule {
		rules = append(rules, k)
	}
	sort.Strings(rules)
	fmt.Printf("== %s tier=%s: %d obligations, %d discharged, %d known findings, %d violations\n", r.Prop, r.Tier, len(r.Obligs), nOK, len(knownHit), len(viol))
	for _, k := range rules {
		fmt.Printf("   %-8s %d/%d\n", k, perRule[k][1], perRule[k][0])
	}
	if os.Getenv("VERIF_VERBOSE") != "" {
		for _, o := range r.Obligs {
			fmt.Printf("   [%v] %s | %s | %s | %s\n", o.OK, o.Rule, o.Key, o.Pos, o.Detail)
		}
	}
	for _, o := range knownHit {
		fmt.Printf("KNOWN-FINDING: property=%s %s %s (%s) %s\n", r.Prop, o.Rule, o.Key, o.Pos, o.Detail)
	}
	for id, f := range known {
		if !matched[id] {
			fmt.Printf("note: known finding no longer reproduced (stale entry): %s %s\n", f.rule, f.key)
		}
	}
	code := 0
	if len(viol) > 0 {
		code = 1
		os.MkdirAll(filepath.Join(out, "reports"), 0o755)
		rp := filepath.Join(out, "reports", fmt.Sprintf("%s-%s.json", r.Prop, r.Tier))
		b, _ := json.MarshalIndent(map[string]any{"property": r.Prop, "tier": r.Tier, "violations": viol, "replay": fmt.Sprintf("./run.sh %s %s", r.Prop, r.Tier)}, "", " ")
		os.WriteFile(rp, b, 0o644)
		for _, o := range viol {
			fmt.Printf("  FAIL %s %s at %s: %s\n", o.Rule, o.Key, o.Pos, o.Detail)
		}
		fmt.Printf("VIOLATION property=%s replay=%s\n", r.Prop, rp)
	}
	r.writeEvidence(out, nOK, nPath, len(viol), knownHit, perRule)
	return code
}

func (r *Report) writeEvidence(verifDir string, nOK, nPath, nViol int, knownHit []Oblig, perRule map[string][2]int) {
	var samples []any
	bySeenRule := map[string]int{}
	for _, o := range r.Obligs {
		if bySeenRule[o.Rule] >= 2 || len(samples) >= 24 {
			continue
		}
		bySeenRule[o.Rule]++
		v := "discharged"
		if !o.OK {
			v = "fails"
		}
		samples = append(samples, map[string]string{"rule": o.Rule, "construct": o.Key, "at": o.Pos, "verdict": v, "reason": o.Detail})
	}
	if len(samples) == 0 {
		samples = append(samples, "no obligations enumerated")
	}
	pr := map[string]string{}
	for k, v := range perRule {
		pr[k] = fmt.Sprintf("%d/%d", v[1], v[0])
	}
	kf := []string{}
	for _, o := range knownHit {
		kf = append(kf, o.Rule+" "+o.Key)
	}
	expl := "Static analysis of /repo's current working tree (go/packages + go/ssa + call graph). Decided clauses: " +
		strings.Join(r.Decided, "; ") + ". NOT decided (out of reach of static analysis here): " + strings.Join(r.NotDec, "; ") + "."
	seed := 0
	fmt.Sscanf(os.Getenv("VERIF_SEED"), "%d", &seed)
	nfn, npk := 0, 0
	if r.ctx != nil {
		nfn, npk = len(r.ctx.ModFns), r.ctx.NumPkgs
	}
	ev := map[string]any{
		"property_id": r.Prop,
		"tier":        r.Tier,
		"seed":        seed,
		"level":       "other",
		"coverage": map[string]any{
			"explanation":         expl,
			"obligations":         len(r.Obligs),
			"discharged":          nOK,
			"evaluations":         len(r.Obligs),
			"distinct_nontrivial": nPath,
			"rule":                "one obligation per rule+construct (function, call site, field, table row) enumerated from the type-checked SSA program; non-trivial = discharged by a dominance / path / provenance / lock-set argument rather than a table lookup or instance-floor",
			"samples":             samples,
			"per_rule":            pr,
			"functions_analysed":  nfn,
			"packages":            npk,
			"exhaustive":          r.Exhaust,
			"checker_cmd":         fmt.Sprintf("./run.sh %s %s", r.Prop, r.Tier),
			"known_findings":      kf,
			"notes":               r.Notes,
		},
		"assumptions": append([]string{
			"Go type checker and x/tools SSA builder are correct",
			"call graph is CHA refined by VTA (over-approximation of dynamic calls)",
			"standard-library contracts named in the rules (net/http, os, sync, singleflight) are as documented",
			"analysis-time overlay stubs for the generated csp header and embedded dashboard build",
		}, r.Assume...),
		"wall_s":     time.Since(r.Start).Seconds(),
		"violations": nViol,
	}
	os.MkdirAll(filepath.Join(verifDir, "evidence"), 0o755)
	b, _ := json.MarshalIndent(ev, "", " ")
	os.WriteFile(filepath.Join(verifDir, "evidence", r.Prop+".json"), b, 0o644)
}
