package main

import (
	"flag"
	"fmt"
	"os"
	"path/filepath"
	"runtime/debug"
	"sort"
	"strings"
	"time"

	"golang.org/x/tools/go/ssa"
)

type propFn func(c *Ctx, r *Report)

var registry = map[string]propFn{}

func register(id string, fn propFn) { registry[id] = fn }

func main() {
	repo := flag.String("repo", "/repo", "repository root to analyse")
	tier := flag.String("tier", "quick", "quick|thorough")
	verif := flag.String("verif", "", "verif dir (default: parent of binary dir)")
	outDir := flag.String("out", "", "directory for evidence/ and reports/ (default: verif dir)")
	flag.Usage = func() {
		fmt.Fprintf(os.Stderr, "usage: checker [-repo dir] [-tier quick|thorough] <C01..C20|dump fn|list>\n")
	}
	flag.Parse()
	if flag.NArg() < 1 {
		flag.Usage()
		os.Exit(2)
	}
	if *verif == "" {
		exe, _ := os.Executable()
		*verif = filepath.Dir(filepath.Dir(exe))
	}
	verifDirGlobal = *verif
	if *outDir == "" {
		*outDir = *verif
	}
	outDirGlobal = *outDir
	cmd := flag.Arg(0)
	start := time.Now()
	abs, _ := filepath.Abs(*repo)
	if cmd == "list" {
		ids := []string{}
		for k := range registry {
			ids = append(ids, k)
		}
		sort.Strings(ids)
		fmt.Println(strings.Join(ids, " "))
		return
	}
	c, err := Load(abs, *tier)
	if err != nil {
		fmt.Printf("load failed: %v\n", err)
		if fn, ok := registry[cmd]; ok {
			_ = fn
			r := NewReport(cmd, *tier, nil)
			r.Start = start
			r.Undecided(cmd+".E0", "load", "-", err.Error())
			os.Exit(r.Finish(*verif))
		}
		os.Exit(1)
	}
	fmt.Printf("loaded %d module packages, %d module function bodies, whole=%v in %.1fs\n", c.NumPkgs, len(c.ModFns), c.Whole, time.Since(start).Seconds())
	if cmd == "anchors" {
		dumpAnchors(c, os.Stdout)
		return
	}
	applyAnchorAliases(c, *verif)
	for _, n := range aliasNotes {
		fmt.Println(n)
	}
	switch cmd {
	case "dump":
		for _, fn := range c.ModFns {
			if flag.NArg() > 1 && !strings.Contains(fn.String(), flag.Arg(1)) {
				continue
			}
			fmt.Printf("### %s  key=%s synthetic=%q origin=%v\n", fn.String(), fnKey(fn), fn.Synthetic, fn.Origin() != nil)
			if flag.NArg() > 2 && flag.Arg(2) == "-v" {
				fn.WriteTo(os.Stdout)
			}
		}
		return
	case "facts":
		for _, fn := range c.Concrete() {
			if flag.NArg() > 1 && !strings.Contains(fnKey(fn), flag.Arg(1)) {
				continue
			}
			fmt.Printf("### %s\n", fnKey(fn))
			eachInstr(fn, func(in ssa.Instruction) {
				switch x := in.(type) {
				case *ssa.Return:
					var vs []string
					for _, v := range retVals(x) {
						vs = append(vs, atomStr(v))
					}
					fmt.Printf("  return %v at %s\n      facts: %v\n", vs, c.InstrPos(in), keysOf(factStrs(fn, in)))
				case *ssa.Call:
					fmt.Printf("  call %s at %s\n      facts: %v\n", atomStr(x), c.InstrPos(in), keysOf(factStrs(fn, in)))
				case *ssa.Store:
					fmt.Printf("  store %s <- %s at %s\n      facts: %v\n", atomStr(x.Addr), atomStr(x.Val), c.InstrPos(in), keysOf(factStrs(fn, in)))
				}
			})
		}
		return
	case "table":
		li := BuildLocks(c)
		bs := &boolSummer{li: li}
		for _, fn := range c.Concrete() {
			if flag.NArg() > 1 && !strings.Contains(fnKey(fn), flag.Arg(1)) {
				continue
			}
			idx := 0
			if flag.NArg() > 2 {
				fmt.Sscanf(flag.Arg(2), "%d", &idx)
			}
			atoms, rows, ok := bs.boolTable(fn, idx)
			fmt.Printf("### %s ok=%v atoms=%v rows=%d\n", fnKey(fn), ok, atoms, len(rows))
			seen := map[string]bool{}
			for _, r := range rows {
				k := fmt.Sprintf("  %v <= %s", r.result, r.path)
				if !seen[k] {
					seen[k] = true
					fmt.Println(k)
				}
			}
		}
		return
	case "extcalls":
		// external (non-module) callees of the module functions reachable from the C16 roots
		li := BuildLocks(c)
		rr := NewReport("C16", *tier, c)
		reach, _ := allReach(li, panicRootFns(c, rr, "C16.R1"))
		cnt := map[string]int{}
		for f := range reach {
			eachCall(f, func(call ssa.CallInstruction, n string) {
				if n == "" || strings.HasPrefix(n, "reservoir/") || strings.HasPrefix(n, "(reservoir/") || strings.HasPrefix(n, "(*reservoir/") {
					return
				}
				cnt[n]++
			})
		}
		var ks []string
		for k := range cnt {
			ks = append(ks, k)
		}
		sort.Strings(ks)
		for _, k := range ks {
			fmt.Printf("%4d %s\n", cnt[k], k)
		}
		return
	case "fns":
		for _, fn := range c.Concrete() {
			fmt.Println(fnKey(fn), "\t", fn.String())
		}
		return
	}
	fn, ok := registry[cmd]
	if !ok {
		fmt.Printf("unknown property %q\n", cmd)
		os.Exit(2)
	}
	r := NewReport(cmd, *tier, c)
	r.Start = start
	func() {
		defer func() {
			if p := recover(); p != nil {
				r.Undecided(cmd+".E0", "checker-panic", "-", fmt.Sprintf("%v\n%s", p, debug.Stack()))
			}
		}()
		fn(c, r)
	}()
	os.Exit(r.Finish(*verif))
}

var _ = ssa.NaiveForm

func keysOf(m map[string]bool) []string {
	var o []string
	for k := range m {
		o = append(o, k)
	}
	sort.Strings(o)
	return o
}
