package main

// Anchor aliasing. The rules name the functions they are anchored in ("(*reservoir/proxy.fetcher).dedupFetch").
// Renaming an unexported function changes no behaviour, so it must not unhinge a rule: tables/anchors.tsv holds a
// structural fingerprint of every module function of the tree the rules were written against; when a name of that
// table is missing from the program under analysis, a function of the same package, receiver and signature that
// carries a name unknown to the table and has the most similar body (callees, constants, fields touched) is
// taken to be the renamed one and is referred to by its old name throughout the analysis. The aliases applied are
// printed and recorded in the evidence notes.

import (
	"bufio"
	"fmt"
	"go/types"
	"os"
	"path/filepath"
	"regexp"
	"sort"
	"strings"

	"golang.org/x/tools/go/ssa"
)

// nameAlias maps the name a function carries in the analysed program to the name the rules know it by.
var nameAlias = map[string]string{}

// typeAlias does the same for named types ("reservoir/proxy.upstreamFetcher" -> "reservoir/proxy.fetcher"); it is
// applied to every type and function name the analysis prints (stripTypeArgs).
var typeAlias = map[string]string{}

func isIdentByte(b byte) bool {
	return b == '_' || b >= '0' && b <= '9' || b >= 'a' && b <= 'z' || b >= 'A' && b <= 'Z' || b >= 0x80
}

func canonTypes(s string) string {
	for from, to := range typeAlias {
		if !strings.Contains(s, from) {
			continue
		}
		var b strings.Builder
		for i := 0; i < len(s); {
			if strings.HasPrefix(s[i:], from) && (i+len(from) == len(s) || !isIdentByte(s[i+len(from)])) && (i == 0 || !isIdentByte(s[i-1]) && s[i-1] != '/') {
				b.WriteString(to)
				i += len(from)
				continue
			}
			b.WriteByte(s[i])
			i++
		}
		s = b.String()
	}
	return s
}

type typeFP struct {
	name, pkg, kind string
	fieldNames      []string
	fieldTypes      []string
	methods         map[string]bool
}

func typeFingerprints(c *Ctx) []typeFP {
	var out []typeFP
	for _, p := range c.Pkgs {
		if p.Types == nil || !isModPath(p.PkgPath) || strings.HasPrefix(p.PkgPath, "reservoir/tests") {
			continue
		}
		sc := p.Types.Scope()
		for _, n := range sc.Names() {
			tn, ok := sc.Lookup(n).(*types.TypeName)
			if !ok || tn.IsAlias() {
				continue
			}
			named, ok := tn.Type().(*types.Named)
			if !ok {
				continue
			}
			self := p.PkgPath + "." + n
			fp := typeFP{name: self, pkg: p.PkgPath, methods: map[string]bool{}}
			strip := func(t types.Type) string {
				s := rawStrip(types.TypeString(t, nil))
				return strings.ReplaceAll(s, self, "$self")
			}
			switch u := named.Underlying().(type) {
			case *types.Struct:
				fp.kind = "struct"
				for i := 0; i < u.NumFields(); i++ {
					fp.fieldNames = append(fp.fieldNames, u.Field(i).Name())
					fp.fieldTypes = append(fp.fieldTypes, strip(u.Field(i).Type()))
				}
			case *types.Interface:
				fp.kind = "interface"
				for i := 0; i < u.NumMethods(); i++ {
					fp.methods[u.Method(i).Name()] = true
				}
			default:
				fp.kind = "other:" + strip(u)
			}
			for i := 0; i < named.NumMethods(); i++ {
				fp.methods[named.Method(i).Name()] = true
			}
			out = append(out, fp)
		}
	}
	sort.Slice(out, func(i, j int) bool { return out[i].name < out[j].name })
	return out
}

// rawStrip is stripTypeArgs without alias application.
func rawStrip(s string) string {
	var b strings.Builder
	depth := 0
	for _, r := range s {
		switch r {
		case '[':
			depth++
		case ']':
			depth--
		default:
			if depth == 0 {
				b.WriteRune(r)
			}
		}
	}
	return b.String()
}

var aliasNotes []string

type anchorFP struct {
	name, pkg, recv, sig string
	feats                map[string]bool
	params               []string // parameter names (receiver first) in the tree the rules were written against
}

// baseParams: canonical function name -> parameter names the rules know.
var baseParams = map[string][]string{}
var closureParams = map[string][]string{}
var goClosures = map[string]bool{}    // function literals started by a go statement (parent$n)
var baseGlobals = map[string]string{} // "pkg.name" -> type

// globalAlias: a package-level variable renamed in place (same package, same type, the old name gone and exactly
// one new variable of that type) goes by its old name.
var globalAlias = map[string]string{} // "pkg.cur" -> "old"

func gname(g *ssa.Global) string {
	if g == nil {
		return ""
	}
	if g.Pkg != nil {
		if a, ok := globalAlias[g.Pkg.Pkg.Path()+"."+g.Name()]; ok {
			return a
		}
	}
	return g.Name()
}

// fieldAlias: a struct field that was renamed in place (same struct, same position, same type) goes by its old name.
var fieldAlias = map[*types.Var]string{}

func fname(v *types.Var) string {
	if v == nil {
		return ""
	}
	if a, ok := fieldAlias[v]; ok {
		return a
	}
	if a, ok := fieldAlias[v.Origin()]; ok { // field of an instantiated generic struct
		return a
	}
	return v.Name()
}

// pname is the name the rules know a parameter by: the name the parameter at the same position had when the rules
// were written (renaming a parameter changes no behaviour), or its present name if the function is new or its
// parameter list changed.
func pname(p *ssa.Parameter) string {
	fn := p.Parent()
	if fn == nil {
		return p.Name()
	}
	base, ok := baseParams[fnKey(fn)]
	if !ok || len(base) == 0 {
		return p.Name()
	}
	type nt struct{ name, typ string }
	var bs []nt
	for _, b := range base {
		n, t := b, ""
		if i := strings.Index(b, ":"); i >= 0 {
			n, t = b[:i], b[i+1:]
		}
		bs = append(bs, nt{n, t})
	}
	curNames := map[string]bool{}
	for _, q := range fn.Params {
		curNames[q.Name()] = true
	}
	// the name is one the rules know for this function: nothing was renamed (parameters may have been reordered)
	for _, b := range bs {
		if b.name == p.Name() {
			return p.Name()
		}
	}
	ptyp := canonTypes(rawStrip(types.TypeString(p.Type(), nil)))
	idx := -1
	for i, q := range fn.Params {
		if q == p {
			idx = i
		}
	}
	// same position, same type, and the old name is gone: renamed in place
	if len(bs) == len(fn.Params) && idx >= 0 && canonTypes(bs[idx].typ) == ptyp && !curNames[bs[idx].name] {
		return bs[idx].name
	}
	// otherwise: the one old parameter of this type whose name is gone, if this is the one new parameter of this type
	var cands []string
	for _, b := range bs {
		if canonTypes(b.typ) == ptyp && !curNames[b.name] {
			cands = append(cands, b.name)
		}
	}
	nNew := 0
	known := map[string]bool{}
	for _, b := range bs {
		known[b.name] = true
	}
	for _, q := range fn.Params {
		if !known[q.Name()] && canonTypes(rawStrip(types.TypeString(q.Type(), nil))) == ptyp {
			nNew++
		}
	}
	if len(cands) == 1 && nNew == 1 {
		return cands[0]
	}
	return p.Name()
}

func rawFnKey(fn *ssa.Function) string {
	o := originOf(fn)
	return stripTypeArgs(o.String()) // with type aliases applied, without function aliases
}

func fingerprint(fn *ssa.Function) anchorFP {
	fp := anchorFP{name: rawFnKey(fn), pkg: originPkgPath(fn), feats: map[string]bool{}}
	sig := fn.Signature
	if o := originOf(fn); o != nil {
		sig = o.Signature
	}
	if sig.Recv() != nil {
		fp.recv = stripTypeArgs(types.TypeString(sig.Recv().Type(), nil))
	}
	var ps, rs []string
	for i := 0; i < sig.Params().Len(); i++ {
		ps = append(ps, stripTypeArgs(types.TypeString(sig.Params().At(i).Type(), nil)))
	}
	for i := 0; i < sig.Results().Len(); i++ {
		rs = append(rs, stripTypeArgs(types.TypeString(sig.Results().At(i).Type(), nil)))
	}
	fp.sig = "(" + strings.Join(ps, ",") + ")(" + strings.Join(rs, ",") + ")"
	var visit func(f *ssa.Function)
	visit = func(f *ssa.Function) {
		for _, b := range f.Blocks {
			for _, in := range b.Instrs {
				switch x := in.(type) {
				case ssa.CallInstruction:
					cc := x.Common()
					if cc.IsInvoke() {
						fp.feats["invoke:"+cc.Method.Name()] = true
					} else if g := staticCallee(x); g != nil {
						if isModPath(originPkgPath(g)) {
							// a sibling may have been renamed as well: use what does not change with its name
							gs := originOf(g).Signature
							fp.feats["modcall:"+originPkgPath(g)+":"+stripTypeArgs(types.TypeString(gs, nil))] = true
						} else {
							fp.feats["call:"+stripTypeArgs(originOf(g).String())] = true
						}
					} else if bi, ok := cc.Value.(*ssa.Builtin); ok {
						fp.feats["builtin:"+bi.Name()] = true
					}
				case *ssa.FieldAddr:
					if st := derefStruct(x.X.Type()); st != nil {
						fp.feats["field:"+st.Field(x.Field).Name()] = true
					}
				case *ssa.Field:
					if st := derefStruct(x.X.Type()); st != nil {
						fp.feats["field:"+st.Field(x.Field).Name()] = true
					}
				}
				for _, op := range in.Operands(nil) {
					if op == nil || *op == nil {
						continue
					}
					if s, ok := constString(*op); ok && len(s) > 0 && len(s) <= 60 && !strings.ContainsAny(s, "\t\n") {
						fp.feats["str:"+s] = true
					}
					if g, ok := (*op).(*ssa.Global); ok {
						fp.feats["global:"+g.Name()] = true
					}
				}
			}
		}
		for _, a := range f.AnonFuncs {
			visit(a)
		}
	}
	visit(fn)
	return fp
}

func anchorFuncs(c *Ctx) []*ssa.Function {
	var out []*ssa.Function
	seen := map[string]bool{}
	for _, fn := range c.ModFns {
		if fn.Parent() != nil || strings.HasPrefix(originPkgPath(fn), "reservoir/tests") {
			continue
		}
		if fn.Synthetic != "" && !strings.Contains(fn.Synthetic, "instance") {
			continue
		}
		k := rawFnKey(fn)
		if seen[k] || strings.HasSuffix(k, ".init") || strings.Contains(k, ".init#") {
			continue
		}
		seen[k] = true
		out = append(out, fn)
	}
	return out
}

// dumpAnchors writes the fingerprint table for the program loaded in c.
func dumpAnchors(c *Ctx, w *os.File) {
	var lines []string
	for _, fn := range anchorFuncs(c) {
		fp := fingerprint(fn)
		var fs []string
		for k := range fp.feats {
			fs = append(fs, k)
		}
		sort.Strings(fs)
		var pn []string
		for _, p := range fn.Params {
			pn = append(pn, p.Name()+":"+rawStrip(types.TypeString(p.Type(), nil)))
		}
		lines = append(lines, strings.Join([]string{fp.name, fp.pkg, fp.recv, fp.sig, strings.Join(fs, "\x1f"), strings.Join(pn, "\x1e")}, "\t"))
	}
	sort.Strings(lines)
	for _, t := range typeFingerprints(c) {
		var ms []string
		for m := range t.methods {
			ms = append(ms, m)
		}
		sort.Strings(ms)
		fmt.Fprintln(w, strings.Join([]string{"type", t.name, t.pkg, t.kind, strings.Join(t.fieldNames, ","), strings.Join(t.fieldTypes, "\x1f"), strings.Join(ms, ",")}, "\t"))
	}
	for _, p := range c.Pkgs {
		if p.Types == nil || !isModPath(p.PkgPath) || strings.HasPrefix(p.PkgPath, "reservoir/tests") {
			continue
		}
		sc := p.Types.Scope()
		for _, n := range sc.Names() {
			if v, ok := sc.Lookup(n).(*types.Var); ok {
				fmt.Fprintln(w, "global\t"+p.PkgPath+"."+n+"\t"+rawStrip(types.TypeString(v.Type(), nil)))
			}
		}
	}
	// parameter names of function literals (keyed parent$n)
	var cls []string
	for _, fn := range c.ModFns {
		if fn.Parent() == nil || strings.HasPrefix(originPkgPath(fn), "reservoir/tests") || len(fn.Params) == 0 {
			continue
		}
		var pn []string
		for _, p := range fn.Params {
			pn = append(pn, p.Name()+":"+rawStrip(types.TypeString(p.Type(), nil)))
		}
		cls = append(cls, "closure\t"+fnKey(fn)+"\t"+strings.Join(pn, "\x1e"))
	}
	for _, fn := range c.ModFns {
		if strings.HasPrefix(originPkgPath(fn), "reservoir/tests") {
			continue
		}
		for _, b := range fn.Blocks {
			for _, in := range b.Instrs {
				if g, ok := in.(*ssa.Go); ok {
					if mc, ok := g.Call.Value.(*ssa.MakeClosure); ok {
						cls = append(cls, "goclosure\t"+fnKey(mc.Fn.(*ssa.Function)))
					}
				}
			}
		}
	}
	sort.Strings(cls)
	prev := ""
	for _, l := range cls {
		if l != prev {
			fmt.Fprintln(w, l)
		}
		prev = l
	}
	fmt.Fprintln(w, "# name\tpackage\treceiver\tsignature\tfeatures (\\x1f separated) — generated by `checker anchors` from the tree the rules were written against")
	for _, l := range lines {
		fmt.Fprintln(w, l)
	}
}

func readAnchors(path string) []anchorFP {
	closureParams = map[string][]string{}
	baseGlobals = map[string]string{}
	f, err := os.Open(path)
	if err != nil {
		return nil
	}
	defer f.Close()
	var out []anchorFP
	sc := bufio.NewScanner(f)
	sc.Buffer(make([]byte, 1<<20), 1<<24)
	for sc.Scan() {
		l := sc.Text()
		if strings.HasPrefix(l, "#") || l == "" {
			continue
		}
		p := strings.Split(l, "\t")
		if len(p) == 3 && p[0] == "global" {
			baseGlobals[p[1]] = p[2]
			continue
		}
		if len(p) == 3 && p[0] == "closure" {
			closureParams[p[1]] = strings.Split(p[2], "\x1e")
			continue
		}
		if len(p) == 2 && p[0] == "goclosure" {
			goClosures[p[1]] = true
			continue
		}
		if len(p) < 5 || p[0] == "type" {
			continue
		}
		fp := anchorFP{name: p[0], pkg: p[1], recv: p[2], sig: p[3], feats: map[string]bool{}}
		for _, k := range strings.Split(p[4], "\x1f") {
			if k != "" {
				fp.feats[k] = true
			}
		}
		if len(p) > 5 && p[5] != "" {
			fp.params = strings.Split(p[5], "\x1e")
		}
		out = append(out, fp)
	}
	return out
}

func readTypeAnchors(path string) []typeFP {
	f, err := os.Open(path)
	if err != nil {
		return nil
	}
	defer f.Close()
	var out []typeFP
	sc := bufio.NewScanner(f)
	sc.Buffer(make([]byte, 1<<20), 1<<24)
	for sc.Scan() {
		p := strings.Split(sc.Text(), "\t")
		if len(p) < 7 || p[0] != "type" {
			continue
		}
		fp := typeFP{name: p[1], pkg: p[2], kind: p[3], methods: map[string]bool{}}
		if p[4] != "" {
			fp.fieldNames = strings.Split(p[4], ",")
		}
		if p[5] != "" {
			fp.fieldTypes = strings.Split(p[5], "\x1f")
		}
		for _, m := range strings.Split(p[6], ",") {
			if m != "" {
				fp.methods[m] = true
			}
		}
		out = append(out, fp)
	}
	return out
}

func sameStrings(a, b []string) bool {
	if len(a) != len(b) {
		return false
	}
	for i := range a {
		if a[i] != b[i] {
			return false
		}
	}
	return true
}

// applyTypeAliases: a named type of the table that is missing from the program, and a type of the same package
// unknown to the table with the same shape (field names, or field types, and methods), are the same type renamed.
func applyTypeAliases(c *Ctx, verifDir string) {
	typeAlias = map[string]string{}
	base := readTypeAnchors(filepath.Join(verifDir, "tables", "anchors.tsv"))
	if len(base) == 0 {
		return
	}
	baseNames := map[string]bool{}
	for _, b := range base {
		baseNames[b.name] = true
	}
	fieldAlias = map[*types.Var]string{}
	defer func() { applyFieldAliases(c, base) }()
	cur := typeFingerprints(c)
	curBy := map[string]typeFP{}
	for _, t := range cur {
		curBy[t.name] = t
	}
	used := map[string]bool{}
	for _, b := range base {
		if _, present := curBy[b.name]; present {
			continue
		}
		best, bestScore := "", 0.0
		for _, t := range cur {
			if baseNames[t.name] || used[t.name] || t.pkg != b.pkg || t.kind != b.kind {
				continue
			}
			score := 0.0
			switch {
			case b.kind == "struct" && len(b.fieldNames) > 0 && sameStrings(b.fieldNames, t.fieldNames):
				score = 0.6 + 0.4*jaccard(b.methods, t.methods)
			case b.kind == "struct" && len(b.fieldTypes) > 0 && sameStrings(b.fieldTypes, t.fieldTypes):
				score = 0.4 + 0.4*jaccard(b.methods, t.methods)
			case b.kind != "struct" && len(b.methods) > 0:
				score = 0.8 * jaccard(b.methods, t.methods)
			case b.kind != "struct":
				score = 0.3
			}
			if score > bestScore {
				best, bestScore = t.name, score
			}
		}
		if best != "" && bestScore >= 0.5 {
			used[best] = true
			typeAlias[best] = b.name
			aliasNotes = append(aliasNotes, fmt.Sprintf("type alias: %s is analysed as %s (same package and shape; score %.2f)", best, b.name, bestScore))
		}
	}
}

func jaccard(a, b map[string]bool) float64 {
	if len(a) == 0 && len(b) == 0 {
		return 1
	}
	n := 0
	for k := range a {
		if b[k] {
			n++
		}
	}
	u := len(a) + len(b) - n
	if u == 0 {
		return 0
	}
	return float64(n) / float64(u)
}

// applyAnchorAliases fills nameAlias from tables/anchors.tsv.
func applyAnchorAliases(c *Ctx, verifDir string) {
	nameAlias = map[string]string{}
	aliasNotes = nil
	applyTypeAliases(c, verifDir)
	base := readAnchors(filepath.Join(verifDir, "tables", "anchors.tsv"))
	if len(base) == 0 {
		return
	}
	baseNames := map[string]bool{}
	baseParams = map[string][]string{}
	for _, b := range base {
		baseNames[b.name] = true
		baseParams[b.name] = b.params
	}
	for k, v := range closureParams {
		baseParams[k] = v
	}
	applyGlobalAliases(c)
	cur := map[string]*ssa.Function{}
	for _, fn := range anchorFuncs(c) {
		cur[rawFnKey(fn)] = fn
	}
	type cand struct {
		missing anchorFP
		fn      *ssa.Function
		score   float64
		nCands  int
	}
	var cands []cand
	for _, b := range base {
		if cur[b.name] != nil {
			continue
		}
		var local []cand
		for name, fn := range cur {
			if baseNames[name] {
				continue // a function the rules know under this very name
			}
			fp := fingerprint(fn)
			if fp.pkg != b.pkg {
				continue
			}
			if fp.recv != b.recv {
				// a function turned into a method of (a named type over) its first parameter, or the reverse
				conv := false
				if b.recv == "" && fp.recv != "" {
					conv = funcMethodConversion(b.sig, fp.sig, fn)
				}
				if !conv {
					continue
				}
				if sc := jaccard(b.feats, fp.feats); sc >= 0.6 {
					local = append(local, cand{missing: b, fn: fn, score: sc - 0.1})
				}
				continue
			}
			sc := jaccard(b.feats, fp.feats)
			if fp.sig != b.sig {
				// a changed result list (or parameter list) is tolerated only for a body that is plainly the same one
				sameParams := strings.SplitN(fp.sig, ")(", 2)[0] == strings.SplitN(b.sig, ")(", 2)[0]
				if !sameParams || sc < 0.8 {
					continue
				}
				sc -= 0.05
			}
			local = append(local, cand{missing: b, fn: fn, score: sc})
		}
		for i := range local {
			local[i].nCands = len(local)
		}
		cands = append(cands, local...)
	}
	sort.Slice(cands, func(i, j int) bool {
		if cands[i].score != cands[j].score {
			return cands[i].score > cands[j].score
		}
		return cands[i].missing.name < cands[j].missing.name
	})
	usedFn := map[*ssa.Function]bool{}
	usedName := map[string]bool{}
	for _, cd := range cands {
		if usedFn[cd.fn] || usedName[cd.missing.name] {
			continue
		}
		if cd.score < 0.5 && !(cd.nCands == 1 && cd.score >= 0.25) {
			continue
		}
		usedFn[cd.fn] = true
		usedName[cd.missing.name] = true
		nameAlias[rawFnKey(cd.fn)] = cd.missing.name
		aliasNotes = append(aliasNotes, fmt.Sprintf("anchor alias: %s is analysed as %s (same package, receiver and signature; body similarity %.2f) — the rules know it by that name", rawFnKey(cd.fn), cd.missing.name, cd.score))
	}
	// a goroutine body written as a literal (`go func() {...}()`, known to the rules as parent$1) that has become a
	// named function started the same way (`go j.run(ctx)`): the named function is analysed under the literal's name
	for cname := range goClosures {
		i := strings.LastIndex(cname, "$")
		if i < 0 {
			continue
		}
		parentName := cname[:i]
		var parent *ssa.Function
		for name, fn := range cur {
			if name == parentName || nameAlias[name] == parentName {
				parent = fn
			}
		}
		if parent == nil || len(parent.AnonFuncs) > 0 {
			continue // the parent is gone, or still has literals (their numbering is then the rules')
		}
		var target *ssa.Function
		nGo := 0
		for _, b := range parent.Blocks {
			for _, in := range b.Instrs {
				if g, ok := in.(*ssa.Go); ok {
					nGo++
					if sc := g.Call.StaticCallee(); sc != nil {
						target = sc
					}
				}
			}
		}
		if nGo != 1 || target == nil || target.Parent() != nil {
			continue
		}
		tk := rawFnKey(target)
		if baseNames[tk] || nameAlias[tk] != "" || usedName[cname] {
			continue
		}
		nameAlias[tk] = cname
		usedName[cname] = true
		aliasNotes = append(aliasNotes, fmt.Sprintf("anchor alias: %s is analysed as %s (the goroutine body the rules know as a literal of %s is now this named function, started by the only go statement there)", tk, cname, parentName))
	}
	sort.Strings(aliasNotes)
}

// currentTypeName: the name a type the rules call pkgPath.name carries in the analysed program.
func currentTypeName(pkgPath, name string) string {
	for cur, canon := range typeAlias {
		if canon == pkgPath+"."+name {
			return cur[strings.LastIndex(cur, ".")+1:]
		}
	}
	return name
}

// scopeLookupType looks a type up by the name the rules know.
func scopeLookupType(p *types.Package, name string) types.Object {
	if p == nil {
		return nil
	}
	return p.Scope().Lookup(currentTypeName(p.Path(), name))
}

var pkgPrefixRe = regexp.MustCompile(`[A-Za-z0-9_.\-]+/`)

// shortTypeName prints a type with package names instead of import paths ("proxy.fetchResult"), under the names
// the rules know.
func shortTypeName(t types.Type) string {
	t = types.Unalias(t)                         // type propState[T] = commitable[overwritable[T]] is still a commitable
	s := stripTypeArgs(types.TypeString(t, nil)) // full paths, aliases applied
	return pkgPrefixRe.ReplaceAllString(s, "")
}

// applyFieldAliases runs after the type aliases are known.
func applyFieldAliases(c *Ctx, base []typeFP) {
	baseBy := map[string]typeFP{}
	for _, b := range base {
		baseBy[b.name] = b
	}
	for _, p := range c.Pkgs {
		if p.Types == nil || !isModPath(p.PkgPath) {
			continue
		}
		sc := p.Types.Scope()
		for _, n := range sc.Names() {
			tn, ok := sc.Lookup(n).(*types.TypeName)
			if !ok {
				continue
			}
			named, ok := tn.Type().(*types.Named)
			if !ok {
				continue
			}
			st, ok := named.Underlying().(*types.Struct)
			if !ok {
				continue
			}
			canon := p.PkgPath + "." + n
			if a, ok := typeAlias[canon]; ok {
				canon = a
			}
			b, ok := baseBy[canon]
			if !ok || len(b.fieldNames) != st.NumFields() {
				continue
			}
			present := map[string]bool{}
			for i := 0; i < st.NumFields(); i++ {
				present[st.Field(i).Name()] = true
			}
			for i := 0; i < st.NumFields(); i++ {
				f := st.Field(i)
				if f.Name() == b.fieldNames[i] || present[b.fieldNames[i]] {
					continue
				}
				// same position, and the type is unchanged (up to renamed types)
				self := p.PkgPath + "." + n
				cur := strings.ReplaceAll(canonTypes(rawStrip(types.TypeString(f.Type(), nil))), canonTypes(self), "$self")
				if i < len(b.fieldTypes) && canonTypes(b.fieldTypes[i]) != cur {
					continue
				}
				fieldAlias[f] = b.fieldNames[i]
				aliasNotes = append(aliasNotes, fmt.Sprintf("field alias: %s.%s is analysed as %s.%s (same position and type)", canon, f.Name(), canon, b.fieldNames[i]))
			}
		}
	}
}

func applyGlobalAliases(c *Ctx) {
	globalAlias = map[string]string{}
	cur := map[string]string{} // pkg.name -> type
	for _, p := range c.Pkgs {
		if p.Types == nil || !isModPath(p.PkgPath) {
			continue
		}
		sc := p.Types.Scope()
		for _, n := range sc.Names() {
			if v, ok := sc.Lookup(n).(*types.Var); ok {
				cur[p.PkgPath+"."+n] = canonTypes(rawStrip(types.TypeString(v.Type(), nil)))
			}
		}
	}
	var missing []string
	for k := range baseGlobals {
		if _, ok := cur[k]; !ok {
			missing = append(missing, k)
		}
	}
	sort.Strings(missing)
	for _, m := range missing {
		pkg := m[:strings.LastIndex(m, ".")]
		var cands []string
		for k, t := range cur {
			if _, known := baseGlobals[k]; known || !strings.HasPrefix(k, pkg+".") || strings.Contains(k[len(pkg)+1:], ".") {
				continue
			}
			if t == canonTypes(baseGlobals[m]) {
				cands = append(cands, k)
			}
		}
		// also: how many missing globals of that package have this type? only a one-to-one situation is decided
		same := 0
		for _, m2 := range missing {
			if strings.HasPrefix(m2, pkg+".") && !strings.Contains(m2[len(pkg)+1:], ".") && canonTypes(baseGlobals[m2]) == canonTypes(baseGlobals[m]) {
				same++
			}
		}
		if len(cands) == 1 && same == 1 {
			globalAlias[cands[0]] = m[strings.LastIndex(m, ".")+1:]
			aliasNotes = append(aliasNotes, fmt.Sprintf("variable alias: %s is analysed as %s (same package and type, old name gone)", cands[0], m))
		}
	}
}

// funcMethodConversion: oldSig is func(T1, rest...) R and fn is a method with parameters rest... and results R whose
// receiver is T1, *T1 or a named type whose underlying type is T1.
func funcMethodConversion(oldSig, newSig string, fn *ssa.Function) bool {
	op := strings.SplitN(oldSig, ")(", 2)
	np := strings.SplitN(newSig, ")(", 2)
	if len(op) != 2 || len(np) != 2 || op[1] != np[1] {
		return false
	}
	oparams := strings.Split(strings.TrimPrefix(op[0], "("), ",")
	nparams := strings.Split(strings.TrimPrefix(np[0], "("), ",")
	if np[0] == "(" {
		nparams = nil
	}
	if len(oparams) != len(nparams)+1 {
		return false
	}
	for i := range nparams {
		if nparams[i] != oparams[i+1] {
			return false
		}
	}
	o := originOf(fn)
	if o.Signature.Recv() == nil {
		return false
	}
	rt := o.Signature.Recv().Type()
	if p, ok := rt.(*types.Pointer); ok {
		rt = p.Elem()
	}
	first := oparams[0]
	cands := []string{rawStrip(types.TypeString(rt, nil)), rawStrip(types.TypeString(rt.Underlying(), nil)), rawStrip(types.TypeString(types.NewPointer(rt), nil))}
	for _, c := range cands {
		if canonTypes(c) == canonTypes(first) {
			return true
		}
	}
	return false
}
