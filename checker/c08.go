package main

import (
	"fmt"
	"go/token"
	"go/types"
	"sort"
	"strings"

	"golang.org/x/tools/go/ssa"
)

func init() {
	register("C08", checkC08)
	register("C10", checkC10)
}

const responderPkg = "reservoir/proxy/responder"

var hopByHopRef = []string{"Connection", "Proxy-Connection", "Keep-Alive", "Proxy-Authenticate", "Proxy-Authorization", "TE", "Trailer", "Transfer-Encoding", "Upgrade"}

// constStringsStoredIn: constant strings stored into elements of local arrays in f.
func constStringsIn(f *ssa.Function) map[string]bool {
	out := map[string]bool{}
	eachInstr(f, func(in ssa.Instruction) {
		if st, ok := in.(*ssa.Store); ok {
			if s, isC := constString(st.Val); isC {
				if _, isIA := st.Addr.(*ssa.IndexAddr); isIA {
					out[s] = true
				}
			}
		}
	})
	return out
}

// responderImpls returns the concrete types implementing responder.Responder.
func responderImpls(c *Ctx) []*types.Named {
	p := c.PkgBy[responderPkg]
	if p == nil {
		return nil
	}
	io := p.Types.Scope().Lookup("Responder")
	if io == nil {
		return nil
	}
	iface, ok := io.Type().Underlying().(*types.Interface)
	if !ok {
		return nil
	}
	var out []*types.Named
	for _, pk := range c.Pkgs {
		sc := pk.Types.Scope()
		for _, n := range sc.Names() {
			tn, ok := sc.Lookup(n).(*types.TypeName)
			if !ok {
				continue
			}
			nt, ok := tn.Type().(*types.Named)
			if !ok || types.IsInterface(nt) {
				continue
			}
			if types.Implements(types.NewPointer(nt), iface) || types.Implements(nt, iface) {
				out = append(out, nt)
			}
		}
	}
	sort.Slice(out, func(i, j int) bool { return out[i].String() < out[j].String() })
	return out
}

func methodFn(c *Ctx, nt *types.Named, name string) *ssa.Function {
	for _, recv := range []types.Type{types.NewPointer(nt), nt} {
		ms := c.Prog.MethodSets.MethodSet(recv)
		if sel := ms.Lookup(nt.Obj().Pkg(), name); sel != nil {
			if fn := c.Prog.MethodValue(sel); fn != nil && fn.Blocks != nil {
				return unwrapSynthetic(fn)
			}
		}
	}
	return nil
}

// headerOpKind classifies, inside a responder method, what is done per value.
func headerOps(li *LockInfo, f *ssa.Function, depth int) map[string]bool {
	out := map[string]bool{}
	if depth > 3 {
		return out
	}
	eachCall(f, func(call ssa.CallInstruction, n string) {
		switch n {
		case "(net/http.Header).Set":
			out["Set"] = true
		case "(net/http.Header).Add":
			out["Add"] = true
		case "(net/http.Header).Del":
			out["Del"] = true
		}
		if sc := staticCallee(call); sc != nil && originPkgPath(sc) == responderPkg {
			for k := range headerOps(li, sc, depth+1) {
				out[k] = true
			}
		}
		// a call through the Responder interface (a helper shared by the implementations): what any implementation's
		// method of that name does
		if cc := call.Common(); cc.IsInvoke() && cc.Method.Pkg() != nil && cc.Method.Pkg().Path() == responderPkg && curCtx != nil {
			for _, nt := range responderImpls(curCtx) {
				if m := methodFn(curCtx, nt, cc.Method.Name()); m != nil {
					for k := range headerOps(li, m, depth+1) {
						out[k] = true
					}
				}
			}
		}
	})
	return out
}

// curCtx gives helper functions of the responder rules access to the loaded program.
var curCtx *Ctx

func checkC08(c *Ctx, r *Report) {
	r.Decided = []string{
		"R1 the hop-by-hop deletion table is a superset of the RFC 9110 §7.6.1 set (+Proxy-Connection, Keep-Alive); names listed in Connection are read with Values(\"Connection\") and deleted before Connection itself",
		"R2 http.Client.Do is called only from sendRequestToTarget; there removeHopByHopHeaders(req.Header) precedes it on every path and removeHopByHopHeaders(resp.Header) lies between it and every non-error return",
		"R3 every implementation of Responder.SetHeaders appends per value (Add) after at most one Del per field — a per-value Set would keep only the last value; siblings agree",
		"R4 the outgoing URL receives Path and RawQuery of the incoming one; package proxy never assigns Request.Method/Body/Header/Host and sets request headers only with the two stored validators",
		"R5 relayed status is resp.StatusCode, relayed body is the origin body wrapped only by readers whose Read returns the inner (n, err) unchanged; HEAD gets http.NoBody; headers copied are the origin's / the stored ones (which are resp.Header)",
		"R6 the upstream http.Client does not follow redirects (CheckRedirect returns ErrUseLastResponse), its transport does not add Accept-Encoding / transparently gunzip (DisableCompression) and no default User-Agent is added for a client that sent none",
		"R7 the plain responder never lets net/http sniff a Content-Type the origin did not send (the header key is pinned when absent)",
		"R8 Accept-Ranges is added to a relayed response only on the branch where the origin's own header is absent",
		"R9 the Connection tokens of the origin response must still be visible when hop-by-hop fields are removed (one known finding, listed under known_findings: net/http's transport has already deleted a Connection field containing close)",
	}
	r.NotDec = []string{"byte equality of bodies and header values (net/http canonicalisation and framing trusted)", "chunked / large-body behaviour as bytes on the wire", "header order and letter case on the wire (net/http canonicalises)"}
	r.Exhaust = true
	li := BuildLocks(c)

	// ---- R1
	for _, f := range c.FuncsNamed(proxyPkg + ".removeHopByHopHeaders") {
		have := constStringsIn(f)
		// the table may live in a package-level variable: its elements are stored by the package initialiser
		readsGlobal := false
		eachInstr(f, func(in ssa.Instruction) {
			if u, ok := in.(*ssa.UnOp); ok {
				if _, isG := u.X.(*ssa.Global); isG {
					if _, isSl := u.Type().Underlying().(*types.Slice); isSl {
						readsGlobal = true
					}
				}
			}
		})
		if readsGlobal {
			if initFn := c.SSAPkg[proxyPkg].Func("init"); initFn != nil {
				for k := range constStringsIn(initFn) {
					have[k] = true
				}
			}
		}
		// names deleted through an element of a package-level table (array or slice, ranged or indexed)
		eachInstr(f, func(in ssa.Instruction) {
			call, ok := in.(*ssa.Call)
			if !ok {
				return
			}
			if n := calleeName(call); n != "(net/http.Header).Del" && n != "(net/textproto.MIMEHeader).Del" {
				return
			}
			a := callArgs(call)
			if len(a) < 2 {
				return
			}
			if g := tableElementOf(unconv(a[1])); g != nil {
				if tab, ok := globalStringTable(g); ok {
					for _, k := range tab {
						have[k] = true
					}
				}
			}
		})
		for _, h := range hopByHopRef {
			r.Check(have[h], "C08.R1", "hop-by-hop table contains "+h, c.Pos(f.Pos()), "deleted", "hop-by-hop header "+h+" is not removed: it is forwarded in both directions")
		}
		// Connection-listed names: the read of Values("Connection") and the deletions may sit in the function itself
		// or in same-package helpers it hands the header to (removeConnectionNominatedHeaders(header)); positions are
		// compared in the deepest body both belong to (a helper is represented by its call site there)
		type located struct {
			in  ssa.Instruction
			ctx dctx
		}
		var values *located
		var dels []located
		dynDel := false
		for _, fc := range helperContexts(f, 3) {
			eachInstr(fc.fn, func(in ssa.Instruction) {
				x, ok := in.(*ssa.Call)
				if !ok {
					return
				}
				switch calleeName(x) {
				case "(net/http.Header).Values":
					if s, isC := constString(callArgs(x)[1]); isC && s == "Connection" {
						values = &located{x, fc.ctx}
					}
				case "(net/http.Header).Del":
					dels = append(dels, located{x, fc.ctx})
				}
			})
			// a Del with a non-constant name in the body or its yield closures
			for _, g := range append([]*ssa.Function{fc.fn}, closuresOf(fc.fn)...) {
				eachCall(g, func(call ssa.CallInstruction, n string) {
					if n == "(net/http.Header).Del" {
						if _, isC := constString(callArgs(call)[1]); !isC {
							dynDel = true
						}
					}
				})
			}
		}
		if values == nil {
			r.Fail("C08.R1", "names listed in Connection are removed", c.Pos(f.Pos()), "removeHopByHopHeaders does not read header.Values(\"Connection\"): headers nominated by Connection are forwarded")
		} else {
			// ordering: the static table deletion (which removes Connection) must come after the Values read
			okOrder := true
			for _, d := range dels {
				v, x := liftPair(values.in, values.ctx, d.in, d.ctx)
				if v == x {
					continue
				}
				if !instrDominates(v, x) && reachableInstr(x, v, nil) {
					okOrder = false
				}
			}
			r.Check(dynDel && okOrder, "C08.R1", "names listed in Connection are removed", c.InstrPos(values.in), "Values(\"Connection\") is read before the table deletes Connection; listed names are deleted dynamically", "Connection-listed header names are not deleted, or Connection is deleted before its value is read")
		}
	}

	// ---- R2
	nDo := 0
	for _, f := range li.Fns {
		eachCall(f, func(call ssa.CallInstruction, n string) {
			if n != "(*net/http.Client).Do" && n != "(net/http.RoundTripper).RoundTrip" && n != "(*net/http.Transport).RoundTrip" && n != "net/http.Get" {
				return
			}
			if !isModPath(originPkgPath(f)) || strings.HasPrefix(originPkgPath(f), "reservoir/tests") {
				return
			}
			nDo++
			key := fnKey(f) + ": upstream send"
			if fnKey(f) != proxyPkg+".sendRequestToTarget" {
				r.Fail("C08.R2", key, c.InstrPos(call), "an upstream request is sent outside sendRequestToTarget: hop-by-hop headers are not stripped on this path")
				return
			}
			do := call.(*ssa.Call)
			reqArg := callArgs(do)[1]
			isStrip := func(path string, root ssa.Value) func(ssa.Instruction) bool {
				return func(in ssa.Instruction) bool {
					x, ok := in.(*ssa.Call)
					if !ok || calleeName(x) != proxyPkg+".removeHopByHopHeaders" {
						return false
					}
					rt, p := fieldPath(x.Call.Args[0])
					return strings.Join(p, ".") == path && sameVal(rt, root)
				}
			}
			okBefore := mustPassBefore(f, do, isStrip("Header", reqArg), nil)
			resp := extractOf(do, 0)
			errv := extractOf(do, 1)
			okAfter := false
			if resp != nil && errv != nil {
				exits := exitsAvoiding(do, isStrip("Header", resp), pruneNil(f, errv, true))
				okAfter = len(exits) == 0
			}
			r.Check(okBefore, "C08.R2", key+": request headers stripped", c.InstrPos(call), "removeHopByHopHeaders(req.Header) on every path to Do", "some path reaches http.Client.Do without removeHopByHopHeaders(req.Header)")
			r.Check(okAfter, "C08.R2", key+": response headers stripped", c.InstrPos(call), "removeHopByHopHeaders(resp.Header) on every successful path after Do", "a successful response is returned without removeHopByHopHeaders(resp.Header)")
		})
	}
	r.Floor("C08.R2", nDo, 1, "upstream send sites")

	// ---- R6: the client that talks to the origin does not rewrite the exchange on its own: it neither follows
	// redirects (the origin's 3xx, Location and body would be replaced by the target's answer, which is then
	// stored under the wrong key) nor asks for / undoes gzip (the body would no longer be the one the origin's
	// ETag, Content-Length and Content-Encoding describe)
	for _, f := range c.FuncsNamed(proxyPkg + ".sendRequestToTarget") {
		eachCall(f, func(call ssa.CallInstruction, n string) {
			if n != "(*net/http.Client).Do" {
				return
			}
			recv := resolveVal(callArgs(call.(*ssa.Call))[0])
			// which client object?
			var clientGlobal *ssa.Global
			if u, ok := recv.(*ssa.UnOp); ok && u.Op == token.MUL {
				clientGlobal, _ = u.X.(*ssa.Global)
			}
			if g, ok := recv.(*ssa.Global); ok {
				clientGlobal = g
			}
			noRedirect, transportSet := false, false
			where := "?"
			if clientGlobal != nil {
				where = clientGlobal.Pkg.Pkg.Path() + "." + clientGlobal.Name()
			}
			if clientGlobal != nil && isModPath(clientGlobal.Pkg.Pkg.Path()) {
				// initialised in the package initialiser: stores into the fields of the object the global points to
				if initFn := clientGlobal.Pkg.Func("init"); initFn != nil {
					eachInstr(initFn, func(in ssa.Instruction) {
						st, ok := in.(*ssa.Store)
						if !ok {
							return
						}
						fv, base, is := fieldOf(st.Addr)
						if !is || structName(base.Type()) != "net/http.Client" {
							return
						}
						// the object written is the one the global holds
						holds := false
						eachInstr(initFn, func(i3 ssa.Instruction) { // (globals keep no referrer lists)
							if gs, ok := i3.(*ssa.Store); ok && gs.Addr == ssa.Value(clientGlobal) {
								if sameVal(gs.Val, base) || resolveVal(gs.Val) == resolveVal(base) || sameVal(unconv(gs.Val), base) {
									holds = true
								}
							}
						})
						if !holds && resolveVal(base) != ssa.Value(clientGlobal) {
							return
						}
						switch fname(fv) {
						case "CheckRedirect":
							if fn := closureFn(st.Val); fn != nil {
								all, nret := true, 0
								eachInstr(fn, func(i2 ssa.Instruction) {
									if ret, ok := i2.(*ssa.Return); ok {
										nret++
										u, isU := ret.Results[0].(*ssa.UnOp)
										gl, isG := ssa.Value(nil), false
										if isU {
											gl, isG = u.X.(*ssa.Global)
										}
										if !isU || !isG || gname(gl.(*ssa.Global)) != "ErrUseLastResponse" {
											all = false
										}
									}
								})
								noRedirect = all && nret > 0
							}
						case "Transport":
							transportSet = true
						}
					})
				}
			}
			r.Check(noRedirect, "C08.R6", "the upstream client does not follow redirects", c.InstrPos(call), where+".CheckRedirect always returns http.ErrUseLastResponse", "upstream requests are sent with "+where+", which follows 3xx answers itself: the client receives the redirect target's status and body instead of the origin's 3xx + Location, and that body is stored under the key of the redirecting URL")
			// transparent compression off on the transport in use
			noGzip := false
			for _, g := range li.Fns {
				if !isModPath(originPkgPath(g)) || strings.HasPrefix(originPkgPath(g), "reservoir/tests") {
					continue
				}
				eachInstr(g, func(in ssa.Instruction) {
					st, ok := in.(*ssa.Store)
					if !ok {
						return
					}
					fv, base, is := fieldOf(st.Addr)
					if !is || fname(fv) != "DisableCompression" || structName(base.Type()) != "net/http.Transport" {
						return
					}
					if b, isC := constBool(st.Val); !isC || !b {
						return
					}
					// on the default transport (used when the client's Transport is nil) or on the client's own
					onDefault := derivesFrom(base, func(v ssa.Value) bool {
						gl, ok := v.(*ssa.Global)
						return ok && gname(gl) == "DefaultTransport"
					})
					if (onDefault && !transportSet) || (!onDefault && transportSet) {
						noGzip = true
					}
				})
			}
			// net/http sends "User-Agent: Go-http-client/1.1" for a request that has no User-Agent unless the field is
			// present with an empty value: the proxy must not introduce itself in the client's name
			// The pin may sit in a same-package helper (suppressDefaultUserAgent(req.Header)): a call counts as the pin when
			// every way through the helper passes one, except on the "User-Agent present" side of a presence test.
			var uaPinned func(fn *ssa.Function, isEnd func(ssa.Instruction) bool, depth int) bool
			uaPinned = func(fn *ssa.Function, isEnd func(ssa.Instruction) bool, depth int) bool {
				isPin := func(in ssa.Instruction) bool {
					x, ok := in.(*ssa.Call)
					if !ok {
						return false
					}
					if calleeName(x) == "(net/http.Header).Set" {
						a := callArgs(x)
						name, isC := constString(a[1])
						val, isV := constString(a[2])
						return isC && name == "User-Agent" && isV && val == ""
					}
					if h := helperBody(x); h != nil && depth < 2 {
						return uaPinned(h, isReturn, depth+1)
					}
					return false
				}
				// a test on the presence of User-Agent may bypass the pin on its "present" side: the side from which the
				// pin cannot be reached any more
				skipPresent := func(blk *ssa.BasicBlock, si int) bool {
					iff, ok := blk.Instrs[len(blk.Instrs)-1].(*ssa.If)
					if !ok {
						return false
					}
					mentions := derivesFrom(iff.Cond, func(v ssa.Value) bool {
						if k, ok := constString(v); ok && k == "User-Agent" {
							return true
						}
						if lk, ok := v.(*ssa.Lookup); ok { // _, sent := h["User-Agent"]
							if k, ok := constString(lk.Index); ok && k == "User-Agent" {
								return true
							}
						}
						return false
					})
					if !mentions {
						return false
					}
					return len(walkFrom(pos{blk.Succs[si], 0}, isEnd, isPin, nil)) == 0
				}
				pinExists := false
				eachInstr(fn, func(in ssa.Instruction) {
					if isPin(in) {
						pinExists = true
					}
				})
				return pinExists && len(walkFrom(pos{fn.Blocks[0], 0}, isPin, isEnd, skipPresent)) == 0
			}
			noUA := uaPinned(f, func(in ssa.Instruction) bool { return in == call.(ssa.Instruction) }, 0)
			r.Check(noUA, "C08.R6", "no default User-Agent is sent in the client's name", c.InstrPos(call), "an absent User-Agent is pinned to the empty value before Do (net/http then sends none)", "a request without a User-Agent leaves the proxy with \"User-Agent: Go-http-client/1.1\": the origin receives a header the client never sent")
			r.Check(noGzip, "C08.R6", "the upstream transport does not add or undo gzip", c.InstrPos(call), "Transport.DisableCompression = true on the transport in use", "the upstream transport has transparent compression on: for a client that sent no Accept-Encoding it asks the origin for gzip, decodes the body and drops Content-Encoding / Content-Length — the delivered and stored body is not the one the origin's ETag and length describe")
		})
	}

	// ---- R3
	impls := responderImpls(c)
	forms := setHeadersForms(c, li, r, "C08.R3")
	r.Floor("C08.R3", len(impls), 2, "Responder implementations")
	{
		var fl []string
		same := true
		first := ""
		for k, v := range forms {
			fl = append(fl, k+"="+v)
			if first == "" {
				first = v
			} else if v != first {
				same = false
			}
		}
		sort.Strings(fl)
		r.Check(same, "C08.R3", "sibling responders agree on SetHeaders", "-", strings.Join(fl, ", "), "the responders disagree: "+strings.Join(fl, ", ")+" (plain and tunnelled answers differ)")
	}

	// ---- R9: the names an origin lists in its Connection header are hop-by-hop and must not be forwarded. They can only
	// be honoured if the proxy still sees that header: net/http's transport deletes the whole Connection field of a
	// response when it contains "close" (and then closes the connection), so `Connection: close, X-Foo` reaches
	// removeHopByHopHeaders without any trace of X-Foo.
	for _, f := range c.FuncsNamed(proxyPkg + ".sendRequestToTarget") {
		eachCall(f, func(call ssa.CallInstruction, n string) {
			if n != proxyPkg+".removeHopByHopHeaders" {
				return
			}
			root, pth := fieldPath(callArgs(call.(*ssa.Call))[0])
			ex, isEx := resolveVal(root).(*ssa.Extract)
			if !isEx || len(pth) == 0 || pth[len(pth)-1] != "Header" {
				return
			}
			do, isDo := ex.Tuple.(*ssa.Call)
			if !isDo || calleeName(do) != "(*net/http.Client).Do" {
				return
			}
			r.Fail("C08.R9", "reservoir/proxy.sendRequestToTarget: the origin's Connection tokens are still visible when hop-by-hop headers are removed from the response", c.InstrPos(call), "the response comes from net/http's client, whose transport has already deleted a Connection field that contains \"close\": a header the origin nominated next to it (`Connection: close, X-Secret-Hop`) is not recognised as hop-by-hop, is forwarded to the client and stored with the response")
		})
	}

	// ---- R7: the plain responder adds no header of its own. net/http sniffs a Content-Type from the first bytes when
	// the header map has none; the tunnel responder does not. A response whose origin sent no Content-Type is
	// delivered without one on both transports: the plain responder pins the absent field (map entry set to nil).
	for _, f := range c.FuncsNamed("(*reservoir/proxy/responder.HTTPResponder).Write") {
		isPin := func(in ssa.Instruction) bool {
			mu, ok := in.(*ssa.MapUpdate)
			if !ok {
				return false
			}
			k, isC := constString(mu.Key)
			if !isC || k != "Content-Type" {
				return false
			}
			kv, isK := mu.Value.(*ssa.Const)
			return isK && kv.Value == nil
		}
		isBodyWrite := func(in ssa.Instruction) bool {
			x, ok := in.(*ssa.Call)
			if !ok {
				return false
			}
			n := calleeName(x)
			return n == "io.Copy" || n == "(net/http.ResponseWriter).WriteHeader" || n == "(net/http.ResponseWriter).Write" || n == "(*reservoir/proxy/responder.HTTPResponder).writeStatusHeader"
		}
		pinExists := false
		eachInstr(f, func(in ssa.Instruction) {
			if isPin(in) {
				pinExists = true
			}
		})
		skipPresent := func(blk *ssa.BasicBlock, si int) bool {
			iff, ok := blk.Instrs[len(blk.Instrs)-1].(*ssa.If)
			if !ok {
				return false
			}
			mentions := derivesFrom(iff.Cond, func(v ssa.Value) bool {
				if k, ok := constString(v); ok && k == "Content-Type" {
					return true
				}
				if lk, ok := v.(*ssa.Lookup); ok {
					if k, ok := constString(lk.Index); ok && k == "Content-Type" {
						return true
					}
				}
				return false
			})
			if !mentions {
				return false
			}
			return len(walkFrom(pos{blk.Succs[si], 0}, isBodyWrite, isPin, nil)) == 0
		}
		ok := pinExists && len(walkFrom(pos{f.Blocks[0], 0}, isPin, isBodyWrite, skipPresent)) == 0
		r.Check(ok, "C08.R7", "the plain responder does not invent a Content-Type", c.Pos(f.Pos()), "an absent Content-Type is pinned (header[\"Content-Type\"] = nil) before the first write", "HTTPResponder.Write lets net/http sniff a Content-Type when the origin sent none: the client receives a header the origin never sent (and a 206 slice of the same stored body can get a different one); the tunnel responder does not do this")
	}

	// ---- R8: a relayed or stored response keeps the Accept-Ranges the origin sent: where processRequest advertises
	// range support on top of the origin's headers it does so only when the origin sent no Accept-Ranges itself
	// (206 / 416 answers built by the proxy in handleRangeRequest are its own and not covered)
	for _, f := range c.FuncsNamed("(*" + proxyPkg + ".Proxy).processRequest") {
		nAR := 0
		for _, hc := range helperContexts(f, 1) {
			g := hc.fn
			if fnKey(g) == "(*"+proxyPkg+".Proxy).handleRangeRequest" {
				continue
			}
			eachInstr(g, func(in ssa.Instruction) {
				x, ok := in.(*ssa.Call)
				if !ok || (calleeName(x) != "(reservoir/proxy/responder.Responder).SetHeader" && calleeName(x) != "(reservoir/proxy/responder.Responder).AddHeader") {
					return
				}
				a := callArgs(x)
				if name, isC := constString(a[1]); !isC || name != "Accept-Ranges" {
					return
				}
				nAR++
				guarded := false
				for k := range factStrs(g, x) {
					if strings.Contains(k, `"Accept-Ranges")==""=true`) || strings.Contains(k, `"Accept-Ranges")!=""=false`) {
						guarded = true
					}
				}
				r.Check(guarded, "C08.R8", fmt.Sprintf("%s: Accept-Ranges is added only when the origin sent none (#%d)", fnKey(g), nAR), c.InstrPos(x), "on the Get(\"Accept-Ranges\") == \"\" edge", "Accept-Ranges: bytes overwrites what the origin sent: an origin that answers Accept-Ranges: none (a live stream, a dynamic page) is delivered as Accept-Ranges: bytes")
			})
		}
		r.Floor("C08.R8", nAR, 1, "Accept-Ranges advertisements in processRequest")
	}

	// ---- R10: the header set stored with an entry is what every later answer from the store relays; it is the
	// origin's. Nothing in the request path may write into that map (fields that describe one answer — a 206's
	// Content-Range / Content-Length, X-Cache — belong on the responder), or the next full answer carries them.
	{
		isStoredHeader := func(x ssa.Value, cx dctx) bool {
			var fv *types.Var
			switch y := x.(type) {
			case *ssa.FieldAddr, *ssa.Field:
				fv, _, _ = fieldOf(y)
			case *ssa.UnOp:
				if fa, ok := y.X.(*ssa.FieldAddr); ok {
					fv, _, _ = fieldOf(fa)
				}
			}
			if fv == nil || fname(fv) != "Header" {
				return false
			}
			// the Header field of the per-entry object stored in the cache (cachedRequestInfo), not of http.Request/Response
			return fv.Pkg() != nil && fv.Pkg().Path() == proxyPkg
		}
		nMut := 0
		for _, f := range li.Fns {
			if pk := originPkgPath(f); pk != proxyPkg && pk != "reservoir/proxy/responder" {
				continue
			}
			eachInstr(f, func(in ssa.Instruction) {
				var m ssa.Value
				what := ""
				switch x := in.(type) {
				case *ssa.Call:
					switch n := calleeName(x); n {
					case "(net/http.Header).Set", "(net/http.Header).Add", "(net/http.Header).Del", "(net/textproto.MIMEHeader).Set", "(net/textproto.MIMEHeader).Add", "(net/textproto.MIMEHeader).Del":
						m, what = callArgs(x)[0], n
					case "maps.Copy":
						m, what = x.Call.Args[0], n
					}
				case *ssa.MapUpdate:
					if isHTTPHeaderType(x.Map.Type()) {
						m, what = x.Map, "map assignment"
					}
				}
				if m == nil {
					return
				}
				nMut++
				if derivesFromDeep(m, nil, isStoredHeader) {
					r.Fail("C08.R10", fnKey(f)+": write into the stored header set", c.InstrPos(in), what+" writes into the header map that is stored with the cache entry (the origin's header set, shared by every later answer from the store): the fields of this one answer leak into the following ones — a full 200 after a range request carries the 206's Content-Range and Content-Length and a cut body")
				}
			})
		}
		r.OkT("C08.R10", "no write into a stored entry's header set", "-", fmt.Sprintf("%d header-map writes in the request path, none targets cachedRequestInfo.Header", nMut))
		r.Floor("C08.R10", nMut, 3, "header-map writes examined in proxy / responder")
	}

	// ---- R4
	for _, f := range c.FuncsNamed(proxyPkg + ".changeRequestToTarget") {
		got := map[string]string{}
		for _, hc := range helperContexts(f, 2) {
			eachInstr(hc.fn, func(in ssa.Instruction) {
				st, ok := in.(*ssa.Store)
				if !ok {
					return
				}
				fv, base, is := fieldOf(st.Addr)
				if !is || structName(base.Type()) != "net/url.URL" {
					return
				}
				root, p := ctxFieldPath(st.Val, hc.ctx)
				if root == ssa.Value(f.Params[0]) {
					got[fname(fv)] = strings.Join(p, ".")
				}
			})
		}
		r.Check(got["Path"] == "URL.Path" && got["RawQuery"] == "URL.RawQuery", "C08.R4", "target URL carries path and query", c.Pos(f.Pos()), fmt.Sprintf("Path<-%s RawQuery<-%s", got["Path"], got["RawQuery"]), fmt.Sprintf("the outgoing URL does not take Path/RawQuery from the incoming one (Path<-%q RawQuery<-%q)", got["Path"], got["RawQuery"]))
		// url.URL renders Path through its own escaping unless RawPath holds the original spelling, and drops a
		// bare "?" unless ForceQuery is set: both must be carried over for the origin to see the request-target as sent
		r.Check(got["RawPath"] == "URL.RawPath" && got["ForceQuery"] == "URL.ForceQuery", "C08.R4", "target URL keeps the original spelling of the path (RawPath, ForceQuery)", c.Pos(f.Pos()), "RawPath<-URL.RawPath ForceQuery<-URL.ForceQuery", fmt.Sprintf("the outgoing URL is rebuilt from the decoded path only (RawPath<-%q ForceQuery<-%q): the origin receives /a/b for /a%%2Fb, /g++ for /g%%2B%%2B and /list for /list?", got["RawPath"], got["ForceQuery"]))
	}
	nReqStores := 0
	for _, f := range li.Fns {
		if originPkgPath(f) != proxyPkg {
			continue
		}
		eachInstr(f, func(in ssa.Instruction) {
			switch x := in.(type) {
			case *ssa.Store:
				fv, base, is := fieldOf(x.Addr)
				if !is || structName(base.Type()) != "net/http.Request" {
					return
				}
				nReqStores++
				allowed := map[string]bool{"URL": true, "RequestURI": true, "Close": true}
				r.Check(allowed[fname(fv)], "C08.R4", fnKey(f)+" assigns Request."+fname(fv), c.InstrPos(x), "transport bookkeeping field", "the client's "+fname(fv)+" is overwritten before the request is forwarded")
			case *ssa.Call:
				n := calleeName(x)
				if n != "(net/http.Header).Set" && n != "(net/http.Header).Add" {
					return
				}
				args := callArgs(x)
				rt, p := fieldPath(args[0])
				if len(p) == 0 || p[len(p)-1] != "Header" || structName(rt.Type()) != "net/http.Request" {
					return
				}
				name, isC := constString(args[1])
				if v, isV := constString(args[2]); isC && name == "User-Agent" && isV && v == "" {
					return // pins an absent User-Agent to "none" (C08.R6); adds nothing to the request
				}
				ok := isC && (name == "If-None-Match" || name == "If-Modified-Since")
				r.Check(ok, "C08.R4", fnKey(f)+" sets request header "+name, c.InstrPos(x), "stored validator on the revalidation clone", "a request header other than the stored validators is set/overwritten before forwarding")
				onClone := false
				if cl, isCall := resolveVal(rt).(*ssa.Call); isCall && calleeName(cl) == "(*net/http.Request).Clone" {
					onClone = true
				}
				r.Check(onClone, "C08.R4", fnKey(f)+" sets "+name+" on a clone of the request", c.InstrPos(x), "receiver is req.Clone(...).Header", "the proxy's own validator is written into the client's request (shared header map): when the revalidation falls back to relaying, the origin receives a conditional the client never sent and the client gets a bodiless 304")
			}
		})
	}
	r.Floor("C08.R4", nReqStores, 2, "assignments to http.Request fields in package proxy")

	// ---- R5
	for _, f := range li.Fns {
		if originPkgPath(f) != proxyPkg {
			continue
		}
		eachInstr(f, func(in ssa.Instruction) {
			st, ok := in.(*ssa.Store)
			if !ok {
				return
			}
			fv, _, is := fieldOf(st.Addr)
			if !is || fname(fv) != "UpstreamStatus" {
				return
			}
			_, p := fieldPath(st.Val)
			r.Check(strings.Join(p, ".") == "StatusCode", "C08.R5", fnKey(f)+": UpstreamStatus = resp.StatusCode", c.InstrPos(st), "origin status recorded unchanged", "UpstreamStatus is not the origin's resp.StatusCode")
		})
	}
	// ... and it is the status the response has when it is handed on: a response that a callee may replace in place
	// (`*resp = *retryResp` after a 416 retry) must not have had its status read before that call — the client would
	// get the first answer's status with the second answer's headers and body
	replacers := responseReplacers(li)
	nRepl := 0
	for _, h := range li.Fns {
		if originPkgPath(h) != proxyPkg {
			continue
		}
		eachInstr(h, func(in ssa.Instruction) {
			c0, ok := in.(*ssa.Call)
			if !ok {
				return
			}
			g := unwrapSynthetic(staticCallee(c0))
			if g == nil || replacers[g] == nil {
				return
			}
			for idx := range replacers[g] {
				args := callArgs(c0)
				if idx >= len(args) {
					continue
				}
				nRepl++
				A := args[idx]
				for _, fc := range helperContexts(h, 3) {
					eachInstr(fc.fn, func(in2 ssa.Instruction) {
						st, ok := in2.(*ssa.Store)
						if !ok {
							return
						}
						fa, isFA := st.Addr.(*ssa.FieldAddr)
						if !isFA || !strings.HasSuffix(fieldKeyOf(fa.X, fa.Field), "directFetchResult.Response") {
							return
						}
						root, pth := ctxFieldPath(st.Val, fc.ctx)
						if len(pth) != 0 || !sameVal(root, A) {
							return
						}
						var kLift ssa.Instruction = st
						if len(fc.ctx) > 0 {
							kLift = fc.ctx[0]
						}
						if kLift != ssa.Instruction(c0) && !reachableInstr(c0, kLift, nil) {
							return
						}
						// the status that travels with this response
						eachInstr(fc.fn, func(in3 ssa.Instruction) {
							s2, ok := in3.(*ssa.Store)
							if !ok {
								return
							}
							fv, _, is := fieldOf(s2.Addr)
							if !is || (fname(fv) != "UpstreamStatus" && fname(fv) != "fetchInfo") {
								return
							}
							// a status assigned to the record after it was filled as a whole (info.UpstreamStatus =
							// resp.StatusCode) replaces whatever status the record came with
							sval, sctx := s2.Val, fc.ctx
							for hop := 0; hop < 4; hop++ {
								if prm, isP := sval.(*ssa.Parameter); isP {
									if a, c2, okA := paramArg(prm, sctx); okA {
										sval, sctx = a, c2
										continue
									}
								}
								if ld0, isL := sval.(*ssa.UnOp); isL && ld0.Op == token.MUL {
									if al, isA := ld0.X.(*ssa.Alloc); isA {
										if fs := lastFieldStoreBefore(al, "UpstreamStatus", ld0); fs != nil {
											sval = fs.Val
										}
									}
								}
								break
							}
							derivesFromDeep(sval, sctx, func(v ssa.Value, dc dctx) bool {
								ld, ok := v.(*ssa.UnOp)
								if !ok || ld.Op != token.MUL {
									return false
								}
								lfa, ok := ld.X.(*ssa.FieldAddr)
								if !ok || !strings.HasSuffix(fieldKeyOf(lfa.X, lfa.Field), "net/http.Response.StatusCode") {
									return false
								}
								var l ssa.Instruction = ld
								if len(dc) > 0 {
									l = dc[0]
								}
								if l.Parent() != h || l == kLift || l == ssa.Instruction(c0) {
									return false
								}
								stale := reachableInstr(l, c0, nil)
								r.Check(!stale, "C08.R5", fnKey(h)+": relayed status is read after the response's last in-place replacement", c.InstrPos(l), "StatusCode is read after "+g.Name()+" returned", "the status recorded for the relayed response is read at "+c.InstrPos(ld)+" before "+g.Name()+" (which can replace the response in place with the answer to a retry) is called at "+c.InstrPos(c0)+": the client receives the first answer's status with the second answer's headers and body")
								return false
							})
						})
					})
				}
			}
		})
	}
	r.Floor("C08.R5", nRepl, 1, "calls that may replace an upstream response in place")
	for _, f := range li.Fns {
		if originPkgPath(f) != "reservoir/utils/countingreader" || f.Name() != "Read" {
			continue
		}
		var inner *ssa.Call
		eachInstr(f, func(in ssa.Instruction) {
			if x, ok := in.(*ssa.Call); ok && x.Call.IsInvoke() && x.Call.Method.Name() == "Read" {
				inner = x
			}
		})
		ok := false
		if inner != nil {
			eachInstr(f, func(in ssa.Instruction) {
				ret, isRet := in.(*ssa.Return)
				if !isRet || isRecoverReturn(ret) {
					return
				}
				vals := retVals(ret)
				if len(vals) == 2 {
					e0, ok0 := vals[0].(*ssa.Extract)
					e1, ok1 := vals[1].(*ssa.Extract)
					if ok0 && ok1 && e0.Tuple == ssa.Value(inner) && e0.Index == 0 && e1.Tuple == ssa.Value(inner) && e1.Index == 1 && len(inner.Call.Args) == 1 && inner.Call.Args[0] == ssa.Value(f.Params[len(f.Params)-1]) {
						ok = true
					}
				}
			})
		}
		r.Check(ok, "C08.R5", fnKey(f)+" is transparent", c.Pos(f.Pos()), "returns the wrapped reader's (n, err) for the caller's buffer", "the counting wrapper does not return exactly the inner Read's (n, err): relayed bodies are altered")
	}
	for _, f := range c.FuncsNamed(proxyPkg + ".finalizeAndRespond") {
		eachCall(f, func(call ssa.CallInstruction, n string) {
			if n != "("+responderPkg+".Responder).Write" {
				return
			}
			args := callArgs(call)
			st := args[1]
			r.Check(st == ssa.Value(paramNamed(f, "status")), "C08.R5", "finalizeAndRespond writes the status it was given", c.InstrPos(call), "status parameter passed through", "the status written differs from the one handed to finalizeAndRespond")
			body := unconv(args[2])
			phi, isPhi := body.(*ssa.Phi)
			ok := false
			if isPhi {
				var haveResp, haveNoBody bool
				for i, e := range phi.Edges {
					e = unconv(e)
					if e == ssa.Value(paramNamed(f, "resp")) {
						haveResp = true
					}
					if u, isU := e.(*ssa.UnOp); isU {
						if g, isG := u.X.(*ssa.Global); isG && g.Name() == "NoBody" {
							pred := phi.Block().Preds[i]
							fs := factStrs(f, pred.Instrs[len(pred.Instrs)-1])
							if hasFact(fs, `$req.Method=="HEAD"`, true) {
								haveNoBody = true
							}
						}
					}
				}
				ok = haveResp && haveNoBody
			}
			// the choice may have been moved into a helper (body := responseBody(req, resp))
			if hc, isCall := body.(*ssa.Call); isCall && !ok {
				if h := helperBody(hc); h != nil {
					var haveResp, haveNoBody, other bool
					eachInstr(h, func(in ssa.Instruction) {
						ret, isRet := in.(*ssa.Return)
						if !isRet || isRecoverReturn(ret) || len(ret.Results) != 1 {
							return
						}
						v := unconv(retVals(ret)[0])
						if prm, isP := v.(*ssa.Parameter); isP {
							if a, _, okA := paramArg(prm, dctx{hc}); okA && unconv(a) == ssa.Value(paramNamed(f, "resp")) {
								haveResp = true
								return
							}
						}
						if u, isU := v.(*ssa.UnOp); isU {
							if g, isG := u.X.(*ssa.Global); isG && g.Name() == "NoBody" {
								if hasFact(ctxFactStrs(h, ret, dctx{hc}), `$req.Method=="HEAD"`, true) {
									haveNoBody = true
									return
								}
							}
						}
						other = true
					})
					ok = haveResp && haveNoBody && !other
				}
			}
			r.Check(ok, "C08.R5", "body is the given reader, or NoBody exactly for HEAD", c.InstrPos(call), "phi(resp, http.NoBody under Method==HEAD)", "the body written is not the reader passed in (or HEAD handling changed)")
		})
	}
	for _, f := range c.FuncsNamed("(*" + proxyPkg + ".Proxy).processRequest") {
		seen := map[string]bool{}
		eachCall(f, func(call ssa.CallInstruction, n string) {
			if n != "("+responderPkg+".Responder).SetHeaders" {
				return
			}
			_, p := fieldPath(callArgs(call)[1])
			seen[strings.Join(p, ".")] = true
		})
		r.Check(seen["Direct.Response.Header"], "C08.R5", "relayed response copies the origin's header map", c.Pos(f.Pos()), "SetHeaders(Direct.Response.Header)", "the direct path does not copy the origin's headers")
		r.Check(seen["Cached.Entry.Metadata.Object.Header"], "C08.R5", "cached response copies the stored header map", c.Pos(f.Pos()), "SetHeaders(Cached.Entry.Metadata.Object.Header)", "the cached path does not copy the stored headers")
	}
	for _, f := range c.FuncsNamed("(*" + proxyPkg + ".fetcher).handleUpstream200") {
		ok := false
		eachInstr(f, func(in ssa.Instruction) {
			st, isSt := in.(*ssa.Store)
			if !isSt {
				return
			}
			fv, base, is := fieldOf(st.Addr)
			if is && fname(fv) == "Header" && strings.HasSuffix(structName(base.Type()), "cachedRequestInfo") {
				_, p := fieldPath(st.Val)
				if strings.Join(p, ".") == "Header" {
					ok = true
				}
			}
		})
		r.Check(ok, "C08.R5", "stored headers are the origin's header map", c.Pos(f.Pos()), "cachedRequestInfo.Header = resp.Header", "the header map stored with the entry is not the origin response's")
	}
	// a header line the origin sent is handed on in the origin's own spelling: where the proxy writes a validator of a
	// stored response out again from its parsed form (Last-Modified from a time.Time), it does so only where the
	// response being built does not carry the line already (the stored header map holds the original)
	nFmt := 0
	for _, f := range li.Fns {
		if originPkgPath(f) != proxyPkg {
			continue
		}
		eachCall(f, func(call ssa.CallInstruction, n string) {
			if n != "("+responderPkg+".Responder).SetHeader" {
				return
			}
			args := callArgs(call)
			name, isC := constString(args[1])
			if !isC || name != "Last-Modified" {
				return
			}
			reformatted := derivesFrom(args[2], func(v ssa.Value) bool {
				c2, ok := v.(*ssa.Call)
				return ok && calleeName(c2) == "(time.Time).Format"
			})
			if !reformatted {
				return
			}
			nFmt++
			fs := factStrsCtx(li, f, call.(ssa.Instruction))
			absent := false
			for k := range fs {
				if strings.Contains(k, "Get(") && strings.Contains(k, `"Last-Modified"`) && (strings.HasSuffix(k, `==""=true`) || strings.HasSuffix(k, `!=""=false`)) {
					absent = true
				}
			}
			r.Check(absent, "C08.R5", fnKey(f)+": a re-serialised Last-Modified replaces nothing the origin sent", c.InstrPos(call), "written only where the response has no Last-Modified line yet", "the stored response's Last-Modified is overwritten with the parsed time written out as an IMF-fixdate: an origin date in RFC 850 or asctime form reaches the client in another spelling than the origin sent (on hits and 206s, not on the relayed response)")
		})
	}
	r.Floor("C08.R5", nFmt, 1, "Last-Modified headers written from a parsed time")
	_ = token.ADD
}

func checkC10(c *Ctx, r *Report) {
	r.Decided = []string{
		"R1 per-exchange responder state: wherever handleHTTP is called inside a loop, the responder passed is allocated inside the same loop iteration (the responder accumulates headers / Content-Length / Transfer-Encoding that frame the next response)",
		"R2 the tunnel loop and the plain path call the same handleHTTP; request-path code in package proxy never branches on the dynamic type of the responder",
		"R3 the two responders agree on SetHeader (Set), AddHeader (Add) and SetHeaders (see C08.R3)",
		"R8 the tunnel loop stays in step: every path from an exchange back to http.ReadRequest consumes the rest of the request body, and the error edge of an exchange leaves the loop",
		"R7 the raw responder selects chunked framing only where 1xx/204/304 and http.NoBody (the answer to HEAD) are excluded by the branch facts (also through a predicate helper)",
		"R4/R6 exactly one response per exchange keeps requests and responses paired on the tunnel: every path through processRequest/handleHTTP writes a response (R4, shared with C16) and no path writes a second one — where a callee may already have answered, the caller's later writes are reachable only for error classes that callee returns without having written (R6; %w / errors.Is classes followed)",
	}
	r.NotDec = []string{"TLS framing", "byte-level equality with plain proxying", "state inside net/http's ResponseWriter"}
	li := BuildLocks(c)
	checkAnswered(c, r, li, "C10.R4")

	// ---- R8: the tunnel stays in step. Before the loop reads the next request from the tunnel, (a) whatever is
	// left of the current request's body has been consumed — otherwise those bytes are parsed as the next
	// request — and (b) an exchange that ended with an error has ended the tunnel: after a failed or short
	// write the client and the proxy no longer agree on where the next response starts.
	nTunnelBodies := 0
	for _, f := range c.FuncsNamed("(*" + proxyPkg + ".Proxy).handleCONNECT") {
		for _, hc := range helperContexts(f, 2) {
			g := hc.fn
			var read, handle *ssa.Call
			eachInstr(g, func(in ssa.Instruction) {
				if x, ok := in.(*ssa.Call); ok {
					switch calleeName(x) {
					case "net/http.ReadRequest":
						read = x
					case "(*" + proxyPkg + ".Proxy).handleHTTP":
						handle = x
					}
				}
			})
			if read != nil && handle == nil {
				// the loop that reads the requests hands each exchange to a helper (serveTunnelExchange(conn, req, host)) that
				// tells it whether the tunnel can go on: the clauses are decided over the pair
				if tunnelLoopSplit(c, r, li, g, read) {
					nTunnelBodies++
				}
				continue
			}
			if read == nil || handle == nil {
				continue
			}
			nTunnelBodies++
			reqV := extractOf(read, 0)
			isCopyName := func(n string) bool { return n == "io.Copy" || n == "io.CopyN" || n == "io.ReadAll" }
			// the reading call inside a helper that drains its reader parameter on every path (discardRest(body))
			helperCopy := func(h *ssa.Function, argIdx int) *ssa.Call {
				if h == nil || argIdx >= len(h.Params) {
					return nil
				}
				var ic *ssa.Call
				eachInstr(h, func(in ssa.Instruction) {
					x, ok := in.(*ssa.Call)
					if !ok || ic != nil || !isCopyName(calleeName(x)) {
						return
					}
					for _, a := range callArgs(x) {
						if resolveVal(unconv(a)) == ssa.Value(h.Params[argIdx]) {
							ic = x
						}
					}
				})
				if ic == nil {
					return nil
				}
				if len(exitsFromEntryAvoiding(h, func(in ssa.Instruction) bool { return in == ssa.Instruction(ic) }, nil)) > 0 {
					return nil
				}
				return ic
			}
			isReqBody := func(a ssa.Value) bool {
				if _, pth := fieldPath(unconv(a)); len(pth) > 0 && pth[len(pth)-1] == "Body" {
					return derivesFrom(a, func(v ssa.Value) bool { return reqV != nil && v == ssa.Value(reqV) })
				}
				return false
			}
			drainHelper := func(x *ssa.Call) (*ssa.Function, *ssa.Call) {
				h := helperBody(x)
				if h == nil {
					return nil, nil
				}
				for i, a := range callArgs(x) {
					if isReqBody(a) {
						if ic := helperCopy(h, i); ic != nil {
							return h, ic
						}
					}
				}
				return nil, nil
			}
			isDrain := func(in ssa.Instruction) bool {
				x, ok := in.(*ssa.Call)
				if !ok {
					return false
				}
				if isCopyName(calleeName(x)) {
					for _, a := range callArgs(x) {
						if isReqBody(a) {
							return true
						}
					}
					return false
				}
				h, _ := drainHelper(x)
				return h != nil
			}
			// (a) every way from the exchange back to ReadRequest passes the drain
			p0 := posOf(handle)
			p0.i++
			undrained := len(walkFrom(p0, isDrain, func(in ssa.Instruction) bool { return in == ssa.Instruction(read) }, nil)) > 0
			r.Check(!undrained, "C10.R8", fnKey(g)+": the request body is consumed before the next request is read", c.InstrPos(handle), "every path from handleHTTP back to http.ReadRequest passes io.Copy(io.Discard, req.Body)", "the tunnel loop reads the next request without having consumed the rest of the current request's body: a body the handler did not read (cache hit, coalesced follower) is parsed as the next request and answered — the client's real next request gets that answer")
			// (e) a request whose body the upstream transport has sent and closed (every POST / PUT that was relayed) does
			// not end the tunnel: the drain then fails with http.ErrBodyReadAfterClose although nothing is left on the
			// connection (closing a request body reads it to its end). Assuming the drain's error is that one, every
			// path goes back to http.ReadRequest; none leaves the loop.
			eachInstr(g, func(in ssa.Instruction) {
				if !isDrain(in) {
					return
				}
				dcall := in.(*ssa.Call)
				errOf := func(call *ssa.Call) ssa.Value {
					if tup, isT := call.Type().(*types.Tuple); isT {
						if ex := extractOf(call, tup.Len()-1); ex != nil {
							return ex
						}
						return nil
					}
					if call.Type().String() == "error" {
						return call
					}
					return nil
				}
				derr := errOf(dcall)
				if derr == nil {
					return // the error of the drain is ignored: nothing can end the tunnel on it
				}
				isClosedTest := func(v ssa.Value) (neg bool, ok bool) {
					for {
						if u, isU := v.(*ssa.UnOp); isU && u.Op == token.NOT {
							neg, v = !neg, u.X
							continue
						}
						break
					}
					sentinel := func(x ssa.Value) bool {
						u, ok := x.(*ssa.UnOp)
						if !ok {
							return false
						}
						gl, ok := u.X.(*ssa.Global)
						return ok && gname(gl) == "ErrBodyReadAfterClose"
					}
					switch x := v.(type) {
					case *ssa.Call:
						if calleeName(x) == "errors.Is" && len(x.Call.Args) == 2 && sentinel(unconv(x.Call.Args[1])) {
							return neg, true
						}
					case *ssa.BinOp:
						if (x.Op == token.EQL || x.Op == token.NEQ) && (sentinel(unconv(x.X)) || sentinel(unconv(x.Y))) {
							if x.Op == token.NEQ {
								neg = !neg
							}
							return neg, true
						}
					}
					return false, false
				}
				// edges compatible with "the read failed with http.ErrBodyReadAfterClose" in function fn, for the error value e
				assumeClosed := func(fn *ssa.Function, e ssa.Value) edgeFilter {
					nn := pruneNil(fn, e, false)
					return func(b *ssa.BasicBlock, si int) bool {
						if nn(b, si) {
							return true
						}
						if ifi, ok := b.Instrs[len(b.Instrs)-1].(*ssa.If); ok {
							if neg, is := isClosedTest(ifi.Cond); is {
								trueEdge := 0
								if neg {
									trueEdge = 1
								}
								return si != trueEdge
							}
						}
						return false
					}
				}
				assume := assumeClosed(g, derr)
				if h, ic := drainHelper(dcall); h != nil {
					// the classification may sit in the helper: if, under the assumption, every return of the helper hands
					// back a nil error, the caller sees "no error"
					if ie := errOf(ic); ie != nil {
						pi := posOf(ic)
						pi.i++
						nilOnClosed := true
						for _, e := range walkFrom(pi, nil, isReturn, assumeClosed(h, ie)) {
							vals := retVals(e.(*ssa.Return))
							if len(vals) == 0 || !isNilConst(vals[len(vals)-1]) {
								nilOnClosed = false
							}
						}
						if nilOnClosed {
							assume = pruneNil(g, derr, true)
						}
					}
				}
				pd := posOf(dcall)
				pd.i++
				leaves := walkFrom(pd, func(in2 ssa.Instruction) bool { return in2 == ssa.Instruction(read) }, isReturn, assume)
				r.Check(len(leaves) == 0, "C10.R8", fnKey(g)+": a request body already consumed by the upstream transport does not end the tunnel", c.InstrPos(dcall), "with the drain's error taken to be http.ErrBodyReadAfterClose every path returns to http.ReadRequest", "the tunnel loop is left when draining the request body fails, also when the failure is http.ErrBodyReadAfterClose — which is what the drain returns for every request body the upstream transport has sent and closed: each POST / PUT ends the tunnel and a request pipelined behind it is never answered, unlike on a plain connection")
			})
			// (c) a request that cannot be parsed is answered (400) before the tunnel is given up, as on a plain connection:
			// from the err != nil edge of ReadRequest every way out passes a WriteError, except where the error is io.EOF
			if rerr := extractOf(read, 1); rerr != nil {
				unanswered := false
				for _, t := range nilTestsOn(g, rerr) {
					nonNil := t.blk.Succs[1-t.nilIdx]
					isWrite := func(in ssa.Instruction) bool {
						x, ok := in.(*ssa.Call)
						if !ok {
							return false
						}
						n := calleeName(x)
						return strings.HasSuffix(n, "RawHTTPResponder).WriteError") || strings.HasSuffix(n, "responder.Responder).WriteError")
					}
					// skip the side on which the error is EOF (the client simply went away)
					skipEOF := func(b *ssa.BasicBlock, si int) bool {
						iff, ok := b.Instrs[len(b.Instrs)-1].(*ssa.If)
						if !ok {
							return false
						}
						cv, positive := stripNot(iff.Cond)
						call, ok := cv.(*ssa.Call)
						if !ok || calleeName(call) != "errors.Is" {
							return false
						}
						if u, ok := call.Call.Args[1].(*ssa.UnOp); ok {
							if gl, ok := u.X.(*ssa.Global); ok && (gname(gl) == "EOF" || gname(gl) == "ErrUnexpectedEOF") {
								return (si == 0) == positive
							}
						}
						return false
					}
					exits := walkFrom(pos{nonNil, 0}, isWrite, func(in ssa.Instruction) bool {
						_, isRet := in.(*ssa.Return)
						return isRet
					}, skipEOF)
					if len(exits) > 0 {
						unanswered = true
					}
				}
				r.Check(!unanswered, "C10.R8", fnKey(g)+": an unparseable request on the tunnel is answered before the tunnel closes", c.InstrPos(read), "the non-EOF error edge of http.ReadRequest passes WriteError", "a malformed request inside a CONNECT tunnel (`GET index.html HTTP/1.1`, a header line without a colon, two Content-Length headers) makes the loop close the connection without any response; the same bytes on a plain connection get 400 Bad Request")
			}
			// (b) an exchange whose response could not be written completely ends the tunnel: on the side where the error is
			// the incomplete-response sentinel the loop cannot reach ReadRequest again (an exchange that failed but was
			// answered in full — 416, 502 — may leave the tunnel open, as a plain connection stays usable)
			errBack := true
			errv := ssa.Value(handle)
			for _, blk := range g.Blocks {
				iff, ok := blk.Instrs[len(blk.Instrs)-1].(*ssa.If)
				if !ok {
					continue
				}
				cv, positive := stripNot(iff.Cond)
				isCall, ok := cv.(*ssa.Call)
				if !ok || calleeName(isCall) != "errors.Is" || !derivesFrom(isCall.Call.Args[0], func(v ssa.Value) bool { return v == errv }) {
					continue
				}
				u, ok := isCall.Call.Args[1].(*ssa.UnOp)
				if !ok {
					continue
				}
				gl, ok := u.X.(*ssa.Global)
				if !ok || gname(gl) != "ErrResponseIncomplete" {
					continue
				}
				trueIdx := 0
				if !positive {
					trueIdx = 1
				}
				if len(walkFrom(pos{blk.Succs[trueIdx], 0}, nil, func(in ssa.Instruction) bool { return in == ssa.Instruction(read) }, nil)) == 0 {
					errBack = false
				}
			}
			// a loop that leaves on every error is fine too
			if errBack {
				all := len(nilTestsOn(g, errv)) > 0
				for _, t := range nilTestsOn(g, errv) {
					nonNil := t.blk.Succs[1-t.nilIdx]
					if len(walkFrom(pos{nonNil, 0}, nil, func(in ssa.Instruction) bool { return in == ssa.Instruction(read) }, nil)) > 0 {
						all = false
					}
				}
				if all {
					errBack = false
				}
			}
			r.Check(!errBack, "C10.R8", fnKey(g)+": a failed exchange ends the tunnel", c.InstrPos(handle), "the incomplete-response side of handleHTTP's error cannot reach http.ReadRequest again", "after an exchange whose response was cut short (e.g. the origin sent less than the Content-Length it announced) the loop goes on reading requests: the next response is written into the middle of the broken one")
		}
	}

	r.Floor("C10.R8", nTunnelBodies, 1, "tunnel request loops analysed (a body that reads the requests, together with the exchange it runs)")

	// R7(f): the responder of an exchange on a raw connection is told which request it answers before the exchange
	// runs: the answer to HEAD has no body whatever is written (an error text after HEAD is read as the start of the
	// next response). Decided at every handleHTTP call whose responder is the raw one, wherever the tunnel loop put it.
	nRawEx := 0
	for _, g := range li.Fns {
		if originPkgPath(g) != proxyPkg {
			continue
		}
		eachInstr(g, func(hin ssa.Instruction) {
			handle, ok := hin.(*ssa.Call)
			if !ok || calleeName(handle) != "(*"+proxyPkg+".Proxy).handleHTTP" {
				return
			}
			hargs := callArgs(handle)
			if len(hargs) < 3 {
				return
			}
			respV := resolveVal(unconv(hargs[1]))
			if !strings.HasSuffix(canonTypes(respV.Type().String()), "responder.RawHTTPResponder") {
				return
			}
			nRawEx++
			reqV := resolveVal(hargs[2])
			told := false
			eachInstr(g, func(in ssa.Instruction) {
				x, ok := in.(*ssa.Call)
				if !ok || told || x == handle || !instrDominates(x, handle) {
					return
				}
				h := unwrapSynthetic(staticCallee(x))
				if h == nil || h.Blocks == nil || originPkgPath(h) != "reservoir/proxy/responder" {
					return
				}
				onResp, withReq := ssa.Value(x) == respV, false // the constructor itself may take the request
				for _, a := range callArgs(x) {
					if resolveVal(unconv(a)) == respV {
						onResp = true
					}
					if derivesFrom(a, func(v ssa.Value) bool { return v == reqV || resolveVal(v) == reqV }) {
						withReq = true
					}
				}
				if !onResp || !withReq {
					return
				}
				for _, hh := range pkgGroup(li, h) {
					eachInstr(hh, func(i2 ssa.Instruction) {
						if st, ok := i2.(*ssa.Store); ok {
							if fv, _, is := fieldOf(st.Addr); is && fname(fv) == "Request" {
								told = true
							}
						}
					})
				}
			})
			r.Check(told, "C10.R7", fnKey(g)+": the exchange's responder knows the request method", c.InstrPos(handle), "a responder method that records the request (response.Request) is called with this exchange's request before handleHTTP", "the tunnel responder is not told which request it answers: an error answer (502, 416, 508 ...) to a HEAD request is written with its message as body, which the client does not read after HEAD and takes for the start of the next response")
		})
	}
	r.Floor("C10.R7", nRawEx, 1, "exchanges answered through the raw responder")

	// R8(d): a failed Responder.Write is reported as an incomplete response (so that the tunnel loop can tell it from
	// an exchange that was answered in full)
	nW := 0
	for _, f := range li.Fns {
		if originPkgPath(f) != proxyPkg {
			continue
		}
		eachInstr(f, func(in ssa.Instruction) {
			call, ok := in.(*ssa.Call)
			if !ok || calleeName(call) != "(reservoir/proxy/responder.Responder).Write" {
				return
			}
			nW++
			errv := extractOf(call, 1)
			okS := errv != nil
			if okS {
				eachInstr(f, func(i2 ssa.Instruction) {
					ret, isRet := i2.(*ssa.Return)
					if !isRet || isRecoverReturn(ret) || !onlyWhenNil(f, ret, errv, false) {
						return
					}
					vals := retVals(ret)
					carries := len(vals) > 0 && derivesFrom(vals[len(vals)-1], func(v ssa.Value) bool {
						u, ok := v.(*ssa.UnOp)
						if !ok {
							return false
						}
						gl, ok := u.X.(*ssa.Global)
						return ok && gname(gl) == "ErrResponseIncomplete"
					})
					if !carries {
						okS = false
					}
				})
			}
			r.Check(okS, "C10.R8", fmt.Sprintf("%s: a failed response write is reported as ErrResponseIncomplete (#%d)", fnKey(f), nW), c.InstrPos(call), "every return on the err != nil edge of Write wraps the sentinel", "a response that could not be written completely is reported like any other error: the tunnel loop cannot tell that the connection is out of step")
		})
	}
	r.Floor("C10.R8", nW, 1, "Responder.Write call sites in package proxy")

	// ---- R7: framing on the raw connection. A response that cannot have a body (1xx, 204, 304, the answer to HEAD =
	// http.NoBody) is never given a chunked transfer encoding: the terminating chunk would stay unread on the tunnel
	// and be taken for the start of the next response.
	nChunk := 0
	for _, f := range li.Fns {
		if originPkgPath(f) != "reservoir/proxy/responder" {
			continue
		}
		eachInstr(f, func(in ssa.Instruction) {
			st, ok := in.(*ssa.Store)
			if !ok {
				return
			}
			fv, _, is := fieldOf(st.Addr)
			if !is || fname(fv) != "TransferEncoding" {
				return
			}
			isChunked := derivesFrom(st.Val, func(v ssa.Value) bool {
				s, ok := constString(v)
				return ok && s == "chunked"
			})
			if !isChunked {
				return
			}
			nChunk++
			fs := factStrsDeepAll(f, st)
			has := func(sub string, truth bool) bool { return hasFact(fs, sub, truth) }
			excl204 := has("==204", false)
			excl304 := has("==304", false)
			exclNoBody := has("==NoBody", false) || has("==*NoBody", false)
			excl1xx := has("<200", false) || has(">199", true) || has(">=200", true)
			r.Check(excl204 && excl304 && exclNoBody && excl1xx, "C10.R7", fmt.Sprintf("%s: chunked framing only for responses that have a body (#%d)", fnKey(f), nChunk), c.InstrPos(st), "reached only when status is not 1xx/204/304 and the body is not http.NoBody", fmt.Sprintf("a chunked transfer encoding is set without excluding body-less responses (204:%v 304:%v 1xx:%v NoBody:%v): the terminating chunk of a 204 / HEAD answer stays unread on the tunnel and corrupts the next response", excl204, excl304, excl1xx, exclNoBody))
		})
	}
	r.Floor("C10.R7", nChunk, 1, "sites that select chunked framing")
	nLoopCalls, nCalls := 0, 0
	for _, f := range li.Fns {
		if originPkgPath(f) != proxyPkg {
			continue
		}
		eachCall(f, func(call ssa.CallInstruction, n string) {
			if n != "(*"+proxyPkg+".Proxy).handleHTTP" {
				return
			}
			nCalls++
			in := call.(ssa.Instruction)
			inLoop := reachableInstr(in, in, nil)
			respArg := unconv(call.Common().Args[1])
			respArg = resolveVal(respArg)
			key := fmt.Sprintf("%s: handleHTTP call #%d", fnKey(f), nCalls)
			alloc, isCall := respArg.(*ssa.Call)
			if !inLoop {
				// the exchange may have been moved into a helper that the request loop calls (serveTunnelExchange):
				// the loop is then the caller's, and the responder is fresh if the helper constructs it, or if the
				// caller constructs the one it passes inside its loop
				var loopSites []*ssa.Call
				var up func(g *ssa.Function, d int)
				seenUp := map[*ssa.Function]bool{}
				up = func(g *ssa.Function, d int) {
					if d > 2 || seenUp[g] {
						return
					}
					seenUp[g] = true
					for _, cs := range li.Callers[g] {
						cc, ok := cs.in.(*ssa.Call)
						if !ok || originPkgPath(cs.in.Parent()) != proxyPkg {
							continue
						}
						if reachableInstr(cc, cc, nil) {
							if g == f {
								loopSites = append(loopSites, cc)
							} else {
								loopSites = append(loopSites, nil) // a loop further up: the helper chain runs once per iteration
							}
						} else {
							up(cs.in.Parent(), d+1)
						}
					}
				}
				up(f, 0)
				if len(loopSites) == 0 {
					r.OkT("C10.R1", key, c.InstrPos(in), "not in a loop: one responder, one exchange")
					return
				}
				nLoopCalls++
				if isCall && strings.HasPrefix(calleeName(alloc), responderPkg+".New") {
					r.OkT("C10.R1", key, c.InstrPos(in), "responder constructed by the per-exchange helper the request loop calls")
					return
				}
				okAll := true
				if prm, isP := respArg.(*ssa.Parameter); isP {
					for _, cc := range loopSites {
						if cc == nil {
							okAll = false
							continue
						}
						idx := -1
						for i, q := range f.Params {
							if q == prm {
								idx = i
							}
						}
						a := callArgs(cc)
						if idx < 0 || idx >= len(a) {
							okAll = false
							continue
						}
						ac, isC := resolveVal(unconv(a[idx])).(*ssa.Call)
						if !isC || !strings.HasPrefix(calleeName(ac), responderPkg+".New") || !reachableInstr(cc, ac, nil) {
							okAll = false
						}
					}
				} else {
					okAll = false
				}
				r.Check(okAll, "C10.R1", key, c.InstrPos(in), "the request loop constructs the responder it hands to the per-exchange helper inside the iteration", "one responder is constructed before the request loop and reused for every exchange on the tunnel: headers, Content-Length and Transfer-Encoding of one response frame the next")
				return
			}
			nLoopCalls++
			if !isCall || !strings.HasPrefix(calleeName(alloc), responderPkg+".New") {
				r.Fail("C10.R1", key, c.InstrPos(in), "the responder passed in a request loop is not a freshly constructed one ("+respArg.String()+")")
				return
			}
			perIter := reachableInstr(in, alloc, nil)
			r.Check(perIter, "C10.R1", key, c.InstrPos(in), "responder constructed inside the loop iteration", "one responder is constructed before the request loop and reused for every exchange on the tunnel: headers, Content-Length and Transfer-Encoding of one response frame the next")
		})
	}
	r.Floor("C10.R1", nLoopCalls, 1, "handleHTTP calls inside a request loop")
	r.Floor("C10.R2", nCalls, 2, "handleHTTP call sites (plain + tunnel)")
	// R2: no type switches on Responder
	respT := c.PkgBy[responderPkg].Types.Scope().Lookup("Responder").Type()
	nTA := 0
	for _, f := range li.Fns {
		if originPkgPath(f) != proxyPkg {
			continue
		}
		eachInstr(f, func(in ssa.Instruction) {
			ta, ok := in.(*ssa.TypeAssert)
			if !ok || !types.Identical(ta.X.Type(), respT) {
				return
			}
			nTA++
			r.Fail("C10.R2", fnKey(f)+": type assertion on Responder", c.InstrPos(in), "request handling branches on the dynamic type of the responder: tunnelled and plain requests are treated differently")
		})
	}
	if nTA == 0 {
		r.OkT("C10.R2", "no dynamic-type branching on Responder in package proxy", "-", "0 type assertions / switches")
	}
	// R3 sibling agreement
	impls := responderImpls(c)
	for _, m := range []struct{ name, want string }{{"SetHeader", "Set"}, {"AddHeader", "Add"}} {
		for _, nt := range impls {
			f := methodFn(c, nt, m.name)
			if f == nil {
				r.Undecided("C10.R3", nt.Obj().Name()+"."+m.name, "-", "method body not found")
				continue
			}
			ops := headerOps(li, f, 0)
			ok := ops[m.want] && len(ops) == 1
			r.Check(ok, "C10.R3", nt.Obj().Name()+"."+m.name+" uses Header."+m.want, c.Pos(f.Pos()), "same semantics in both responders", fmt.Sprintf("%s.%s does not map to Header.%s only (ops=%v): the transports disagree", nt.Obj().Name(), m.name, m.want, ops))
		}
	}
	forms := setHeadersForms(c, li, nil, "")
	var fl []string
	same, first := true, ""
	for k, v := range forms {
		fl = append(fl, k+"="+v)
		if first == "" {
			first = v
		} else if v != first {
			same = false
		}
	}
	sort.Strings(fl)
	r.Check(same && len(forms) >= 2, "C10.R3", "responders agree on SetHeaders", "-", strings.Join(fl, ", "), "the plain and the tunnel responder copy header maps differently: "+strings.Join(fl, ", "))
	r.Floor("C10.R3", len(impls), 2, "Responder implementations")
}

// setHeadersForms classifies each Responder implementation's SetHeaders:
// "add" (append per value), "set-per-value" (overwrites: keeps only the last
// value), or "whole" (assigns the value slice). Records obligations under rule
// when r != nil.
func setHeadersForms(c *Ctx, li *LockInfo, r *Report, rule string) map[string]string {
	impls := responderImpls(c)
	forms := map[string]string{}
	for _, nt := range impls {
		f := methodFn(c, nt, "SetHeaders")
		if f == nil {
			if r != nil {
				r.Undecided(rule, nt.Obj().Name()+".SetHeaders", "-", "method body not found")
			}
			continue
		}
		curCtx = c
		ops := headerOps(li, f, 0)
		perValueSet := false
		grp := []*ssa.Function{f}
		if li != nil {
			grp = pkgGroup(li, f)
		}
		for _, gf := range grp {
			eachCall(gf, func(call ssa.CallInstruction, n string) {
				isSet := n == "(net/http.Header).Set" || strings.HasSuffix(n, ").SetHeader")
				if !isSet {
					return
				}
				args := callArgs(call)
				val := args[len(args)-1]
				if derivesFrom(val, func(v ssa.Value) bool {
					ia, ok := v.(*ssa.IndexAddr)
					if !ok {
						return false
					}
					sl, ok := ia.X.Type().Underlying().(*types.Slice)
					return ok && types.TypeString(sl.Elem(), nil) == "string"
				}) {
					perValueSet = true
				}
			})
		}
		form := "add"
		if perValueSet {
			form = "set-per-value"
		} else if !ops["Add"] {
			form = "unknown"
			eachInstr(f, func(in ssa.Instruction) {
				if mu, ok := in.(*ssa.MapUpdate); ok {
					if _, isSl := mu.Value.Type().Underlying().(*types.Slice); isSl {
						form = "whole"
						// the very slice of the source map (range value) is stored: both maps now share one backing array
						if e, isE := mu.Value.(*ssa.Extract); isE {
							if _, isNext := e.Tuple.(*ssa.Next); isNext {
								form = "alias"
							}
						}
					}
				}
			})
		}
		forms[nt.Obj().Name()] = form
		if r == nil {
			continue
		}
		key := nt.Obj().Name() + ".SetHeaders keeps all values"
		switch form {
		case "add", "whole":
			r.Ok(rule, key, c.Pos(f.Pos()), "values are appended (Add) or assigned as a whole; no per-value Set")
		case "alias":
			r.Fail(rule, key, c.Pos(f.Pos()), "the source map's value slices are stored into the response header map without copying: the response and the stored entry (and every concurrent response built from it) share one backing array, so the AddHeader calls that follow append into the stored entry's headers — a data race between concurrent hits and headers of one response leaking into another")
		case "set-per-value":
			r.Fail(rule, key, c.Pos(f.Pos()), "each value of a field is written with Set/SetHeader, which overwrites the previous one: of several Set-Cookie / Link / Vary values only the last reaches the client")
		default:
			r.Fail(rule, key, c.Pos(f.Pos()), "SetHeaders neither appends each value nor assigns the whole slice")
		}
	}
	return forms
}

func isHTTPHeaderType(t types.Type) bool {
	s := t.String()
	return s == "net/http.Header" || s == "net/textproto.MIMEHeader" || s == "map[string][]string"
}

// responseReplacers: the functions of package proxy that may overwrite the http.Response one of their parameters
// points to (`*resp = ...`), themselves or through a same-package callee they hand the parameter to; per function
// the indices of such parameters.
func responseReplacers(li *LockInfo) map[*ssa.Function]map[int]bool {
	out := map[*ssa.Function]map[int]bool{}
	isResp := func(p *ssa.Parameter) bool {
		return strings.HasSuffix(p.Type().String(), "*net/http.Response")
	}
	mark := func(f *ssa.Function, i int) bool {
		if out[f] == nil {
			out[f] = map[int]bool{}
		}
		if out[f][i] {
			return false
		}
		out[f][i] = true
		return true
	}
	var fns []*ssa.Function
	for _, f := range li.Fns {
		if originPkgPath(f) == proxyPkg {
			fns = append(fns, f)
		}
	}
	for _, f := range fns {
		for i, p := range f.Params {
			if !isResp(p) {
				continue
			}
			eachInstr(f, func(in ssa.Instruction) {
				if st, ok := in.(*ssa.Store); ok && sameVal(st.Addr, p) {
					mark(f, i)
				}
			})
		}
	}
	for changed := true; changed; {
		changed = false
		for _, f := range fns {
			for i, p := range f.Params {
				if !isResp(p) {
					continue
				}
				eachInstr(f, func(in ssa.Instruction) {
					call, ok := in.(*ssa.Call)
					if !ok {
						return
					}
					g := unwrapSynthetic(staticCallee(call))
					if g == nil || out[g] == nil {
						return
					}
					for j, a := range callArgs(call) {
						if out[g][j] && sameVal(a, p) {
							if mark(f, i) {
								changed = true
							}
						}
					}
				})
			}
		}
	}
	return out
}

// lastFieldStoreBefore: the store to field `field` of the local struct a that decides the field's value at the load
// ld of the whole struct: it dominates ld, and no other store to that field or to the whole struct lies between.
func lastFieldStoreBefore(a *ssa.Alloc, field string, ld ssa.Instruction) *ssa.Store {
	var fieldStores, others []*ssa.Store
	if refs := a.Referrers(); refs != nil {
		for _, ref := range *refs {
			switch x := ref.(type) {
			case *ssa.FieldAddr:
				fv, _, is := fieldOf(x)
				for _, st := range storesTo(x) {
					if is && fname(fv) == field {
						fieldStores = append(fieldStores, st)
					}
				}
			case *ssa.Store:
				if x.Addr == ssa.Value(a) {
					others = append(others, x)
				}
			}
		}
	}
	for _, st := range fieldStores {
		if !instrDominates(st, ld) {
			continue
		}
		clean := true
		for _, o := range append(append([]*ssa.Store{}, others...), fieldStores...) {
			if o != st && reachableInstr(st, o, nil) && reachableInstr(o, ld, nil) {
				clean = false
			}
		}
		if clean {
			return st
		}
	}
	return nil
}

// tunnelLoopSplit decides C10.R8 for a tunnel loop whose body g reads the requests (read) and hands each one to a
// same-package helper H that runs the exchange and reports, as a bool, whether the tunnel can carry another one:
//
//	(a) the loop reads the next request only where H said yes, and H says yes only after the rest of the request body
//	    has been consumed (itself, or by a helper whose yes it passes on);
//	(b) on the incomplete-response side of handleHTTP's error H says no;
//	(c) an unparseable request is answered before the tunnel closes (in g);
//	(e) a drain that fails with http.ErrBodyReadAfterClose still ends in yes.
//
// Returns false (after reporting "undecided") if the pair has another shape.
func tunnelLoopSplit(c *Ctx, r *Report, li *LockInfo, g *ssa.Function, read *ssa.Call) bool {
	reqV := extractOf(read, 0)
	if reqV == nil {
		return false
	}
	// the exchange helper: called in g with the request, contains the handleHTTP call, returns one bool
	var k *ssa.Call
	var H *ssa.Function
	var handle *ssa.Call
	reqIdx := -1
	eachInstr(g, func(in ssa.Instruction) {
		x, ok := in.(*ssa.Call)
		if !ok || k != nil {
			return
		}
		h := helperBody(x)
		if h == nil {
			return
		}
		hc := findCall(h, "(*"+proxyPkg+".Proxy).handleHTTP")
		if hc == nil {
			return
		}
		for i, a := range callArgs(x) {
			if resolveVal(a) == ssa.Value(reqV) {
				k, H, handle, reqIdx = x, h, hc, i
			}
		}
	})
	if k == nil {
		return false
	}
	key := fnKey(g) + " + " + fnKey(H)
	if res := H.Signature.Results(); res.Len() != 1 || !isBoolType(res.At(0).Type()) {
		r.Undecided("C10.R8", key+": tunnel loop split over a helper", c.InstrPos(k), "the per-exchange helper does not report with a single bool whether the tunnel goes on: the drain / end-of-tunnel clauses are not decided for this shape")
		return false
	}
	isCopyName := func(n string) bool { return n == "io.Copy" || n == "io.CopyN" || n == "io.ReadAll" }
	// drains of the request (a parameter of fn) in fn
	drainsIn := func(fn *ssa.Function, reqP ssa.Value) []*ssa.Call {
		var out []*ssa.Call
		eachInstr(fn, func(in ssa.Instruction) {
			x, ok := in.(*ssa.Call)
			if !ok || !isCopyName(calleeName(x)) {
				return
			}
			for _, a := range callArgs(x) {
				if _, pth := fieldPath(unconv(a)); len(pth) > 0 && pth[len(pth)-1] == "Body" && derivesFrom(a, func(v ssa.Value) bool { return v == reqP }) {
					out = append(out, x)
				}
			}
		})
		return out
	}
	isClosedTest := func(v ssa.Value) (neg bool, ok bool) {
		for {
			if u, isU := v.(*ssa.UnOp); isU && u.Op == token.NOT {
				neg, v = !neg, u.X
				continue
			}
			break
		}
		if x, isC := v.(*ssa.Call); isC && calleeName(x) == "errors.Is" && len(x.Call.Args) == 2 {
			if u, isU := unconv(x.Call.Args[1]).(*ssa.UnOp); isU {
				if gl, isG := u.X.(*ssa.Global); isG && gname(gl) == "ErrBodyReadAfterClose" {
					return neg, true
				}
			}
		}
		return false, false
	}
	// yesOnlyAfterDrain: every return of fn that may be true lies behind a drain of the request; closedStillYes: with
	// the drain's error taken to be ErrBodyReadAfterClose, every return reached from the drain is true
	var yesOnlyAfterDrain func(fn *ssa.Function, reqP ssa.Value, d int) (bool, bool)
	yesOnlyAfterDrain = func(fn *ssa.Function, reqP ssa.Value, d int) (afterDrain bool, closedYes bool) {
		if d > 2 {
			return false, false
		}
		drains := drainsIn(fn, reqP)
		isDrain := func(in ssa.Instruction) bool {
			for _, dc := range drains {
				if in == ssa.Instruction(dc) {
					return true
				}
			}
			return false
		}
		afterDrain, closedYes = true, true
		eachInstr(fn, func(in ssa.Instruction) {
			ret, ok := in.(*ssa.Return)
			if !ok || isRecoverReturn(ret) {
				return
			}
			v := retVals(ret)[0]
			if b, isC := constBool(v); isC && !b {
				return
			}
			if mustPassBefore(fn, ret, isDrain, nil) {
				return
			}
			// the yes of another helper that is handed the request
			if hc2, isCall := resolveVal(v).(*ssa.Call); isCall {
				if h2 := helperBody(hc2); h2 != nil {
					for i, a := range callArgs(hc2) {
						if resolveVal(a) == reqP && i < len(h2.Params) {
							a2, c2 := yesOnlyAfterDrain(h2, h2.Params[i], d+1)
							if a2 {
								if !c2 {
									closedYes = false
								}
								return
							}
						}
					}
				}
			}
			afterDrain = false
		})
		for _, dc := range drains {
			var derr ssa.Value
			if tup, isT := dc.Type().(*types.Tuple); isT {
				if ex := extractOf(dc, tup.Len()-1); ex != nil {
					derr = ex
				}
			}
			if derr == nil {
				continue // the error is ignored: nothing can say no on it
			}
			nn := pruneNil(fn, derr, false)
			assume := func(b *ssa.BasicBlock, si int) bool {
				if nn(b, si) {
					return true
				}
				if ifi, ok := b.Instrs[len(b.Instrs)-1].(*ssa.If); ok {
					if neg, is := isClosedTest(ifi.Cond); is {
						trueEdge := 0
						if neg {
							trueEdge = 1
						}
						return si != trueEdge
					}
				}
				return false
			}
			pd := posOf(dc)
			pd.i++
			for _, e := range walkFrom(pd, nil, isReturn, assume) {
				if b, isC := constBool(retVals(e.(*ssa.Return))[0]); !isC || !b {
					closedYes = false
				}
			}
		}
		return afterDrain, closedYes
	}
	// (a) in g: the next request is read only on the yes side of the helper's answer
	yes := pruneTruth(g, k, true)
	onlyOnYes := len(ifsOn(g, k)) > 0 && !func() bool {
		p0 := posOf(k)
		p0.i++
		// with the yes edges removed, ReadRequest must be out of reach
		noYes := func(b *ssa.BasicBlock, si int) bool {
			for _, u := range ifsOn(g, k) {
				if u.blk == b {
					return (si == 0) == u.positive
				}
			}
			return false
		}
		return len(walkFrom(p0, nil, func(in ssa.Instruction) bool { return in == ssa.Instruction(read) }, noYes)) > 0
	}()
	_ = yes
	afterDrain, closedYes := yesOnlyAfterDrain(H, H.Params[reqIdx], 0)
	r.Check(onlyOnYes && afterDrain, "C10.R8", key+": the request body is consumed before the next request is read", c.InstrPos(k), "the loop goes on only where the exchange helper said yes, and it says yes only behind io.Copy(io.Discard, req.Body)", "the tunnel loop reads the next request without the rest of the current request's body having been consumed (the per-exchange helper can report 'go on' without draining, or the loop goes on whatever it reports): a body the handler did not read is parsed as the next request")
	r.Check(closedYes, "C10.R8", key+": a request body already consumed by the upstream transport does not end the tunnel", c.InstrPos(k), "with the drain's error taken to be http.ErrBodyReadAfterClose the helper still reports yes", "draining a request body the upstream transport has sent and closed fails with http.ErrBodyReadAfterClose, and the helper then reports that the tunnel cannot go on: each POST / PUT ends the tunnel and a request pipelined behind it is never answered")
	// (b) in H: on the incomplete-response side every return says no
	endsOnIncomplete := false
	for _, blk := range H.Blocks {
		iff, ok := blk.Instrs[len(blk.Instrs)-1].(*ssa.If)
		if !ok {
			continue
		}
		cv, positive := stripNot(iff.Cond)
		isCall, ok := cv.(*ssa.Call)
		if !ok || calleeName(isCall) != "errors.Is" || !derivesFrom(isCall.Call.Args[0], func(v ssa.Value) bool { return v == ssa.Value(handle) }) {
			continue
		}
		u, ok := isCall.Call.Args[1].(*ssa.UnOp)
		if !ok {
			continue
		}
		gl, ok := u.X.(*ssa.Global)
		if !ok || gname(gl) != "ErrResponseIncomplete" {
			continue
		}
		trueIdx := 0
		if !positive {
			trueIdx = 1
		}
		allNo := true
		for _, e := range walkFrom(pos{blk.Succs[trueIdx], 0}, nil, isReturn, nil) {
			if b, isC := constBool(retVals(e.(*ssa.Return))[0]); !isC || b {
				allNo = false
			}
		}
		if allNo {
			endsOnIncomplete = true
		}
	}
	r.Check(endsOnIncomplete && onlyOnYes, "C10.R8", key+": a failed exchange ends the tunnel", c.InstrPos(handle), "on the incomplete-response side of handleHTTP's error the helper reports no, and the loop reads on only after a yes", "after an exchange whose response was cut short the loop goes on reading requests: the next response is written into the middle of the broken one")
	// (c) in g: a request that cannot be parsed is answered before the tunnel is given up
	if rerr := extractOf(read, 1); rerr != nil {
		unanswered := false
		skipEOF := func(b *ssa.BasicBlock, si int) bool {
			iff, ok := b.Instrs[len(b.Instrs)-1].(*ssa.If)
			if !ok {
				return false
			}
			cv, positive := stripNot(iff.Cond)
			call, ok := cv.(*ssa.Call)
			if !ok || calleeName(call) != "errors.Is" {
				return false
			}
			if u, ok := call.Call.Args[1].(*ssa.UnOp); ok {
				if gl, ok := u.X.(*ssa.Global); ok && (gname(gl) == "EOF" || gname(gl) == "ErrUnexpectedEOF") {
					return (si == 0) == positive
				}
			}
			return false
		}
		isWrite := func(in ssa.Instruction) bool {
			x, ok := in.(*ssa.Call)
			if !ok {
				return false
			}
			n := calleeName(x)
			return strings.HasSuffix(n, "RawHTTPResponder).WriteError") || strings.HasSuffix(n, "responder.Responder).WriteError")
		}
		for _, t := range nilTestsOn(g, rerr) {
			nonNil := t.blk.Succs[1-t.nilIdx]
			if len(walkFrom(pos{nonNil, 0}, isWrite, isReturn, skipEOF)) > 0 {
				unanswered = true
			}
		}
		// the EOF test may come first (`if errors.Is(err, io.EOF) { return }; if err != nil { answer }`): then the
		// non-nil side is reached with EOF already excluded, which the walk above covers as well
		r.Check(!unanswered && len(nilTestsOn(g, rerr)) > 0, "C10.R8", key+": an unparseable request on the tunnel is answered before the tunnel closes", c.InstrPos(read), "the non-EOF error edge of http.ReadRequest passes WriteError", "a malformed request inside a CONNECT tunnel makes the loop close the connection without any response; the same bytes on a plain connection get 400 Bad Request")
	}
	return true
}
