package main

import (
	"fmt"
	"go/constant"
	"go/token"
	"go/types"
	"math"
	"math/big"
	"sort"
	"strings"

	"golang.org/x/tools/go/ssa"
)

func init() { register("C07", checkC07) }

const proxyPkg = "reservoir/proxy"
const headersPkg = "reservoir/proxy/headers"

// sprintfOperands returns the constant format and the operand values of a
// fmt.Sprintf call (through the varargs array), or of strconv.FormatInt/Itoa.
func sprintfOperands(v ssa.Value) (string, []ssa.Value, bool) {
	call, ok := v.(*ssa.Call)
	if !ok {
		return "", nil, false
	}
	switch calleeName(call) {
	case "strconv.FormatInt":
		return "%d", []ssa.Value{call.Call.Args[0]}, true
	case "strconv.Itoa":
		return "%d", []ssa.Value{call.Call.Args[0]}, true
	case "fmt.Sprintf", "fmt.Sprint", "fmt.Errorf":
	default:
		return "", nil, false
	}
	args := call.Call.Args
	format := ""
	var va ssa.Value
	if calleeName(call) == "fmt.Sprintf" || calleeName(call) == "fmt.Errorf" {
		format, _ = constString(args[0])
		va = args[1]
	} else {
		va = args[0]
	}
	sl, ok := va.(*ssa.Slice)
	if !ok {
		return format, nil, true
	}
	arr, ok := sl.X.(*ssa.Alloc)
	if !ok {
		return format, nil, false
	}
	type ent struct {
		i int64
		v ssa.Value
	}
	var ents []ent
	for _, ref := range *arr.Referrers() {
		ia, ok := ref.(*ssa.IndexAddr)
		if !ok {
			continue
		}
		idx, _ := constInt(ia.Index)
		for _, r2 := range *ia.Referrers() {
			if st, ok := r2.(*ssa.Store); ok && st.Addr == ssa.Value(ia) {
				ents = append(ents, ent{idx, unconv(st.Val)})
			}
		}
	}
	sort.Slice(ents, func(i, j int) bool { return ents[i].i < ents[j].i })
	var out []ssa.Value
	for _, e := range ents {
		out = append(out, e.v)
	}
	return format, out, true
}

// pathOf: "param.Field.Field" identity of a loaded value.
func pathOf(v ssa.Value) string {
	root, p := fieldPath(unconvNum(v))
	return nameOf(resolveVal(root)) + "." + strings.Join(p, ".")
}

// setHeaderCalls returns responder SetHeader calls in f with constant name.
func setHeaderCalls(f *ssa.Function) map[string][]*ssa.Call {
	out := map[string][]*ssa.Call{}
	eachInstr(f, func(in ssa.Instruction) {
		call, ok := in.(*ssa.Call)
		if !ok {
			return
		}
		n := calleeName(call)
		if n != "(reservoir/proxy/responder.Responder).SetHeader" && n != "(reservoir/proxy/responder.Responder).AddHeader" {
			return
		}
		args := callArgs(call)
		if name, ok := constString(args[1]); ok {
			out[name] = append(out[name], call)
		}
	})
	return out
}

// isFramingHeaderSet: a responder call that sets Content-Range / Content-Length
// (or a header whose name is not a constant). The full-200 path re-sets every
// other header it needs, but never clears these two.
func isAnyHeaderSet(in ssa.Instruction) bool {
	call, ok := in.(*ssa.Call)
	if !ok {
		return false
	}
	n := calleeName(call)
	if n != "(reservoir/proxy/responder.Responder).SetHeader" && n != "(reservoir/proxy/responder.Responder).AddHeader" {
		return false
	}
	name, isC := constString(callArgs(call)[1])
	if !isC {
		return true
	}
	name = strings.ToLower(name)
	return name == "content-range" || name == "content-length" || name == "transfer-encoding"
}

// cmpAtom: canonical form of a comparison between parameters/constants.
func cmpAtom(fn *ssa.Function, v ssa.Value, truth bool) (string, bool) {
	bo, ok := v.(*ssa.BinOp)
	if !ok {
		return "", false
	}
	name := func(x ssa.Value) (string, bool) {
		x = unconvNum(x)
		if k, ok := constInt(x); ok {
			return fmt.Sprintf("%d", k), true
		}
		if p, ok := x.(*ssa.Parameter); ok {
			for i, q := range fn.Params {
				if q == p {
					return fmt.Sprintf("p%d", i), true
				}
			}
		}
		return "", false
	}
	l, ok1 := name(bo.X)
	r, ok2 := name(bo.Y)
	if !ok1 || !ok2 {
		return "", false
	}
	op := bo.Op
	if !truth {
		op = negOp(op)
	}
	// canonical: smaller name on the left
	if l > r {
		l, r = r, l
		op = flipOp(op)
	}
	return l + op.String() + r, true
}

func checkC07(c *Ctx, r *Report) {
	r.Decided = []string{
		"R1 no undischarged panic obligation in the Range / If-Range parsing and serving code (same engine as C16, restricted to those functions)",
		"R2 in the 206 path the section reader, Content-Range and Content-Length are computed from the same SSA values: start, end from SliceSize, length = end-start+1, size = the stored entry size that SliceSize validated against",
		"R3 the 206 write is dominated by SliceSize's nil error; every return of SliceSize carries validateRange(start,end,size) or a constant error; validateRange returns nil only when start<0, end<0, start>=size, end>=size, start>end are all false",
		"R4 every decimal accumulator (acc = acc*10 + digit) reachable from untrusted input is guarded by a comparison on acc before the multiply",
		"R5 a 416 is written only after Content-Range: bytes */<stored size>; no header is set on any path to an If-Range mismatch return (the caller falls through to the full 200)",
		"R6 statuses handed to the responder on cached paths are the constants 200/206; the cached arm of getResponse yields the constant 200",
	}
	r.NotDec = []string{"that the slice served equals the one asked for, for every Range string (value semantics of the parser beyond overflow/bounds)", "If-Range date exactness, weak/strong validators", "byte equality of the section with the stored body"}
	li := BuildLocks(c)

	// ---- R1
	var roots []*ssa.Function
	for _, k := range []string{headersPkg + ".parseRangeHeader", headersPkg + ".parseRangeNumber", "(" + headersPkg + ".rangeHeader).SliceSize", headersPkg + ".validateRange", "(*" + proxyPkg + ".Proxy).handleRangeRequest", headersPkg + ".ParseHeaderDirective"} {
		fs := c.FuncsNamed(k)
		if len(fs) == 0 && k != headersPkg+".validateRange" { // the validator may have been inlined into SliceSize (R3 then decides the returns themselves)
			r.Undecided("C07.R1", k, "-", "unresolved anchor")
		}
		roots = append(roots, fs...)
	}
	rootSet := map[*ssa.Function]bool{}
	for _, f := range roots {
		rootSet[f] = true
	}
	table := loadTable(verifDirGlobal, "C16")
	nob := 0
	for _, o := range collectPanicObligations(c, li, rootSet, map[*ssa.Function]bool{}) {
		nob++
		if o.ok {
			r.Ok("C07.R1", o.key, c.InstrPos(o.in), o.why)
		} else if reason, ok := table[o.key]; ok {
			r.OkT("C07.R1", o.key, c.InstrPos(o.in), "reviewed: "+reason)
		} else {
			r.Fail("C07.R1", o.key, c.InstrPos(o.in), o.why)
		}
	}
	r.Floor("C07.R1", nob, 15, "panic obligations in the range code")

	// ---- R2 / R3 / R5 in handleRangeRequest
	for _, f := range c.FuncsNamed("(*" + proxyPkg + ".Proxy).handleRangeRequest") {
		var ss *ssa.Call
		var nsr *ssa.Call
		eachInstr(f, func(in ssa.Instruction) {
			if call, ok := in.(*ssa.Call); ok {
				switch calleeName(call) {
				case "(" + headersPkg + ".rangeHeader).SliceSize":
					ss = call
				case "io.NewSectionReader":
					nsr = call
				}
			}
		})
		if ss == nil || nsr == nil {
			r.Undecided("C07.R2", "handleRangeRequest anchors", c.Pos(f.Pos()), "SliceSize or io.NewSectionReader call not found")
			continue
		}
		start, end, errv := ssa.Value(extractOf(ss, 0)), ssa.Value(extractOf(ss, 1)), ssa.Value(extractOf(ss, 2))
		sizeArg := callArgs(ss)[1]
		sizePath := pathOf(sizeArg)
		r.Check(strings.HasSuffix(sizePath, ".Metadata.Size"), "C07.R2", "SliceSize validates against the stored size", c.InstrPos(ss), "argument is "+sizePath, "SliceSize is not called with the stored entry's Metadata.Size but with "+sizePath)
		// section reader
		na := nsr.Call.Args
		length := na[2]
		lenOK := false
		if bo, ok := length.(*ssa.BinOp); ok && bo.Op == token.ADD {
			if k, isC := constInt(bo.Y); isC && k == 1 {
				if sub, ok := bo.X.(*ssa.BinOp); ok && sub.Op == token.SUB && sub.X == end && sub.Y == start {
					lenOK = true
				}
			}
		}
		_, dataPath := fieldPath(unconv(na[0]))
		r.Check(na[1] == start && lenOK && len(dataPath) > 0 && dataPath[len(dataPath)-1] == "Data", "C07.R2", "section reader = (entry.Data, start, end-start+1)", c.InstrPos(nsr),
			"offset is SliceSize's start, length is end-start+1 of the same call, reader is the entry's Data", "io.NewSectionReader is not built from (cached.Data, start, end-start+1) of the validating SliceSize call")
		sh := setHeaderCalls(f)
		// Content-Length
		okCL := false
		for _, call := range sh["Content-Length"] {
			if _, ops, ok := sprintfOperands(callArgs(call)[2]); ok && len(ops) == 1 && ops[0] == length {
				okCL = true
			}
			if _, ops, ok := fmtShape(callArgs(call)[2]); ok && len(ops) == 1 && unconvNum(ops[0]) == unconvNum(length) {
				okCL = true
			}
		}
		r.Check(okCL, "C07.R2", "Content-Length is formatted from the section length", c.Pos(f.Pos()), "same SSA value as the section reader's length", "Content-Length of the 206 is not formatted from the very length given to the section reader")
		okCR := false
		for _, call := range sh["Content-Range"] {
			format, ops, ok := sprintfOperands(callArgs(call)[2])
			if !ok || format == "" {
				format, ops, ok = fmtShape(callArgs(call)[2]) // built by concatenation with strconv conversions
			}
			if ok && len(ops) == 3 && unconvNum(ops[0]) == unconvNum(start) && unconvNum(ops[1]) == unconvNum(end) && pathOf(ops[2]) == sizePath && strings.Contains(format, "%d-%d/%d") && strings.HasPrefix(format, "bytes ") {
				okCR = true
			}
		}
		r.Check(okCR, "C07.R2", "Content-Range is formatted from start, end and the validated size", c.Pos(f.Pos()), "bytes %d-%d/%d with (start, end, Metadata.Size)", "Content-Range of the 206 is not 'bytes <start>-<end>/<size>' of the values SliceSize returned/validated")
		// 206 writes
		n206 := 0
		eachInstr(f, func(in ssa.Instruction) {
			call, ok := in.(*ssa.Call)
			if !ok || calleeName(call) != proxyPkg+".finalizeAndRespond" {
				return
			}
			if k, isC := constInt(argOf(call, "status", 2)); isC && k == 206 {
				n206++
				okDom := errv != nil && onlyWhenNil(f, call, errv, true)
				body := unconv(argOf(call, "resp", 1))
				r.Check(okDom && body == ssa.Value(nsr), "C07.R3", "206 only after SliceSize succeeded, body is the section", c.InstrPos(call), "dominated by err == nil of SliceSize; body is the section reader", "the 206 write is reachable with a SliceSize error, or its body is not the validated section")
			}
		})
		r.Floor("C07.R3", n206, 1, "206 writes")
		// R5: 416
		n416 := 0
		eachInstr(f, func(in ssa.Instruction) {
			call, ok := in.(*ssa.Call)
			if !ok || calleeName(call) != "(reservoir/proxy/responder.Responder).WriteError" {
				return
			}
			if k, isC := constInt(callArgs(call)[2]); !isC || k != 416 {
				return
			}
			n416++
			okHdr := false
			for _, h := range sh["Content-Range"] {
				format, ops, ok := sprintfOperands(callArgs(h)[2])
				if !ok || format == "" {
					format, ops, ok = fmtShape(callArgs(h)[2])
				}
				if ok && strings.HasPrefix(format, "bytes */%d") && len(ops) == 1 && pathOf(ops[0]) == sizePath && instrDominates(h, call) {
					okHdr = true
				}
			}
			okErr := errv != nil && onlyWhenNil(f, call, errv, false)
			r.Check(okHdr && okErr, "C07.R5", "416 carries Content-Range: bytes */<stored size>", c.InstrPos(call), "dominated by SetHeader(Content-Range, bytes */Size) on the SliceSize-error edge", "a 416 is written without 'Content-Range: bytes */<size of the stored representation>' or outside the SliceSize-error branch")
		})
		r.Floor("C07.R5", n416, 1, "416 writes")
		nMis := 0
		isMismatchRet := func(in ssa.Instruction) (*ssa.Return, bool) {
			ret, ok := in.(*ssa.Return)
			if !ok || isRecoverReturn(ret) {
				return nil, false
			}
			vals := retVals(ret)
			if len(vals) == 0 {
				return nil, false
			}
			u, ok := vals[len(vals)-1].(*ssa.UnOp)
			if !ok {
				return nil, false
			}
			gl, ok := u.X.(*ssa.Global)
			return ret, ok && gname(gl) == "ErrIfRangeMismatch"
		}
		// the If-Range decision may sit in f itself or in a same-package helper f calls
		for _, h := range pkgGroup(li, f) {
			if h.Parent() != nil {
				continue
			}
			eachInstr(h, func(in ssa.Instruction) {
				ret, ok := isMismatchRet(in)
				if !ok {
					return
				}
				nMis++
				// sites in f that stand for this return: the return itself, or the calls of the helper
				var sites []ssa.Instruction
				if h == f {
					sites = []ssa.Instruction{ret}
				} else {
					for _, cs := range li.Callers[h] {
						if cs.in.Parent() == f {
							sites = append(sites, cs.in)
						}
					}
				}
				bad := ""
				eachInstr(h, func(in2 ssa.Instruction) {
					if isAnyHeaderSet(in2) && reachableInstr(in2, ret, nil) {
						bad = c.InstrPos(in2)
					}
				})
				okDom := len(sites) > 0
				for _, site := range sites {
					if h != f {
						eachInstr(f, func(in2 ssa.Instruction) {
							if isAnyHeaderSet(in2) && reachableInstr(in2, site, nil) {
								bad = c.InstrPos(in2)
							}
						})
					}
					if errv == nil || !onlyWhenNil(f, site, errv, true) {
						okDom = false
					}
				}
				r.Check(bad == "", "C07.R5", fmt.Sprintf("If-Range mismatch return #%d leaves the response untouched", nMis), c.InstrPos(ret), "no Content-Range/Content-Length setter can execute before this return", "Content-Range/Content-Length is set at "+bad+" before the If-Range mismatch return: it leaks into the full 200 the caller sends next (the 200 path never clears it)")
				_ = okDom // (an earlier version required the mismatch return to lie on the satisfiable side of SliceSize; the property asks for the opposite order: see below)
			})
		}
		r.Floor("C07.R5", nMis, 1, "If-Range mismatch returns")
		// If-Range comes first: "an If-Range that does not match yields the full 200" holds for every Range, also one
		// that does not fit the stored body — a 416 is written only after the If-Range validator was looked at
		// (in this function or in the helper it was moved to)
		var ifrTest ssa.Instruction
		eachInstr(f, func(in ssa.Instruction) {
			call, ok := in.(*ssa.Call)
			if !ok || ifrTest != nil {
				return
			}
			n := calleeName(call)
			if strings.HasSuffix(n, "headers.Header).IsPresent") {
				if _, pth := fieldPath(callArgs(call)[0]); len(pth) > 0 && pth[len(pth)-1] == "IfRange" {
					ifrTest = in
				}
			}
			if h := helperBody(call); h != nil {
				found := false
				eachInstr(h, func(i2 ssa.Instruction) {
					if c2, ok := i2.(*ssa.Call); ok && strings.HasSuffix(calleeName(c2), "headers.Header).IsPresent") {
						if _, pth := fieldPath(callArgs(c2)[0]); len(pth) > 0 && pth[len(pth)-1] == "IfRange" {
							found = true
						}
					}
				})
				if found {
					ifrTest = in
				}
			}
		})
		eachInstr(f, func(in ssa.Instruction) {
			call, ok := in.(*ssa.Call)
			if !ok || calleeName(call) != "(reservoir/proxy/responder.Responder).WriteError" {
				return
			}
			if k, isC := constInt(callArgs(call)[2]); !isC || k != 416 {
				return
			}
			r.Check(ifrTest != nil && instrDominates(ifrTest, call), "C07.R5", "the 416 is written only after If-Range was evaluated", c.InstrPos(call), "the If-Range test dominates the 416 write", "a Range that does not fit the stored body is refused with 416 before If-Range is looked at: a guarded resume (`Range: bytes=1000-` with `If-Range: \"old\"`) against a replaced, shorter body gets 416 instead of the full 200 the mismatching validator asks for")
		})
		// an If-Range that names no validator (an empty field value) matches nothing either: (1) the header parser records
		// an If-Range for every value the field can have — no way through its If-Range arm skips the store — and (2) where
		// the entity-tag form is compared with the stored ETag, the empty tag is a mismatch whatever is stored (an origin
		// that sent no ETag leaves the stored one empty too)
		for _, pf := range c.FuncsNamed(headersPkg + ".ParseHeaderDirective") {
			for _, g := range append([]*ssa.Function{pf}, closuresOf(pf)...) {
				for _, b := range g.Blocks {
					iff, ok := b.Instrs[len(b.Instrs)-1].(*ssa.If)
					if !ok {
						continue
					}
					bo, ok := iff.Cond.(*ssa.BinOp)
					if !ok || bo.Op != token.EQL {
						continue
					}
					if k, isC := constString(bo.Y); !isC || k != "If-Range" {
						continue
					}
					isStore := func(in ssa.Instruction) bool {
						st, ok := in.(*ssa.Store)
						if !ok {
							return false
						}
						_, pth := fieldPath(st.Addr)
						return len(pth) >= 2 && pth[len(pth)-2] == "IfRange" && pth[len(pth)-1] == "value"
					}
					// the arm ends where the loop goes on to the next header (back to a block that dominates this test)
					// or the function returns
					leaves := walkFrom(pos{b.Succs[0], 0}, isStore, func(in ssa.Instruction) bool {
						if _, isRet := in.(*ssa.Return); isRet {
							return true
						}
						blk := in.Block()
						return in == blk.Instrs[0] && blk != b.Succs[0] && blk.Dominates(b)
					}, nil)
					r.Check(len(leaves) == 0, "C07.R5", "every If-Range field value is recorded as an If-Range", c.InstrPos(iff), "no way through the parser's If-Range arm skips the store of IfRange.value", "the header parser can leave If-Range unset although the request carries the field (an empty value): the Range is then served as if no If-Range had been sent, instead of the full 200 a validator that matches nothing asks for")
				}
			}
		}
		{
			emptyRefused := false
			for _, hc := range helperContexts(f, 2) {
				g := hc.fn
				for _, b := range g.Blocks {
					iff, ok := b.Instrs[len(b.Instrs)-1].(*ssa.If)
					if !ok {
						continue
					}
					cv, positive := stripNot(iff.Cond)
					bo, ok := cv.(*ssa.BinOp)
					if !ok || (bo.Op != token.EQL && bo.Op != token.NEQ) {
						continue
					}
					var other ssa.Value
					if k, isC := constString(bo.Y); isC && k == "" {
						other = bo.X
					} else if k, isC := constString(bo.X); isC && k == "" {
						other = bo.Y
					}
					if other == nil || !derivesFrom(other, func(v ssa.Value) bool {
						call, ok := v.(*ssa.Call)
						return ok && strings.Contains(calleeName(call), "ForceUnwrapLeft")
					}) {
						continue
					}
					emptyIdx := 0
					if (bo.Op == token.NEQ) == positive {
						emptyIdx = 1
					}
					// on the "tag is empty" side every return is the mismatch
					allMis := true
					for _, e := range walkFrom(pos{b.Succs[emptyIdx], 0}, nil, isReturn, nil) {
						vals := retVals(e.(*ssa.Return))
						if len(vals) == 0 || !derivesFrom(vals[len(vals)-1], func(v ssa.Value) bool {
							u, ok := v.(*ssa.UnOp)
							if !ok {
								return false
							}
							gl, ok := u.X.(*ssa.Global)
							return ok && gname(gl) == "ErrIfRangeMismatch"
						}) {
							allMis = false
						}
					}
					if allMis {
						emptyRefused = true
					}
				}
			}
			// ... or the comparison sits in a bool helper (ifRangeMatches): it reports a match only for a non-empty tag
			if !emptyRefused {
				fromTag := func(v ssa.Value) bool {
					return derivesFrom(v, func(y ssa.Value) bool {
						call, ok := y.(*ssa.Call)
						return ok && strings.Contains(calleeName(call), "ForceUnwrapLeft")
					})
				}
				for _, hc := range helperContexts(f, 2) {
					g := hc.fn
					bi := -1 // the bool among the helper's results (matches bool, validator string)
					for ri := 0; ri < g.Signature.Results().Len(); ri++ {
						if isBoolType(g.Signature.Results().At(ri).Type()) && bi < 0 {
							bi = ri
						}
					}
					if g == f || bi < 0 {
						continue
					}
					usesTag := false
					eachInstr(g, func(in ssa.Instruction) {
						if call, ok := in.(*ssa.Call); ok && strings.Contains(calleeName(call), "ForceUnwrapLeft") {
							usesTag = true
						}
					})
					if !usesTag {
						continue
					}
					all, n := true, 0
					eachInstr(g, func(in ssa.Instruction) {
						ret, ok := in.(*ssa.Return)
						if !ok || isRecoverReturn(ret) {
							return
						}
						vals := retVals(ret)
						if bi >= len(vals) {
							return
						}
						v := vals[bi]
						if bv, isC := constBool(v); isC && !bv {
							return
						}
						// a return that may say "match" on the entity-tag arm: it has to know the tag non-empty
						if !fromTag(v) {
							tagArm := false
							for _, fc := range factsAt(g, ret) {
								if fromTag(fc.cond) {
									tagArm = true
								}
							}
							if !tagArm {
								return // the date arm
							}
						}
						n++
						nonEmpty := false
						for _, fc := range append(factsAt(g, ret), conjuncts(g, v, 0)...) {
							cv, positive := stripNot(fc.cond)
							bo, isB := cv.(*ssa.BinOp)
							if !isB || (bo.Op != token.EQL && bo.Op != token.NEQ) {
								continue
							}
							var other ssa.Value
							if k, isK := constString(bo.Y); isK && k == "" {
								other = bo.X
							} else if k, isK := constString(bo.X); isK && k == "" {
								other = bo.Y
							}
							if other == nil || !fromTag(other) {
								continue
							}
							isEmpty := (bo.Op == token.EQL) == positive // the condition says "tag is empty"
							if isEmpty != fc.truth {
								nonEmpty = true
							}
						}
						if !nonEmpty {
							all = false
						}
					})
					if all && n > 0 {
						emptyRefused = true
					}
				}
			}
			r.Check(emptyRefused, "C07.R5", "an empty If-Range entity-tag is a mismatch", c.Pos(f.Pos()), "the tag taken from If-Range is tested against \"\" and that side returns the mismatch", "an empty If-Range is compared with the stored ETag like any other tag: when the origin sent no ETag both are empty, the comparison succeeds and the range is served although the client's validator names nothing")
		}
		// a date validator matches only the stored Last-Modified itself: later as well as earlier dates are mismatches
		for _, hc := range helperContexts(f, 2) {
			g := hc.fn
			eachInstr(g, func(in ssa.Instruction) {
				call, ok := in.(*ssa.Call)
				if !ok {
					return
				}
				n := calleeName(call)
				if n != "(time.Time).Before" && n != "(time.Time).After" && n != "(time.Time).Equal" && n != "(time.Time).Compare" {
					return
				}
				args := callArgs(call)
				onLM := false
				for _, a := range args {
					if _, pth := fieldPath(a); len(pth) > 0 && pth[len(pth)-1] == "LastModified" {
						onLM = true
					}
				}
				if !onLM {
					return
				}
				// which orderings of (If-Range date, Last-Modified) can reach a mismatch return in g?
				kinds := map[string]bool{}
				eachInstr(g, func(i2 ssa.Instruction) {
					c2, ok := i2.(*ssa.Call)
					if !ok {
						return
					}
					switch calleeName(c2) {
					case "(time.Time).Before", "(time.Time).After", "(time.Time).Equal":
						a2 := callArgs(c2)
						lm := false
						for _, a := range a2 {
							if _, pth := fieldPath(a); len(pth) > 0 && pth[len(pth)-1] == "LastModified" {
								lm = true
							}
						}
						if lm {
							kinds[calleeName(c2)[len("(time.Time)."):]] = true
						}
					}
				})
				exact := kinds["Equal"] || (kinds["Before"] && kinds["After"])
				r.Check(exact, "C07.R5", fnKey(g)+": an If-Range date matches only the stored Last-Modified itself", c.InstrPos(call), "compared with Equal (or with both Before and After)", "the If-Range date is compared with the stored Last-Modified in one direction only: a later (or earlier) date than the stored one counts as a match and the client gets a 206 of a representation it did not ask to resume")
			})
		}
	}

	// ---- R3: SliceSize / validateRange
	for _, f := range c.FuncsNamed("(" + headersPkg + ".rangeHeader).SliceSize") {
		n := 0
		eachInstr(f, func(in ssa.Instruction) {
			ret, ok := in.(*ssa.Return)
			if !ok || len(ret.Results) != 3 {
				return
			}
			n++
			key := fmt.Sprintf("SliceSize return #%d", n)
			ev := ret.Results[2]
			if call, ok := ev.(*ssa.Call); ok && calleeName(call) == headersPkg+".validateRange" {
				a := call.Call.Args
				dsz := paramNamed(f, "dataSize")
				r.Check(a[0] == ret.Results[0] && a[1] == ret.Results[1] && dsz != nil && a[2] == ssa.Value(dsz), "C07.R3", key, c.InstrPos(ret), "error is validateRange(returned start, returned end, dataSize)", "the returned error does not validate the very start/end being returned against dataSize")
				return
			}
			// the validator may hand the bounds back together with its verdict: return validate(start, end, dataSize)
			if ex, ok := ev.(*ssa.Extract); ok {
				if call, ok := ex.Tuple.(*ssa.Call); ok && calleeName(call) == headersPkg+".validateRange" {
					a := call.Call.Args
					dsz := paramNamed(f, "dataSize")
					h := helperBody(call)
					passes := func(ri int) bool {
						// result ri of the validator is its parameter ri on every return
						return h != nil && ri < len(h.Params) && helperResultBounded(h, ri, func(_ *ssa.Return, v ssa.Value) bool { return v == ssa.Value(h.Params[ri]) })
					}
					same := func(ri int) bool {
						if ret.Results[ri] == a[ri] {
							return true
						}
						e2, ok := ret.Results[ri].(*ssa.Extract)
						return ok && e2.Tuple == ssa.Value(call) && e2.Index == ri && passes(ri)
					}
					r.Check(same(0) && same(1) && dsz != nil && a[2] == ssa.Value(dsz), "C07.R3", key, c.InstrPos(ret), "error is the validator's verdict on (returned start, returned end, dataSize)", "the returned error does not validate the very start/end being returned against dataSize")
					return
				}
			}
			if u, ok := ev.(*ssa.UnOp); ok {
				if _, isG := u.X.(*ssa.Global); isG {
					r.OkT("C07.R3", key, c.InstrPos(ret), "constant error")
					return
				}
			}
			// the validation written out in SliceSize itself: success is returned only where the five orderings are known
			if isNilConst(ev) {
				fs := factStrs(f, ret)
				st, en, sz := atomStr(ret.Results[0]), atomStr(ret.Results[1]), "$dataSize"
				if dsz := paramNamed(f, "dataSize"); dsz != nil {
					sz = atomStr(dsz)
				}
				need := map[string]bool{st + ">-1": true, en + ">-1": true, st + "<" + sz: true, en + "<" + sz: true, en + "<" + st: false}
				var missing []string
				for a, want := range need {
					if !fs[fmt.Sprintf("%s=%v", a, want)] {
						missing = append(missing, fmt.Sprintf("%s=%v", a, want))
					}
				}
				sort.Strings(missing)
				r.Check(len(missing) == 0, "C07.R3", key, c.InstrPos(ret), "success is returned only where 0 <= start <= end < dataSize is known for the returned bounds", "SliceSize returns success without having established "+strings.Join(missing, ", ")+" for the bounds it returns")
				return
			}
			r.Fail("C07.R3", key, c.InstrPos(ret), "SliceSize returns without validating the range (error is "+ev.String()+")")
		})
		r.Floor("C07.R3", n, 1, "returns of SliceSize")
	}
	for _, f := range c.FuncsNamed(headersPkg + ".validateRange") {
		if len(f.Params) != 3 {
			r.Undecided("C07.R3", "validateRange signature", c.Pos(f.Pos()), "expected (start, end, size)")
			continue
		}
		st, en, sz := "$"+pname(f.Params[0]), "$"+pname(f.Params[1]), "$"+pname(f.Params[2])
		classify := func(a string) string {
			switch a {
			case st + ">-1":
				return "!sNeg"
			case en + ">-1":
				return "!eNeg"
			case st + "<" + sz:
				return "sLtD"
			case en + "<" + sz:
				return "eLtD"
			case en + "<" + st:
				return "eLtS"
			case st + "<" + en:
				return "sLtE"
			}
			return ""
		}
		bs := &boolSummer{li: li}
		ok, detail, n := bs.checkTable(f, f.Signature.Results().Len()-1, classify, func(v map[string]bool) (bool, bool) {
			// arithmetic consistency of the orderings: start<end and end<start cannot both hold
			if v["sLtE"] && v["eLtS"] {
				return false, false
			}
			return !v["sNeg"] && !v["eNeg"] && v["sLtD"] && v["eLtD"] && !v["eLtS"], true
		})
		r.Check(ok, "C07.R3", "validateRange accepts exactly 0 <= start <= end < size", c.Pos(f.Pos()), detail, "validateRange's acceptance differs from 'start>=0 ∧ end>=0 ∧ start<size ∧ end<size ∧ start<=end': "+detail)
		r.Floor("C07.R3", n, 16, "rows of validateRange's truth table")
	}

	// ---- R4 accumulators
	nAcc := checkAccumulators(c, r, li, "C07.R4", func(pk string) bool {
		return pk == headersPkg || pk == "reservoir/utils/bytesize" || pk == proxyPkg || pk == "reservoir/utils/phc" || pk == "reservoir/utils"
	})
	r.Floor("C07.R4", nAcc, 2, "decimal accumulators (range number, byte size)")

	// ---- R6
	for _, f := range c.FuncsNamed("(*" + proxyPkg + ".fetchResult).getResponse") {
		n := 0
		eachInstr(f, func(in ssa.Instruction) {
			ret, ok := in.(*ssa.Return)
			if !ok || len(ret.Results) != 3 {
				return
			}
			_, dp := fieldPath(unconv(ret.Results[0]))
			if len(dp) < 2 || dp[0] != "Cached" {
				return
			}
			n++
			k, isC := constInt(ret.Results[2])
			r.Check(isC && k == 200, "C07.R6", "getResponse: cached arm status", c.InstrPos(ret), "constant 200", "the cached arm hands out fetchInfo.UpstreamStatus (0 for a hit, 304 after a revalidation) as the status to answer with")
		})
		r.Floor("C07.R6", n, 1, "cached arm of getResponse")
	}
	for _, f := range c.FuncsNamed("(*" + proxyPkg + ".Proxy).processRequest") {
		n := 0
		eachInstr(f, func(in ssa.Instruction) {
			call, ok := in.(*ssa.Call)
			if !ok || calleeName(call) != proxyPkg+".finalizeAndRespond" {
				return
			}
			n++
			st := argOf(call, "status", 2)
			_, bp := fieldPath(unconv(argOf(call, "resp", 1)))
			cachedBody := len(bp) > 0 && bp[0] == "Cached"
			key := fmt.Sprintf("processRequest: finalizeAndRespond #%d", n)
			if cachedBody {
				k, isC := constInt(st)
				r.Check(isC && k == 200, "C07.R6", key, c.InstrPos(call), "stored body answered with constant 200", "a stored body is answered with a non-constant status")
			} else {
				_, sp := fieldPath(st)
				r.Check(len(sp) >= 2 && sp[0] == "Direct" && sp[len(sp)-1] == "UpstreamStatus", "C07.R6", key, c.InstrPos(call), "relayed with the origin's status", "relayed response does not carry Direct.UpstreamStatus")
			}
		})
		r.Floor("C07.R6", n, 2, "finalizeAndRespond calls in processRequest")
	}
}

// checkAccumulators: loop-carried decimal accumulators (acc = acc*10 + digit) in the packages selected by inScope
// must be guarded by a bound comparison on acc before the multiplication. Returns the number found.
func checkAccumulators(c *Ctx, r *Report, li *LockInfo, rule string, inScope func(pkg string) bool) int {
	nAcc := 0
	for _, f := range li.Fns {
		if !inScope(originPkgPath(f)) {
			continue
		}
		eachInstr(f, func(in ssa.Instruction) {
			mul, ok := in.(*ssa.BinOp)
			if !ok || mul.Op != token.MUL {
				return
			}
			k, isC := constInt(mul.Y)
			phi, isPhi := mul.X.(*ssa.Phi)
			if !isC || k != 10 || !isPhi {
				return
			}
			bt, ok := mul.Type().Underlying().(*types.Basic)
			if !ok || bt.Info()&types.IsInteger == 0 {
				return
			}
			// loop-carried: some edge of phi derives from mul
			carried := false
			for _, e := range phi.Edges {
				if derivesFrom(e, func(v ssa.Value) bool { return v == ssa.Value(mul) }) {
					carried = true
				}
			}
			if !carried {
				return
			}
			nAcc++
			ok2, why := accumulatorGuarded(f, phi, mul, bt)
			r.Check(ok2, rule, fnKey(f)+": decimal accumulator "+phi.Comment, c.InstrPos(mul), why, "acc = acc*10 + digit is not guarded against overflow on every path ("+why+"): a long digit string wraps around and parses as a different, valid-looking number")
		})
	}
	return nAcc
}

// accumulatorGuarded decides, for every path of one loop iteration from the accumulator's phi to acc*10 (+ digit),
// whether the branch conditions on that path bound acc (and the digit) so that acc*10 + digit fits the type:
//   - exact form: acc <= (M - digit)/10 with M <= the type's maximum and digit the value that is added;
//   - constant form: acc <= K (and optionally acc != K, digit <= D) with K*10 + D <= maximum (D = 9 if unbounded);
//   - a bound on the length of the digit string that the type can hold (dominating fact).
func accumulatorGuarded(f *ssa.Function, phi *ssa.Phi, mul *ssa.BinOp, bt *types.Basic) (bool, string) {
	max := new(big.Int)
	switch bt.Kind() {
	case types.Int8:
		max.SetInt64(math.MaxInt8)
	case types.Int16:
		max.SetInt64(math.MaxInt16)
	case types.Int32:
		max.SetInt64(math.MaxInt32)
	case types.Int, types.Int64:
		max.SetInt64(math.MaxInt64)
	case types.Uint8:
		max.SetInt64(math.MaxUint8)
	case types.Uint16:
		max.SetInt64(math.MaxUint16)
	case types.Uint32:
		max.SetInt64(math.MaxUint32)
	default:
		max.SetUint64(math.MaxUint64)
	}
	// the digit: the other operand of the addition that consumes mul
	var digit ssa.Value
	if mul.Referrers() != nil {
		for _, ref := range *mul.Referrers() {
			if add, ok := ref.(*ssa.BinOp); ok && add.Op == token.ADD {
				if add.X == ssa.Value(mul) {
					digit = add.Y
				} else {
					digit = add.X
				}
			}
		}
	}
	sameDigit := func(v ssa.Value) bool {
		if digit == nil {
			return false
		}
		if v == digit {
			return true
		}
		// int64(ch - '0') computed twice: same shape over the same character value
		a, b := unconvNum(v), unconvNum(digit)
		sa, oka := a.(*ssa.BinOp)
		sb, okb := b.(*ssa.BinOp)
		if oka && okb && sa.Op == token.SUB && sb.Op == token.SUB && unconvNum(sa.X) == unconvNum(sb.X) {
			ka, ok1 := constInt(sa.Y)
			kb, ok2 := constInt(sb.Y)
			return ok1 && ok2 && ka == kb
		}
		return false
	}
	isAcc := func(v ssa.Value) bool { return unconvNum(v) == ssa.Value(phi) }
	bigOf := func(v ssa.Value) (*big.Int, bool) {
		for {
			switch x := v.(type) {
			case *ssa.Convert:
				v = x.X
				continue
			case *ssa.ChangeType:
				v = x.X
				continue
			}
			break
		}
		if cst, ok := v.(*ssa.Const); ok && cst.Value != nil && cst.Value.Kind() == constant.Int {
			b, ok := new(big.Int).SetString(cst.Value.ExactString(), 10)
			return b, ok
		}
		return nil, false
	}
	// exact form operand: (M - digit) / 10
	isExactBound := func(v ssa.Value) bool {
		q, ok := unconvNum(v).(*ssa.BinOp)
		if !ok || q.Op != token.QUO {
			return false
		}
		if ten, ok := constInt(q.Y); !ok || ten != 10 {
			return false
		}
		sub, ok := unconvNum(q.X).(*ssa.BinOp)
		if !ok || sub.Op != token.SUB || !sameDigit(sub.Y) {
			return false
		}
		m, ok := bigOf(sub.X)
		return ok && m.Cmp(max) <= 0
	}
	type bound struct {
		exact  bool
		accMax *big.Int // nil: unbounded
		accNe  []*big.Int
		dMax   *big.Int
	}
	one := big.NewInt(1)
	apply := func(b *bound, cond ssa.Value, truth bool) {
		bo, ok := cond.(*ssa.BinOp)
		if !ok {
			return
		}
		op := bo.Op
		x, y := bo.X, bo.Y
		// normalise to "subject op other"
		subjAcc, subjDig := isAcc(x), sameDigit(x)
		if !subjAcc && !subjDig && (isAcc(y) || sameDigit(y)) {
			x, y = y, x
			subjAcc, subjDig = isAcc(x), sameDigit(x)
			switch op {
			case token.LSS:
				op = token.GTR
			case token.GTR:
				op = token.LSS
			case token.LEQ:
				op = token.GEQ
			case token.GEQ:
				op = token.LEQ
			}
		}
		if !subjAcc && !subjDig {
			return
		}
		if !truth {
			switch op {
			case token.LSS:
				op = token.GEQ
			case token.GTR:
				op = token.LEQ
			case token.LEQ:
				op = token.GTR
			case token.GEQ:
				op = token.LSS
			case token.EQL:
				op = token.NEQ
			case token.NEQ:
				op = token.EQL
			}
		}
		if subjAcc && isExactBound(y) && (op == token.LEQ || op == token.LSS || op == token.EQL) {
			b.exact = true
			return
		}
		kv, ok := bigOf(y)
		if !ok {
			return
		}
		var ub *big.Int
		switch op {
		case token.LEQ, token.EQL:
			ub = kv
		case token.LSS:
			ub = new(big.Int).Sub(kv, one)
		case token.NEQ:
			if subjAcc {
				b.accNe = append(b.accNe, kv)
			}
			return
		default:
			return
		}
		if subjAcc {
			if b.accMax == nil || ub.Cmp(b.accMax) < 0 {
				b.accMax = ub
			}
		} else if b.dMax == nil || ub.Cmp(b.dMax) < 0 {
			b.dMax = ub
		}
	}
	fits := func(b *bound) bool {
		if b.exact {
			return true
		}
		if b.accMax == nil {
			return false
		}
		am := new(big.Int).Set(b.accMax)
		for changed := true; changed; {
			changed = false
			for _, ne := range b.accNe {
				if ne.Cmp(am) == 0 {
					am.Sub(am, one)
					changed = true
				}
			}
		}
		d := big.NewInt(9)
		if b.dMax != nil && b.dMax.Cmp(d) < 0 {
			d = b.dMax
		}
		v := new(big.Int).Mul(am, big.NewInt(10))
		v.Add(v, d)
		return v.Cmp(max) <= 0
	}
	// facts that dominate the loop body from outside (a length bound on the digit string)
	digits := len(max.String()) - 1 // every number with that many digits fits
	for _, fc := range factsAt(f, mul) {
		bo, ok := fc.cond.(*ssa.BinOp)
		if !ok {
			continue
		}
		lenOf := func(v ssa.Value) bool {
			call, ok := unconvNum(v).(*ssa.Call)
			if !ok {
				return false
			}
			bi, ok := call.Call.Value.(*ssa.Builtin)
			return ok && bi.Name() == "len"
		}
		if lenOf(bo.X) {
			if kv, ok := constInt(bo.Y); ok {
				le := (bo.Op == token.GTR && !fc.truth && kv <= int64(digits)) || (bo.Op == token.LEQ && fc.truth && kv <= int64(digits)) ||
					(bo.Op == token.GEQ && !fc.truth && kv-1 <= int64(digits)) || (bo.Op == token.LSS && fc.truth && kv-1 <= int64(digits))
				if le {
					return true, fmt.Sprintf("the digit string is at most %d characters long, which always fits", digits)
				}
			}
		}
	}
	// paths of one iteration: from the phi's block to the block of mul
	start, target := phi.Block(), mul.Block()
	var bad string
	nPaths := 0
	var walk func(b *ssa.BasicBlock, seen map[*ssa.BasicBlock]bool, bd bound)
	walk = func(b *ssa.BasicBlock, seen map[*ssa.BasicBlock]bool, bd bound) {
		if bad != "" || nPaths > 4096 {
			return
		}
		if b == target {
			nPaths++
			if !fits(&bd) {
				desc := "acc unbounded"
				if bd.accMax != nil {
					desc = "acc <= " + bd.accMax.String()
					if bd.dMax != nil {
						desc += ", digit <= " + bd.dMax.String()
					}
					desc += ": acc*10 + digit can exceed " + max.String()
				}
				bad = desc
			}
			return
		}
		if seen[b] {
			return
		}
		seen[b] = true
		defer delete(seen, b)
		if len(b.Instrs) == 0 {
			return
		}
		if ifi, ok := b.Instrs[len(b.Instrs)-1].(*ssa.If); ok {
			for k, succ := range b.Succs {
				nb := bd
				nb.accNe = append([]*big.Int(nil), bd.accNe...)
				apply(&nb, ifi.Cond, k == 0)
				walk(succ, seen, nb)
			}
			return
		}
		for _, succ := range b.Succs {
			walk(succ, seen, bd)
		}
	}
	walk(start, map[*ssa.BasicBlock]bool{}, bound{})
	if nPaths == 0 {
		return false, "no path from the loop head to the multiplication found"
	}
	if nPaths > 4096 {
		return false, "too many paths to enumerate"
	}
	if bad != "" {
		return false, bad
	}
	return true, fmt.Sprintf("on each of the %d paths of an iteration the branch conditions imply acc*10 + digit <= %s", nPaths, max.String())
}
