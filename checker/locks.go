package main

// E2: lock classes, intraprocedural may/must-held sets, interprocedural entry
// contexts, transitive acquisition summaries and the lock-order graph.

import (
	"fmt"
	"go/types"
	"sort"
	"strings"

	"golang.org/x/tools/go/ssa"
)

type LockClass string

type lockKind int

const (
	kLock lockKind = iota
	kRLock
	kTryLock
	kTryRLock
	kUnlock
	kRUnlock
)

func (k lockKind) blocking() bool { return k == kLock || k == kRLock }
func (k lockKind) acquire() bool  { return k <= kTryRLock }

type lockOp struct {
	in       ssa.CallInstruction
	fn       *ssa.Function
	class    LockClass
	kind     lockKind
	deferred bool
}

type lset map[LockClass]bool

func (s lset) clone() lset {
	o := lset{}
	for k := range s {
		o[k] = true
	}
	return o
}
func (s lset) keys() []string {
	var o []string
	for k := range s {
		o = append(o, string(k))
	}
	sort.Strings(o)
	return o
}
func (s lset) String() string { return "{" + strings.Join(s.keys(), ",") + "}" }

func union(a, b lset) lset {
	o := a.clone()
	for k := range b {
		o[k] = true
	}
	return o
}
func inter(a, b lset) lset {
	o := lset{}
	for k := range a {
		if b[k] {
			o[k] = true
		}
	}
	return o
}
func sameSet(a, b lset) bool {
	if len(a) != len(b) {
		return false
	}
	for k := range a {
		if !b[k] {
			return false
		}
	}
	return true
}

type orderEdge struct {
	from, to LockClass
	blocking bool
	site     ssa.Instruction
	fn       *ssa.Function
	via      string // callee chain summary when interprocedural
}

type LockInfo struct {
	c          *Ctx
	Fns        []*ssa.Function
	Ops        []lockOp
	opAt       map[ssa.Instruction]*lockOp
	May, Must  map[ssa.Instruction]lset // locally held just before the instruction
	MustX      map[ssa.Instruction]lset // must-held in exclusive (write) mode
	EntryMustX map[*ssa.Function]lset
	EntryMay   map[*ssa.Function]lset
	EntryMust  map[*ssa.Function]lset
	Acq        map[*ssa.Function]map[LockClass]int // bit0 = blocking, bit1 = try
	Callees    map[ssa.Instruction][]*ssa.Function
	Callers    map[*ssa.Function][]callSite
	Edges      []orderEdge
	Unpaired   []string // descriptions
	UnpairedAt []ssa.Instruction
	Undecided  []string
	UndecAt    []ssa.Instruction
	GoRoots    map[*ssa.Function]bool // functions started with `go`
}

type callSite struct {
	in     ssa.Instruction
	caller *ssa.Function
	isGo   bool
}

func isMutexPtr(t types.Type) bool {
	p, ok := t.Underlying().(*types.Pointer)
	if !ok {
		return false
	}
	n, ok := p.Elem().(*types.Named)
	if !ok || n.Obj().Pkg() == nil || n.Obj().Pkg().Path() != "sync" {
		return false
	}
	return n.Obj().Name() == "RWMutex" || n.Obj().Name() == "Mutex"
}

func lockKindOf(name string) (lockKind, bool) {
	switch name {
	case "(*sync.RWMutex).Lock", "(*sync.Mutex).Lock":
		return kLock, true
	case "(*sync.RWMutex).RLock":
		return kRLock, true
	case "(*sync.RWMutex).TryLock", "(*sync.Mutex).TryLock":
		return kTryLock, true
	case "(*sync.RWMutex).TryRLock":
		return kTryRLock, true
	case "(*sync.RWMutex).Unlock", "(*sync.Mutex).Unlock":
		return kUnlock, true
	case "(*sync.RWMutex).RUnlock":
		return kRUnlock, true
	}
	return 0, false
}

// BuildLocks runs E2 over all concrete module functions.
func BuildLocks(c *Ctx) *LockInfo {
	li := &LockInfo{c: c, opAt: map[ssa.Instruction]*lockOp{}, May: map[ssa.Instruction]lset{}, Must: map[ssa.Instruction]lset{}, MustX: map[ssa.Instruction]lset{}, EntryMustX: map[*ssa.Function]lset{},
		EntryMay: map[*ssa.Function]lset{}, EntryMust: map[*ssa.Function]lset{}, Acq: map[*ssa.Function]map[LockClass]int{},
		Callees: map[ssa.Instruction][]*ssa.Function{}, Callers: map[*ssa.Function][]callSite{}, GoRoots: map[*ssa.Function]bool{}}
	li.Fns = c.Concrete()
	curConcrete = li.Fns
	inSet := map[*ssa.Function]bool{}
	for _, f := range li.Fns {
		inSet[f] = true
	}
	// call resolution
	cg := c.CG()
	for _, f := range li.Fns {
		node := cg.Nodes[f]
		byInstr := map[ssa.Instruction][]*ssa.Function{}
		if node != nil {
			for _, e := range node.Out {
				if e.Site == nil || e.Callee.Func == nil {
					continue
				}
				g := e.Callee.Func
				if g.Blocks == nil || !isModPath(originPkgPath(g)) {
					continue
				}
				// resolve through synthetic wrappers / bound thunks to the real body
				g = unwrapSynthetic(g)
				if g == nil {
					continue
				}
				byInstr[e.Site] = appendUniqueFn(byInstr[e.Site], g)
			}
		}
		eachInstr(f, func(in ssa.Instruction) {
			call, ok := asCall(in)
			if !ok {
				return
			}
			var cs []*ssa.Function
			if sc := staticCallee(call); sc != nil {
				if g := unwrapSynthetic(sc); g != nil && g.Blocks != nil && isModPath(originPkgPath(g)) {
					cs = append(cs, g)
				}
			} else {
				cs = byInstr[in]
			}
			// closures / module function values passed to a body-less or external callee are
			// treated as called at this site (callbacks: singleflight.Do, slices.SortFunc, ...).
			ext := len(cs) == 0 || !isModPath(originPkgPath(cs[0]))
			if sc := staticCallee(call); sc != nil && isModPath(originPkgPath(sc)) {
				ext = false
			}
			if ext {
				for _, a := range call.Common().Args {
					switch v := a.(type) {
					case *ssa.MakeClosure:
						if g, ok := v.Fn.(*ssa.Function); ok {
							cs = appendUniqueFn(cs, g)
						}
					case *ssa.Function:
						if v.Blocks != nil && isModPath(originPkgPath(v)) {
							cs = appendUniqueFn(cs, v)
						}
					}
				}
			}
			if len(cs) > 0 {
				li.Callees[in] = cs
				_, isGo := in.(*ssa.Go)
				for _, g := range cs {
					li.Callers[g] = append(li.Callers[g], callSite{in, f, isGo})
					if isGo {
						li.GoRoots[g] = true
					}
				}
			}
		})
	}
	// lock operations
	for _, f := range li.Fns {
		eachCall(f, func(call ssa.CallInstruction, name string) {
			k, ok := lockKindOf(name)
			if !ok {
				return
			}
			args := call.Common().Args
			if len(args) == 0 {
				return
			}
			cl, ok := li.classify(args[0], 0)
			if !ok {
				li.Undecided = append(li.Undecided, fmt.Sprintf("%s: cannot classify mutex receiver %s of %s", fnKey(f), args[0].String(), name))
				li.UndecAt = append(li.UndecAt, call)
				return
			}
			_, isDefer := call.(*ssa.Defer)
			op := lockOp{in: call, fn: f, class: cl, kind: k, deferred: isDefer}
			li.Ops = append(li.Ops, op)
			li.opAt[call] = &li.Ops[len(li.Ops)-1]
		})
	}
	// re-index (slice may have been reallocated)
	for i := range li.Ops {
		li.opAt[li.Ops[i].in] = &li.Ops[i]
	}
	for _, f := range li.Fns {
		li.flow(f)
	}
	li.summaries()
	li.contexts()
	li.order()
	return li
}

func appendUniqueFn(s []*ssa.Function, f *ssa.Function) []*ssa.Function {
	for _, x := range s {
		if x == f {
			return s
		}
	}
	return append(s, f)
}

// unwrapSynthetic follows instantiation wrappers / bound-method thunks (single
// static call bodies) to the function with the real body.
func unwrapSynthetic(g *ssa.Function) *ssa.Function {
	for i := 0; i < 4 && g != nil; i++ {
		if g.Synthetic == "" || strings.HasPrefix(g.Synthetic, "instance of") || g.Parent() != nil {
			return g
		}
		// wrapper/thunk/bound: find the single static call
		var next *ssa.Function
		n := 0
		if g.Blocks == nil {
			return g
		}
		eachCall(g, func(call ssa.CallInstruction, _ string) {
			if sc := staticCallee(call); sc != nil {
				next = sc
				n++
			}
		})
		if n != 1 {
			return g
		}
		g = next
	}
	return g
}

// classify maps a mutex pointer value to its lock class.
func (li *LockInfo) classify(v ssa.Value, depth int) (LockClass, bool) {
	if depth > 6 {
		return "", false
	}
	switch x := v.(type) {
	case *ssa.FieldAddr:
		return LockClass("F:" + fieldKeyOf(x.X, x.Field)), true
	case *ssa.IndexAddr:
		// element of a slice/array of mutexes: shard class
		return "S", true
	case *ssa.Global:
		return LockClass("G:" + x.Pkg.Pkg.Path() + "." + gname(x)), true
	case *ssa.UnOp:
		// load of a *sync.Mutex-typed field or variable
		if fa, ok := x.X.(*ssa.FieldAddr); ok {
			return LockClass("F:" + fieldKeyOf(fa.X, fa.Field)), true
		}
		if g, ok := x.X.(*ssa.Global); ok {
			return LockClass("G:" + g.Pkg.Pkg.Path() + "." + gname(g)), true
		}
		if fv, ok := x.X.(*ssa.FreeVar); ok {
			if b := freeVarBinding(fv); b != nil {
				// captured variable cell: look for its stores in the parent
				for _, s := range storesTo(b) {
					if cl, ok := li.classify(s.Val, depth+1); ok {
						return cl, true
					}
				}
			}
		}
		if a, ok := x.X.(*ssa.Alloc); ok {
			var cl LockClass
			n := 0
			for _, s := range storesTo(a) {
				c2, ok := li.classify(s.Val, depth+1)
				if !ok || (n > 0 && c2 != cl) {
					return "", false
				}
				cl = c2
				n++
			}
			if n > 0 {
				return cl, true
			}
		}
	case *ssa.Phi:
		var cl LockClass
		for i, e := range x.Edges {
			c2, ok := li.classify(e, depth+1)
			if !ok {
				return "", false
			}
			if i > 0 && c2 != cl {
				return "", false
			}
			cl = c2
		}
		return cl, len(x.Edges) > 0
	case *ssa.Call:
		cs := li.Callees[x]
		if sc := staticCallee(x); sc != nil && len(cs) == 0 {
			cs = []*ssa.Function{sc}
		}
		if len(cs) == 0 {
			// CG edges may not be registered yet (classification runs after call resolution, so they are)
			return "", false
		}
		var cl LockClass
		n := 0
		for _, g := range cs {
			if g.Blocks == nil {
				return "", false
			}
			for _, b := range g.Blocks {
				for _, in := range b.Instrs {
					ret, ok := in.(*ssa.Return)
					if !ok {
						continue
					}
					for _, rv := range ret.Results {
						if !isMutexPtr(rv.Type()) {
							continue
						}
						c2, ok := li.classify(rv, depth+1)
						if !ok || (n > 0 && c2 != cl) {
							return "", false
						}
						cl = c2
						n++
					}
				}
			}
		}
		return cl, n > 0
	case *ssa.FreeVar:
		if b := freeVarBinding(x); b != nil {
			return li.classify(b, depth+1)
		}
	case *ssa.Parameter:
		// classify through all callers' arguments
		f := x.Parent()
		idx := -1
		for i, p := range f.Params {
			if p == x {
				idx = i
			}
		}
		var cl LockClass
		n := 0
		members := map[LockClass]bool{}
		for _, cs := range li.Callers[f] {
			call, ok := asCall(cs.in)
			if !ok {
				continue
			}
			args := callArgs(call)
			if idx >= len(args) {
				return "", false
			}
			c2, ok := li.classify(args[idx], depth+1)
			if !ok {
				return "", false
			}
			members[c2] = true
			cl = c2
			n++
		}
		if len(members) > 1 {
			// a helper shared by several owners (touch(&c.mu, …) from both backends): the mutex it is handed is one
			// of several classes, depending on the caller. It gets a class of its own whose members are remembered.
			pc := LockClass(fmt.Sprintf("P:%s#%d", fnKey(f), idx))
			var ms []LockClass
			for m := range members {
				ms = append(ms, m)
			}
			sort.Slice(ms, func(i, j int) bool { return ms[i] < ms[j] })
			paramMembers[pc] = ms
			return pc, true
		}
		return cl, n > 0
	}
	return "", false
}

// paramMembers: for the class of a mutex parameter that different callers bind to different locks, those locks.
var paramMembers = map[LockClass][]LockClass{}

type flowState struct {
	may, must lset
	mustX     lset
	defMay    lset // classes with a pending deferred unlock
}

func (li *LockInfo) flow(f *ssa.Function) {
	if len(f.Blocks) == 0 {
		return
	}
	in := map[*ssa.BasicBlock]*flowState{}
	in[f.Blocks[0]] = &flowState{may: lset{}, must: lset{}, mustX: lset{}, defMay: lset{}}
	work := []*ssa.BasicBlock{f.Blocks[0]}
	iter := 0
	for len(work) > 0 && iter < 10000 {
		iter++
		b := work[0]
		work = work[1:]
		st := &flowState{may: in[b].may.clone(), must: in[b].must.clone(), mustX: in[b].mustX.clone(), defMay: in[b].defMay.clone()}
		var tryCall ssa.Value
		var tryClass LockClass
		tryX := false
		for _, ins := range b.Instrs {
			li.May[ins] = st.may.clone()
			li.Must[ins] = st.must.clone()
			li.MustX[ins] = st.mustX.clone()
			if _, ok := ins.(*ssa.RunDefers); ok {
				for k := range st.defMay {
					delete(st.may, k)
					delete(st.must, k)
					delete(st.mustX, k)
				}
				continue
			}
			op := li.opAt[ins]
			if op == nil {
				continue
			}
			switch {
			case op.deferred && !op.kind.acquire():
				st.defMay[op.class] = true
			case op.kind == kLock || op.kind == kRLock:
				st.may[op.class] = true
				st.must[op.class] = true
				if op.kind == kLock {
					st.mustX[op.class] = true
				}
			case op.kind == kTryLock || op.kind == kTryRLock:
				if v, ok := ins.(ssa.Value); ok {
					tryCall = v
					tryClass = op.class
					tryX = op.kind == kTryLock
				}
			case !op.kind.acquire():
				delete(st.may, op.class)
				delete(st.must, op.class)
				delete(st.mustX, op.class)
			}
		}
		for si, s := range b.Succs {
			out := &flowState{may: st.may.clone(), must: st.must.clone(), mustX: st.mustX.clone(), defMay: st.defMay.clone()}
			// TryLock success edge
			if iff, ok := b.Instrs[len(b.Instrs)-1].(*ssa.If); ok {
				cv, positive := stripNot(iff.Cond)
				tc, cl, tx := tryCall, tryClass, tryX
				if tc == nil {
					// the TryLock may have been evaluated in a dominating block (value reused)
					if call, ok := cv.(*ssa.Call); ok {
						if op := li.opAt[call]; op != nil && (op.kind == kTryLock || op.kind == kTryRLock) {
							tc, cl, tx = call, op.class, op.kind == kTryLock
						}
					}
				}
				if tc != nil && cv == tc {
					success := (si == 0) == positive
					if success {
						out.may[cl] = true
						out.must[cl] = true
						if tx {
							out.mustX[cl] = true
						}
					}
				}
			}
			old := in[s]
			if old == nil {
				in[s] = out
				work = append(work, s)
				continue
			}
			nm := union(old.may, out.may)
			nu := inter(old.must, out.must)
			nx := inter(old.mustX, out.mustX)
			nd := union(old.defMay, out.defMay)
			if !sameSet(nm, old.may) || !sameSet(nu, old.must) || !sameSet(nx, old.mustX) || !sameSet(nd, old.defMay) {
				in[s] = &flowState{may: nm, must: nu, mustX: nx, defMay: nd}
				work = append(work, s)
			}
		}
		// pairing check at returns
		if ret, ok := b.Instrs[len(b.Instrs)-1].(*ssa.Return); ok {
			held := li.May[ret]
			if len(held) > 0 {
				li.Unpaired = append(li.Unpaired, fmt.Sprintf("%s returns with %s possibly held", fnKey(f), held))
				li.UnpairedAt = append(li.UnpairedAt, ret)
			}
		}
	}
	// TryLock whose result is not branched on immediately: held set never updated -> if an
	// Unlock of that class follows it would be "release without acquisition"; detect below.
	for _, b := range f.Blocks {
		for _, ins := range b.Instrs {
			op := li.opAt[ins]
			if op == nil || op.kind.acquire() || op.deferred {
				continue
			}
			if m, ok := li.May[ins]; ok && !m[op.class] {
				li.Unpaired = append(li.Unpaired, fmt.Sprintf("%s releases %s which is not held on any path", fnKey(f), op.class))
				li.UnpairedAt = append(li.UnpairedAt, ins)
			}
		}
	}
}

// summaries computes Acq(f): classes acquired by f or anything it calls
// (synchronously; `go` edges are excluded because the new goroutine does not
// hold the caller's locks and the caller does not wait for it).
func (li *LockInfo) summaries() {
	for _, f := range li.Fns {
		m := map[LockClass]int{}
		for i := range li.Ops {
			op := &li.Ops[i]
			if op.fn != f || !op.kind.acquire() {
				continue
			}
			if op.kind.blocking() {
				m[op.class] |= 1
			} else {
				m[op.class] |= 2
			}
		}
		li.Acq[f] = m
	}
	changed := true
	for changed {
		changed = false
		for _, f := range li.Fns {
			eachInstr(f, func(in ssa.Instruction) {
				if _, isGo := in.(*ssa.Go); isGo {
					return
				}
				for _, g := range li.Callees[in] {
					for cl, bits := range li.Acq[g] {
						if li.Acq[f][cl]&bits != bits {
							li.Acq[f][cl] |= bits
							changed = true
						}
					}
				}
			})
		}
	}
}

// contexts computes the lock sets held by callers at function entry.
func (li *LockInfo) contexts() {
	all := lset{}
	for i := range li.Ops {
		all[li.Ops[i].class] = true
	}
	for _, f := range li.Fns {
		li.EntryMay[f] = lset{}
		if len(li.Callers[f]) == 0 {
			li.EntryMust[f] = lset{}
			li.EntryMustX[f] = lset{}
		} else {
			li.EntryMust[f] = all.clone()
			li.EntryMustX[f] = all.clone()
		}
	}
	for it := 0; it < 50; it++ {
		changed := false
		for _, f := range li.Fns {
			cs := li.Callers[f]
			if len(cs) == 0 {
				continue
			}
			may := lset{}
			var must, mustX lset
			for _, s := range cs {
				var m, u, x lset
				if s.isGo {
					m, u, x = lset{}, lset{}, lset{}
				} else {
					m = union(li.EntryMay[s.caller], li.May[s.in])
					u = union(li.EntryMust[s.caller], li.Must[s.in])
					x = union(li.EntryMustX[s.caller], li.MustX[s.in])
				}
				may = union(may, m)
				if must == nil {
					must, mustX = u, x
				} else {
					must = inter(must, u)
					mustX = inter(mustX, x)
				}
			}
			if !sameSet(may, li.EntryMay[f]) || !sameSet(must, li.EntryMust[f]) || !sameSet(mustX, li.EntryMustX[f]) {
				li.EntryMay[f], li.EntryMust[f], li.EntryMustX[f] = may, must, mustX
				changed = true
			}
		}
		if !changed {
			break
		}
	}
}

// HeldMay / HeldMust at an instruction including caller contexts.
func (li *LockInfo) HeldMay(in ssa.Instruction) lset {
	return union(li.EntryMay[in.Parent()], li.May[in])
}
func (li *LockInfo) HeldMust(in ssa.Instruction) lset {
	return union(li.EntryMust[in.Parent()], li.Must[in])
}
func (li *LockInfo) HeldMustX(in ssa.Instruction) lset {
	return union(li.EntryMustX[in.Parent()], li.MustX[in])
}

// order builds lock-order edges: held(may) -> acquired, for direct operations
// and for calls (using the callee's transitive summary).
func (li *LockInfo) order() {
	for i := range li.Ops {
		op := &li.Ops[i]
		if !op.kind.acquire() {
			continue
		}
		expand := func(cl LockClass) []LockClass {
			if ms, ok := paramMembers[cl]; ok {
				return ms
			}
			return []LockClass{cl}
		}
		for h := range li.HeldMay(op.in) {
			for _, from := range expand(h) {
				for _, to := range expand(op.class) {
					li.Edges = append(li.Edges, orderEdge{from: from, to: to, blocking: op.kind.blocking(), site: op.in, fn: op.fn})
				}
			}
		}
	}
}

// blockingOps enumerates, per function, instructions that can block
// indefinitely on another goroutine: channel send/receive outside a select
// with default, select without default, WaitGroup/Cond Wait.
func blockingChanOps(f *ssa.Function) []ssa.Instruction {
	var out []ssa.Instruction
	eachInstr(f, func(in ssa.Instruction) {
		switch x := in.(type) {
		case *ssa.Send:
			out = append(out, in)
		case *ssa.UnOp:
			if x.Op.String() == "<-" {
				out = append(out, in)
			}
		case *ssa.Select:
			if x.Blocking {
				out = append(out, in)
			}
		case *ssa.Call:
			n := calleeName(x)
			if n == "(*sync.WaitGroup).Wait" || n == "(*sync.Cond).Wait" {
				out = append(out, in)
			}
		}
	})
	return out
}
