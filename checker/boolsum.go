package main

// E7: boolean summaries. For a loop-free function the set of paths is finite;
// each path is a conjunction of literals over *atoms* (comparisons, presence
// tests, flags — rendered structurally and normalised) and ends in a return
// whose values are evaluated the same way. Calls to loop-free module functions
// that return a bool are expanded in place (with parameter → argument renaming),
// so a decision split over helpers summarises to the same table. Rules compare
// the summary with the property's truth table over all assignments of the
// atoms: an abstract (boolean) interpretation, not an execution.

import (
	"fmt"
	"go/token"
	"go/types"
	"sort"
	"strconv"
	"strings"

	"golang.org/x/tools/go/ssa"
)

type lits map[string]bool

func (l lits) clone() lits {
	o := lits{}
	for k, v := range l {
		o[k] = v
	}
	return o
}

// with returns l ∧ (atom=val), or nil if contradictory.
func (l lits) with(atom string, val bool) lits {
	if v, ok := l[atom]; ok {
		if v != val {
			return nil
		}
		return l
	}
	o := l.clone()
	o[atom] = val
	return o
}

func (l lits) String() string {
	var ks []string
	for k, v := range l {
		if v {
			ks = append(ks, k)
		} else {
			ks = append(ks, "¬"+k)
		}
	}
	sort.Strings(ks)
	return strings.Join(ks, " ∧ ")
}

type bsPath struct {
	cond lits
	ret  *ssa.Return
	vals []ssa.Value // returned values (after retVals)
	fn   *ssa.Function
	env  map[string]string // param renaming in effect (callee "$p" -> caller atom)
	pe   map[*ssa.Phi]ssa.Value
}

type boolSummer struct {
	li       *LockInfo
	maxPaths int
	overflow bool
	target   ssa.Instruction // when set, paths end at this instruction instead of at returns
}

// normAtom renders a boolean SSA value as a canonical atom name plus polarity.
func normAtom(v ssa.Value, env map[string]string) (string, bool) {
	positive := true
	for {
		u, ok := v.(*ssa.UnOp)
		if !ok || u.Op != token.NOT {
			break
		}
		positive = !positive
		v = u.X
	}
	name := func(x ssa.Value) string {
		s := atomStr(x)
		// apply renaming, longest first
		type rep struct{ from, to string }
		var reps []rep
		for f, t := range env {
			reps = append(reps, rep{f, t})
		}
		sort.Slice(reps, func(i, j int) bool { return len(reps[i].from) > len(reps[j].from) })
		for _, r := range reps {
			s = replaceToken(s, r.from, r.to)
		}
		return s
	}
	bo, ok := v.(*ssa.BinOp)
	if !ok {
		return name(v), positive
	}
	op := bo.Op
	l, r := bo.X, bo.Y
	// nil / bool / string equality
	switch op {
	case token.EQL, token.NEQ:
		ln, rn := name(l), name(r)
		if _, isC := l.(*ssa.Const); isC {
			ln, rn = rn, ln
		}
		if op == token.NEQ {
			positive = !positive
		}
		return ln + "==" + rn, positive
	}
	// ordering with an integer constant on one side: canonical "x>k"
	if k, isC := constInt(l); isC {
		// k op x  ->  x flip(op) k
		l, r = r, l
		op = flipOp(op)
		_ = k
	}
	if k, isC := constInt(r); isC && isIntegral(l.Type()) {
		x := name(l)
		switch op {
		case token.GTR: // x>k
			return fmt.Sprintf("%s>%d", x, k), positive
		case token.GEQ: // x>=k == x>k-1
			return fmt.Sprintf("%s>%d", x, k-1), positive
		case token.LSS: // x<k == !(x>k-1)
			return fmt.Sprintf("%s>%d", x, k-1), !positive
		case token.LEQ: // x<=k == !(x>k)
			return fmt.Sprintf("%s>%d", x, k), !positive
		}
	}
	// ordering between two expressions: canonical "a<b" with a,b as given or swapped
	ln, rn := name(l), name(r)
	switch op {
	case token.LSS:
		return ln + "<" + rn, positive
	case token.GTR:
		return rn + "<" + ln, positive
	case token.GEQ:
		return ln + "<" + rn, !positive
	case token.LEQ:
		return rn + "<" + ln, !positive
	}
	return name(v), positive
}

func isIntegral(t types.Type) bool {
	b, ok := t.Underlying().(*types.Basic)
	return ok && b.Info()&types.IsInteger != 0
}

// summarise enumerates the paths of fn. Loops make the function unsuitable (ok=false).
func (bs *boolSummer) summarise(fn *ssa.Function, env map[string]string, depth int) ([]bsPath, bool) {
	if fn == nil || fn.Blocks == nil || depth > 3 {
		return nil, false
	}
	if bs.maxPaths == 0 {
		bs.maxPaths = 4000
	}
	var out []bsPath
	ok := true
	onPath := map[*ssa.BasicBlock]bool{}
	var walk func(b *ssa.BasicBlock, pred *ssa.BasicBlock, cond lits, phiEnv map[*ssa.Phi]ssa.Value)
	walk = func(b *ssa.BasicBlock, pred *ssa.BasicBlock, cond lits, phiEnv map[*ssa.Phi]ssa.Value) {
		if !ok || cond == nil {
			return
		}
		if onPath[b] {
			ok = false // a loop that is not one of the forms handled below
			return
		}
		// a loop whose only tests are its own control (a range over a table that sets headers, say) adds nothing to the
		// conditions of what follows: the walk steps over it to its single exit
		if cyc := cycleOf(b); len(cyc) > 0 && (pred == nil || !cyc[pred]) && benignLoopAt(b) {
			var exitFrom, exitTo *ssa.BasicBlock
			single := true
			for x := range cyc {
				for _, s := range x.Succs {
					if !cyc[s] {
						if exitTo != nil && exitTo != s {
							single = false
						}
						exitFrom, exitTo = x, s
					}
				}
			}
			if single && exitTo != nil && !(bs.target != nil && depth == 0 && blocksContain(cyc, bs.target)) {
				onPath[b] = true
				walk(exitTo, exitFrom, cond, phiEnv)
				onPath[b] = false
				return
			}
		}
		// a membership loop over a constant table is a disjunction: x == k1 || x == k2 || ...
		if ml, isML := membershipLoopAt(b); isML && (pred == nil || !ml.inLoop[pred]) {
			subj, _ := normValueName(ml.subject, env)
			cur := cond
			for _, k := range ml.consts {
				atom := subj + "==" + k
				if c := cur.with(atom, true); c != nil {
					onPath[b] = true
					walk(ml.hit, ml.body, c, phiEnv)
					onPath[b] = false
				}
				cur = cur.with(atom, false)
				if cur == nil {
					break
				}
			}
			if cur != nil {
				onPath[b] = true
				walk(ml.exit, b, cur, phiEnv)
				onPath[b] = false
			}
			return
		}
		if len(out) > bs.maxPaths {
			ok = false
			bs.overflow = true
			return
		}
		onPath[b] = true
		defer func() { onPath[b] = false }()
		// bind phis of this block for this path
		pe := map[*ssa.Phi]ssa.Value{}
		for k, v := range phiEnv {
			pe[k] = v
		}
		if pred != nil {
			for _, in := range b.Instrs {
				phi, isPhi := in.(*ssa.Phi)
				if !isPhi {
					break
				}
				for i, p := range b.Preds {
					if p == pred {
						pe[phi] = phi.Edges[i]
					}
				}
			}
		}
		if bs.target != nil && depth == 0 {
			for _, in := range b.Instrs {
				if in == bs.target {
					out = append(out, bsPath{cond: cond, fn: fn, env: env, pe: pe})
					return
				}
			}
		}
		last := b.Instrs[len(b.Instrs)-1]
		switch t := last.(type) {
		case *ssa.Return:
			if bs.target != nil && depth == 0 {
				return
			}
			if isRecoverReturn(t) {
				return
			}
			p := bsPath{cond: cond, ret: t, vals: retVals(t), fn: fn, env: env, pe: pe}
			out = append(out, p)
		case *ssa.If:
			// split on the condition (which may itself expand into several cases)
			for _, cs := range bs.evalBool(fn, t.Cond, cond, pe, env, depth) {
				idx := 1
				if cs.val {
					idx = 0
				}
				walk(b.Succs[idx], b, cs.cond, pe)
			}
		case *ssa.Jump:
			walk(b.Succs[0], b, cond, pe)
		case *ssa.Panic:
			// path ends in a panic: not a return
		default:
			if len(b.Succs) == 1 {
				walk(b.Succs[0], b, cond, pe)
			}
		}
	}
	walk(fn.Blocks[0], nil, lits{}, nil)
	if !ok {
		return nil, false
	}
	return out, true
}

type boolCase struct {
	cond lits
	val  bool
}

// evalBool case-splits the truth of v under cond.
func (bs *boolSummer) evalBool(fn *ssa.Function, v ssa.Value, cond lits, pe map[*ssa.Phi]ssa.Value, env map[string]string, depth int) []boolCase {
	if cond == nil {
		return nil
	}
	if b, isC := constBool(v); isC {
		return []boolCase{{cond, b}}
	}
	switch x := v.(type) {
	case *ssa.UnOp:
		if x.Op == token.NOT {
			cs := bs.evalBool(fn, x.X, cond, pe, env, depth)
			for i := range cs {
				cs[i].val = !cs[i].val
			}
			return cs
		}
	case *ssa.Phi:
		if pe != nil {
			if e, ok := pe[x]; ok {
				return bs.evalBool(fn, e, cond, pe, env, depth)
			}
		}
	case *ssa.Extract:
		// `v, ok := helper(...)`: expand loop-free module helpers whose result #Index is the bool
		if call, isCall := x.Tuple.(*ssa.Call); isCall && depth < 3 {
			if sc := staticCallee(call); sc != nil {
				g := unwrapSynthetic(sc)
				if g != nil && g.Blocks != nil && isModPath(originPkgPath(g)) && x.Index < g.Signature.Results().Len() && isBoolType(g.Signature.Results().At(x.Index).Type()) && !opaqueBool[funcName(g)] {
					nenv := map[string]string{}
					args := callArgs(call)
					for i, p := range g.Params {
						if i < len(args) {
							a, _ := normValueName(args[i], env)
							nenv["$"+pname(p)] = a
						}
					}
					if paths, ok := bs.summarise(g, nenv, depth+1); ok {
						var out []boolCase
						for _, p := range paths {
							c2 := cond
							for a, val := range p.cond {
								c2 = c2.with(a, val)
								if c2 == nil {
									break
								}
							}
							if c2 == nil || x.Index >= len(p.vals) {
								continue
							}
							out = append(out, bs.evalBool(g, p.vals[x.Index], c2, p.pe, nenv, depth+1)...)
						}
						return out
					}
				}
			}
		}
	case *ssa.Call:
		// slices.Contains(table, x) over a package-level constant table is the disjunction x == k1 || x == k2 || ...
		if calleeName(x) == "slices.Contains" && len(x.Call.Args) == 2 {
			if consts, okT := constTableOf(x.Call.Args[0]); okT {
				subj, _ := normValueName(x.Call.Args[1], env)
				var out []boolCase
				cur := cond
				for _, k := range consts {
					atom := subj + "==" + k
					if c := cur.with(atom, true); c != nil {
						out = append(out, boolCase{c, true})
					}
					cur = cur.with(atom, false)
					if cur == nil {
						break
					}
				}
				if cur != nil {
					out = append(out, boolCase{cur, false})
				}
				return out
			}
		}
		// expand loop-free module functions returning a single bool
		if sc := staticCallee(x); sc != nil && depth < 3 {
			g := unwrapSynthetic(sc)
			if g != nil && g.Blocks != nil && isModPath(originPkgPath(g)) && g.Signature.Results().Len() == 1 && isBoolType(g.Signature.Results().At(0).Type()) && !opaqueBool[funcName(g)] {
				nenv := map[string]string{}
				args := callArgs(x)
				for i, p := range g.Params {
					if i < len(args) {
						a, _ := normValueName(args[i], env)
						nenv["$"+pname(p)] = a
					}
				}
				paths, ok := bs.summarise(g, nenv, depth+1)
				if ok {
					var out []boolCase
					for _, p := range paths {
						// merge the callee's path condition into ours
						c2 := cond
						for a, val := range p.cond {
							c2 = c2.with(a, val)
							if c2 == nil {
								break
							}
						}
						if c2 == nil {
							continue
						}
						// the callee's return value under its own path
						for _, rc := range bs.evalBoolOnPath(g, p, c2, nenv, depth+1) {
							out = append(out, rc)
						}
					}
					return out
				}
				// a pure membership test over a constant table (for _, k := range table { if x == k { return true } };
				// return false) is the disjunction x == k1 || x == k2 || ...
				if pi, consts, okM := membershipPredicate(g); okM && pi < len(args) {
					subj, _ := normValueName(args[pi], env)
					var out []boolCase
					cur := cond
					for _, k := range consts {
						atom := subj + "==" + k
						if c := cur.with(atom, true); c != nil {
							out = append(out, boolCase{c, true})
						}
						cur = cur.with(atom, false)
						if cur == nil {
							break
						}
					}
					if cur != nil {
						out = append(out, boolCase{cur, false})
					}
					return out
				}
			}
		}
	}
	// x == nil / x != nil where x is merged from several assignments (err set in the arms of a switch, tested
	// afterwards): the value x has on this path decides, and a freshly made error is never nil
	if bo, isB := v.(*ssa.BinOp); isB && (bo.Op == token.EQL || bo.Op == token.NEQ) && (isNilConst(bo.X) || isNilConst(bo.Y)) {
		other := bo.X
		if isNilConst(other) {
			other = bo.Y
		}
		resolved := false
		for hop := 0; hop < 6; hop++ {
			if phi, isPhi := other.(*ssa.Phi); isPhi && pe != nil {
				if e, okE := pe[phi]; okE {
					other, resolved = e, true
					continue
				}
			}
			if mi, isMI := other.(*ssa.MakeInterface); isMI {
				other = mi.X
				continue
			}
			break
		}
		if resolved {
			switch {
			case isNilConst(other):
				return []boolCase{{cond, bo.Op == token.EQL}}
			case freshError(other):
				return []boolCase{{cond, bo.Op == token.NEQ}}
			default:
				a, _ := normValueName(other, env)
				atom := a + "==nil"
				var out []boolCase
				if c := cond.with(atom, true); c != nil {
					out = append(out, boolCase{c, bo.Op == token.EQL})
				}
				if c := cond.with(atom, false); c != nil {
					out = append(out, boolCase{c, bo.Op != token.EQL})
				}
				return out
			}
		}
	}
	atom, positive := normAtom(v, env)
	var out []boolCase
	if c := cond.with(atom, positive); c != nil {
		out = append(out, boolCase{c, true})
	}
	if c := cond.with(atom, !positive); c != nil {
		out = append(out, boolCase{c, false})
	}
	return out
}

// opaqueBool: module bool functions that are kept as atoms (their meaning is the atom).
var opaqueBool = map[string]bool{
	"(*reservoir/proxy/headers.Header).IsPresent":                 true,
	"(reservoir/utils/typeutils.Optional).IsSome":                 true,
	"(reservoir/utils/typeutils.Optional).IsNone":                 true,
	"(reservoir/utils/typeutils.Either).IsLeft":                   true,
	"(reservoir/utils/typeutils.Either).IsRight":                  true,
	"(*reservoir/webserver/api/apitypes.Context).IsAuthenticated": true,
	"(*reservoir/config.ConfigProp).Read":                         true,
	"(*reservoir/proxy/headers.HeaderDirectives).ShouldCache":     true,
	"(*reservoir/proxy.fetcher).shouldResponseBeCached":           true,
}

func isBoolType(t types.Type) bool {
	b, ok := t.Underlying().(*types.Basic)
	return ok && b.Kind() == types.Bool
}

func normValueName(v ssa.Value, env map[string]string) (string, bool) {
	s := atomStr(v)
	type rep struct{ from, to string }
	var reps []rep
	for f, t := range env {
		reps = append(reps, rep{f, t})
	}
	sort.Slice(reps, func(i, j int) bool { return len(reps[i].from) > len(reps[j].from) })
	for _, r := range reps {
		s = replaceToken(s, r.from, r.to)
	}
	return s, true
}

// evalBoolOnPath evaluates the bool result #0 of path p (a path of g).
func (bs *boolSummer) evalBoolOnPath(g *ssa.Function, p bsPath, cond lits, env map[string]string, depth int) []boolCase {
	if len(p.vals) == 0 {
		return nil
	}
	return bs.evalBool(g, p.vals[0], cond, p.pe, env, depth)
}

// boolTable evaluates the function's bool result #idx for every total assignment
// of the atoms occurring in its summary. classify maps an atom name to a spec
// variable ("" = unknown atom). Returns rows: assignment over spec variables +
// unknown atoms -> result.
type tableRow struct {
	assign map[string]bool
	result bool
	path   string
}

func (bs *boolSummer) boolTable(fn *ssa.Function, idx int) (atoms []string, rows []tableRow, ok bool) {
	paths, ok := bs.summarise(fn, map[string]string{}, 0)
	if !ok {
		return nil, nil, false
	}
	type rp struct {
		cond lits
		val  bool
	}
	var rps []rp
	for _, p := range paths {
		if idx >= len(p.vals) {
			return nil, nil, false
		}
		v := p.vals[idx]
		var cases []boolCase
		if isBoolType(v.Type()) {
			cases = bs.evalBool(fn, v, p.cond, p.pe, map[string]string{}, 0)
		} else {
			// error-typed result: "true" means nil
			if isNilConst(v) {
				cases = []boolCase{{p.cond, true}}
			} else {
				cases = []boolCase{{p.cond, false}}
			}
		}
		for _, c := range cases {
			rps = append(rps, rp{c.cond, c.val})
		}
	}
	set := map[string]bool{}
	for _, r := range rps {
		for a := range r.cond {
			set[a] = true
		}
	}
	for a := range set {
		atoms = append(atoms, a)
	}
	sort.Strings(atoms)
	if len(atoms) > 14 {
		return atoms, nil, false
	}
	for m := 0; m < 1<<len(atoms); m++ {
		as := map[string]bool{}
		for i, a := range atoms {
			as[a] = m&(1<<i) != 0
		}
		found := false
		for _, r := range rps {
			match := true
			for a, v := range r.cond {
				if as[a] != v {
					match = false
					break
				}
			}
			if match {
				rows = append(rows, tableRow{as, r.val, r.cond.String()})
				found = true
				break
			}
		}
		if !found {
			// infeasible combination (e.g. contradictory literals dropped): skip
			continue
		}
	}
	return atoms, rows, true
}

// checkTable compares a function's boolean summary with a specification.
// classify: atom -> spec variable name (or "" if the atom is not one the spec knows).
// spec: given the spec variables' values returns (expected result, constrained): if !constrained
// the row is a don't-care (e.g. an infeasible combination such as "value tested but header absent").
// The result must not depend on unknown atoms.
func (bs *boolSummer) checkTable(fn *ssa.Function, idx int, classify func(atom string) string, spec func(v map[string]bool) (want bool, constrained bool)) (okAll bool, detail string, nrows int) {
	atoms, rows, ok := bs.boolTable(fn, idx)
	if !ok {
		return false, fmt.Sprintf("function is not summarised (loop, too many paths or atoms: %d atoms)", len(atoms)), 0
	}
	var unknown []string
	for _, a := range atoms {
		if classify(a) == "" {
			unknown = append(unknown, a)
		}
	}
	var bad []string
	for _, r := range rows {
		v := map[string]bool{}
		for a, val := range r.assign {
			if n := classify(a); n != "" {
				if strings.HasPrefix(n, "!") {
					v[n[1:]] = !val
				} else {
					v[n] = val
				}
			}
		}
		want, constrained := spec(v)
		if !constrained {
			continue
		}
		nrows++
		if r.result != want {
			var vs []string
			for k, val := range v {
				vs = append(vs, fmt.Sprintf("%s=%v", k, val))
			}
			sort.Strings(vs)
			bad = append(bad, fmt.Sprintf("for {%s} the code yields %v, the property requires %v", strings.Join(vs, ", "), r.result, want))
		}
	}
	bad = uniq(bad)
	if len(bad) > 0 {
		if len(bad) > 4 {
			bad = append(bad[:4], fmt.Sprintf("… %d more rows", len(bad)-4))
		}
		return false, strings.Join(bad, "; "), nrows
	}
	note := ""
	if len(unknown) > 0 {
		note = fmt.Sprintf(" (the result does not depend on the additional atoms %v)", unknown)
	}
	return true, fmt.Sprintf("%d rows of the truth table over %d atoms agree with the specification%s", nrows, len(atoms), note), nrows
}

// kindTable: like boolTable, but the "result" of a path is a caller-defined
// classification of the returned value (e.g. which lifetime source is returned).
func (bs *boolSummer) kindTable(fn *ssa.Function, kindOf func(p bsPath) string) (atoms []string, rows []struct {
	assign map[string]bool
	kind   string
}, ok bool) {
	paths, ok := bs.summarise(fn, map[string]string{}, 0)
	if !ok {
		return nil, nil, false
	}
	set := map[string]bool{}
	for _, p := range paths {
		for a := range p.cond {
			set[a] = true
		}
	}
	for a := range set {
		atoms = append(atoms, a)
	}
	sort.Strings(atoms)
	if len(atoms) > 14 {
		return atoms, nil, false
	}
	for m := 0; m < 1<<len(atoms); m++ {
		as := map[string]bool{}
		for i, a := range atoms {
			as[a] = m&(1<<i) != 0
		}
		for _, p := range paths {
			match := true
			for a, v := range p.cond {
				if as[a] != v {
					match = false
					break
				}
			}
			if match {
				rows = append(rows, struct {
					assign map[string]bool
					kind   string
				}{as, kindOf(p)})
				break
			}
		}
	}
	return atoms, rows, true
}

// specVars maps a row's atom assignment to spec variables through classify.
func specVars(assign map[string]bool, classify func(string) string) map[string]bool {
	v := map[string]bool{}
	for a, val := range assign {
		if n := classify(a); n != "" {
			if strings.HasPrefix(n, "!") {
				v[n[1:]] = !val
			} else {
				v[n] = val
			}
		}
	}
	return v
}

// pathsTo: the conditions under which target (an instruction of fn) is reached.
func (bs *boolSummer) pathsTo(fn *ssa.Function, target ssa.Instruction) ([]bsPath, bool) {
	old := bs.target
	bs.target = target
	defer func() { bs.target = old }()
	return bs.summarise(fn, map[string]string{}, 0)
}

// membershipPredicate recognises func(x T, ...) bool { for _, k := range table { if x == k { return true } }; return false }
// over a package-level constant table: the index of the tested parameter and the constants (as they appear in atoms).
func membershipPredicate(g *ssa.Function) (param int, consts []string, ok bool) {
	if g == nil || g.Blocks == nil {
		return 0, nil, false
	}
	param = -1
	var table *ssa.Global
	simple := true
	nFalse := 0
	eachInstr(g, func(in ssa.Instruction) {
		switch x := in.(type) {
		case *ssa.Return:
			if len(x.Results) != 1 {
				simple = false
				return
			}
			b, isC := constBool(x.Results[0])
			if !isC {
				simple = false
			} else if !b {
				nFalse++
			}
		case *ssa.If:
			bo, isB := x.Cond.(*ssa.BinOp)
			if !isB {
				simple = false
				return
			}
			if bo.Op == token.EQL {
				var subj ssa.Value
				var tg *ssa.Global
				if t := tableElementOf(unconv(bo.Y)); t != nil {
					subj, tg = bo.X, t
				} else if t := tableElementOf(unconv(bo.X)); t != nil {
					subj, tg = bo.Y, t
				}
				p, isP := unconvNum(subj).(*ssa.Parameter)
				if tg == nil || !isP {
					simple = false
					return
				}
				idx := -1
				for i, q := range g.Params {
					if q == p {
						idx = i
					}
				}
				if idx < 0 || (param >= 0 && param != idx) || (table != nil && table != tg) {
					simple = false
					return
				}
				param, table = idx, tg
				// the true edge returns true
				tb := x.Block().Succs[0]
				rt, isRet := tb.Instrs[len(tb.Instrs)-1].(*ssa.Return)
				if !isRet || len(rt.Results) != 1 {
					simple = false
					return
				}
				if v, isC := constBool(rt.Results[0]); !isC || !v {
					simple = false
				}
				return
			}
			// loop control: the counter against a constant or a length
			switch bo.Op {
			case token.LSS, token.LEQ, token.GTR, token.GEQ, token.NEQ:
				_, cx := constInt(bo.X)
				_, cy := constInt(bo.Y)
				_, lx := lenOf(bo.X)
				_, ly := lenOf(bo.Y)
				if !(cx || cy || lx || ly) {
					simple = false
				}
			default:
				simple = false
			}
		case *ssa.Call, *ssa.Store, *ssa.MapUpdate, *ssa.Send, *ssa.Go, *ssa.Defer:
			simple = false
		}
	})
	if !simple || param < 0 || table == nil || nFalse != 1 {
		return 0, nil, false
	}
	if tab, okS := globalStringTable(table); okS {
		for _, k := range tab {
			consts = append(consts, strconv.Quote(k))
		}
		return param, consts, true
	}
	if tab, okI := globalIntTable(table); okI {
		for _, k := range tab {
			consts = append(consts, strconv.FormatInt(k, 10))
		}
		return param, consts, true
	}
	return 0, nil, false
}

type memLoop struct {
	subject   ssa.Value
	consts    []string
	body, hit *ssa.BasicBlock
	exit      *ssa.BasicBlock
	inLoop    map[*ssa.BasicBlock]bool
}

// membershipLoopAt: h is the header of `for _, k := range table { if x == k { <hit> } }` where table is a
// package-level constant table, x does not change in the loop, the body does nothing else and falls back to the
// header when the test fails.
func membershipLoopAt(h *ssa.BasicBlock) (memLoop, bool) {
	var ml memLoop
	if len(h.Instrs) == 0 || len(h.Succs) != 2 {
		return ml, false
	}
	hif, ok := h.Instrs[len(h.Instrs)-1].(*ssa.If)
	if !ok {
		return ml, false
	}
	// loop control on a counter
	bo, ok := hif.Cond.(*ssa.BinOp)
	if !ok || (bo.Op != token.LSS && bo.Op != token.NEQ) {
		return ml, false
	}
	body, exit := h.Succs[0], h.Succs[1]
	if len(body.Succs) != 2 {
		return ml, false
	}
	bif, ok := body.Instrs[len(body.Instrs)-1].(*ssa.If)
	if !ok {
		return ml, false
	}
	eq, ok := bif.Cond.(*ssa.BinOp)
	if !ok || eq.Op != token.EQL {
		return ml, false
	}
	var subj, elem ssa.Value
	if tableElementOf(unconv(eq.Y)) != nil {
		subj, elem = eq.X, eq.Y
	} else if tableElementOf(unconv(eq.X)) != nil {
		subj, elem = eq.Y, eq.X
	} else {
		return ml, false
	}
	// failing test goes straight back to the header
	if body.Succs[1] != h {
		return ml, false
	}
	// the body only loads the element: no calls, stores or other effects
	for _, in := range body.Instrs {
		switch in.(type) {
		case *ssa.Call, *ssa.Store, *ssa.MapUpdate, *ssa.Send, *ssa.Go, *ssa.Defer:
			return ml, false
		}
	}
	// the subject is defined outside the loop
	if in, isIn := subj.(ssa.Instruction); isIn {
		if in.Block() == body || in.Block() == h {
			return ml, false
		}
	}
	g := tableElementOf(unconv(elem))
	if tab, okS := globalStringTable(g); okS {
		for _, k := range tab {
			ml.consts = append(ml.consts, strconv.Quote(k))
		}
	} else if tab, okI := globalIntTable(g); okI {
		for _, k := range tab {
			ml.consts = append(ml.consts, strconv.FormatInt(k, 10))
		}
	} else {
		return ml, false
	}
	ml.subject, ml.body, ml.hit, ml.exit = subj, body, body.Succs[0], exit
	ml.inLoop = map[*ssa.BasicBlock]bool{h: true, body: true}
	return ml, true
}

// constTableOf: v is (a slice of) a package-level array / slice variable with constant elements that nothing but
// the initialiser writes; returns the constants as they appear in atoms.
func constTableOf(v ssa.Value) ([]string, bool) {
	v = unconv(v)
	var g *ssa.Global
	switch x := v.(type) {
	case *ssa.UnOp:
		if x.Op == token.MUL {
			g, _ = x.X.(*ssa.Global)
		}
	case *ssa.Slice:
		g, _ = x.X.(*ssa.Global)
		if g == nil {
			if u, ok := x.X.(*ssa.UnOp); ok && u.Op == token.MUL {
				g, _ = u.X.(*ssa.Global)
			}
		}
	}
	if g == nil {
		return nil, false
	}
	var out []string
	if tab, ok := globalStringTable(g); ok {
		for _, k := range tab {
			out = append(out, strconv.Quote(k))
		}
		return out, true
	}
	if tab, ok := globalIntTable(g); ok {
		for _, k := range tab {
			out = append(out, strconv.FormatInt(k, 10))
		}
		return out, true
	}
	return nil, false
}

var benignLoopMemo = map[*ssa.BasicBlock]bool{}

// benignLoopAt: b lies on a cycle all of whose conditional branches are loop control (a counter against a count or a
// constant, or the ok of a range iterator).
func benignLoopAt(b *ssa.BasicBlock) bool {
	if v, done := benignLoopMemo[b]; done {
		return v
	}
	// blocks on a cycle through b: reachable from b and reaching b
	fwd := map[*ssa.BasicBlock]bool{}
	var st []*ssa.BasicBlock
	st = append(st, b.Succs...)
	for len(st) > 0 {
		x := st[len(st)-1]
		st = st[:len(st)-1]
		if fwd[x] {
			continue
		}
		fwd[x] = true
		st = append(st, x.Succs...)
	}
	bwd := map[*ssa.BasicBlock]bool{}
	st = append(st[:0], b.Preds...)
	for len(st) > 0 {
		x := st[len(st)-1]
		st = st[:len(st)-1]
		if bwd[x] {
			continue
		}
		bwd[x] = true
		st = append(st, x.Preds...)
	}
	ok := true
	for x := range fwd {
		if !bwd[x] && x != b {
			continue
		}
		if len(x.Instrs) == 0 {
			continue
		}
		iff, isIf := x.Instrs[len(x.Instrs)-1].(*ssa.If)
		if !isIf {
			continue
		}
		switch cnd := iff.Cond.(type) {
		case *ssa.Extract:
			if _, isNext := cnd.Tuple.(*ssa.Next); !isNext || cnd.Index != 0 {
				ok = false
			}
		case *ssa.BinOp:
			counterish := func(v ssa.Value) bool {
				v = unconvNum(v)
				if _, isPhi := v.(*ssa.Phi); isPhi {
					return true
				}
				if bo, isB := v.(*ssa.BinOp); isB && bo.Op == token.ADD {
					_, p := unconvNum(bo.X).(*ssa.Phi)
					_, k := constInt(bo.Y)
					return p && k
				}
				return false
			}
			countish := func(v ssa.Value) bool {
				if _, isK := constInt(v); isK {
					return true
				}
				_, isLen := lenOf(v)
				return isLen
			}
			if !((counterish(cnd.X) && countish(cnd.Y)) || (counterish(cnd.Y) && countish(cnd.X))) {
				ok = false
			}
		default:
			ok = false
		}
	}
	benignLoopMemo[b] = ok
	return ok
}

// cycleOf: the blocks on a cycle through b (b included), or nil if b is on none.
func cycleOf(b *ssa.BasicBlock) map[*ssa.BasicBlock]bool {
	fwd := map[*ssa.BasicBlock]bool{}
	var st []*ssa.BasicBlock
	st = append(st, b.Succs...)
	for len(st) > 0 {
		x := st[len(st)-1]
		st = st[:len(st)-1]
		if fwd[x] {
			continue
		}
		fwd[x] = true
		st = append(st, x.Succs...)
	}
	if !fwd[b] {
		return nil
	}
	bwd := map[*ssa.BasicBlock]bool{}
	st = append(st[:0], b.Preds...)
	for len(st) > 0 {
		x := st[len(st)-1]
		st = st[:len(st)-1]
		if bwd[x] {
			continue
		}
		bwd[x] = true
		st = append(st, x.Preds...)
	}
	out := map[*ssa.BasicBlock]bool{b: true}
	for x := range fwd {
		if bwd[x] {
			out[x] = true
		}
	}
	return out
}

func blocksContain(bs map[*ssa.BasicBlock]bool, in ssa.Instruction) bool {
	return in != nil && bs[in.Block()]
}

// freshError: v is the result of a constructor that never returns nil.
func freshError(v ssa.Value) bool {
	call, ok := v.(*ssa.Call)
	if !ok {
		return false
	}
	switch calleeName(call) {
	case "fmt.Errorf", "errors.New":
		return true
	}
	return false
}

// gatedBySuccess: every return of helper g that reports success (a nil last result of type error) lies on a path on
// which errVal — the error of some step inside g — was nil. Decided structurally where a test of errVal guards the
// return, else over the path summaries of g (an error variable set in the arms of a switch and tested afterwards).
func gatedBySuccess(li *LockInfo, g *ssa.Function, errVal ssa.Value) bool {
	if g == nil || g.Blocks == nil || errVal == nil {
		return false
	}
	structural, n := true, 0
	eachInstr(g, func(in ssa.Instruction) {
		ret, ok := in.(*ssa.Return)
		if !ok || isRecoverReturn(ret) {
			return
		}
		vals := retVals(ret)
		if len(vals) == 0 || vals[len(vals)-1].Type().String() != "error" || !isNilConst(vals[len(vals)-1]) {
			return
		}
		n++
		if !onlyWhenNil(g, ret, errVal, true) {
			structural = false
		}
	})
	if n > 0 && structural {
		return true
	}
	bs := &boolSummer{li: li}
	paths, ok := bs.summarise(g, map[string]string{}, 0)
	if !ok || bs.overflow {
		return false
	}
	a, _ := normValueName(errVal, map[string]string{})
	atom := a + "==nil"
	nOK := 0
	for _, p := range paths {
		if len(p.vals) == 0 {
			continue
		}
		last := p.vals[len(p.vals)-1]
		for hop := 0; hop < 6; hop++ {
			if phi, isPhi := last.(*ssa.Phi); isPhi {
				if e, okE := p.pe[phi]; okE {
					last = e
					continue
				}
			}
			break
		}
		if !isNilConst(last) {
			if freshError(last) {
				continue
			}
			// an error value that may be nil: it is this path's verdict only if the path knows it non-nil
			la, _ := normValueName(last, map[string]string{})
			if v, known := p.cond[la+"==nil"]; known && !v {
				continue
			}
			if la == a {
				continue // the step's own error handed up: success exactly when it is nil
			}
			return false
		}
		if v, known := p.cond[atom]; !known || !v {
			return false
		}
		nOK++
	}
	return nOK > 0
}

// successGatedCtx: site (entered through sctx from the anchor root) is reached only when errVal (in a body entered
// through ectx) was nil: through every helper between errVal and the body both belong to, success is reported only
// where the error was nil (gatedBySuccess), and in that common body site lies on the nil side of the helper's error.
func successGatedCtx(li *LockInfo, root *ssa.Function, errVal ssa.Value, ectx dctx, site ssa.Instruction, sctx dctx) bool {
	k := 0
	for k < len(ectx) && k < len(sctx) && ectx[k] == sctx[k] {
		k++
	}
	ev := errVal
	for lvl := len(ectx); lvl > k; lvl-- {
		call := ectx[lvl-1]
		g := helperBody(call)
		if !gatedBySuccess(li, g, ev) {
			return false
		}
		tup, isT := call.Type().(*types.Tuple)
		if !isT {
			if call.Type().String() != "error" {
				return false
			}
			ev = call
			continue
		}
		ex := extractOf(call, tup.Len()-1)
		if ex == nil || ex.Type().String() != "error" {
			return false
		}
		ev = ex
	}
	fk := root
	if k > 0 {
		fk = helperBody(ectx[k-1])
	}
	s := site
	if len(sctx) > k {
		s = sctx[k]
	}
	if fk == nil {
		return false
	}
	return onlyWhenNil(fk, s, ev, true)
}
