package main

import (
	"bufio"
	"encoding/json"
	"fmt"
	"os/exec"
	"go/constant"
	"go/token"
	"go/types"
	"os"
	"path/filepath"
	"strings"

	"golang.org/x/tools/go/ssa"
)

func init() { register("C16", checkC16) }

// loadTable reads tables/<name>.tsv: construct-key <TAB> reason.
func loadTable(verifDir, name string) map[string]string {
	out := map[string]string{}
	f, err := os.Open(filepath.Join(verifDir, "tables", name+".tsv"))
	if err != nil {
		return out
	}
	defer f.Close()
	sc := bufio.NewScanner(f)
	for sc.Scan() {
		line := sc.Text()
		if strings.HasPrefix(line, "#") || strings.TrimSpace(line) == "" {
			continue
		}
		parts := strings.SplitN(line, "\t", 2)
		if len(parts) == 2 {
			out[parts[0]] = parts[1]
		}
	}
	return out
}

var verifDirGlobal string

func panicRootFns(c *Ctx, r *Report, rule string) []*ssa.Function {
	var roots []*ssa.Function
	for _, k := range panicRoots {
		var fs []*ssa.Function
		if strings.Contains(k, "$") {
			for _, f := range c.Concrete() {
				if fnKey(f) == k {
					fs = append(fs, f)
				}
			}
		} else {
			fs = c.FuncsNamed(k)
		}
		if len(fs) == 0 {
			r.Undecided(rule, "root "+k, "-", "unresolved anchor (untrusted-input root) "+k)
		}
		roots = append(roots, fs...)
	}
	return roots
}

func checkC16(c *Ctx, r *Report) {
	r.Decided = []string{
		"R1/R2 in every module function reachable (call graph) from the untrusted-input roots — request handling, size/duration/PHC/config parsers, janitor loop, config-change handlers — each index, slice, force-unwrap, unchecked type assertion, variable divisor, variable make size, WriteHeader/Ticker precondition, explicit panic and close() is an obligation, discharged by a dominating test on the same SSA values or by a one-line reviewed table entry",
		"R4 every path through processRequest writes a response (Write/WriteError/WriteEmpty or a callee that does) before returning",
		"R5 obligations that execute in bare goroutines are marked process-fatal",
	}
	r.NotDec = []string{"panics inside dependencies on values that passed the listed preconditions", "nil dereferences (left to nilaway cross-reference)", "memory exhaustion, runtime deadlock aborts", "that the response written is well-formed HTTP (net/http is trusted)"}
	li := BuildLocks(c)
	roots := panicRootFns(c, r, "C16.R1")
	// config-change handlers run as goroutines from Event.Fire: every closure passed to OnChange is a root
	for _, f := range li.Fns {
		eachCall(f, func(call ssa.CallInstruction, n string) {
			if strings.HasSuffix(n, "config.ConfigProp).OnChange") {
				for _, a := range call.Common().Args {
					if mc, ok := a.(*ssa.MakeClosure); ok {
						roots = append(roots, mc.Fn.(*ssa.Function))
					}
				}
			}
		})
	}
	reach, viaGo := allReach(li, roots)
	for _, f := range roots {
		if f.Parent() != nil {
			viaGo[f] = true
		}
	}
	obs := collectPanicObligations(c, li, reach, viaGo)
	table := loadTable(verifDirGlobal, "C16")
	used := map[string]bool{}
	nIdx := 0
	for _, o := range obs {
		if o.kind == "index" || o.kind == "slice" {
			nIdx++
		}
		sev := ""
		if o.inGo {
			sev = " [runs in a bare goroutine: a panic here aborts the process]"
		}
		pos := c.InstrPos(o.in)
		if o.ok {
			r.Ok("C16.R1", o.key, pos, o.why)
			continue
		}
		if reason, ok := table[o.key]; ok {
			used[o.key] = true
			r.OkT("C16.R1", o.key, pos, "reviewed: "+reason)
			continue
		}
		r.Fail("C16.R1", o.key, pos, o.why+sev)
	}
	for k := range table {
		if !used[k] {
			r.Notes = append(r.Notes, "stale table entry (construct no longer an open obligation): "+k)
		}
	}
	r.Floor("C16.R1", len(reach), 150, "module functions reachable from the untrusted-input roots")
	r.Floor("C16.R1", nIdx, 20, "index/slice obligations")
	r.Floor("C16.R1", len(obs), 60, "panic obligations")

	checkAnswered(c, r, li, "C16.R4")
	if c.Tier == "thorough" {
		bceCrossCheck(c, r, reach, obs)
	}
}

// checkAnswered (R4): every return of processRequest is preceded on every path
// by a responder write or by a call to a function that writes on all its paths.
func checkAnswered(c *Ctx, r *Report, li *LockInfo, rule string) {
	writes := map[string]bool{
		"(reservoir/proxy/responder.Responder).Write": true, "(reservoir/proxy/responder.Responder).WriteError": true, "(reservoir/proxy/responder.Responder).WriteEmpty": true,
	}
	// summary: functions (in package proxy) that write on every path to every return
	always := map[*ssa.Function]bool{}
	var proxyFns []*ssa.Function
	for _, f := range li.Fns {
		if originPkgPath(f) == "reservoir/proxy" {
			proxyFns = append(proxyFns, f)
		}
	}
	isWrite := func(in ssa.Instruction) bool {
		call, ok := in.(*ssa.Call)
		if !ok {
			return false
		}
		if writes[calleeName(call)] {
			return true
		}
		for _, g := range li.Callees[in] {
			if always[g] {
				return true
			}
		}
		return false
	}
	for changed := true; changed; {
		changed = false
		for _, f := range proxyFns {
			if always[f] || len(f.Blocks) == 0 {
				continue
			}
			if len(exitsFromEntryAvoiding(f, isWrite, nil)) == 0 {
				always[f] = true
				changed = true
			}
		}
	}
	mayWriteMemo := map[*ssa.Function]bool{}
	var mayWrite func(g *ssa.Function) bool
	mayWrite = func(g *ssa.Function) bool {
		if v, ok := mayWriteMemo[g]; ok {
			return v
		}
		mayWriteMemo[g] = false
		res := false
		eachInstr(g, func(in ssa.Instruction) {
			if call, ok := in.(*ssa.Call); ok {
				if writes[calleeName(call)] {
					res = true
				}
				for _, h := range li.Callees[in] {
					if originPkgPath(h) == "reservoir/proxy" && mayWrite(h) {
						res = true
					}
				}
			}
		})
		mayWriteMemo[g] = res
		return res
	}
	unwritten := func(f *ssa.Function) []ssa.Instruction {
		var out []ssa.Instruction
		for _, e := range exitsFromEntryAvoiding(f, isWrite, nil) {
			if ret, ok := e.(*ssa.Return); ok && isRecoverReturn(ret) {
				continue
			}
			out = append(out, e)
		}
		return out
	}
	// classes of error values a return can carry
	classOf := func(g *ssa.Function, ret *ssa.Return) map[string]bool {
		vals := retVals(ret)
		out := map[string]bool{}
		if len(vals) == 0 {
			out["nil"] = true
			return out
		}
		rv := vals[len(vals)-1]
		switch {
		case isNilConst(rv):
			out["nil"] = true
		default:
			if u, ok := rv.(*ssa.UnOp); ok && u.Op == token.MUL {
				if gl, ok := u.X.(*ssa.Global); ok {
					out[gl.Name()] = true
					return out
				}
			}
			if call, ok := rv.(*ssa.Call); ok {
				n := calleeName(call)
				if n == "fmt.Errorf" || n == "errors.New" {
					out["nonnil"] = true
					derivesFrom(rv, func(v ssa.Value) bool {
						if u, ok := v.(*ssa.UnOp); ok && u.Op == token.MUL {
							if gl, ok := u.X.(*ssa.Global); ok {
								out[gl.Name()] = true
							}
						}
						return false
					})
					return out
				}
			}
			if onlyWhenNil(g, ret, rv, false) {
				out["nonnil"] = true
				return out
			}
			out["nil"] = true
			out["unknown"] = true
		}
		return out
	}
	var calleeWritesD func(g *ssa.Function, class string, depth int) (bool, string)
	calleeWritesD = func(g *ssa.Function, class string, depth int) (bool, string) {
		unw := map[ssa.Instruction]bool{}
		for _, e := range unwritten(g) {
			unw[e] = true
		}
		bad := ""
		eachInstr(g, func(in ssa.Instruction) {
			ret, ok := in.(*ssa.Return)
			if !ok || isRecoverReturn(ret) || !unw[in] {
				return
			}
			cl := classOf(g, ret)
			if cl[class] || (class != "nil" && cl["unknown"]) {
				// a return that hands on the result of another answering function (`return p.helper(...)`)
				// is fine if that function gives the same guarantee
				vals := retVals(ret)
				if len(vals) > 0 && depth < 3 {
					src := unconv(vals[len(vals)-1])
					if ex, isEx := src.(*ssa.Extract); isEx {
						src = ex.Tuple
					}
					if call, isCall := src.(*ssa.Call); isCall {
						all := len(li.Callees[call]) > 0
						for _, h := range li.Callees[call] {
							if okh, _ := calleeWritesD(h, class, depth+1); !mayWrite(h) || !okh {
								all = false
							}
						}
						if all {
							return
						}
					}
				}
				bad = c.InstrPos(ret)
			}
		})
		return bad == "", bad
	}
	calleeWrites := func(g *ssa.Function, class string) (bool, string) { return calleeWritesD(g, class, 0) }
	for _, name := range []string{"(*reservoir/proxy.Proxy).handleRangeRequest", "(*reservoir/proxy.Proxy).processRequest", "(*reservoir/proxy.Proxy).handleHTTP"} {
		fs := c.FuncsNamed(name)
		if len(fs) == 0 {
			r.Undecided(rule, name, "-", "unresolved anchor")
			continue
		}
		f := fs[0]
		if name == "(*reservoir/proxy.Proxy).handleRangeRequest" {
			continue // analysed as a callee below
		}
		var bad []string
		nExits := 0
		for _, e := range unwritten(f) {
			nExits++
			facts := factsAt(f, e)
			if enumExhausted(c, facts) {
				continue
			}
			// exits justified by what a may-write callee guarantees for the class of error tested
			justified := false
			for _, fc := range facts {
				var errv ssa.Value
				class := ""
				if bo, ok := fc.cond.(*ssa.BinOp); ok && (bo.Op == token.NEQ || bo.Op == token.EQL) && (isNilConst(bo.Y) || isNilConst(bo.X)) {
					isEq := bo.Op == token.EQL
					if isEq == fc.truth {
						class = "nil"
						errv = bo.X
						if isNilConst(bo.X) {
							errv = bo.Y
						}
					}
				} else if call, ok := fc.cond.(*ssa.Call); ok && calleeName(call) == "errors.Is" && fc.truth {
					errv = call.Call.Args[0]
					if u, ok := call.Call.Args[1].(*ssa.UnOp); ok {
						if gl, ok := u.X.(*ssa.Global); ok {
							class = gl.Name()
						}
					}
				}
				if class == "" || errv == nil {
					continue
				}
				src := unconv(errv)
				if ex, ok := src.(*ssa.Extract); ok {
					src = ex.Tuple
				}
				callee, ok := src.(*ssa.Call)
				if !ok {
					continue
				}
				for _, g := range li.Callees[callee] {
					if !mayWrite(g) {
						continue // the callee never answers: its result says nothing about a response
					}
					if okw, where := calleeWrites(g, class); okw {
						justified = true
					} else {
						bad = append(bad, fmt.Sprintf("%s relies on %s having answered when it returns %s, but its return at %s has no write on some path", c.InstrPos(e), fnKey(g), class, where))
					}
				}
			}
			if !justified {
				bad = append(bad, c.InstrPos(e))
			}
		}
		key := name + ": every return is preceded by a response write"
		if len(bad) > 0 {
			r.Fail(rule, key, c.Pos(f.Pos()), "paths reach a return without any responder write: "+strings.Join(uniq(bad), "; "))
		} else {
			always[f] = true
			r.Ok(rule, key, c.Pos(f.Pos()), fmt.Sprintf("must-pass-through over all paths; %d exits without a local write are justified by callee guarantees (nil / sentinel class) or enum exhaustion", nExits))
		}
	}
}

// enumExhausted: the facts say x != c for every declared constant c of x's
// named integer type (the `default:` arm of an exhaustive switch).
func enumExhausted(c *Ctx, facts []fact) bool {
	seen := map[string]map[int64]bool{}
	types_ := map[string]*types.Named{}
	for _, f := range facts {
		bo, ok := f.cond.(*ssa.BinOp)
		if !ok || bo.Op != token.EQL || f.truth {
			continue
		}
		k, isC := constInt(bo.Y)
		if !isC {
			continue
		}
		nt, ok := bo.X.Type().(*types.Named)
		if !ok {
			continue
		}
		id := valuePath(bo.X)
		if seen[id] == nil {
			seen[id] = map[int64]bool{}
		}
		seen[id][k] = true
		types_[id] = nt
	}
	for id, ks := range seen {
		nt := types_[id]
		pkg := nt.Obj().Pkg()
		if pkg == nil {
			continue
		}
		all, n := true, 0
		for _, name := range pkg.Scope().Names() {
			cn, ok := pkg.Scope().Lookup(name).(*types.Const)
			if !ok || !types.Identical(cn.Type(), nt) {
				continue
			}
			n++
			v, _ := constant.Int64Val(cn.Val())
			if !ks[v] {
				all = false
			}
		}
		if all && n > 0 {
			return true
		}
	}
	return false
}

// bceCrossCheck (C16.R3, thorough tier): the compiler's prove pass lists every
// bounds check it could not eliminate. Each such site inside a function that
// is reachable from the untrusted-input roots must coincide (file:line) with an
// index/slice obligation enumerated above — otherwise the enumeration missed a
// potential index panic and the result is undecided. Compiling is not running.
func bceCrossCheck(c *Ctx, r *Report, reach map[*ssa.Function]bool, obs []*panicOb) {
	tmp, err := os.MkdirTemp("", "verif-bce-")
	if err != nil {
		r.Undecided("C16.R3", "compiler cross-check", "-", err.Error())
		return
	}
	defer os.RemoveAll(tmp)
	ov := map[string]map[string]string{"Replace": {}}
	for path, content := range overlayFor(c.Repo) {
		f := filepath.Join(tmp, strings.ReplaceAll(strings.TrimPrefix(path, c.Repo), "/", "_"))
		os.WriteFile(f, content, 0o644)
		ov["Replace"][path] = f
	}
	ovb, _ := json.Marshal(ov)
	ovFile := filepath.Join(tmp, "overlay.json")
	os.WriteFile(ovFile, ovb, 0o644)
	cmd := exec.Command("go", "build", "-overlay", ovFile, "-gcflags=reservoir/...=-l -d=ssa/check_bce/debug=1", "./...")
	cmd.Dir = c.Repo
	cmd.Env = append(os.Environ(), "GOCACHE="+filepath.Join(tmp, "cache"), "GOFLAGS=-mod=mod", "GOWORK=off")
	out, _ := cmd.CombinedOutput()
	covered := map[string]bool{}
	for _, o := range obs {
		if o.kind == "index" || o.kind == "slice" {
			covered[c.InstrPos(o.in)] = true
		}
	}
	// functions by file:line range
	type span struct {
		file       string
		from, to   int
		fn         *ssa.Function
	}
	var spans []span
	for _, fn := range c.ModFns {
		if fn.Syntax() == nil {
			continue
		}
		p1 := c.Fset.Position(fn.Syntax().Pos())
		p2 := c.Fset.Position(fn.Syntax().End())
		rel, _ := filepath.Rel(c.Repo, p1.Filename)
		spans = append(spans, span{rel, p1.Line, p2.Line, fn})
	}
	n, nReach, missing := 0, 0, []string{}
	sc := bufio.NewScanner(strings.NewReader(string(out)))
	for sc.Scan() {
		line := sc.Text()
		if !strings.Contains(line, "Found IsInBounds") && !strings.Contains(line, "Found IsSliceInBounds") {
			continue
		}
		parts := strings.SplitN(line, ":", 4)
		if len(parts) < 4 {
			continue
		}
		file := strings.TrimPrefix(parts[0], "./")
		var ln int
		fmt.Sscanf(parts[1], "%d", &ln)
		n++
		inReach := false
		for _, s := range spans {
			if s.file == file && s.from <= ln && ln <= s.to && reach[s.fn] && !contractPanics[fnKey(s.fn)] {
				inReach = true
			}
		}
		if !inReach {
			continue
		}
		nReach++
		key := fmt.Sprintf("%s:%d", file, ln)
		if !covered[key] {
			missing = append(missing, key)
		}
	}
	missing = uniq(missing)
	if n == 0 {
		r.Undecided("C16.R3", "compiler cross-check", "-", "the compiler reported no unproven bounds checks at all (build failed?): "+firstLines(string(out), 3))
		return
	}
	if len(missing) > 0 {
		r.Undecided("C16.R3", "compiler-reported bounds checks are all enumerated", "-", "the compiler keeps bounds checks at sites the obligation enumeration did not list: "+strings.Join(missing, ", "))
	} else {
		r.Ok("C16.R3", "compiler-reported bounds checks are all enumerated", "-", fmt.Sprintf("%d unproven bounds checks reported by the compiler in module code, %d inside reachable functions, all coincide with an enumerated index/slice obligation", n, nReach))
	}
}

func firstLines(s string, n int) string {
	ls := strings.Split(s, "\n")
	if len(ls) > n {
		ls = ls[:n]
	}
	return strings.Join(ls, " | ")
}
