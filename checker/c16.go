package main

import (
	"bufio"
	"encoding/json"
	"fmt"
	"go/constant"
	"go/token"
	"go/types"
	"os"
	"os/exec"
	"path/filepath"
	"strings"

	"golang.org/x/tools/go/ssa"
)

func init() { register("C16", checkC16) }

// loadTable reads tables/<name>.tsv: construct-key <TAB> reason.
func loadTable(verifDir, name string) map[string]string {
	out := map[string]string{}
	f, err := os.Open(filepath.Join(verifDir, "tables", name+".tsv"))
	if err != nil {
		return out
	}
	defer f.Close()
	sc := bufio.NewScanner(f)
	for sc.Scan() {
		line := sc.Text()
		if strings.HasPrefix(line, "#") || strings.TrimSpace(line) == "" {
			continue
		}
		parts := strings.SplitN(line, "\t", 2)
		if len(parts) == 2 {
			out[parts[0]] = parts[1]
		}
	}
	return out
}

var verifDirGlobal string

func panicRootFns(c *Ctx, r *Report, rule string) []*ssa.Function {
	var roots []*ssa.Function
	for _, k := range panicRoots {
		var fs []*ssa.Function
		if strings.Contains(k, "$") {
			for _, f := range c.Concrete() {
				if fnKey(f) == k {
					fs = append(fs, f)
				}
			}
		} else {
			fs = c.FuncsNamed(k)
		}
		if len(fs) == 0 {
			r.Undecided(rule, "root "+k, "-", "unresolved anchor (untrusted-input root) "+k)
		}
		roots = append(roots, fs...)
	}
	return roots
}

func checkC16(c *Ctx, r *Report) {
	r.Decided = []string{
		"R1/R2 in every module function reachable (call graph) from the untrusted-input roots — request handling, size/duration/PHC/config parsers, janitor loop, config-change handlers — each index, slice, force-unwrap, unchecked type assertion, variable divisor, variable make size, WriteHeader/Ticker precondition, explicit panic and close() is an obligation, discharged by a dominating test on the same SSA values or by a one-line reviewed table entry",
		"R4 every path through processRequest writes a response (Write/WriteError/WriteEmpty or a callee that does) before returning",
		"R5 obligations that execute in bare goroutines are marked process-fatal",
		"R8 a request addressed to the proxy's own listening address (compared through http.LocalAddrContextKey) is refused before it is fetched: it would wait for itself forever",
		"R7 type invariant behind the force-unwrap discharges: no zero-valued Either (neither side set) is materialised outside package typeutils, so `!IsLeft()` implies the right side",
		"R6 at most one response per request: a write that follows a callee which may already have answered is reachable only under error classes that callee reports without having written (so the client never finds a stray second response in place of its next answer)",
	}
	r.NotDec = []string{"panics inside dependencies on values that passed the listed preconditions", "nil dereferences (left to nilaway cross-reference)", "memory exhaustion, runtime deadlock aborts", "that the response written is well-formed HTTP (net/http is trusted)"}
	li := BuildLocks(c)
	roots := panicRootFns(c, r, "C16.R1")
	// config-change handlers run as goroutines from Event.Fire: every closure passed to OnChange is a root
	for _, f := range li.Fns {
		eachCall(f, func(call ssa.CallInstruction, n string) {
			if strings.HasSuffix(n, "config.ConfigProp).OnChange") {
				for _, a := range call.Common().Args {
					if fn := closureFn(a); fn != nil {
						roots = append(roots, fn)
					}
				}
			}
		})
	}
	reach, viaGo := allReach(li, roots)
	for _, f := range roots {
		if f.Parent() != nil {
			viaGo[f] = true
		}
	}
	obs := collectPanicObligations(c, li, reach, viaGo)
	table := loadTable(verifDirGlobal, "C16")
	used := map[string]bool{}
	nIdx := 0
	for _, o := range obs {
		if o.kind == "index" || o.kind == "slice" {
			nIdx++
		}
		sev := ""
		if o.inGo {
			sev = " [runs in a bare goroutine: a panic here aborts the process]"
		}
		pos := c.InstrPos(o.in)
		if o.ok {
			r.Ok("C16.R1", o.key, pos, o.why)
			continue
		}
		if reason, ok := table[o.key]; ok {
			used[o.key] = true
			r.OkT("C16.R1", o.key, pos, "reviewed: "+reason)
			continue
		}
		r.Fail("C16.R1", o.key, pos, o.why+sev)
	}
	for k := range table {
		if !used[k] {
			r.Notes = append(r.Notes, "stale table entry (construct no longer an open obligation): "+k)
		}
	}
	r.Floor("C16.R1", len(reach), 150, "module functions reachable from the untrusted-input roots")
	r.Floor("C16.R1", nIdx, 20, "index/slice obligations")
	r.Floor("C16.R1", len(obs), 60, "panic obligations")

	// ---- R7: the force-unwrap discharges above rely on "an Either has exactly one side": every Either
	// value comes from typeutils.Left / Right; no zero-valued Either is ever materialised outside typeutils
	isEither := func(t types.Type) bool {
		n, ok := t.(*types.Named)
		return ok && n.Obj().Pkg() != nil && n.Obj().Pkg().Path() == "reservoir/utils/typeutils" && n.Obj().Name() == "Either"
	}
	nEither, nFns7 := 0, 0
	for _, f := range li.Fns {
		if originPkgPath(f) == "reservoir/utils/typeutils" || f.Blocks == nil {
			continue
		}
		nFns7++
		seenBad := map[string]bool{}
		eachInstr(f, func(in ssa.Instruction) {
			if v, ok := in.(ssa.Value); ok && isEither(v.Type()) {
				nEither++
			}
			var ops []*ssa.Value
			ops = in.Operands(ops)
			for _, op := range ops {
				if op == nil || *op == nil {
					continue
				}
				if k, ok := (*op).(*ssa.Const); ok && isEither(k.Type()) {
					p := c.InstrPos(in)
					if !seenBad[p] {
						seenBad[p] = true
						r.Fail("C16.R7", fnKey(f)+": zero-valued Either", p, "an Either with neither side set can reach a consumer here: `!IsLeft()` no longer implies that the right side is present, so ForceUnwrapRight (guarded that way) panics")
					}
				}
			}
			if a, ok := in.(*ssa.Alloc); ok && isEither(a.Type().Underlying().(*types.Pointer).Elem()) {
				// a local Either variable: every read must come after an assignment
				isStore := func(i2 ssa.Instruction) bool {
					st, ok := i2.(*ssa.Store)
					return ok && st.Addr == ssa.Value(a)
				}
				p := posOf(in)
				p.i++
				hits := walkFrom(p, isStore, func(i2 ssa.Instruction) bool {
					u, ok := i2.(*ssa.UnOp)
					return ok && u.Op == token.MUL && u.X == ssa.Value(a)
				}, nil)
				if len(hits) > 0 {
					r.Fail("C16.R7", fnKey(f)+": Either variable read before assignment", c.InstrPos(hits[0]), "a declared-but-unassigned Either (neither side set) can be read here")
				}
			}
		})
	}
	r.OkT("C16.R7", "no zero-valued Either outside package typeutils", "-", fmt.Sprintf("%d module functions scanned, %d Either-typed values, all produced by Left/Right, calls or copies", nFns7, nEither))
	r.Floor("C16.R7", nEither, 2, "Either-typed values")

	// ---- R8: a request that names the proxy itself as its origin is refused. Forwarded, it arrives at the proxy again with
	// the same cache key and is coalesced onto the fetch that is waiting for it: nobody ever answers, and every later
	// request for that URL hangs too. handleHTTP reaches processRequest only where a test that compares the request's
	// host with the address the request arrived on (http.LocalAddrContextKey) says "not my own address".
	for _, f := range c.FuncsNamed("(*reservoir/proxy.Proxy).handleHTTP") {
		pr := findCall(f, "(*reservoir/proxy.Proxy).processRequest")
		if pr == nil {
			r.Undecided("C16.R8", "handleHTTP: processRequest", c.Pos(f.Pos()), "unresolved anchor")
			continue
		}
		guarded := false
		for _, fc := range factsAt(f, pr) {
			if fc.truth {
				continue
			}
			// the refused side: a condition (possibly a same-package predicate) that looks at the local address and at the host
			sawLocal, sawHost := false, false
			scan := func(g *ssa.Function) {
				eachInstr(g, func(in ssa.Instruction) {
					switch x := in.(type) {
					case *ssa.UnOp:
						if gl, ok := x.X.(*ssa.Global); ok && gname(gl) == "LocalAddrContextKey" {
							sawLocal = true
						}
					case *ssa.FieldAddr:
						if fv, _, is := fieldOf(x); is && fname(fv) == "Host" && structName(x.X.Type()) == "net/http.Request" {
							sawHost = true
						}
					}
				})
			}
			if call, ok := fc.cond.(*ssa.Call); ok {
				if h := helperBody(call); h != nil {
					for _, g := range pkgGroup(li, h) {
						scan(g)
					}
				}
			}
			if sawLocal && sawHost {
				guarded = true
			}
		}
		r.Check(guarded, "C16.R8", "a request addressed to the proxy's own listening address is refused", c.InstrPos(pr), "processRequest lies on the false edge of a test over http.LocalAddrContextKey and the request's Host", "a request whose origin is the proxy itself (`GET http://<proxy address>/x` through the proxy) is forwarded: the forwarded copy has the same cache key, joins the fetch that is waiting for it, and neither is ever answered; later requests for the URL hang as well")
	}

	checkAnswered(c, r, li, "C16.R4")
	if c.Tier == "thorough" {
		bceCrossCheck(c, r, reach, obs)
	}
}

// checkAnswered (R4): every return of processRequest is preceded on every path
// by a responder write or by a call to a function that writes on all its paths.
func checkAnswered(c *Ctx, r *Report, li *LockInfo, rule string) {
	writes := map[string]bool{
		"(reservoir/proxy/responder.Responder).Write": true, "(reservoir/proxy/responder.Responder).WriteError": true, "(reservoir/proxy/responder.Responder).WriteEmpty": true,
	}
	// summary: functions (in package proxy) that write on every path to every return
	always := map[*ssa.Function]bool{}
	var proxyFns []*ssa.Function
	for _, f := range li.Fns {
		if originPkgPath(f) == "reservoir/proxy" {
			proxyFns = append(proxyFns, f)
		}
	}
	isWrite := func(in ssa.Instruction) bool {
		call, ok := in.(*ssa.Call)
		if !ok {
			return false
		}
		if writes[calleeName(call)] {
			return true
		}
		for _, g := range li.Callees[in] {
			if always[g] {
				return true
			}
		}
		return false
	}
	for changed := true; changed; {
		changed = false
		for _, f := range proxyFns {
			if always[f] || len(f.Blocks) == 0 {
				continue
			}
			if len(exitsFromEntryAvoiding(f, isWrite, nil)) == 0 {
				always[f] = true
				changed = true
			}
		}
	}
	mayWriteMemo := map[*ssa.Function]bool{}
	var mayWrite func(g *ssa.Function) bool
	mayWrite = func(g *ssa.Function) bool {
		if v, ok := mayWriteMemo[g]; ok {
			return v
		}
		mayWriteMemo[g] = false
		res := false
		eachInstr(g, func(in ssa.Instruction) {
			if call, ok := in.(*ssa.Call); ok {
				if writes[calleeName(call)] {
					res = true
				}
				for _, h := range li.Callees[in] {
					if originPkgPath(h) == "reservoir/proxy" && mayWrite(h) {
						res = true
					}
				}
			}
		})
		mayWriteMemo[g] = res
		return res
	}
	unwritten := func(f *ssa.Function) []ssa.Instruction {
		var out []ssa.Instruction
		for _, e := range exitsFromEntryAvoiding(f, isWrite, nil) {
			if ret, ok := e.(*ssa.Return); ok && isRecoverReturn(ret) {
				continue
			}
			out = append(out, e)
		}
		return out
	}
	// classes of error values a return can carry
	classOf := func(g *ssa.Function, ret *ssa.Return) map[string]bool {
		vals := retVals(ret)
		out := map[string]bool{}
		if len(vals) == 0 {
			out["nil"] = true
			return out
		}
		rv := vals[len(vals)-1]
		switch {
		case isNilConst(rv):
			out["nil"] = true
		default:
			if u, ok := rv.(*ssa.UnOp); ok && u.Op == token.MUL {
				if gl, ok := u.X.(*ssa.Global); ok {
					out[gl.Name()] = true
					return out
				}
			}
			if call, ok := rv.(*ssa.Call); ok {
				n := calleeName(call)
				if n == "fmt.Errorf" || n == "errors.New" {
					out["nonnil"] = true
					// only operands rendered with %w stay visible to errors.Is
					var wrapped []ssa.Value
					if format, ops, ok := sprintfOperands(call); ok && n == "fmt.Errorf" {
						verbs := verbRe.FindAllString(format, -1)
						for i, vb := range verbs {
							if strings.HasSuffix(vb, "w") && i < len(ops) {
								wrapped = append(wrapped, ops[i])
							}
						}
						if len(verbs) != len(ops) {
							wrapped = ops // cannot align: keep the old over-approximation
						}
					}
					for _, w := range wrapped {
						derivesFrom(w, func(v ssa.Value) bool {
							if u, ok := v.(*ssa.UnOp); ok && u.Op == token.MUL {
								if gl, ok := u.X.(*ssa.Global); ok {
									out[gl.Name()] = true
								}
							}
							return false
						})
					}
					return out
				}
			}
			if onlyWhenNil(g, ret, rv, false) {
				out["nonnil"] = true
				return out
			}
			out["nil"] = true
			out["unknown"] = true
		}
		return out
	}
	var calleeWritesD func(g *ssa.Function, class string, depth int) (bool, string)
	calleeWritesD = func(g *ssa.Function, class string, depth int) (bool, string) {
		unw := map[ssa.Instruction]bool{}
		for _, e := range unwritten(g) {
			unw[e] = true
		}
		bad := ""
		eachInstr(g, func(in ssa.Instruction) {
			ret, ok := in.(*ssa.Return)
			if !ok || isRecoverReturn(ret) || !unw[in] {
				return
			}
			cl := classOf(g, ret)
			if cl[class] || (class != "nil" && cl["unknown"]) {
				// a return that hands on the result of another answering function (`return p.helper(...)`)
				// is fine if that function gives the same guarantee
				vals := retVals(ret)
				if len(vals) > 0 && depth < 3 {
					src := unconv(vals[len(vals)-1])
					if ex, isEx := src.(*ssa.Extract); isEx {
						src = ex.Tuple
					}
					if call, isCall := src.(*ssa.Call); isCall {
						all := len(li.Callees[call]) > 0
						for _, h := range li.Callees[call] {
							if okh, _ := calleeWritesD(h, class, depth+1); !mayWrite(h) || !okh {
								all = false
							}
						}
						if all {
							return
						}
					}
				}
				bad = c.InstrPos(ret)
			}
		})
		return bad == "", bad
	}
	calleeWrites := func(g *ssa.Function, class string) (bool, string) { return calleeWritesD(g, class, 0) }
	for _, name := range []string{"(*reservoir/proxy.Proxy).handleRangeRequest", "(*reservoir/proxy.Proxy).processRequest", "(*reservoir/proxy.Proxy).handleHTTP"} {
		fs := c.FuncsNamed(name)
		if len(fs) == 0 {
			r.Undecided(rule, name, "-", "unresolved anchor")
			continue
		}
		f := fs[0]
		if name == "(*reservoir/proxy.Proxy).handleRangeRequest" {
			continue // analysed as a callee below
		}
		var bad []string
		nExits := 0
		for _, e := range unwritten(f) {
			nExits++
			facts := factsAt(f, e)
			if enumExhausted(c, facts) {
				continue
			}
			// exits justified by what a may-write callee guarantees for the class of error tested
			justified := false
			for _, fc := range facts {
				var errv ssa.Value
				class := ""
				if bo, ok := fc.cond.(*ssa.BinOp); ok && (bo.Op == token.NEQ || bo.Op == token.EQL) && (isNilConst(bo.Y) || isNilConst(bo.X)) {
					isEq := bo.Op == token.EQL
					if isEq == fc.truth {
						class = "nil"
						errv = bo.X
						if isNilConst(bo.X) {
							errv = bo.Y
						}
					}
				} else if call, ok := fc.cond.(*ssa.Call); ok && calleeName(call) == "errors.Is" && fc.truth {
					errv = call.Call.Args[0]
					if u, ok := call.Call.Args[1].(*ssa.UnOp); ok {
						if gl, ok := u.X.(*ssa.Global); ok {
							class = gl.Name()
						}
					}
				}
				if class == "" || errv == nil {
					continue
				}
				src := unconv(errv)
				if ex, ok := src.(*ssa.Extract); ok {
					src = ex.Tuple
				}
				callee, ok := src.(*ssa.Call)
				if !ok {
					continue
				}
				for _, g := range li.Callees[callee] {
					if !mayWrite(g) {
						continue // the callee never answers: its result says nothing about a response
					}
					if okw, where := calleeWrites(g, class); okw {
						justified = true
					} else {
						bad = append(bad, fmt.Sprintf("%s relies on %s having answered when it returns %s, but its return at %s has no write on some path", c.InstrPos(e), fnKey(g), class, where))
					}
				}
			}
			if !justified {
				bad = append(bad, c.InstrPos(e))
			}
		}
		// ---- at most one response per exchange: after a response has been written no second one may follow
		{
			isDirectWrite := func(in ssa.Instruction) bool {
				call, ok := in.(*ssa.Call)
				return ok && writes[calleeName(call)]
			}
			alwaysCall := func(in ssa.Instruction) bool {
				if _, ok := in.(*ssa.Call); !ok {
					return false
				}
				for _, g := range li.Callees[in] {
					if always[g] && originPkgPath(g) == "reservoir/proxy" {
						return true
					}
				}
				return false
			}
			mayCall := func(in ssa.Instruction) *ssa.Function {
				if _, ok := in.(*ssa.Call); !ok {
					return nil
				}
				for _, g := range li.Callees[in] {
					if originPkgPath(g) == "reservoir/proxy" && !always[g] && mayWrite(g) {
						return g
					}
				}
				return nil
			}
			// returns of g that can be reached after g has written, with their error classes;
			// a return that hands back the error of the write itself is a failed write (the connection is gone)
			type wret struct {
				ret *ssa.Return
				cl  map[string]bool
			}
			writtenReturns := func(g *ssa.Function) []wret {
				var out []wret
				eachInstr(g, func(in ssa.Instruction) {
					if !(isDirectWrite(in) || alwaysCall(in) || mayCall(in) != nil) {
						return
					}
					p := posOf(in)
					p.i++
					for _, e := range walkFrom(p, nil, isReturn, nil) {
						ret := e.(*ssa.Return)
						if isRecoverReturn(ret) {
							continue
						}
						vals := retVals(ret)
						if len(vals) > 0 {
							last := vals[len(vals)-1]
							if derivesFrom(last, func(v ssa.Value) bool { return v == in.(ssa.Value) }) {
								continue // the write's own error
							}
						}
						dup := false
						for _, o := range out {
							if o.ret == ret {
								dup = true
							}
						}
						if !dup {
							out = append(out, wret{ret, classOf(g, ret)})
						}
					}
				})
				return out
			}
			var second []string
			nPairs := 0
			eachInstr(f, func(w2 ssa.Instruction) {
				if !(isDirectWrite(w2) || alwaysCall(w2) || mayCall(w2) != nil) {
					return
				}
				eachInstr(f, func(w1 ssa.Instruction) {
					if w1 == w2 || !reachableInstr(w1, w2, nil) {
						return
					}
					switch {
					case isDirectWrite(w1) || alwaysCall(w1):
						nPairs++
						// a direct write followed by another one: allowed only if the second is unreachable once
						// the first succeeded — approximated by: the second is guarded by the first's error being non-nil
						if v1, ok := w1.(ssa.Value); ok {
							for _, fc := range factsAt(f, w2) {
								if bo, ok := fc.cond.(*ssa.BinOp); ok && bo.Op == token.NEQ && fc.truth && derivesFrom(bo.X, func(v ssa.Value) bool { return v == v1 }) {
									return
								}
							}
						}
						second = append(second, fmt.Sprintf("%s can follow the response already written at %s", c.InstrPos(w2), c.InstrPos(w1)))
					case mayCall(w1) != nil:
						g := mayCall(w1)
						v1 := w1.(ssa.Value)
						for _, wr := range writtenReturns(g) {
							nPairs++
							cl := wr.cl
							exact := !cl["nonnil"] && !cl["unknown"]
							// follow only the branches of the caller that are consistent with this return's error class
							skip := func(blk *ssa.BasicBlock, si int) bool {
								iff, ok := blk.Instrs[len(blk.Instrs)-1].(*ssa.If)
								if !ok {
									return false
								}
								cond, positive := stripNot(iff.Cond)
								onV1 := func(x ssa.Value) bool {
									return derivesFrom(x, func(v ssa.Value) bool { return v == v1 })
								}
								if bo, ok := cond.(*ssa.BinOp); ok && (bo.Op == token.NEQ || bo.Op == token.EQL) && (isNilConst(bo.Y) || isNilConst(bo.X)) {
									ev := bo.X
									if isNilConst(bo.X) {
										ev = bo.Y
									}
									if !onV1(ev) {
										return false
									}
									// index of the edge on which err == nil
									nilIdx := 0
									if (bo.Op == token.NEQ) == positive {
										nilIdx = 1
									}
									if !cl["nil"] {
										return si == nilIdx
									}
									if len(cl) == 1 {
										return si != nilIdx
									}
									return false
								}
								if call, ok := cond.(*ssa.Call); ok && calleeName(call) == "errors.Is" && onV1(call.Call.Args[0]) {
									name := ""
									if u, ok := call.Call.Args[1].(*ssa.UnOp); ok {
										if gl, ok := u.X.(*ssa.Global); ok {
											name = gl.Name()
										}
									}
									if name == "" {
										return false
									}
									trueIdx := 0
									if !positive {
										trueIdx = 1
									}
									if cl[name] {
										return si != trueIdx
									}
									if exact {
										return si == trueIdx
									}
								}
								return false
							}
							excluded := !reachableInstr(w1, w2, skip)
							if !excluded {
								second = append(second, fmt.Sprintf("%s writes a response although %s may already have answered before its return at %s (error classes %v are not told apart by the caller)", c.InstrPos(w2), fnKey(g), c.InstrPos(wr.ret), keysOf(wr.cl)))
							}
						}
					}
				})
			})
			r.Check(len(second) == 0, strings.Replace(rule, "R4", "R6", 1), name+": at most one response per exchange", c.Pos(f.Pos()), fmt.Sprintf("%d write-after-write pairs examined; each second write is excluded by the error class the first reports", nPairs), "a second response can be written for one request (on a tunnel it is read as the answer to the next request): "+strings.Join(uniq(second), "; "))
		}
		key := name + ": every return is preceded by a response write"
		if len(bad) > 0 {
			r.Fail(rule, key, c.Pos(f.Pos()), "paths reach a return without any responder write: "+strings.Join(uniq(bad), "; "))
		} else {
			always[f] = true
			r.Ok(rule, key, c.Pos(f.Pos()), fmt.Sprintf("must-pass-through over all paths; %d exits without a local write are justified by callee guarantees (nil / sentinel class) or enum exhaustion", nExits))
		}
	}
}

// enumExhausted: the facts say x != c for every declared constant c of x's
// named integer type (the `default:` arm of an exhaustive switch).
func enumExhausted(c *Ctx, facts []fact) bool {
	seen := map[string]map[int64]bool{}
	types_ := map[string]*types.Named{}
	for _, f := range facts {
		bo, ok := f.cond.(*ssa.BinOp)
		if !ok || bo.Op != token.EQL || f.truth {
			continue
		}
		k, isC := constInt(bo.Y)
		if !isC {
			continue
		}
		nt, ok := bo.X.Type().(*types.Named)
		if !ok {
			continue
		}
		id := valuePath(bo.X)
		if seen[id] == nil {
			seen[id] = map[int64]bool{}
		}
		seen[id][k] = true
		types_[id] = nt
	}
	for id, ks := range seen {
		nt := types_[id]
		pkg := nt.Obj().Pkg()
		if pkg == nil {
			continue
		}
		all, n := true, 0
		for _, name := range pkg.Scope().Names() {
			cn, ok := pkg.Scope().Lookup(name).(*types.Const)
			if !ok || !types.Identical(cn.Type(), nt) {
				continue
			}
			n++
			v, _ := constant.Int64Val(cn.Val())
			if !ks[v] {
				all = false
			}
		}
		if all && n > 0 {
			return true
		}
	}
	return false
}

// bceCrossCheck (C16.R3, thorough tier): the compiler's prove pass lists every
// bounds check it could not eliminate. Each such site inside a function that
// is reachable from the untrusted-input roots must coincide (file:line) with an
// index/slice obligation enumerated above — otherwise the enumeration missed a
// potential index panic and the result is undecided. Compiling is not running.
func bceCrossCheck(c *Ctx, r *Report, reach map[*ssa.Function]bool, obs []*panicOb) {
	tmp, err := os.MkdirTemp("", "verif-bce-")
	if err != nil {
		r.Undecided("C16.R3", "compiler cross-check", "-", err.Error())
		return
	}
	defer os.RemoveAll(tmp)
	ov := map[string]map[string]string{"Replace": {}}
	for path, content := range overlayFor(c.Repo) {
		f := filepath.Join(tmp, strings.ReplaceAll(strings.TrimPrefix(path, c.Repo), "/", "_"))
		os.WriteFile(f, content, 0o644)
		ov["Replace"][path] = f
	}
	ovb, _ := json.Marshal(ov)
	ovFile := filepath.Join(tmp, "overlay.json")
	os.WriteFile(ovFile, ovb, 0o644)
	cmd := exec.Command("go", "build", "-overlay", ovFile, "-gcflags=reservoir/...=-l -d=ssa/check_bce/debug=1", "./...")
	cmd.Dir = c.Repo
	cmd.Env = append(os.Environ(), "GOCACHE="+filepath.Join(tmp, "cache"), "GOFLAGS=-mod=mod", "GOWORK=off")
	out, _ := cmd.CombinedOutput()
	covered := map[string]bool{}
	for _, o := range obs {
		if o.kind == "index" || o.kind == "slice" {
			covered[c.InstrPos(o.in)] = true
		}
	}
	// functions by file:line range
	type span struct {
		file     string
		from, to int
		fn       *ssa.Function
	}
	var spans []span
	for _, fn := range c.ModFns {
		if fn.Syntax() == nil {
			continue
		}
		p1 := c.Fset.Position(fn.Syntax().Pos())
		p2 := c.Fset.Position(fn.Syntax().End())
		rel, _ := filepath.Rel(c.Repo, p1.Filename)
		spans = append(spans, span{rel, p1.Line, p2.Line, fn})
	}
	n, nReach, missing := 0, 0, []string{}
	sc := bufio.NewScanner(strings.NewReader(string(out)))
	for sc.Scan() {
		line := sc.Text()
		if !strings.Contains(line, "Found IsInBounds") && !strings.Contains(line, "Found IsSliceInBounds") {
			continue
		}
		parts := strings.SplitN(line, ":", 4)
		if len(parts) < 4 {
			continue
		}
		file := strings.TrimPrefix(parts[0], "./")
		var ln int
		fmt.Sscanf(parts[1], "%d", &ln)
		n++
		inReach := false
		for _, s := range spans {
			if s.file == file && s.from <= ln && ln <= s.to && reach[s.fn] && !contractPanics[fnKey(s.fn)] {
				inReach = true
			}
		}
		if !inReach {
			continue
		}
		nReach++
		key := fmt.Sprintf("%s:%d", file, ln)
		if !covered[key] {
			missing = append(missing, key)
		}
	}
	missing = uniq(missing)
	if n == 0 {
		r.Undecided("C16.R3", "compiler cross-check", "-", "the compiler reported no unproven bounds checks at all (build failed?): "+firstLines(string(out), 3))
		return
	}
	if len(missing) > 0 {
		r.Undecided("C16.R3", "compiler-reported bounds checks are all enumerated", "-", "the compiler keeps bounds checks at sites the obligation enumeration did not list: "+strings.Join(missing, ", "))
	} else {
		r.Ok("C16.R3", "compiler-reported bounds checks are all enumerated", "-", fmt.Sprintf("%d unproven bounds checks reported by the compiler in module code, %d inside reachable functions, all coincide with an enumerated index/slice obligation", n, nReach))
	}
}

func firstLines(s string, n int) string {
	ls := strings.Split(s, "\n")
	if len(ls) > n {
		ls = ls[:n]
	}
	return strings.Join(ls, " | ")
}
