package main

import (
	"fmt"
	"go/types"
	"strings"

	"golang.org/x/tools/go/ssa"
)

func init() { register("C12", checkC12) }

const cachePkg = "reservoir/cache"

// trackedMapField reports whether v (a map value) is a load of a map-typed
// field keyed by cache.CacheKey of a struct declared in package cache; returns
// the field key "Type.field".
func trackedMapField(v ssa.Value) (string, bool) {
	u, ok := v.(*ssa.UnOp)
	if !ok {
		return "", false
	}
	fa, ok := u.X.(*ssa.FieldAddr)
	if !ok {
		return "", false
	}
	m, ok := u.Type().Underlying().(*types.Map)
	if !ok {
		return "", false
	}
	kn, ok := m.Key().(*types.Named)
	if !ok || kn.Obj().Name() != "CacheKey" || kn.Obj().Pkg() == nil || kn.Obj().Pkg().Path() != cachePkg {
		return "", false
	}
	k := fieldKeyOf(fa.X, fa.Field)
	if !strings.HasPrefix(k, cachePkg+".") {
		return "", false
	}
	return k, true
}

type mapOps struct {
	fn      *ssa.Function
	updates []*ssa.MapUpdate
	deletes []*ssa.Call
	lookups []*ssa.Lookup
}

func collectMapOps(fns []*ssa.Function) []*mapOps {
	var out []*mapOps
	for _, f := range fns {
		mo := &mapOps{fn: f}
		eachInstr(f, func(in ssa.Instruction) {
			switch x := in.(type) {
			case *ssa.MapUpdate:
				if _, ok := trackedMapField(x.Map); ok {
					mo.updates = append(mo.updates, x)
				}
			case *ssa.Lookup:
				if _, ok := trackedMapField(x.X); ok {
					mo.lookups = append(mo.lookups, x)
				}
			case *ssa.Call:
				if b, ok := x.Call.Value.(*ssa.Builtin); ok && b.Name() == "delete" && len(x.Call.Args) == 2 {
					if _, ok := trackedMapField(x.Call.Args[0]); ok {
						mo.deletes = append(mo.deletes, x)
					}
				}
			}
		})
		if len(mo.updates)+len(mo.deletes)+len(mo.lookups) > 0 {
			out = append(out, mo)
		}
	}
	return out
}

// mapValuesNonNil: every value put into the tracked map field mk, anywhere in the package, is non-nil by
// construction (the address of a fresh allocation), and there is at least one such insert.
func mapValuesNonNil(ops []*mapOps, mk string) bool {
	n := 0
	for _, mo := range ops {
		for _, u := range mo.updates {
			if k, _ := trackedMapField(u.Map); k != mk {
				continue
			}
			n++
			if !nonNilByConstruction(u.Value, 0) {
				return false
			}
		}
	}
	return n > 0
}

func nonNilByConstruction(v ssa.Value, d int) bool {
	if d > 4 {
		return false
	}
	switch x := resolveVal(v).(type) {
	case *ssa.Alloc, *ssa.FieldAddr, *ssa.IndexAddr, *ssa.MakeMap, *ssa.MakeChan, *ssa.MakeClosure, *ssa.Function:
		return true
	case *ssa.Phi:
		for _, e := range x.Edges {
			if !nonNilByConstruction(e, d+1) {
				return false
			}
		}
		return len(x.Edges) > 0
	}
	return false
}

// mapLook is a comma-ok lookup of the entry stored under a key, either a direct
// map lookup or a call of a lookup helper (a function that does nothing but such
// a lookup under the map lock and returns its two results).
type mapLook struct {
	at      ssa.Instruction
	val, ok ssa.Value
	key     ssa.Value
	field   string
}

// lookupHelper recognises `func (c *T) lookup(key) (v, ok)`.
func lookupHelper(g *ssa.Function) (field string, keyParam int, ok bool) {
	if g == nil || g.Blocks == nil || originPkgPath(g) != cachePkg {
		return "", 0, false
	}
	var lk *ssa.Lookup
	n := 0
	eachInstr(g, func(in ssa.Instruction) {
		switch x := in.(type) {
		case *ssa.Lookup:
			if _, tracked := trackedMapField(x.X); tracked && x.CommaOk {
				lk = x
				n++
			}
		case *ssa.MapUpdate:
			n += 10
		}
	})
	if n != 1 {
		return "", 0, false
	}
	idx := -1
	for i, p := range g.Params {
		if sameVal(lk.Index, p) {
			idx = i
		}
	}
	if idx < 0 {
		return "", 0, false
	}
	good := false
	eachInstr(g, func(in ssa.Instruction) {
		ret, isRet := in.(*ssa.Return)
		if !isRet || isRecoverReturn(ret) {
			return
		}
		vals := retVals(ret)
		if len(vals) == 2 {
			e0, ok0 := vals[0].(*ssa.Extract)
			e1, ok1 := vals[1].(*ssa.Extract)
			if ok0 && ok1 && e0.Tuple == ssa.Value(lk) && e1.Tuple == ssa.Value(lk) && e0.Index == 0 && e1.Index == 1 {
				good = true
			}
		}
	})
	if !good {
		// the look-up on behalf of a request: (entry, ..., err) with the entry found, or nil and an error
		nHit, all := 0, true
		eachInstr(g, func(in ssa.Instruction) {
			ret, isRet := in.(*ssa.Return)
			if !isRet || isRecoverReturn(ret) {
				return
			}
			vals := retVals(ret)
			if len(vals) < 2 || vals[len(vals)-1].Type().String() != "error" {
				all = false
				return
			}
			v0 := resolveVal(vals[0])
			if e0, ok0 := v0.(*ssa.Extract); ok0 && e0.Tuple == ssa.Value(lk) && e0.Index == 0 {
				nHit++
				return
			}
			if !isNilConst(v0) {
				all = false
			}
		})
		good = all && nHit > 0
	}
	f, _ := trackedMapField(lk.X)
	return f, idx, good
}

func lookupsIn(f *ssa.Function) []mapLook {
	var out []mapLook
	eachInstr(f, func(in ssa.Instruction) {
		switch x := in.(type) {
		case *ssa.Lookup:
			if fld, tracked := trackedMapField(x.X); tracked && x.CommaOk {
				ml := mapLook{at: x, key: x.Index, field: fld}
				if e := extractOf(x, 0); e != nil {
					ml.val = e
				}
				if e := extractOf(x, 1); e != nil {
					ml.ok = e
				}
				out = append(out, ml)
			}
		case *ssa.Call:
			if sc := staticCallee(x); sc != nil {
				if fld, kp, ok := lookupHelper(unwrapSynthetic(sc)); ok {
					args := callArgs(x)
					ml := mapLook{at: x, key: args[kp], field: fld}
					if e := extractOf(x, 0); e != nil {
						ml.val = e
					}
					if e := extractOf(x, 1); e != nil {
						ml.ok = e
					}
					out = append(out, ml)
				}
			}
		}
	})
	return out
}

// acctCalls: calls in f to accounting helpers of the given kind (by effect).
func acctCalls(f *ssa.Function, kind string) []*ssa.Call {
	var out []*ssa.Call
	eachInstr(f, func(in ssa.Instruction) {
		if c, ok := in.(*ssa.Call); ok {
			for _, k := range acctKindsOfCall(c) {
				if k == kind {
					out = append(out, c)
				}
			}
		}
	})
	return out
}

func callsNamed(f *ssa.Function, name string) []*ssa.Call {
	var out []*ssa.Call
	eachInstr(f, func(in ssa.Instruction) {
		if c, ok := in.(*ssa.Call); ok && calleeName(c) == name {
			out = append(out, c)
		}
	})
	return out
}

// sizeFromOld: x derives from a load of field "Size" reached from value old.
func sizeFromOld(x ssa.Value, old ssa.Value) bool {
	sawSize := false
	ok := derivesFrom(x, func(v ssa.Value) bool {
		if fv, _, is := fieldOf(v); is && fname(fv) == "Size" {
			sawSize = true
		}
		return v == old
	})
	return ok && sawSize
}

func isInstr(target ssa.Instruction) func(ssa.Instruction) bool {
	return func(in ssa.Instruction) bool { return in == target }
}

func anyOf(cs []*ssa.Call) func(ssa.Instruction) bool {
	return func(in ssa.Instruction) bool {
		for _, c := range cs {
			if in == ssa.Instruction(c) {
				return true
			}
		}
		return false
	}
}

func checkC12(c *Ctx, r *Report) {
	r.Decided = []string{
		"R1 every insert into an entry map is paired, on every path, with +size (the same value recorded in the entry) and either -oldSize (key existed) or +1 entry (key absent)",
		"R2 every delete from an entry map is paired on every path with -1 entry and -size where size is the Size recorded in the entry being removed; no decrement without the delete",
		"R3 counter ownership: byteSize / BytesCached / CacheEntries are mutated only through the four helpers (no snapshot of the size is written over them)",
		"R4 every entry-map mutation, counter helper call and appearance/disappearance of an entry file (os.Rename into place, os.Remove of a published file) runs with the key's shard lock held on every call path (must-hold set): the directory, the map and the counters change in one critical section per key",
		"R5 a store adds to the counters only after the entry is in the map",
		"R6 the file backend wipes its directory before the map exists and counters start at zero",
	}
	r.NotDec = []string{"non-negativity / absence of drift as arithmetic facts over histories", "directory contents after a crash at an arbitrary instruction", "the process-global metric shared by several caches in one process"}

	li := BuildLocks(c)
	var cacheFns []*ssa.Function
	for _, f := range li.Fns {
		if originPkgPath(f) == cachePkg {
			cacheFns = append(cacheFns, f)
		}
	}
	ops := collectMapOps(cacheFns)
	swapHelpers := swapHelpersOf(ops)
	// a function that only calls a swap helper has map operations too
	for _, f := range cacheFns {
		has := false
		for _, mo := range ops {
			if mo.fn == f {
				has = true
			}
		}
		if has {
			continue
		}
		eachInstr(f, func(in ssa.Instruction) {
			if call, ok := in.(*ssa.Call); ok && !has {
				if g := unwrapSynthetic(staticCallee(call)); g != nil && swapHelpers[g] != nil {
					ops = append(ops, &mapOps{fn: f})
					has = true
				}
			}
		})
	}
	nUpd, nDel := 0, 0
	for _, mo := range ops {
		f := mo.fn
		for _, u := range insertOpsOf(li, mo, swapHelpers) {
			nUpd++
			mk, _ := trackedMapField(u.Map)
			key := fmt.Sprintf("%s: insert into %s", fnKey(f), mk)
			pos := c.InstrPos(u.in)
			// (a) lookup of the same key in the same map
			var L *mapLook
			looks := lookupsIn(f)
			for i := range looks {
				l := &looks[i]
				if l.field == mk && sameVal(l.key, u.Key) && instrDominates(l.at, u.in) {
					L = l
				}
			}
			if u.look != nil {
				L = u.look // the helper that made the insert looked the key up in the same breath and handed the result back
			}
			adds := acctCalls(f, "addSize")
			incs := acctCalls(f, "incEntries")
			decs := acctCalls(f, "subSize")
			var problems []string
			if L == nil {
				// alternative accepted form: removal routine called with the same key before the insert
				if removalBefore(c, li, f, u.in, u.Key, ops) {
					if ex := exitsAvoiding(u.in, anyOf(incs), nil); len(incs) == 0 || len(ex) > 0 {
						problems = append(problems, "entry count is not incremented on every path after the insert")
					}
				} else {
					problems = append(problems, "no lookup of the existing entry under the same key before the insert: an overwrite adds the new size on top of the old one and counts the entry twice")
				}
			} else {
				if !li.HeldMustX(L.at)["S"] {
					problems = append(problems, "the lookup of the existing entry at "+c.InstrPos(L.at)+" is made without the key's shard lock (must-hold="+li.HeldMust(L.at).String()+"): its answer can be stale by the time the map is changed, so an overwrite is counted as a new entry (or the other way round) and the counters drift")
				}
				okv := L.ok
				old := L.val
				if okv == nil || old == nil {
					problems = append(problems, "result of the existing-entry lookup is not used")
				} else {
					found := false
					for _, d := range decs {
						if sa := acctSizeArg(d, "subSize"); sa != nil && sizeFromOld(sa, old) && acctGuarded(f, d, "subSize", okv, true) {
							found = true
							if ex := exitsAvoiding(u.in, isInstr(d), pruneTruth(f, okv, true)); len(ex) > 0 {
								problems = append(problems, "when the key existed, some path from the insert to "+c.InstrPos(ex[0])+" skips the subtraction of the replaced entry's size")
							}
						}
					}
					if !found {
						problems = append(problems, "no decrementCacheSize(old.Size) on the key-existed edge")
					}
					if len(incs) == 0 {
						problems = append(problems, "entry count never incremented")
					}
					for _, i := range incs {
						if !acctGuarded(f, i, "incEntries", okv, false) {
							problems = append(problems, "incrementCacheEntries at "+c.InstrPos(i)+" also runs when the key already existed")
						}
					}
					if ex := exitsAvoiding(u.in, anyOf(incs), pruneTruth(f, okv, false)); len(ex) > 0 {
						problems = append(problems, "when the key was absent, some path from the insert to "+c.InstrPos(ex[0])+" skips incrementCacheEntries")
					}
				}
			}
			// (d) +size with the recorded Size on every path after the insert
			var sizeStore ssa.Value
			eachInstr(f, func(in ssa.Instruction) {
				if st, ok := in.(*ssa.Store); ok {
					if fv, _, is := fieldOf(st.Addr); is && fname(fv) == "Size" && strings.Contains(fieldKeyOf(st.Addr.(*ssa.FieldAddr).X, st.Addr.(*ssa.FieldAddr).Field), "EntryMetadata") {
						sizeStore = st.Val
					}
				}
			})
			okAdd := false
			for _, a := range adds {
				if sa := acctSizeArg(a, "addSize"); sa != nil && sizeStore != nil && unconv(sa) == unconv(sizeStore) {
					okAdd = true
				}
				// ... or read back from the very object that was put into the map (install(key, tmpName, meta) books meta.Size)
				if sa := acctSizeArg(a, "addSize"); sa != nil {
					if root, pth := fieldPath(unconv(sa)); len(pth) > 0 && pth[len(pth)-1] == "Size" && sameVal(root, u.Value) {
						okAdd = true
					}
				}
			}
			if !okAdd {
				problems = append(problems, "addCacheSize is not called with the value recorded in the new entry's Size")
			}
			if ex := exitsAvoiding(u.in, anyOf(adds), nil); len(ex) > 0 {
				problems = append(problems, "some path from the insert to "+c.InstrPos(ex[0])+" skips addCacheSize")
			}
			if len(problems) > 0 {
				r.Fail("C12.R1", key, pos, strings.Join(problems, "; "))
			} else {
				r.Ok("C12.R1", key, pos, "lookup of same key dominates insert; -old.Size on found edge, +1 entry on absent edge only, +Size(recorded value) on every path to return")
			}
			// R5: add-type helpers dominated by the insert
			bad := ""
			for _, a := range append(append([]*ssa.Call{}, adds...), incs...) {
				if !instrDominates(u.in, a) {
					bad = "counter helper at " + c.InstrPos(a) + " can run before / without the insert"
				}
			}
			r.Check(bad == "", "C12.R5", key, pos, "all add-type helper calls are dominated by the map insert", bad)
		}
		for _, d := range mo.deletes {
			nDel++
			mk, _ := trackedMapField(d.Call.Args[0])
			key := fmt.Sprintf("%s: delete from %s", fnKey(f), mk)
			pos := c.InstrPos(d)
			var L *mapLook
			looks := lookupsIn(f)
			for i := range looks {
				l := &looks[i]
				if l.field == mk && sameVal(l.key, d.Call.Args[1]) {
					L = l
				}
			}
			decE := acctCalls(f, "decEntries")
			decS := acctCalls(f, "subSize")
			var problems []string
			if L == nil || L.val == nil || L.ok == nil {
				problems = append(problems, "the entry being removed is not looked up under the same key (size to subtract cannot be the recorded one)")
			} else {
				if !li.HeldMustX(L.at)["S"] {
					problems = append(problems, "the lookup of the entry being removed at "+c.InstrPos(L.at)+" is made without the key's shard lock")
				}
				okv := L.ok
				old := L.val
				if len(decE) == 0 {
					problems = append(problems, "no decrementCacheEntries")
				}
				if len(decS) == 0 {
					problems = append(problems, "no decrementCacheSize")
				}
				for _, s := range decS {
					if sa := acctSizeArg(s, "subSize"); sa == nil || !sizeFromOld(sa, old) {
						problems = append(problems, "decrementCacheSize at "+c.InstrPos(s)+" is not sourced from the removed entry's recorded Size (provenance mismatch)")
					}
				}
				for _, h := range append(append([]*ssa.Call{}, decE...), decS...) {
					if !guardedByTruth(f, h, okv, true) {
						problems = append(problems, "decrement at "+c.InstrPos(h)+" also runs when the key was not present")
					}
				}
				pr := pruneTruth(f, okv, true)
				if mapValuesNonNil(ops, mk) {
					// a found entry is never nil (every value put into this map is a fresh allocation): the nil side of a
					// defensive `exists && meta != nil` is not a path
					var nilEdges []nilTest
					for _, v := range []ssa.Value{old, resolveVal(old)} {
						nilEdges = append(nilEdges, nilTestsOn(f, v)...)
					}
					pr = orFilter(pr, func(b *ssa.BasicBlock, si int) bool {
						for _, nt := range nilEdges {
							if nt.blk == b && nt.nilIdx == si {
								return true
							}
						}
						return false
					})
				}
				for _, h := range append(append([]*ssa.Call{}, decE...), decS...) {
					// no decrement without the delete: on the found side (the only side a decrement runs on) every way to
					// the decrement passes the delete, or every way on from it does
					if !instrDominates(d, h) && !mustPassBefore(f, h, isInstr(d), pr) && len(exitsAvoiding(h, isInstr(d), pr)) > 0 {
						problems = append(problems, "decrement at "+c.InstrPos(h)+" can happen without the map delete")
					}
				}
				if ex := exitsAvoiding(d, anyOf(decE), pr); len(ex) > 0 {
					problems = append(problems, "path from delete to "+c.InstrPos(ex[0])+" skips decrementCacheEntries")
				}
				if ex := exitsAvoiding(d, anyOf(decS), pr); len(ex) > 0 {
					problems = append(problems, "path from delete to "+c.InstrPos(ex[0])+" skips decrementCacheSize")
				}
			}
			if len(problems) > 0 {
				r.Fail("C12.R2", key, pos, strings.Join(uniq(problems), "; "))
			} else {
				r.Ok("C12.R2", key, pos, "delete ⇔ -1 entry ⇔ -recorded Size on the found edge; nothing subtracted on the absent edge")
			}
		}
	}
	r.Floor("C12.R1", nUpd, 2, "entry-map inserts")
	r.Floor("C12.R2", nDel, 2, "entry-map deletes")

	// ---- R4: shard lock must be held at every mutation and helper call
	n4 := 0
	for _, f := range cacheFns {
		eachInstr(f, func(in ssa.Instruction) {
			what := ""
			switch x := in.(type) {
			case *ssa.MapUpdate:
				if mk, ok := trackedMapField(x.Map); ok {
					what = "insert into " + mk
				}
			case *ssa.Call:
				if b, ok := x.Call.Value.(*ssa.Builtin); ok && b.Name() == "delete" && len(x.Call.Args) == 2 {
					if mk, ok := trackedMapField(x.Call.Args[0]); ok {
						what = "delete from " + mk
					}
				} else if ks := acctKindsOfCall(x); len(ks) > 0 {
					what = "accounting " + strings.Join(ks, "+")
				} else if n := calleeName(x); n == "os.Rename" || n == "os.Remove" || n == "os.RemoveAll" {
					// the entry file itself appears / disappears: same critical section as its bookkeeping.
					// Removal of a temp file that was never published is not an entry operation.
					arg := x.Call.Args[len(x.Call.Args)-1]
					isTemp := isTempFileName(li, f, arg, 0)
					if n == "os.Rename" || !isTemp {
						what = "entry file " + strings.TrimPrefix(n, "os.")
					}
				}
			}
			if what == "" {
				return
			}
			n4++
			must := li.HeldMust(in)
			key := fmt.Sprintf("%s: %s #%d", fnKey(f), what, n4ord(f, in))
			if must["S"] {
				r.Ok("C12.R4", key, c.InstrPos(in), "must-hold set on every call path = "+must.String())
			} else {
				r.Fail("C12.R4", key, c.InstrPos(in), "the key's shard lock is not held on every call path reaching this accounting step (must-hold="+must.String()+"); per-key sequences are no longer serial")
			}
		})
	}
	r.Floor("C12.R4", n4, 10, "entry-map mutations and counter helper calls")

	// ---- R3: counter ownership
	checkCounterOwnership(c, r, li)

	// ---- R6: constructor
	n6 := 0
	for _, f := range c.FuncsNamed(cachePkg + ".NewFileCache") {
		n6++
		cleared := false
		eachInstr(f, func(in ssa.Instruction) {
			st, ok := in.(*ssa.Store)
			if !ok {
				return
			}
			if fv, _, is := fieldOf(st.Addr); is && fname(fv) == "rootDir" {
				if derivesFrom(st.Val, func(v ssa.Value) bool {
					call, ok := v.(*ssa.Call)
					return ok && strings.HasSuffix(calleeName(call), "AssertedPath).EnsureCleared")
				}) {
					cleared = true
				}
			}
		})
		r.Check(cleared, "C12.R6", "NewFileCache: rootDir wiped", c.Pos(f.Pos()), "rootDir is the result of AssertedPath.EnsureCleared()", "the cache directory is not cleared at construction: files of a previous run stay on disk but are neither in the map nor counted")
	}
	for _, ctor := range []string{"NewFileCache", "NewMemoryCache"} {
		for _, f := range c.FuncsNamed(cachePkg + "." + ctor) {
			zero := false
			eachInstr(f, func(in ssa.Instruction) {
				st, ok := in.(*ssa.Store)
				if !ok {
					return
				}
				if fv, _, is := fieldOf(st.Addr); is && fname(fv) == "byteSize" {
					if call, ok := st.Val.(*ssa.Call); ok && strings.HasSuffix(calleeName(call), "atomics.NewInt64") {
						if v, ok := constInt(call.Call.Args[0]); ok && v == 0 {
							zero = true
						}
					}
				}
			})
			r.Check(zero, "C12.R6", ctor+": byteSize starts at 0", c.Pos(f.Pos()), "byteSize initialised with NewInt64(0)", "byteSize does not start at constant 0")
		}
	}
	r.Floor("C12.R6", n6, 1, "file cache constructors")
	// ... and the wipe cannot fail silently: whatever removal EnsureCleared performs, its error is looked at (os.RemoveAll
	// refuses "." and any path ending in "/." with EINVAL — unnoticed, the previous run's files stay in the directory,
	// uncounted, never expired or evicted)
	for _, f := range c.FuncsNamed("(reservoir/utils/assertedpath.AssertedPath).EnsureCleared") {
		nRm := 0
		for _, g := range pkgGroup(li, f) {
			eachInstr(g, func(in ssa.Instruction) {
				call, ok := in.(*ssa.Call)
				if !ok {
					return
				}
				n := calleeName(call)
				if n != "os.RemoveAll" && n != "os.Remove" {
					return
				}
				nRm++
				used := false
				if refs := call.Referrers(); refs != nil {
					for _, ref := range *refs {
						if _, isDbg := ref.(*ssa.DebugRef); !isDbg {
							used = true
						}
					}
				}
				r.Check(used, "C12.R6", fmt.Sprintf("%s: the error of %s is not dropped (#%d)", fnKey(g), n, nRm), c.InstrPos(call), "result used", "the directory wipe ignores the error of "+n+": for a cache directory spelled \".\" or ending in \"/.\" nothing is removed, the new process reports 0 bytes / 0 entries while the old files remain")
			})
		}
		r.Floor("C12.R6", nRm, 1, "removals in EnsureCleared")
	}
}

func n4ord(f *ssa.Function, target ssa.Instruction) int {
	n := 0
	res := 0
	eachInstr(f, func(in ssa.Instruction) {
		n++
		if in == target {
			res = n
		}
	})
	// ordinal among calls of the same callee in f (stable under unrelated edits in other statements? use per-kind count)
	cnt := 0
	name := ""
	if c, ok := target.(*ssa.Call); ok {
		name = callAcctKind(c)
	}
	out := 0
	eachInstr(f, func(in ssa.Instruction) {
		if c, ok := in.(*ssa.Call); ok && callAcctKind(c) == name && name != "" {
			cnt++
			if in == target {
				out = cnt
			}
		}
	})
	if out > 0 {
		return out
	}
	_ = res
	return 1
}

// removalBefore: a call to a function that deletes from the same map (removal
// routine) with the same key dominates the insert.
func removalBefore(c *Ctx, li *LockInfo, f *ssa.Function, u ssa.Instruction, uKey ssa.Value, ops []*mapOps) bool {
	deleters := map[*ssa.Function]bool{}
	for _, mo := range ops {
		if len(mo.deletes) > 0 {
			deleters[mo.fn] = true
		}
	}
	found := false
	eachInstr(f, func(in ssa.Instruction) {
		call, ok := in.(*ssa.Call)
		if !ok || !instrDominates(call, u) {
			return
		}
		for _, g := range li.Callees[in] {
			if deleters[g] {
				for _, a := range call.Call.Args {
					if sameVal(a, uKey) {
						found = true
					}
				}
			}
		}
	})
	return found
}

func checkCounterOwnership(c *Ctx, r *Report, li *LockInfo) {
	mutators := map[string]bool{"Add": true, "Sub": true, "Set": true, "Increment": true, "Decrement": true, "Swap": true, "CompareAndSwap": true, "Store": true}
	nBS, nMet := 0, 0
	for _, f := range li.Fns {
		fk := fnKey(f)
		eachInstr(f, func(in ssa.Instruction) {
			fa, ok := in.(*ssa.FieldAddr)
			if !ok {
				return
			}
			fkey := fieldKeyOf(fa.X, fa.Field)
			switch {
			case strings.HasPrefix(fkey, cachePkg+".") && strings.HasSuffix(fkey, ".byteSize"):
				for _, ref := range *fa.Referrers() {
					nBS++
					key := fmt.Sprintf("%s uses %s", fk, fkey)
					switch x := ref.(type) {
					case *ssa.Call:
						n := calleeName(x)
						k := callAcctKind(x)
						for _, k2 := range acctKindsOfCall(x) {
							if k2 == "addSize" || k2 == "subSize" {
								k = k2
							}
						}
						if (k == "addSize" || k == "subSize") && len(x.Call.Args) > 0 && x.Call.Args[0] == ssa.Value(fa) {
							r.OkT("C12.R3", key+" via "+k+" helper", c.InstrPos(x), "passed to accounting helper")
						} else if strings.HasSuffix(n, "atomics.Int64).Get") {
							r.OkT("C12.R3", key+" via Get", c.InstrPos(x), "read-only")
						} else {
							r.Fail("C12.R3", key+" via "+n, c.InstrPos(x), "byteSize is handed to "+n+" outside the accounting helpers: the size can change without the paired metric/entry update")
						}
					case *ssa.Store:
						if originOf(topFn(f)).Name() == "NewMemoryCache" || originOf(topFn(f)).Name() == "NewFileCache" {
							r.OkT("C12.R3", key+" init", c.InstrPos(x), "constructor initialisation before publication")
						} else {
							r.Fail("C12.R3", key+" store", c.InstrPos(x), "byteSize overwritten outside the constructor")
						}
					case *ssa.MakeClosure:
						// the method value c.byteSize.Get handed on as a func() int64: a reader
						if g, isF := x.Fn.(*ssa.Function); isF && len(x.Bindings) == 1 && x.Bindings[0] == ssa.Value(fa) && strings.HasSuffix(fnKey(unwrapSynthetic(g)), "atomics.Int64).Get") {
							r.OkT("C12.R3", key+" via Get (method value)", c.InstrPos(x), "read-only")
						} else {
							r.Fail("C12.R3", key+" other", c.InstrPos(ref), "byteSize address escapes: "+ref.String())
						}
					default:
						r.Fail("C12.R3", key+" other", c.InstrPos(ref), "byteSize address escapes: "+ref.String())
					}
				}
			case fkey == "reservoir/metrics.cacheMetrics.BytesCached" || fkey == "reservoir/metrics.cacheMetrics.CacheEntries":
				for _, ref := range *fa.Referrers() {
					call, ok := ref.(*ssa.Call)
					if !ok {
						continue
					}
					n := calleeName(call)
					m := n[strings.LastIndex(n, ".")+1:]
					if !mutators[m] {
						continue
					}
					nMet++
					key := fmt.Sprintf("%s mutates %s via %s", fk, fkey, m)
					switch {
					case acctKind(f) != "":
						r.OkT("C12.R3", fmt.Sprintf("%s helper mutates %s via %s", acctKind(f), fkey, m), c.InstrPos(call), "inside accounting helper")
					case m == "Set" && originPkgPath(f) == cachePkg && strings.HasSuffix(fkey, "BytesCached") && len(call.Call.Args) == 2 && fromGetCacheSizeIP(li, f, call.Call.Args[1]):
						// read-then-overwrite of a counter that concurrent stores and removals change by Add / Sub:
						// an update that lands between the read and the Set is lost (or counted twice) for good
						r.Fail("C12.R3", key, c.InstrPos(call), "the reported size is overwritten with a snapshot of getCacheSize() taken earlier: a store or removal that lands between the read and the Set is lost or counted twice, and the reported size stays off by that entry (concurrent stores into a full cache: bytes_cached=600 while 1200 bytes are stored)")
					default:
						r.Fail("C12.R3", key, c.InstrPos(call), "metric mutated outside the accounting helpers")
					}
				}
			}
		})
	}
	r.Floor("C12.R3", nBS, 6, "uses of byteSize")
	r.Floor("C12.R3", nMet, 4, "mutations of BytesCached/CacheEntries")
}

func topFn(f *ssa.Function) *ssa.Function {
	for f.Parent() != nil {
		f = f.Parent()
	}
	return f
}

// fromGetCacheSizeIP: as fromGetCacheSize, or v is a parameter and every caller passes such a value.
func fromGetCacheSizeIP(li *LockInfo, f *ssa.Function, v ssa.Value) bool {
	if fromGetCacheSize(v) {
		return true
	}
	p, ok := v.(*ssa.Parameter)
	if !ok {
		return false
	}
	idx := -1
	for i, q := range f.Params {
		if q == p {
			idx = i
		}
	}
	cs := li.Callers[f]
	if len(cs) == 0 {
		return false
	}
	for _, s := range cs {
		call, ok := asCall(s.in)
		if !ok {
			return false
		}
		a := callArgs(call)
		if idx >= len(a) || !fromGetCacheSize(a[idx]) {
			return false
		}
	}
	return true
}

func fromGetCacheSize(v ssa.Value) bool {
	return derivesFrom(v, func(x ssa.Value) bool {
		call, ok := x.(*ssa.Call)
		if !ok {
			return false
		}
		if _, _, is := fieldOf(call.Call.Value); is {
			return false
		}
		// dynamic call of the closure field getCacheSize
		if u, ok := call.Call.Value.(*ssa.UnOp); ok {
			if fv, _, is := fieldOf(u.X); is && fname(fv) == "getCacheSize" {
				return true
			}
		}
		return false
	})
}

// acctGuarded: the accounting effect `kind` of call happens only when the bool v has the given truth: the call itself
// sits on that edge, or it is a call of a choosing composite helper that is handed v and performs the effect for
// that value of it.
func acctGuarded(f *ssa.Function, call *ssa.Call, kind string, v ssa.Value, truth bool) bool {
	if guardedByTruth(f, call, v, truth) {
		return true
	}
	if a, t, has := acctGuardOfCall(call, kind); has && sameVal(a, v) && t == truth {
		return true
	}
	return false
}

// isTempFileName: the file name v (in function f) names a temporary file that was never published: it derives from
// os.CreateTemp / (*os.File).Name, or it is a parameter of a helper every caller hands such a name
// (discardTempFile(tmpFile, tmpName)).
func isTempFileName(li *LockInfo, f *ssa.Function, v ssa.Value, depth int) bool {
	if derivesFrom(v, func(x ssa.Value) bool {
		c2, ok := x.(*ssa.Call)
		return ok && (calleeName(c2) == "os.CreateTemp" || calleeName(c2) == "(*os.File).Name")
	}) {
		return true
	}
	if depth > 2 {
		return false
	}
	prm, ok := resolveVal(v).(*ssa.Parameter)
	if !ok || prm.Parent() != f {
		return false
	}
	idx := -1
	for i, q := range f.Params {
		if q == prm {
			idx = i
		}
	}
	cs := li.Callers[f]
	if len(cs) == 0 || idx < 0 {
		return false
	}
	for _, site := range cs {
		call, okc := asCall(site.in)
		if !okc || idx >= len(callArgs(call)) || !isTempFileName(li, site.in.Parent(), callArgs(call)[idx], depth+1) {
			return false
		}
	}
	return true
}

// insertOp is one insert into a tracked entry map as the function that accounts for it sees it: the MapUpdate itself,
// or the call of a swap helper (old, ok := c.swapEntry(key, entry)) that looks the key up and inserts under one
// hold of the map lock and hands the replaced entry back.
type insertOp struct {
	in              ssa.Instruction
	Map, Key, Value ssa.Value
	look            *mapLook
}

// swapHelper describes such a helper: the insert in it, and which of its parameters are the key and the new value.
type swapHelper struct {
	upd            *ssa.MapUpdate
	keyIdx, valIdx int
	field          string
}

func swapHelpersOf(ops []*mapOps) map[*ssa.Function]*swapHelper {
	out := map[*ssa.Function]*swapHelper{}
	for _, mo := range ops {
		g := mo.fn
		if len(mo.updates) != 1 || len(mo.deletes) != 0 || len(mo.lookups) != 1 || len(acctCalls(g, "addSize"))+len(acctCalls(g, "incEntries"))+len(acctCalls(g, "subSize"))+len(acctCalls(g, "decEntries")) > 0 {
			continue
		}
		u, lk := mo.updates[0], mo.lookups[0]
		fu, _ := trackedMapField(u.Map)
		fl, _ := trackedMapField(lk.X)
		if fu != fl || !lk.CommaOk || !sameVal(lk.Index, u.Key) || !instrDominates(lk, u) {
			continue
		}
		keyIdx, valIdx := -1, -1
		for i, p := range g.Params {
			if sameVal(u.Key, p) {
				keyIdx = i
			}
			if sameVal(u.Value, p) {
				valIdx = i
			}
		}
		if keyIdx < 0 || valIdx < 0 || g.Signature.Results().Len() != 2 {
			continue
		}
		good, n := true, 0
		eachInstr(g, func(in ssa.Instruction) {
			ret, ok := in.(*ssa.Return)
			if !ok || isRecoverReturn(ret) {
				return
			}
			n++
			vals := retVals(ret)
			e0, ok0 := resolveVal(vals[0]).(*ssa.Extract)
			e1, ok1 := resolveVal(vals[1]).(*ssa.Extract)
			if !ok0 || !ok1 || e0.Tuple != ssa.Value(lk) || e1.Tuple != ssa.Value(lk) || e0.Index != 0 || e1.Index != 1 {
				good = false
			}
		})
		if good && n > 0 {
			out[g] = &swapHelper{u, keyIdx, valIdx, fu}
		}
	}
	return out
}

func insertOpsOf(li *LockInfo, mo *mapOps, swaps map[*ssa.Function]*swapHelper) []insertOp {
	var out []insertOp
	if swaps[mo.fn] == nil {
		for _, u := range mo.updates {
			out = append(out, insertOp{in: u, Map: u.Map, Key: u.Key, Value: u.Value})
		}
	}
	eachInstr(mo.fn, func(in ssa.Instruction) {
		call, ok := in.(*ssa.Call)
		if !ok {
			return
		}
		sh := swaps[unwrapSynthetic(staticCallee(call))]
		if sh == nil {
			return
		}
		args := callArgs(call)
		if sh.keyIdx >= len(args) || sh.valIdx >= len(args) {
			return
		}
		ml := &mapLook{at: call, key: args[sh.keyIdx], field: sh.field}
		if e := extractOf(call, 0); e != nil {
			ml.val = e
		}
		if e := extractOf(call, 1); e != nil {
			ml.ok = e
		}
		out = append(out, insertOp{in: call, Map: sh.upd.Map, Key: args[sh.keyIdx], Value: args[sh.valIdx], look: ml})
	})
	return out
}
