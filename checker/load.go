package main

// E0: loader. go/packages (with an analysis-time overlay for the two generated
// inputs the pinned checkout lacks) -> SSA (generics instantiated) -> call graph.

import (
	"fmt"
	"go/ast"
	"go/token"
	"go/types"
	"os"
	"path/filepath"
	"sort"
	"strings"

	"golang.org/x/tools/go/callgraph"
	"golang.org/x/tools/go/callgraph/cha"
	"golang.org/x/tools/go/callgraph/vta"
	"golang.org/x/tools/go/packages"
	"golang.org/x/tools/go/ssa"
	"golang.org/x/tools/go/ssa/ssautil"
)

const modPath = "reservoir"

type Ctx struct {
	Repo    string
	Tier    string
	Fset    *token.FileSet
	Pkgs    []*packages.Package          // module packages (non-test)
	PkgBy   map[string]*packages.Package // by import path
	Prog    *ssa.Program
	SSAPkg  map[string]*ssa.Package
	AllFns  map[*ssa.Function]bool
	ModFns  []*ssa.Function // every function with a body whose origin is declared in the module
	cg      *callgraph.Graph
	Whole   bool // whole-program syntax (thorough)
	NumPkgs int
}

func isModPath(p string) bool { return p == modPath || strings.HasPrefix(p, modPath+"/") }

func overlayFor(repo string) map[string][]byte {
	ov := map[string][]byte{}
	csp := filepath.Join(repo, "webserver/dashboard/csp/header_gen.go")
	matches, _ := filepath.Glob(filepath.Join(repo, "webserver/dashboard/csp/*.go"))
	hasHeader := false
	for _, m := range matches {
		b, err := os.ReadFile(m)
		if err == nil && strings.Contains(string(b), "Header") && !strings.HasSuffix(m, "generate.go") {
			hasHeader = true
		}
	}
	if !hasHeader {
		ov[csp] = []byte("package csp\n\n// analysis-time stub (generated file absent in checkout)\nconst Header = \"default-src 'self'\"\n")
	}
	build := filepath.Join(repo, "webserver/dashboard/frontend/build")
	if ents, err := os.ReadDir(build); err != nil || len(ents) == 0 {
		ov[filepath.Join(build, "index.html")] = []byte("<html></html>\n")
	}
	return ov
}

func Load(repo, tier string) (*Ctx, error) {
	whole := tier == "thorough"
	mode := packages.NeedName | packages.NeedFiles | packages.NeedCompiledGoFiles | packages.NeedImports |
		packages.NeedTypes | packages.NeedTypesSizes | packages.NeedSyntax | packages.NeedTypesInfo | packages.NeedModule
	if whole {
		mode |= packages.NeedDeps
	}
	cfg := &packages.Config{
		Mode:    mode,
		Dir:     repo,
		Overlay: overlayFor(repo),
		Env:     append(os.Environ(), "GOWORK=off", "GOFLAGS=-mod=mod", "GOPROXY=off", "GOSUMDB=off", "GOTOOLCHAIN=local"),
		Tests:   false,
	}
	// Overlaid files in directories that do not exist on disk need the directory for `go list`.
	for f := range cfg.Overlay {
		_ = f
	}
	initial, err := packages.Load(cfg, "./...")
	if err != nil {
		return nil, fmt.Errorf("packages.Load: %w", err)
	}
	nerr := 0
	packages.Visit(initial, nil, func(p *packages.Package) {
		for _, e := range p.Errors {
			if isModPath(p.PkgPath) || nerr < 5 {
				fmt.Fprintf(os.Stderr, "load error: %s: %v\n", p.PkgPath, e)
			}
			nerr++
		}
	})
	if nerr > 0 {
		return nil, fmt.Errorf("%d load/type errors", nerr)
	}
	c := &Ctx{Repo: repo, Tier: tier, PkgBy: map[string]*packages.Package{}, SSAPkg: map[string]*ssa.Package{}, Whole: whole}
	for _, p := range initial {
		if isModPath(p.PkgPath) {
			c.Pkgs = append(c.Pkgs, p)
			c.PkgBy[p.PkgPath] = p
			if c.Fset == nil {
				c.Fset = p.Fset
			}
		}
	}
	sort.Slice(c.Pkgs, func(i, j int) bool { return c.Pkgs[i].PkgPath < c.Pkgs[j].PkgPath })
	c.NumPkgs = len(c.Pkgs)
	if c.NumPkgs < 40 {
		return nil, fmt.Errorf("only %d module packages loaded (floor 40)", c.NumPkgs)
	}
	bmode := ssa.InstantiateGenerics
	var prog *ssa.Program
	if whole {
		prog, _ = ssautil.AllPackages(initial, bmode)
	} else {
		prog, _ = ssautil.Packages(initial, bmode)
		// ssautil.Packages creates SSA packages only for the initial ones (with syntax);
		// dependencies are created lazily from export data (no bodies).
	}
	prog.Build()
	c.Prog = prog
	for _, p := range c.Pkgs {
		sp := prog.Package(p.Types)
		if sp == nil {
			return nil, fmt.Errorf("no SSA package for %s", p.PkgPath)
		}
		c.SSAPkg[p.PkgPath] = sp
	}
	c.AllFns = ssautil.AllFunctions(prog)
	for fn := range c.AllFns {
		if fn.Blocks == nil {
			continue
		}
		if o := originPkgPath(fn); isModPath(o) {
			c.ModFns = append(c.ModFns, fn)
		}
	}
	sort.Slice(c.ModFns, func(i, j int) bool {
		a, b := c.ModFns[i], c.ModFns[j]
		if a.String() != b.String() {
			return a.String() < b.String()
		}
		return a.Pos() < b.Pos()
	})
	return c, nil
}

// originPkgPath returns the package path in which fn (or its generic origin,
// or its enclosing function for closures) is declared; "" for synthetics.
func originPkgPath(fn *ssa.Function) string {
	for fn.Parent() != nil {
		fn = fn.Parent()
	}
	if o := fn.Origin(); o != nil {
		fn = o
	}
	if fn.Pkg != nil {
		return fn.Pkg.Pkg.Path()
	}
	if fn.Object() != nil && fn.Object().Pkg() != nil {
		return fn.Object().Pkg().Path()
	}
	return ""
}

// CG returns the call graph: VTA refined from CHA.
func (c *Ctx) CG() *callgraph.Graph {
	if c.cg == nil {
		base := cha.CallGraph(c.Prog)
		c.cg = vta.CallGraph(c.AllFns, base)
		c.cg.DeleteSyntheticNodes()
	}
	return c.cg
}

// originOf returns the generic origin of fn (fn itself if not an instance).
func originOf(fn *ssa.Function) *ssa.Function {
	if o := fn.Origin(); o != nil {
		return o
	}
	return fn
}

// fnKey is the stable name of a function used in obligation keys: package path,
// receiver type (without type arguments) and name; closures get $n of parent.
func fnKey(fn *ssa.Function) string {
	if fn == nil {
		return "<nil>"
	}
	if fn.Parent() != nil {
		// closure: parentKey$idx
		name := fn.Name()
		if i := strings.LastIndex(name, "$"); i >= 0 {
			return fnKey(fn.Parent()) + name[i:]
		}
		return fnKey(fn.Parent()) + "$" + name
	}
	o := originOf(fn)
	s := o.String()
	// Instances carry [T]; origins of generic methods print as (*pkg.T[T]).m
	s = stripTypeArgs(s)
	if a, ok := nameAlias[s]; ok {
		return a
	}
	return s
}

func stripTypeArgs(s string) string {
	var b strings.Builder
	depth := 0
	for _, r := range s {
		switch r {
		case '[':
			depth++
		case ']':
			depth--
		default:
			if depth == 0 {
				b.WriteRune(r)
			}
		}
	}
	if len(typeAlias) > 0 {
		return canonTypes(b.String())
	}
	return b.String()
}

// FuncsNamed returns all module functions with bodies whose key equals key,
// e.g. "(*reservoir/cache.MemoryCache).Get" or "reservoir/cache.getLock".
// For generic functions it returns the instantiated bodies (and not the
// uninstantiated origin, whose calls to sibling generic methods are unresolved),
// unless no instance exists.
func (c *Ctx) FuncsNamed(key string) []*ssa.Function {
	var inst, orig []*ssa.Function
	for _, fn := range c.ModFns {
		if fn.Parent() != nil || fnKey(fn) != key {
			continue
		}
		if fn.Synthetic != "" && !strings.Contains(fn.Synthetic, "instance") {
			continue
		}
		if isGenericOrigin(fn) {
			orig = append(orig, fn)
		} else {
			inst = append(inst, fn)
		}
	}
	if len(inst) > 0 {
		return inst
	}
	return orig
}

func isGenericOrigin(fn *ssa.Function) bool {
	return fn.Origin() == nil && (fn.TypeParams().Len() > 0 || recvHasTypeParams(fn))
}

func recvHasTypeParams(fn *ssa.Function) bool {
	if fn.Signature == nil || fn.Signature.Recv() == nil {
		return false
	}
	t := fn.Signature.Recv().Type()
	if p, ok := t.(*types.Pointer); ok {
		t = p.Elem()
	}
	if n, ok := t.(*types.Named); ok {
		return n.TypeParams().Len() > 0 && n.TypeArgs().Len() == 0 || hasTypeParamArgs(n)
	}
	return false
}

func hasTypeParamArgs(n *types.Named) bool {
	ta := n.TypeArgs()
	for i := 0; i < ta.Len(); i++ {
		if _, ok := ta.At(i).(*types.TypeParam); ok {
			return true
		}
	}
	return false
}

// Concrete returns every module function body that should be analysed: all
// non-generic functions and closures, and instantiations of generic ones. The
// generic origin body is included only if no instantiation of it exists.
func (c *Ctx) Concrete() []*ssa.Function {
	hasInst := map[*ssa.Function]bool{}
	for _, fn := range c.ModFns {
		if o := fn.Origin(); o != nil {
			hasInst[o] = true
		}
	}
	var out []*ssa.Function
	for _, fn := range c.ModFns {
		top := fn
		for top.Parent() != nil {
			top = top.Parent()
		}
		if isGenericOrigin(top) && hasInst[top] {
			continue
		}
		if fn.Synthetic != "" && !strings.Contains(fn.Synthetic, "instance") && fn.Parent() == nil {
			// wrappers, bound-method thunks: analysed only via call graph
			continue
		}
		out = append(out, fn)
	}
	return out
}

func (c *Ctx) Pos(p token.Pos) string {
	if !p.IsValid() {
		return "-"
	}
	pp := c.Fset.Position(p)
	rel, err := filepath.Rel(c.Repo, pp.Filename)
	if err != nil {
		rel = pp.Filename
	}
	return fmt.Sprintf("%s:%d", rel, pp.Line)
}

func (c *Ctx) InstrPos(in ssa.Instruction) string {
	if in.Pos().IsValid() {
		return c.Pos(in.Pos())
	}
	// fall back to nearest positioned instruction in block, then function
	if b := in.Block(); b != nil {
		for _, x := range b.Instrs {
			if x.Pos().IsValid() {
				return c.Pos(x.Pos())
			}
		}
		return c.Pos(b.Parent().Pos())
	}
	return "-"
}

// LookupType returns the named type pkg.name.
func (c *Ctx) LookupType(pkg, name string) *types.Named {
	p := c.PkgBy[pkg]
	if p == nil {
		return nil
	}
	o := p.Types.Scope().Lookup(currentTypeName(pkg, name))
	if o == nil {
		return nil
	}
	n, _ := o.Type().(*types.Named)
	return n
}

// FieldVar returns the *types.Var of field `field` of struct type pkg.typ.
func (c *Ctx) FieldVar(pkg, typ, field string) *types.Var {
	n := c.LookupType(pkg, typ)
	if n == nil {
		return nil
	}
	st, ok := n.Underlying().(*types.Struct)
	if !ok {
		return nil
	}
	for i := 0; i < st.NumFields(); i++ {
		if fname(st.Field(i)) == field {
			return st.Field(i)
		}
	}
	return nil
}

// FileOf returns the AST file containing pos.
func (c *Ctx) FileOf(pos token.Pos) *ast.File {
	for _, p := range c.Pkgs {
		for _, f := range p.Syntax {
			if f.FileStart <= pos && pos <= f.FileEnd {
				return f
			}
		}
	}
	return nil
}
