package main

import (
	"fmt"
	"go/token"
	"go/types"
	"sort"
	"strings"

	"golang.org/x/tools/go/ssa"
)

func init() { register("C15", checkC15) }

// Guarded-by table for the long-lived shared component types (confirmed by
// reading; one line of reason each). Kinds:
//
//	guard:<class>   every access outside the allocating function holds <class>
//	                (exclusively for writes)
//	confined:a,b,c  every access is in one of the listed functions (fnKey
//	                suffixes) or on a fresh allocation
//	writers:a,b     every write is in one of the listed functions, none of which
//	                is reachable from request / API / notification roots (i.e.
//	                they run while the object is being built); reads are free
//
// Fields not listed are inferred: atomic / mutex / channel typed fields are
// synchronisation objects themselves; a field never written outside the
// function that allocates the object is immutable after publication; any other
// field of a shared type is reported as "unclassified mutable shared field".
var guardTable = map[string]string{
	"reservoir/cache.MemoryCache.entries":       "guard:F:reservoir/cache.MemoryCache.mu",
	"reservoir/cache.FileCache.entriesMetadata": "guard:F:reservoir/cache.FileCache.mu",
	// two-lock discipline: written with the key's shard lock AND the backend's map lock held exclusively, read with
	// either of them (the janitor's snapshot copies the metadata under the map read lock, requests read under the key lock)
	"reservoir/cache.EntryMetadata.LastAccess":    "guard:S+MAP",
	"reservoir/cache.EntryMetadata.Expires":       "guard:S+MAP",
	"reservoir/utils/syncmap.SyncMap.ma":          "guard:F:reservoir/utils/syncmap.SyncMap.mu",
	"reservoir/cache.cacheJanitor.interval":       "confined:(*reservoir/cache.cacheJanitor).start,(*reservoir/cache.cacheJanitor).start$1",                // set before the goroutine starts, afterwards only its loop touches it
	"reservoir/cache.cacheJanitor.running":        "confined:(*reservoir/cache.cacheJanitor).start,(*reservoir/cache.cacheJanitor).stop",                   // lifecycle flag, owner-serial (constructor / Destroy)
	"reservoir/config.ConfigSubscriber.unsubs":    "confined:(*reservoir/config.ConfigSubscriber).Add,(*reservoir/config.ConfigSubscriber).UnsubscribeAll", // owner-confined: Add in constructors, UnsubscribeAll in Destroy/stop
	"reservoir/config.ConfigProp.requiresRestart": "writers:(*reservoir/config.ConfigProp).SetRequiresRestart",                                             // written only while the Config is being built (NewDefault/load), read-only afterwards
	"reservoir/utils/event.Event.subscribers":     "guard:G:reservoir/utils/event.mu",
	"reservoir/utils/event.Event.nextID":          "guard:G:reservoir/utils/event.mu",
}

var sharedTypes = []string{
	"reservoir/cache.MemoryCache", "reservoir/cache.FileCache", "reservoir/cache.memoryInternalEntry", "reservoir/cache.EntryMetadata",
	"reservoir/cache.cacheJanitor", "reservoir/utils/syncmap.SyncMap", "reservoir/utils/event.Event", "reservoir/webserver/auth.Session",
	"reservoir/config.ConfigProp", "reservoir/config.ConfigSubscriber", "reservoir/proxy/certs.PrivateCA", "reservoir/proxy.fetcher", "reservoir/proxy.Proxy",
}

type fieldAccess struct {
	in    ssa.Instruction
	fn    *ssa.Function
	field string
	write bool
	fresh bool
	what  string
}

func structName(t types.Type) string {
	if p, ok := t.Underlying().(*types.Pointer); ok {
		t = p.Elem()
	}
	return stripTypeArgs(types.TypeString(t, nil))
}

func isFreshBase(v ssa.Value) bool {
	for i := 0; i < 6; i++ {
		v = resolveVal(v)
		switch x := v.(type) {
		case *ssa.Alloc:
			return true
		case *ssa.ChangeType:
			v = x.X
		case *ssa.FieldAddr:
			v = x.X
		case *ssa.Phi:
			for _, e := range x.Edges {
				if !isFreshBase(e) {
					return false
				}
			}
			return len(x.Edges) > 0
		default:
			return false
		}
	}
	return false
}

func isSyncObjectType(t types.Type) bool {
	s := types.TypeString(t, nil)
	if strings.HasPrefix(s, "sync.") || strings.HasPrefix(s, "sync/atomic.") || strings.HasPrefix(s, "*sync/atomic.") ||
		strings.HasPrefix(s, "reservoir/utils/atomics.") || strings.HasPrefix(s, "golang.org/x/sync/singleflight.") {
		return true
	}
	switch t.Underlying().(type) {
	case *types.Chan:
		return true
	}
	return false
}

// collectAccesses enumerates reads/writes of fields of the shared types.
func collectAccesses(fns []*ssa.Function, shared map[string]bool) []fieldAccess {
	var out []fieldAccess
	for _, f := range fns {
		eachInstr(f, func(in ssa.Instruction) {
			switch x := in.(type) {
			case *ssa.FieldAddr:
				sn := structName(x.X.Type())
				if !shared[sn] {
					return
				}
				st := derefStruct(x.X.Type())
				fld := st.Field(x.Field)
				if isSyncObjectType(fld.Type()) {
					return
				}
				key := sn + "." + fname(fld)
				fresh := isFreshBase(x.X)
				refs := x.Referrers()
				if refs == nil {
					return
				}
				for _, ref := range *refs {
					switch r := ref.(type) {
					case *ssa.Store:
						if r.Addr == ssa.Value(x) {
							out = append(out, fieldAccess{r, f, key, true, fresh, "store"})
						}
					case *ssa.UnOp:
						if r.Op != token.MUL {
							continue
						}
						uses := containerUses(r)
						if len(uses) == 0 {
							out = append(out, fieldAccess{r, f, key, false, fresh, "load"})
						}
						for _, u := range uses {
							out = append(out, fieldAccess{u.in, f, key, u.write, fresh, u.what})
						}
					case *ssa.FieldAddr, *ssa.IndexAddr:
						// nested struct/array field: accesses enumerated at the nested FieldAddr if shared
					case ssa.CallInstruction:
						if shared[structName(fld.Type())] {
							continue // method call on a nested shared component: its own fields are checked in the callee
						}
						out = append(out, fieldAccess{ref, f, key, true, fresh, "address passed to " + calleeName(r)})
					}
				}
			case *ssa.UnOp:
				// whole-struct load through a pointer to a shared struct: reads every field
				if x.Op != token.MUL {
					return
				}
				if _, isFA := x.X.(*ssa.FieldAddr); isFA {
					return
				}
				p, ok := x.X.Type().Underlying().(*types.Pointer)
				if !ok {
					return
				}
				if _, isStruct := p.Elem().Underlying().(*types.Struct); !isStruct {
					return
				}
				sn := structName(x.X.Type())
				if !shared[sn] || isFreshBase(x.X) {
					return
				}
				st := derefStruct(x.X.Type())
				for i := 0; i < st.NumFields(); i++ {
					if isSyncObjectType(st.Field(i).Type()) {
						continue
					}
					out = append(out, fieldAccess{x, f, sn + "." + fname(st.Field(i)), false, false, "whole-struct copy"})
				}
			case *ssa.Store:
				// whole-struct store through pointer to shared struct
				if _, isFA := x.Addr.(*ssa.FieldAddr); isFA {
					return
				}
				p, ok := x.Addr.Type().Underlying().(*types.Pointer)
				if !ok {
					return
				}
				if _, isStruct := p.Elem().Underlying().(*types.Struct); !isStruct {
					return
				}
				sn := structName(x.Addr.Type())
				if !shared[sn] || isFreshBase(x.Addr) {
					return
				}
				st := derefStruct(x.Addr.Type())
				for i := 0; i < st.NumFields(); i++ {
					if isSyncObjectType(st.Field(i).Type()) {
						continue
					}
					out = append(out, fieldAccess{x, f, sn + "." + fname(st.Field(i)), true, false, "whole-struct store"})
				}
			}
		})
	}
	return out
}

type cuse struct {
	in    ssa.Instruction
	write bool
	what  string
}

// containerUses: for a loaded map/slice value, the instructions that actually
// touch the container (the lock must be held there, not merely at the load).
func containerUses(v *ssa.UnOp) []cuse { return containerUsesOf(v) }

// containerUsesOf does the same for any SSA value holding the container (a loaded field, a parameter).
func containerUsesOf(v ssa.Value) []cuse { return containerUsesD(v, 0) }

// aliasLI: the lock/call information of the run, for following a container that a function hands back to its callers.
var aliasLI *LockInfo

// aliasKeeping: library functions whose result shares the backing array of their slice argument.
var aliasKeeping = map[string]bool{"slices.Clip": true, "slices.Grow": true}

func containerUsesD(v ssa.Value, depth int) []cuse {
	switch v.Type().Underlying().(type) {
	case *types.Map, *types.Slice:
	default:
		return nil
	}
	refs := v.Referrers()
	if refs == nil {
		return nil
	}
	var out []cuse
	// the same container under another name: a re-slice, the result of a function that keeps the backing array, a
	// merge, or the value a function returns to its callers — its uses are uses of the container
	follow := func(alias ssa.Value) {
		if depth < 3 && alias != nil {
			out = append(out, containerUsesD(alias, depth+1)...)
		}
	}
	for _, ref := range *refs {
		switch r := ref.(type) {
		case *ssa.Phi:
			follow(r)
		case *ssa.Store:
			// kept in a local variable (a result spilled around deferred calls): every later read of it
			if cell, isA := r.Addr.(*ssa.Alloc); isA && r.Val == v && depth < 3 {
				if crefs := cell.Referrers(); crefs != nil {
					for _, cr := range *crefs {
						if ld, isLd := cr.(*ssa.UnOp); isLd && ld.Op == token.MUL {
							follow(ld)
						}
					}
				}
			}
		case *ssa.Return:
			if aliasLI == nil || depth >= 3 {
				break
			}
			idx := -1
			for i, rv := range r.Results {
				if rv == v {
					idx = i
				}
			}
			for _, cs := range aliasLI.Callers[r.Parent()] {
				call, isC := cs.in.(*ssa.Call)
				if !isC || idx < 0 {
					continue
				}
				if len(r.Results) == 1 {
					follow(call)
				} else if ex := extractOf(call, idx); ex != nil {
					follow(ex)
				}
			}
		}
		switch r := ref.(type) {
		case *ssa.MapUpdate:
			if r.Map == ssa.Value(v) {
				out = append(out, cuse{r, true, "map insert"})
			}
		case *ssa.Lookup:
			out = append(out, cuse{r, false, "map lookup"})
		case *ssa.Range:
			out = append(out, cuse{r, false, "range"})
			if rr := r.Referrers(); rr != nil {
				for _, n := range *rr {
					if nx, ok := n.(*ssa.Next); ok {
						out = append(out, cuse{nx, false, "range next"})
					}
				}
			}
		case *ssa.IndexAddr:
			w := false
			if rr := r.Referrers(); rr != nil {
				for _, n := range *rr {
					if st, ok := n.(*ssa.Store); ok && st.Addr == ssa.Value(r) {
						w = true
					}
				}
			}
			out = append(out, cuse{r, w, "element access"})
		case *ssa.Slice:
			out = append(out, cuse{r, false, "slice expression"})
			follow(r)
		case *ssa.Call:
			if b, ok := r.Call.Value.(*ssa.Builtin); ok {
				switch b.Name() {
				case "delete":
					out = append(out, cuse{r, true, "map delete"})
				case "append":
					out = append(out, cuse{r, false, "append (reads/extends backing array)"})
				case "len", "cap":
					out = append(out, cuse{r, false, b.Name()})
				default:
					out = append(out, cuse{r, false, b.Name()})
				}
			} else {
				out = append(out, cuse{r, false, "passed to " + calleeName(r)})
				if aliasKeeping[calleeName(r)] && len(r.Call.Args) > 0 && r.Call.Args[0] == v {
					follow(r)
				}
			}
		default:
			out = append(out, cuse{ref, false, "use"})
		}
	}
	return out
}

func checkC15(c *Ctx, r *Report) {
	r.Decided = []string{
		"R1 guarded-by discipline: every access (outside the allocating function) to each lock-guarded field of the shared components — entry maps, entry metadata LastAccess/Expires, SyncMap.ma, Event.subscribers — has the guarding lock class in its interprocedural must-hold set, in exclusive mode for writes; container uses (lookup, range/next, insert, delete, append) are checked at the use, not at the load",
		"R2 live metadata pointers handed out of a locked region: every field access through them anywhere in the module is subject to R1 (whole-struct copies count as reads of every field)",
		"R5 header maps handed to a response are filled by copying values, never by storing the stored entry's value slices (aliasing would make concurrent hits append into one backing array)",
		"R4 every other field of a shared component type is a synchronisation object, immutable after the allocating function, or owner-confined to the listed functions; an unclassified mutable field is reported",
		"R6 package-level variables of a plain (non-sync, non-atomic) type that are assigned by code reachable from a run-time root (requests, janitor, config-change handlers) have a lock common to all their accesses",
	}
	r.NotDec = []string{"happens-before edges other than lock regions, allocation-before-publication and goroutine start", "races inside dependencies", "benign races the Go memory model forbids but a lock discipline cannot distinguish are reported, not waived"}
	li := BuildLocks(c)
	shared := map[string]bool{}
	for _, s := range sharedTypes {
		shared[s] = true
		parts := strings.SplitN(s, ".", 2)
		_ = parts
	}
	// anchors must resolve
	for _, s := range sharedTypes {
		i := strings.LastIndex(s, ".")
		if c.LookupType(s[:i], s[i+1:]) == nil {
			r.Undecided("C15.R4", "type "+s, "-", "unresolved anchor type "+s)
		}
	}
	checkRuntimeGlobals(c, r, li)
	liveEscapes := checkMetaEscapes(c, r, li)
	// execution contexts of functions (which kinds of roots reach them)
	ctxOf := map[string]string{}
	{
		rootSets := map[string][]*ssa.Function{}
		for _, f := range li.Fns {
			k := fnKey(f)
			switch {
			case k == "(*reservoir/cache.cacheJanitor).start$1":
				rootSets["janitor"] = append(rootSets["janitor"], f)
			case k == "(*reservoir/proxy.Proxy).ServeHTTP":
				rootSets["request"] = append(rootSets["request"], f)
			case k == "reservoir/config.UpdatePartialFromConfig" || k == "(*reservoir/config.ConfigProp).Overwrite" || k == "reservoir/webserver/api.WrapHandler$1":
				rootSets["config/api"] = append(rootSets["config/api"], f)
			case strings.HasSuffix(k, ").Destroy") || k == "(*reservoir/cache.cacheJanitor).stop":
				rootSets["teardown"] = append(rootSets["teardown"], f)
			}
		}
		names := []string{"janitor", "request", "config/api", "teardown"}
		reachBy := map[string]map[*ssa.Function]bool{}
		for _, n := range names {
			reachBy[n], _ = allReach(li, rootSets[n])
		}
		for _, f := range li.Fns {
			var cs []string
			for _, n := range names {
				if reachBy[n][f] {
					cs = append(cs, n)
				}
			}
			if len(cs) == 0 {
				cs = []string{"start-up/other"}
			}
			ctxOf[fnKey(f)] = strings.Join(cs, "+")
		}
	}
	aliasLI = li
	acc := collectAccesses(li.Fns, shared)
	if liveEscapes == 0 {
		// Every metadata pointer handed out of package cache is a private copy made under
		// the key lock (R2), so accesses outside package cache that are not reached with a
		// lock held (the UpdateMetadata modifier callbacks are) operate on private copies.
		var kept []fieldAccess
		for _, a := range acc {
			if strings.HasPrefix(a.field, "reservoir/cache.EntryMetadata.") && originPkgPath(a.fn) != cachePkg && !li.HeldMay(a.in)["S"] {
				continue
			}
			kept = append(kept, a)
		}
		acc = kept
	}
	// values handed to the body of a range-over-func loop are private when every implementation of the iterator yields
	// a fresh copy (taken under a lock, see iteratorYieldsCopies): the janitor then works on snapshots of the metadata
	for i := range acc {
		if !acc[i].fresh && yieldedCopy(li, acc[i].in, r, c) {
			acc[i].fresh = true
		}
	}
	byField := map[string][]fieldAccess{}
	for _, a := range acc {
		byField[a.field] = append(byField[a.field], a)
	}
	fields := make([]string, 0, len(byField))
	for k := range byField {
		fields = append(fields, k)
	}
	sort.Strings(fields)
	nGuarded := 0
	for _, fk := range fields {
		as := byField[fk]
		rule := guardTable[fk]
		switch {
		case strings.HasPrefix(rule, "guard:"):
			guard := LockClass(strings.TrimPrefix(rule, "guard:"))
			guardExists := guard == "S" || guard == "S+MAP"
			for i := range li.Ops {
				if li.Ops[i].class == guard {
					guardExists = true
				}
			}
			// one obligation per (field, function, read|write)
			type k struct {
				fn string
				w  bool
			}
			agg := map[k][]string{}
			pos := map[k]string{}
			cnt := map[k]int{}
			for _, a := range as {
				if a.fresh {
					continue
				}
				kk := k{fnKey(a.fn), a.write}
				cnt[kk]++
				if _, ok := pos[kk]; !ok {
					pos[kk] = c.InstrPos(a.in)
					agg[kk] = nil
				}
				held := li.HeldMust(a.in)
				heldX := li.HeldMustX(a.in)
				if guard == "S+MAP" {
					hasMap := func(s lset) bool {
						for cl := range s {
							if isMapLock(cl) {
								return true
							}
						}
						return false
					}
					// a callback run by both backends (UpdateMetadata's modifier): the two map locks are different classes, so
					// the intersection over callers loses them; look at each call site instead
					if a.write && heldX["S"] && !hasMap(heldX) && len(li.Callers[a.fn]) > 0 {
						everySite := true
						for _, cs := range li.Callers[a.fn] {
							hx := li.HeldMustX(cs.in)
							if cs.isGo || !hx["S"] || !hasMap(hx) {
								everySite = false
							}
						}
						if everySite && len(li.May[a.in]) == 0 {
							continue
						}
					}
					// a read inside a helper that is handed the metadata pointer (metaExpired(meta)): decided per call site —
					// the caller holds one of the locks, or what it passes is a private copy (the janitor's snapshot)
					if !a.write && !(held["S"] || hasMap(held)) && len(li.Callers[a.fn]) > 0 {
						var base ssa.Value
						if u, isU := a.in.(*ssa.UnOp); isU {
							if fa, isFA := u.X.(*ssa.FieldAddr); isFA {
								base = fa.X
							}
						}
						if prm, isP := resolveVal(base).(*ssa.Parameter); base != nil && isP && prm.Parent() == a.fn {
							pi := -1
							for i, q := range a.fn.Params {
								if q == prm {
									pi = i
								}
							}
							everySite := pi >= 0
							for _, cs := range li.Callers[a.fn] {
								hs := li.HeldMust(cs.in)
								if hs["S"] || hasMap(hs) {
									continue
								}
								call, okc := asCall(cs.in)
								if !okc || pi >= len(callArgs(call)) {
									everySite = false
									continue
								}
								var srcs []*ssa.Parameter
								arg := callArgs(call)[pi]
								derivesFrom(arg, func(v ssa.Value) bool {
									if q, ok := v.(*ssa.Parameter); ok && types.Identical(q.Type(), arg.Type()) {
										srcs = append(srcs, q)
									}
									return false
								})
								okArg := len(srcs) > 0
								for _, q := range srcs {
									if !privateParam(li, q, 0) {
										okArg = false
									}
								}
								if !okArg {
									everySite = false
								}
							}
							if everySite {
								continue
							}
						}
					}
					if a.write && !(heldX["S"] && hasMap(heldX)) {
						agg[kk] = append(agg[kk], fmt.Sprintf("%s at %s without both the key's shard lock and the map lock held exclusively (must-hold=%s, exclusive=%s)", a.what, c.InstrPos(a.in), held, heldX))
					} else if !a.write && !(held["S"] || hasMap(held)) {
						agg[kk] = append(agg[kk], fmt.Sprintf("%s at %s with neither the key's shard lock nor the map lock (must-hold=%s)", a.what, c.InstrPos(a.in), held))
					}
					continue
				}
				// the container is handed to a helper together with its guard (snapshotMetadata(&c.mu, c.entries, …)): decided
				// inside the helper — every use of the container parameter there happens with the mutex parameter locked
				if strings.HasPrefix(a.what, "passed to ") && !held[LockClass(guard)] {
					if call, okc := a.in.(*ssa.Call); okc && guardedInHelper(li, call, LockClass(guard)) {
						continue
					}
				}
				if a.write && !heldX[guard] {
					agg[kk] = append(agg[kk], fmt.Sprintf("%s at %s without %s held exclusively (must-hold=%s, exclusive=%s)", a.what, c.InstrPos(a.in), guard, held, heldX))
				} else if !a.write && !held[guard] {
					agg[kk] = append(agg[kk], fmt.Sprintf("%s at %s without %s (must-hold=%s)", a.what, c.InstrPos(a.in), guard, held))
				}
			}
			// failing accesses are keyed by (field, mode, execution context), not by the function they
			// happen to sit in: moving the same access into a helper is not a new finding, the same
			// kind of access from another context (e.g. the request path instead of the janitor) is.
			type fkey struct {
				mode, ctx string
			}
			failAgg := map[fkey][]string{}
			failPos := map[fkey]string{}
			for kk, bad := range agg {
				nGuarded++
				mode := "reads"
				if kk.w {
					mode = "writes"
				}
				if len(bad) > 0 {
					ctx := ctxOf[kk.fn]
					if !guardExists {
						ctx = "any: the type has no lock"
					}
					fk2 := fkey{mode, ctx}
					failAgg[fk2] = append(failAgg[fk2], bad...)
					if failPos[fk2] == "" || pos[kk] < failPos[fk2] {
						failPos[fk2] = pos[kk]
					}
				} else {
					r.Ok("C15.R1", fmt.Sprintf("%s %s %s", kk.fn, mode, fk), pos[kk], fmt.Sprintf("%d access(es), %s in must-hold set on every call path", cnt[kk], guard))
				}
			}
			for fk2, bad := range failAgg {
				key := fmt.Sprintf("%s: unguarded %s [%s]", fk, fk2.mode, fk2.ctx)
				r.Fail("C15.R1", key, failPos[fk2], strings.Join(uniq(bad), "; "))
			}
		case strings.HasPrefix(rule, "writers:"):
			allowed := strings.Split(strings.TrimPrefix(rule, "writers:"), ",")
			var bad []string
			nW := 0
			for _, a := range as {
				if a.fresh || !a.write {
					continue
				}
				nW++
				ok := false
				for _, al := range allowed {
					if fnKey(a.fn) == al {
						ok = true
					}
				}
				if !ok {
					bad = append(bad, fmt.Sprintf("%s in %s at %s", a.what, fnKey(a.fn), c.InstrPos(a.in)))
				}
			}
			// the writer functions must not run concurrently with readers
			var roots []*ssa.Function
			for _, k := range []string{"reservoir/config.UpdatePartialFromConfig", "(*reservoir/proxy.Proxy).ServeHTTP", "reservoir/webserver/api.WrapHandler$1"} {
				for _, f := range li.Fns {
					if fnKey(f) == k {
						roots = append(roots, f)
					}
				}
			}
			// building a fresh object of the shared type (a constructor call whose result is not yet published, e.g. the
			// candidate copy an update is tried on) may run the construction-time writers on THAT object
			reach, _ := allReachSkipping(li, roots, func(in ssa.Instruction) bool {
				call, ok := asCall(in)
				if !ok {
					return false
				}
				n := calleeName(call)
				return n == "reservoir/config.NewDefault"
			})
			for f := range reach {
				for _, al := range allowed {
					if fnKey(f) == al {
						bad = append(bad, "writer "+al+" is reachable from request/API handling")
					}
				}
			}
			if len(bad) > 0 {
				r.Fail("C15.R4", fk, "-", "construction-time field written after publication: "+strings.Join(uniq(bad), "; "))
			} else {
				r.Ok("C15.R4", fk, "-", fmt.Sprintf("%d writes, all inside %v, which is unreachable from request/API/notification roots", nW, allowed))
			}
		case strings.HasPrefix(rule, "confined:"):
			allowed := strings.Split(strings.TrimPrefix(rule, "confined:"), ",")
			// a helper that is called from owner functions only (and from nowhere else) runs in the owner's context
			owner := map[string]bool{}
			for _, al := range allowed {
				owner[al] = true
			}
			for changed := true; changed; {
				changed = false
				for _, a := range as {
					if owner[fnKey(a.fn)] {
						continue
					}
					cs := li.Callers[a.fn]
					all := len(cs) > 0
					for _, site := range cs {
						if site.in.Parent() == nil || !owner[fnKey(site.in.Parent())] {
							all = false
						}
						if _, isGo := site.in.(*ssa.Go); isGo {
							all = false
						}
					}
					if all {
						owner[fnKey(a.fn)] = true
						changed = true
					}
				}
			}
			var bad []string
			n := 0
			for _, a := range as {
				if a.fresh {
					continue
				}
				n++
				ok := owner[fnKey(a.fn)]
				for _, al := range allowed {
					if fnKey(a.fn) == al {
						ok = true
					}
				}
				if !ok {
					bad = append(bad, fmt.Sprintf("%s in %s at %s", a.what, fnKey(a.fn), c.InstrPos(a.in)))
				}
			}
			if len(bad) > 0 {
				r.Fail("C15.R4", fk, "-", "owner-confined field accessed outside its owner functions: "+strings.Join(uniq(bad), "; "))
			} else {
				r.OkT("C15.R4", fk, "-", fmt.Sprintf("%d accesses, all inside %v", n, allowed))
			}
		default:
			var writers []string
			for _, a := range as {
				if a.write && !a.fresh {
					writers = append(writers, fmt.Sprintf("%s in %s at %s", a.what, fnKey(a.fn), c.InstrPos(a.in)))
				}
			}
			if len(writers) > 0 {
				// one finding key per (field, writer function)
				byFn := map[string][]string{}
				for _, a := range as {
					if a.write && !a.fresh {
						byFn[fnKey(a.fn)] = append(byFn[fnKey(a.fn)], fmt.Sprintf("%s at %s", a.what, c.InstrPos(a.in)))
					}
				}
				for fn, w := range byFn {
					r.Fail("C15.R4", fk+" written in "+fn, "-", "unclassified mutable shared field: written after publication with no guarding lock, atomic type or owner confinement on record: "+strings.Join(uniq(w), "; "))
				}
			} else {
				r.OkT("C15.R4", fk, "-", fmt.Sprintf("immutable after the allocating function (%d reads, no write outside it)", len(as)))
			}
		}
	}
	// ---- R5: stored header slices are not aliased into per-response header maps
	for name, form := range setHeadersForms(c, li, nil, "") {
		r.Check(form != "alias", "C15.R5", name+".SetHeaders copies header values", "-", "form="+form, "SetHeaders stores the source map's []string values themselves: on a cache hit the response header map aliases the stored entry's header slices, and the unsynchronised AddHeader/append calls of concurrent hits write one shared backing array (data race)")
	}
	r.Floor("C15.R1", nGuarded, 20, "guarded (field, function, mode) access groups")
	r.Floor("C15.R4", len(fields), 25, "fields of shared component types accessed in the module")
	// stale table rows
	for fk := range guardTable {
		if _, ok := byField[fk]; !ok {
			r.Undecided("C15.R4", "table row "+fk, "-", "guarded-by table names a field that is no longer accessed anywhere (stale anchor)")
		}
	}
}

// checkMetaEscapes (R2): every *EntryMetadata that leaves package cache —
// stored into Entry.Metadata or returned from an exported method — must be a
// private copy: an allocation of this function that is neither inserted into
// an entry map nor stored into another heap object. Returns the number of
// escape points handing out a live pointer.
func checkMetaEscapes(c *Ctx, r *Report, li *LockInfo) int {
	live, n := 0, 0
	isMetaPtr := func(t types.Type) bool {
		return strings.HasPrefix(stripTypeArgs(types.TypeString(t, nil)), "*reservoir/cache.EntryMetadata")
	}
	var privateCopy func(v ssa.Value, escape ssa.Instruction) (bool, string)
	privateCopy = func(v ssa.Value, escape ssa.Instruction) (bool, string) {
		v = resolveVal(v)
		if isNilConst(v) {
			return true, ""
		}
		// named result spilled to a cell (function has a defer): every value stored must qualify
		if u, ok := v.(*ssa.UnOp); ok && u.Op == token.MUL {
			if cell, ok := u.X.(*ssa.Alloc); ok {
				sts := storesTo(cell)
				if len(sts) > 0 {
					for _, st := range sts {
						if ok, why := privateCopy(st.Val, st); !ok {
							return false, why
						}
					}
					return true, ""
				}
			}
		}
		a, ok := v.(*ssa.Alloc)
		if !ok {
			return false, "value is not a local copy but " + v.String()
		}
		if refs := a.Referrers(); refs != nil {
			for _, ref := range *refs {
				if ref == escape {
					continue
				}
				switch x := ref.(type) {
				case *ssa.FieldAddr, *ssa.DebugRef:
				case *ssa.Store:
					if x.Val == ssa.Value(a) {
						if fv, _, is := fieldOf(x.Addr); is && fname(fv) == "Metadata" {
							continue
						}
						return false, "the allocation is also stored elsewhere (published)"
					}
				case *ssa.MapUpdate:
					return false, "the allocation is inserted into a map (published)"
				case *ssa.UnOp:
				default:
					if _, isRet := ref.(*ssa.Return); isRet {
						continue
					}
					return false, "the allocation has another use: " + ref.String()
				}
			}
		}
		return true, ""
	}
	for _, f := range li.Fns {
		if originPkgPath(f) != cachePkg {
			continue
		}
		eachInstr(f, func(in ssa.Instruction) {
			switch x := in.(type) {
			case *ssa.Store:
				fv, base, is := fieldOf(x.Addr)
				if !is || fname(fv) != "Metadata" || !strings.HasPrefix(structName(base.Type()), "reservoir/cache.Entry") || !isMetaPtr(x.Val.Type()) {
					return
				}
				n++
				ok, why := privateCopy(x.Val, x)
				key := fnKey(f) + ": Entry.Metadata"
				if ok {
					r.Ok("C15.R2", key, c.InstrPos(x), "metadata handed to the caller is a private copy allocated in this function")
				} else {
					live++
					r.Fail("C15.R2", key, c.InstrPos(x), "a live metadata pointer escapes the key lock through Entry.Metadata ("+why+"): every later field read by the caller is unsynchronised with writers holding the key lock")
				}
			case *ssa.Return:
				if f.Parent() != nil || f.Object() == nil || !f.Object().Exported() {
					return
				}
				for i, rv := range x.Results {
					if !isMetaPtr(rv.Type()) || isNilConst(rv) {
						continue
					}
					n++
					ok, why := privateCopy(rv, x)
					key := fmt.Sprintf("%s: result #%d", fnKey(f), i)
					if ok {
						r.Ok("C15.R2", key, c.InstrPos(x), "returned metadata is a private copy allocated in this function")
					} else {
						live++
						r.Fail("C15.R2", key, c.InstrPos(x), "a live metadata pointer is returned out of the key lock ("+why+")")
					}
				}
			}
		})
	}
	r.Floor("C15.R2", n, 4, "metadata escape points of package cache")
	return live
}

// checkRuntimeGlobals (C15.R6): package-level variables of the module that are assigned while the program runs.
// A variable written by code reachable from a run-time root (request handling, the dashboard API, a configuration
// change handler, the janitor) is shared between goroutines; unless its type synchronises itself (sync.*, atomic.*,
// the module's atomics / syncmap types) every run-time access to it must hold a common lock.
func checkRuntimeGlobals(c *Ctx, r *Report, li *LockInfo) {
	var roots []*ssa.Function
	for _, f := range li.Fns {
		k := fnKey(f)
		switch {
		case k == "(*reservoir/cache.cacheJanitor).start$1", k == "(*reservoir/proxy.Proxy).ServeHTTP", k == "reservoir/webserver/api.WrapHandler$1", k == "reservoir/config.UpdatePartialFromConfig":
			roots = append(roots, f)
		}
		eachCall(f, func(call ssa.CallInstruction, n string) {
			if strings.HasSuffix(n, "config.ConfigProp).OnChange") {
				for _, a := range call.Common().Args {
					if fn := closureFn(a); fn != nil {
						roots = append(roots, fn)
					}
				}
			}
		})
	}
	reach, _ := allReach(li, roots)
	selfSync := func(t types.Type) bool {
		s := t.String()
		return strings.HasPrefix(s, "sync.") || strings.HasPrefix(s, "sync/atomic.") || strings.HasPrefix(s, "*sync") || strings.Contains(s, "reservoir/utils/atomics.") || strings.Contains(s, "reservoir/utils/syncmap.") || strings.Contains(s, "log/slog.LevelVar") || strings.Contains(s, "singleflight.Group")
	}
	type acc struct {
		in    ssa.Instruction
		fn    *ssa.Function
		write bool
	}
	byGlobal := map[*ssa.Global][]acc{}
	for f := range reach {
		if !isModPath(originPkgPath(f)) || strings.HasPrefix(originPkgPath(f), "reservoir/tests") {
			continue
		}
		eachInstr(f, func(in ssa.Instruction) {
			switch x := in.(type) {
			case *ssa.Store:
				if g, ok := x.Addr.(*ssa.Global); ok && isModPath(g.Pkg.Pkg.Path()) {
					byGlobal[g] = append(byGlobal[g], acc{in, f, true})
				}
			case *ssa.UnOp:
				if g, ok := x.X.(*ssa.Global); ok && x.Op == token.MUL && isModPath(g.Pkg.Pkg.Path()) {
					byGlobal[g] = append(byGlobal[g], acc{in, f, false})
				}
			}
		})
	}
	n := 0
	var keys []*ssa.Global
	for g := range byGlobal {
		keys = append(keys, g)
	}
	sort.Slice(keys, func(i, j int) bool { return keys[i].String() < keys[j].String() })
	for _, g := range keys {
		as := byGlobal[g]
		written := false
		for _, a := range as {
			if a.write {
				written = true
			}
		}
		elem := g.Type().(*types.Pointer).Elem()
		if !written || selfSync(elem) {
			continue
		}
		n++
		var common lset
		var where []string
		for _, a := range as {
			held := li.HeldMust(a.in)
			if common == nil {
				common = held.clone()
			} else {
				common = inter(common, held)
			}
			mode := "read"
			if a.write {
				mode = "written"
			}
			where = append(where, mode+" in "+fnKey(a.fn)+" at "+c.InstrPos(a.in))
		}
		key := g.Pkg.Pkg.Path() + "." + g.Name() + ": package variable assigned at run time"
		if len(common) > 0 {
			r.Ok("C15.R6", key, "-", fmt.Sprintf("%d run-time accesses, all under %s", len(as), common))
		} else {
			r.Fail("C15.R6", key, "-", "a package-level variable of type "+elem.String()+" is assigned by code that runs concurrently (configuration change handlers each run in their own goroutine, API and proxy requests in theirs) and no lock is common to its accesses: "+strings.Join(uniq(where), "; "))
		}
	}
	r.OkT("C15.R6", "package variables assigned at run time are self-synchronising or lock-protected", "-", fmt.Sprintf("%d functions reachable from run-time roots; %d such variables of a plain type", len(reach), n))
}

var yieldMemo = map[*ssa.Parameter]bool{}

// yieldedCopy: the access `in` goes through a parameter of a range-over-func loop body (a closure passed as the
// yield function to an iterator), and every iterator that can be called at that loop passes, for that parameter, the
// address of a fresh local copy (`c := *p; yield(k, &c)`) made while a lock is held.
func yieldedCopy(li *LockInfo, in ssa.Instruction, r *Report, c *Ctx) bool {
	// base pointer of the field access
	var base ssa.Value
	switch x := in.(type) {
	case *ssa.UnOp:
		if fa, ok := x.X.(*ssa.FieldAddr); ok {
			base = fa.X
		} else {
			base = x.X
		}
	case *ssa.Store:
		if fa, ok := x.Addr.(*ssa.FieldAddr); ok {
			base = fa.X
		}
	}
	if base == nil {
		return false
	}
	prm, ok := resolveVal(base).(*ssa.Parameter)
	if !ok {
		// the pointer may have been parked in a local (a candidate list) or come through a helper: every parameter it
		// can originate from must itself be a yielded copy
		var srcs []*ssa.Parameter
		derivesFrom(base, func(v ssa.Value) bool {
			if q, ok := v.(*ssa.Parameter); ok && types.Identical(q.Type(), base.Type()) {
				srcs = append(srcs, q)
			}
			return false
		})
		if len(srcs) == 0 {
			return false
		}
		for _, q := range srcs {
			if !privateParam(li, q, 0) {
				return false
			}
		}
		return true
	}
	return privateParam(li, prm, 0)
}

// privateParam: the pointer parameter prm always holds a yielded private copy: it is a parameter of a
// range-over-func loop body whose iterators all yield copies, or a parameter of a helper all of whose callers
// pass such a pointer.
func privateParam(li *LockInfo, prm *ssa.Parameter, depth int) bool {
	if depth > 3 {
		return false
	}
	if v, done := yieldMemo[prm]; done {
		return v
	}
	if prm.Parent().Parent() == nil || !isLoopBodyOf(prm.Parent()) {
		// ordinary function: look at the callers
		f := prm.Parent()
		idx := -1
		for i, q := range f.Params {
			if q == prm {
				idx = i
			}
		}
		cs := li.Callers[f]
		if idx < 0 || len(cs) == 0 {
			return false
		}
		yieldMemo[prm] = true // assume, for recursion
		for _, site := range cs {
			call, ok := asCall(site.in)
			if !ok {
				yieldMemo[prm] = false
				return false
			}
			a := callArgs(call)
			if idx >= len(a) {
				yieldMemo[prm] = false
				return false
			}
			okArg := false
			var srcs []*ssa.Parameter
			derivesFrom(a[idx], func(v ssa.Value) bool {
				if q, ok := v.(*ssa.Parameter); ok && types.Identical(q.Type(), prm.Type()) {
					srcs = append(srcs, q)
				}
				return false
			})
			if len(srcs) > 0 {
				okArg = true
				for _, q := range srcs {
					if q != prm && !privateParam(li, q, depth+1) {
						okArg = false
					}
				}
			}
			if !okArg {
				yieldMemo[prm] = false
				return false
			}
		}
		return true
	}
	if v, done := yieldMemo[prm]; done {
		return v
	}
	yieldMemo[prm] = false
	body := prm.Parent()
	if body.Parent() == nil {
		return false
	}
	idx := -1
	for i, q := range body.Params {
		if q == prm {
			idx = i
		}
	}
	// where the body closure is handed to an iterator: a call in the parent with the closure as argument
	var iterImpls []*ssa.Function
	eachInstr(body.Parent(), func(i2 ssa.Instruction) {
		call, ok := i2.(*ssa.Call)
		if !ok {
			return
		}
		for _, a := range call.Call.Args {
			if closureFn(a) == body {
				iterImpls = append(iterImpls, li.Callees[i2]...)
			}
		}
	})
	if len(iterImpls) == 0 || idx < 0 {
		return false
	}
	all := true
	for _, it := range iterImpls {
		if len(it.Params) == 0 {
			all = false
			continue
		}
		yieldP := it.Params[len(it.Params)-1]
		nY := 0
		eachInstr(it, func(i2 ssa.Instruction) {
			call, ok := i2.(*ssa.Call)
			if !ok {
				return
			}
			// maps.All(snapshot)(yield): every key / value of the map is yielded
			if seq, isSeq := call.Call.Value.(*ssa.Call); isSeq && (calleeName(seq) == "maps.All" || calleeName(seq) == "maps.Values") && len(call.Call.Args) == 1 && resolveVal(call.Call.Args[0]) == ssa.Value(yieldP) {
				nY++
				if !pointsToFreshCopies(it, seq.Call.Args[0], li) {
					all = false
				}
				return
			}
			if resolveVal(call.Call.Value) != ssa.Value(yieldP) {
				return
			}
			nY++
			if idx >= len(call.Call.Args) {
				all = false
				return
			}
			// the argument: a pointer taken from a map / slice of pointers that were each created as `&copy`
			if !pointsToFreshCopies(it, call.Call.Args[idx], li) {
				all = false
			}
		})
		if nY == 0 {
			all = false
		}
	}
	yieldMemo[prm] = all
	return all
}

// pointsToFreshCopies: v (in function f) is the address of a local made by copying a loaded struct, or an element
// of a local map whose every inserted value is such an address; the copies are made while some lock is held.
func pointsToFreshCopies(f *ssa.Function, v ssa.Value, li *LockInfo) bool {
	isCopyAlloc := func(x ssa.Value) bool {
		a, ok := resolveVal(x).(*ssa.Alloc)
		if !ok {
			return false
		}
		sts := storesTo(a)
		if len(sts) != 1 {
			return false
		}
		ld, ok := sts[0].Val.(*ssa.UnOp)
		if !ok || ld.Op != token.MUL {
			return false
		}
		return len(li.HeldMay(sts[0])) > 0 // copied while a lock is held
	}
	if isCopyAlloc(v) {
		return true
	}
	// element of a local map: range / lookup over a map made in f
	var m ssa.Value
	switch x := resolveVal(v).(type) {
	case *ssa.Extract:
		if nx, ok := x.Tuple.(*ssa.Next); ok {
			if rg, ok := nx.Iter.(*ssa.Range); ok {
				m = rg.X
			}
		}
	case *ssa.Lookup:
		m = x.X
	}
	if _, isMap := v.Type().Underlying().(*types.Map); isMap && m == nil {
		m = v // asked about the map itself: every value in it
	}
	if m == nil {
		return false
	}
	// the map is made here, or handed back by a same-package helper that makes it (c.snapshotMetadata())
	var freshCopyMap func(mv ssa.Value, depth int) bool
	freshCopyMap = func(mv ssa.Value, depth int) bool {
		switch x := resolveVal(mv).(type) {
		case *ssa.MakeMap:
			okAll, n := true, 0
			if refs := x.Referrers(); refs != nil {
				for _, ref := range *refs {
					if mu, ok := ref.(*ssa.MapUpdate); ok {
						n++
						if !isCopyAlloc(mu.Value) {
							okAll = false
						}
					}
				}
			}
			return okAll && n > 0
		case *ssa.Call:
			h := helperBody(x)
			if h == nil || depth > 2 {
				return false
			}
			return helperResultBounded(h, 0, func(_ *ssa.Return, v ssa.Value) bool { return freshCopyMap(v, depth+1) })
		}
		return false
	}
	return freshCopyMap(m, 0)
}

// isLoopBodyOf: fn is a closure that its parent hands to a call as an argument (the body of a range-over-func loop).
func isLoopBodyOf(fn *ssa.Function) bool {
	if fn.Parent() == nil {
		return false
	}
	found := false
	eachInstr(fn.Parent(), func(in ssa.Instruction) {
		if call, ok := in.(*ssa.Call); ok {
			for _, a := range call.Call.Args {
				if closureFn(a) == fn {
					found = true
				}
			}
		}
	})
	return found
}

// guardedInHelper: call hands a same-package helper both a container and the mutex of class guard that protects it;
// in the helper every use of the container parameter (lookup, range, insert, delete, len, passing on) is made with
// the mutex parameter's lock held — exclusively for writes.
func guardedInHelper(li *LockInfo, call *ssa.Call, guard LockClass) bool {
	h := helperBody(call)
	if h == nil {
		return false
	}
	args := callArgs(call)
	mi := -1
	for i, a := range args {
		if isMutexPtr(a.Type()) {
			if cl, ok := li.classify(a, 0); ok && cl == guard {
				mi = i
			}
		}
	}
	if mi < 0 || mi >= len(h.Params) {
		return false
	}
	mcl, ok := li.classify(h.Params[mi], 0)
	if !ok {
		return false
	}
	okAll, nUse := true, 0
	for i, a := range args {
		if i >= len(h.Params) {
			break
		}
		switch a.Type().Underlying().(type) {
		case *types.Map, *types.Slice:
		default:
			continue
		}
		for _, u := range containerUsesOf(h.Params[i]) {
			nUse++
			in := u.in
			if u.write {
				if !li.HeldMustX(in)[mcl] {
					okAll = false
				}
			} else if !li.HeldMust(in)[mcl] {
				okAll = false
			}
		}
	}
	return okAll && nUse > 0
}
