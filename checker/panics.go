package main

// E5: panic obligations. Enumerates every instruction that can panic in the
// module functions reachable from the untrusted-input roots and tries to
// discharge each by a local dominance argument.

import (
	"fmt"
	"go/constant"
	"go/token"
	"go/types"
	"os"
	"strings"

	"golang.org/x/tools/go/ssa"
)

type panicOb struct {
	in   ssa.Instruction
	fn   *ssa.Function
	kind string // index, slice, forceunwrap, typeassert, divide, make, stdlib, panic, close
	desc string // human description of the construct
	key  string // stable key within function
	ok   bool
	why  string
	inGo bool // runs in a bare goroutine (process-fatal)
}

// untrusted-input roots (fnKey)
var panicRoots = []string{
	"(*reservoir/proxy.Proxy).ServeHTTP",
	"reservoir/utils/bytesize.Parse", "(*reservoir/utils/bytesize.ByteSize).UnmarshalJSON",
	"(*reservoir/utils/duration.Duration).UnmarshalJSON",
	"reservoir/utils/phc.ParsePHC", "(*reservoir/utils/phc.PHC).Scan", "(*reservoir/utils/phc.PHC).UnmarshalJSON", "(*reservoir/utils/phc.PHC).VerifyArgon2id",
	"reservoir/config.load", "reservoir/config.LoadOrDefault", "reservoir/config.UpdatePartialFromConfig",
	"(*reservoir/cache.cacheJanitor).start$1",
}

// module functions that panic on a precondition the caller must establish:
// name -> the guard method that must dominate with true result on the same receiver path
var forcePanics = map[string][]string{
	"(reservoir/utils/typeutils.Optional).ForceUnwrap":    {"(reservoir/utils/typeutils.Optional).IsSome", "!(reservoir/utils/typeutils.Optional).IsNone"},
	"(reservoir/utils/typeutils.Either).ForceUnwrapLeft":  {"(reservoir/utils/typeutils.Either).IsLeft"},
	"(reservoir/utils/typeutils.Either).ForceUnwrapRight": {"(reservoir/utils/typeutils.Either).IsRight", "!(reservoir/utils/typeutils.Either).IsLeft"},
	"(*reservoir/proxy/headers.Header).Value":             {"(*reservoir/proxy/headers.Header).IsPresent"},
}

// contractPanics: functions whose panic is their documented contract; the
// obligation lies with their callers (forcePanics / constant-argument rule).
var contractPanics = map[string]bool{
	"(reservoir/utils/typeutils.Optional).ForceUnwrap": true, "(reservoir/utils/typeutils.Either).ForceUnwrapLeft": true,
	"(reservoir/utils/typeutils.Either).ForceUnwrapRight": true, "(*reservoir/proxy/headers.Header).Value": true,
	"reservoir/utils/bytesize.ParseUnchecked": true,
}

var curLI *LockInfo

func allReach(li *LockInfo, roots []*ssa.Function) (map[*ssa.Function]bool, map[*ssa.Function]bool) {
	return allReachSkipping(li, roots, nil)
}

// allReachSkipping: allReach that does not follow the call instructions for which skip reports true.
func allReachSkipping(li *LockInfo, roots []*ssa.Function, skip func(ssa.Instruction) bool) (map[*ssa.Function]bool, map[*ssa.Function]bool) {
	seen := map[*ssa.Function]bool{}
	viaGo := map[*ssa.Function]bool{}
	var visit func(f *ssa.Function, g bool)
	visit = func(f *ssa.Function, g bool) {
		if seen[f] && (!g || viaGo[f]) {
			return
		}
		seen[f] = true
		if g {
			viaGo[f] = true
		}
		eachInstr(f, func(in ssa.Instruction) {
			_, isGo := in.(*ssa.Go)
			if skip != nil && skip(in) {
				return
			}
			for _, h := range li.Callees[in] {
				visit(h, g || isGo)
			}
		})
		for _, a := range f.AnonFuncs {
			// closures created here run at some point (deferred funcs, callbacks)
			visit(a, g)
		}
	}
	for _, f := range roots {
		visit(f, false)
	}
	return seen, viaGo
}

// valuePath gives a structural identity for receivers: root value + field path,
// seeing through loads, so that `x.f.IsSome()` and `x.f.ForceUnwrap()` match.
func valuePath(v ssa.Value) string {
	root, path := fieldPath(v)
	root = resolveVal(root)
	// captured variables: identify by free var name
	if u, ok := root.(*ssa.UnOp); ok && u.Op == token.MUL {
		root = u.X
	}
	return fmt.Sprintf("%p.%s", root, strings.Join(path, "."))
}

func lenOf(v ssa.Value) (ssa.Value, bool) {
	// v = len(x) possibly converted
	v = unconvNum(v)
	c, ok := v.(*ssa.Call)
	if !ok {
		return nil, false
	}
	b, ok := c.Call.Value.(*ssa.Builtin)
	if !ok || b.Name() != "len" {
		return nil, false
	}
	return c.Call.Args[0], true
}

func unconvNum(v ssa.Value) ssa.Value {
	for {
		switch x := v.(type) {
		case *ssa.Convert:
			v = x.X
		case *ssa.ChangeType:
			v = x.X
		default:
			return v
		}
	}
}

// factsAt collects comparisons that are known to hold when `site` executes:
// for every If whose one edge is the only way to reach site, the condition
// with its truth.
type fact struct {
	cond  ssa.Value
	truth bool
}

func factsAt(fn *ssa.Function, site ssa.Instruction) []fact {
	var out []fact
	sb := site.Block()
	for _, b := range fn.Blocks {
		if len(b.Instrs) == 0 {
			continue
		}
		iff, ok := b.Instrs[len(b.Instrs)-1].(*ssa.If)
		if !ok || !(b == sb || b.Dominates(sb)) || b == sb {
			continue
		}
		for si := 0; si < 2; si++ {
			if onlyViaEdge(fn, site, b, si) {
				c, positive := stripNot(iff.Cond)
				out = append(out, fact{c, (si == 0) == positive})
			}
		}
	}
	return out
}

// lenAtLeast: do the facts imply len(x) >= n (n >= 1)?
func lenAtLeast(facts []fact, x ssa.Value, n int64) bool {
	for _, f := range facts {
		bo, ok := f.cond.(*ssa.BinOp)
		if !ok {
			continue
		}
		op := bo.Op
		l, r := bo.X, bo.Y
		// normalise so that len(x) / x is on the left
		lx, lIsLen := lenOf(l)
		rx, rIsLen := lenOf(r)
		if !lIsLen && rIsLen {
			l, r = r, l
			lx, lIsLen = rx, true
			op = flipOp(op)
		}
		if lIsLen && sameVal(lx, x) {
			k, ok := constInt(r)
			if !ok {
				continue
			}
			if !f.truth {
				op = negOp(op)
			}
			switch op {
			case token.GTR:
				if k+1 >= n {
					return true
				}
			case token.GEQ:
				if k >= n {
					return true
				}
			case token.EQL:
				if k >= n {
					return true
				}
			case token.NEQ:
				if k == 0 && n <= 1 {
					return true
				}
			}
			continue
		}
		// string compared with "": s != "" implies len >= 1
		if n <= 1 {
			var other ssa.Value
			if sameVal(bo.X, x) {
				other = bo.Y
			} else if sameVal(bo.Y, x) {
				other = bo.X
			}
			if other != nil {
				if s, ok := constString(other); ok && s == "" {
					o := bo.Op
					if !f.truth {
						o = negOp(o)
					}
					if o == token.NEQ {
						return true
					}
				}
			}
		}
	}
	return false
}

func flipOp(op token.Token) token.Token {
	switch op {
	case token.LSS:
		return token.GTR
	case token.GTR:
		return token.LSS
	case token.LEQ:
		return token.GEQ
	case token.GEQ:
		return token.LEQ
	}
	return op
}
func negOp(op token.Token) token.Token {
	switch op {
	case token.LSS:
		return token.GEQ
	case token.GEQ:
		return token.LSS
	case token.GTR:
		return token.LEQ
	case token.LEQ:
		return token.GTR
	case token.EQL:
		return token.NEQ
	case token.NEQ:
		return token.EQL
	}
	return op
}

// idxLessThanLen: do the facts imply i < len(x)?
func idxLessThanLen(facts []fact, i, x ssa.Value, strict bool) bool {
	for _, f := range facts {
		bo, ok := f.cond.(*ssa.BinOp)
		if !ok {
			continue
		}
		op := bo.Op
		l, r := bo.X, bo.Y
		if _, lIsLen := lenOf(l); lIsLen {
			l, r = r, l
			op = flipOp(op)
		}
		rx, rIsLen := lenOf(r)
		if !rIsLen {
			// i < min(k, len(x)) bounds i by len(x) as well
			if mc, isCall := unconvNum(r).(*ssa.Call); isCall {
				if bi, isB := mc.Call.Value.(*ssa.Builtin); isB && bi.Name() == "min" {
					for _, a := range mc.Call.Args {
						if ax, isLen := lenOf(a); isLen && sameVal(ax, x) {
							rx, rIsLen = ax, true
						}
					}
				}
			}
		}
		if !rIsLen || !(sameVal(rx, x) || stableFieldReload(rx, x)) || !sameNum(l, i) {
			continue
		}
		if !f.truth {
			op = negOp(op)
		}
		if op == token.LSS || (!strict && op == token.LEQ) {
			return true
		}
	}
	return false
}

func sameNum(a, b ssa.Value) bool {
	return sameVal(unconvNum(a), unconvNum(b))
}

// nonNegative: v is provably >= 0: constant, len(), a loop counter starting at
// a non-negative constant and only incremented, a sum of non-negatives, or a
// range index.
func nonNegative(v ssa.Value, depth int) bool {
	if depth > 8 {
		return false
	}
	v = unconvNum(v)
	if k, ok := constInt(v); ok {
		return k >= 0
	}
	if _, ok := lenOf(v); ok {
		return true
	}
	switch x := v.(type) {
	case *ssa.Phi:
		for _, e := range x.Edges {
			if e == ssa.Value(x) {
				continue
			}
			if bo, ok := unconvNum(e).(*ssa.BinOp); ok && bo.Op == token.ADD {
				if (unconvNum(bo.X) == ssa.Value(x) && nonNegConst(bo.Y)) || (unconvNum(bo.Y) == ssa.Value(x) && nonNegConst(bo.X)) {
					continue
				}
			}
			if !nonNegative(e, depth+1) {
				return false
			}
		}
		return true
	case *ssa.BinOp:
		if x.Op == token.ADD {
			// the counter of a range loop: i = phi(-1, i) + 1
			if phi, ok := unconvNum(x.X).(*ssa.Phi); ok {
				if k, isC := constInt(x.Y); isC && k >= 0 {
					all := true
					for _, e := range phi.Edges {
						if unconvNum(e) == ssa.Value(x) {
							continue
						}
						if c0, isC0 := constInt(e); !isC0 || c0+k < 0 {
							all = false
						}
					}
					if all {
						return true
					}
				}
			}
		}
		if x.Op == token.ADD || x.Op == token.MUL {
			return nonNegative(x.X, depth+1) && nonNegative(x.Y, depth+1)
		}
	case *ssa.Extract:
		// range over string/slice yields non-negative index at #1? (Next: ok, key, value) key index
		if _, ok := x.Tuple.(*ssa.Next); ok && x.Index == 1 {
			return true
		}
		if call, ok := x.Tuple.(*ssa.Call); ok {
			return resultNonNegative(call, x.Index, depth)
		}
	case *ssa.Call:
		return resultNonNegative(x, 0, depth)
	}
	return false
}

// resultNonNegative: every return of every resolved callee yields a
// non-negative value at result index idx.
func resultNonNegative(call *ssa.Call, idx int, depth int) bool {
	var cs []*ssa.Function
	if sc := staticCallee(call); sc != nil {
		cs = []*ssa.Function{sc}
	} else if curLI != nil {
		cs = curLI.Callees[call]
	}
	if len(cs) == 0 {
		return false
	}
	for _, g := range cs {
		if g.Blocks == nil {
			return false
		}
		okAll := true
		n := 0
		eachInstr(g, func(in ssa.Instruction) {
			ret, isRet := in.(*ssa.Return)
			if !isRet || isRecoverReturn(ret) {
				return
			}
			vals := retVals(ret)
			if idx >= len(vals) {
				okAll = false
				return
			}
			n++
			if !nonNegative(vals[idx], depth+1) {
				okAll = false
			}
		})
		if !okAll || n == 0 {
			return false
		}
	}
	return true
}

func nonNegConst(v ssa.Value) bool {
	k, ok := constInt(v)
	return ok && k >= 0
}

func arrayLen(t types.Type) (int64, bool) {
	if p, ok := t.Underlying().(*types.Pointer); ok {
		t = p.Elem()
	}
	if a, ok := t.Underlying().(*types.Array); ok {
		return a.Len(), true
	}
	return 0, false
}

// dischargeIndex decides x[i].
func dischargeIndex(fn *ssa.Function, site ssa.Instruction, x, i ssa.Value) (bool, string) {
	if n, ok := arrayLen(x.Type()); ok {
		if k, isC := constInt(i); isC && k >= 0 && k < n {
			return true, "constant index into fixed-size array"
		}
	}
	// constant strings
	if s, ok := constString(x); ok {
		if k, isC := constInt(i); isC && k >= 0 && k < int64(len(s)) {
			return true, "constant index into constant string"
		}
	}
	facts := factsAt(fn, site)
	if k, isC := constInt(i); isC && k >= 0 {
		if lenAtLeast(facts, x, k+1) {
			return true, fmt.Sprintf("dominated by a test implying len > %d", k)
		}
		return false, fmt.Sprintf("no dominating test implies len(%s) > %d", x.Name(), k)
	}
	if idxLessThanLen(facts, i, x, true) {
		if nonNegative(i, 0) {
			return true, "dominated by i < len(x); i is non-negative"
		}
		return false, "dominated by i < len(x) but i is not provably non-negative"
	}
	// the counter of a rotated loop over a slice / string: i = phi(0, next), entered only if 0 < t and repeated only
	// while next < t, where t is len(x) or min(…, len(x))
	if phi, isPhi := unconvNum(i).(*ssa.Phi); isPhi && nonNegative(i, 0) {
		boundedByLen := func(t ssa.Value) bool {
			if tx, isLen := lenOf(t); isLen && sameVal(tx, x) {
				return true
			}
			if mc, isCall := unconvNum(t).(*ssa.Call); isCall {
				if bi, isB := mc.Call.Value.(*ssa.Builtin); isB && bi.Name() == "min" {
					for _, a := range mc.Call.Args {
						if ax, isLen := lenOf(a); isLen && sameVal(ax, x) {
							return true
						}
					}
				}
			}
			return false
		}
		all := len(phi.Edges) > 0
		for ei, e := range phi.Edges {
			pred := phi.Block().Preds[ei]
			iff, isIf := pred.Instrs[len(pred.Instrs)-1].(*ssa.If)
			okEdge := false
			if isIf {
				if bo, isB := iff.Cond.(*ssa.BinOp); isB && bo.Op == token.LSS && pred.Succs[0] == phi.Block() && boundedByLen(bo.Y) {
					same := sameNum(bo.X, e)
					if k1, ok1 := constInt(bo.X); ok1 {
						if k2, ok2 := constInt(e); ok2 && k1 == k2 {
							same = true
						}
					}
					if same {
						okEdge = true
					}
				}
			}
			if !okEdge {
				all = false
			}
		}
		if all {
			return true, "loop counter: every entry into the body is under counter < len(x) (or < min(…, len(x)))"
		}
	}
	// array with masked / bounded index
	if n, ok := arrayLen(x.Type()); ok {
		// the counter of a rotated loop: i = phi(c0, next) where the back edge is taken only under next < K (K <= len)
		if phi, isPhi := unconvNum(i).(*ssa.Phi); isPhi && nonNegative(i, 0) {
			all := len(phi.Edges) > 0
			for ei, e := range phi.Edges {
				if k, isC := constInt(e); isC {
					if k < 0 || k >= n {
						all = false
					}
					continue
				}
				pred := phi.Block().Preds[ei]
				iff, isIf := pred.Instrs[len(pred.Instrs)-1].(*ssa.If)
				okEdge := false
				if isIf {
					if bo, isB := iff.Cond.(*ssa.BinOp); isB {
						for si, sc := range pred.Succs {
							if sc != phi.Block() {
								continue
							}
							truth := si == 0
							if sameVal(bo.X, e) {
								if k, isC := constInt(bo.Y); isC {
									okEdge = (bo.Op == token.LSS && truth && k <= n) || (bo.Op == token.LEQ && truth && k < n) || (bo.Op == token.GEQ && !truth && k <= n) || (bo.Op == token.GTR && !truth && k < n)
								}
							}
						}
					}
				}
				if !okEdge {
					all = false
				}
			}
			if all {
				return true, "loop counter: starts inside the array and the back edge is taken only while the next value is below the array's length"
			}
		}
		// i < K (K <= array length) on the way here: the range loop over an array value, or an explicit test
		for _, fc := range facts {
			bo, isB := fc.cond.(*ssa.BinOp)
			if !isB {
				continue
			}
			lt := false
			if sameVal(bo.X, i) {
				if k, isC := constInt(bo.Y); isC {
					lt = (bo.Op == token.LSS && fc.truth && k <= n) || (bo.Op == token.LEQ && fc.truth && k < n) ||
						(bo.Op == token.GEQ && !fc.truth && k <= n) || (bo.Op == token.GTR && !fc.truth && k < n)
				}
			} else if sameVal(bo.Y, i) {
				if k, isC := constInt(bo.X); isC {
					lt = (bo.Op == token.GTR && fc.truth && k <= n) || (bo.Op == token.GEQ && fc.truth && k < n) ||
						(bo.Op == token.LEQ && !fc.truth && k <= n) || (bo.Op == token.LSS && !fc.truth && k < n)
				}
			}
			if lt && nonNegative(i, 0) {
				return true, "dominated by a test of the index against a constant within the array's length; index is non-negative"
			}
		}
		if bo, isB := unconvNum(i).(*ssa.BinOp); isB && bo.Op == token.AND {
			if k, isC := constInt(bo.Y); isC && k >= 0 && k < n {
				return true, "index masked below array length"
			}
		}
		if bo, isB := unconvNum(i).(*ssa.BinOp); isB && bo.Op == token.REM {
			if k, isC := constInt(bo.Y); isC && k > 0 && k <= n && nonNegative(bo.X, 0) {
				return true, "index reduced modulo array length"
			}
		}
	}
	// i = y % len(x) with unsigned y
	if bo, isB := unconvNum(i).(*ssa.BinOp); isB && bo.Op == token.REM {
		if lx, isLen := lenOf(bo.Y); isLen && sameVal(lx, x) {
			if bt, ok := bo.X.Type().Underlying().(*types.Basic); ok && bt.Info()&types.IsUnsigned != 0 {
				return true, "index is an unsigned value modulo len(x) (divisor obligation recorded separately)"
			}
		}
	}
	return false, "no dominating bounds test recognised for variable index"
}

// collectPanicObligations enumerates and tries to discharge obligations in fns.
func collectPanicObligations(c *Ctx, li *LockInfo, fns map[*ssa.Function]bool, viaGo map[*ssa.Function]bool) []*panicOb {
	curLI = li
	var out []*panicOb
	for _, f := range li.Fns {
		if !fns[f] {
			continue
		}
		if contractPanics[fnKey(f)] {
			continue
		}
		counter := map[string]int{}
		add := func(in ssa.Instruction, kind, desc string, ok bool, why string) {
			counter[kind+desc]++
			out = append(out, &panicOb{in: in, fn: f, kind: kind, desc: desc, ok: ok, why: why, inGo: viaGo[f],
				key: fmt.Sprintf("%s: %s %s #%d", fnKey(f), kind, desc, counter[kind+desc])})
		}
		eachInstr(f, func(in ssa.Instruction) {
			if bc := in.Block().Comment; strings.HasPrefix(bc, "rangefunc.") || bc == "yield-invalid" {
				return // synthetic range-over-func protocol checks
			}
			switch x := in.(type) {
			case *ssa.IndexAddr:
				if isRangeLoopIndex(x) {
					add(in, "index", describe(x.X)+"[range idx]", true, "index produced by the range loop over the same slice")
					return
				}
				ok, why := dischargeIndex(f, in, x.X, x.Index)
				add(in, "index", describe(x.X)+"["+describe(x.Index)+"]", ok, why)
			case *ssa.Index:
				ok, why := dischargeIndex(f, in, x.X, x.Index)
				add(in, "index", describe(x.X)+"["+describe(x.Index)+"]", ok, why)
			case *ssa.Lookup:
				if _, isStr := x.X.Type().Underlying().(*types.Basic); isStr {
					ok, why := dischargeIndex(f, in, x.X, x.Index)
					add(in, "index", describe(x.X)+"["+describe(x.Index)+"]", ok, why)
				}
			case *ssa.Slice:
				ok, why := dischargeSlice(f, x)
				add(in, "slice", describe(x.X)+"["+describe(x.Low)+":"+describe(x.High)+"]", ok, why)
			case *ssa.TypeAssert:
				if !x.CommaOk {
					add(in, "typeassert", "."+"("+shortTypeName(x.AssertedType)+")", false, "type assertion without comma-ok")
				}
			case *ssa.BinOp:
				if x.Op == token.QUO || x.Op == token.REM {
					if bt, ok := x.X.Type().Underlying().(*types.Basic); ok && bt.Info()&types.IsInteger != 0 {
						if k, isC := constInt(x.Y); isC && k != 0 {
							return
						}
						ok, why := dischargeDivisor(f, in, x.Y)
						add(in, "divide", "by "+describe(x.Y), ok, why)
					}
				}
			case *ssa.MakeSlice:
				for _, sz := range []ssa.Value{x.Len, x.Cap} {
					if _, isC := constInt(sz); isC {
						continue
					}
					if nonNegative(sz, 0) {
						add(in, "make", "size "+describe(sz), true, "size is provably non-negative")
					} else {
						add(in, "make", "size "+describe(sz), false, "make with a size that is not provably non-negative")
					}
				}
			case *ssa.Panic:
				if mi, ok := x.X.(*ssa.MakeInterface); ok {
					if msg, isC := constString(mi.X); isC && msg == "blocking select matched no case" {
						return // synthetic: lowering of a select statement
					}
				}
				add(in, "panic", "explicit panic", false, "explicit panic reachable")
			case ssa.CallInstruction:
				n := calleeName(x)
				if guards, ok := forcePanics[n]; ok {
					okd, why := dischargeForce(li, f, x, guards, 0)
					add(in, "forceunwrap", strings.TrimPrefix(n[strings.LastIndex(n, ".")+1:], ")"), okd, why)
					return
				}
				if n == "reservoir/utils/bytesize.ParseUnchecked" {
					if _, isC := constString(x.Common().Args[0]); isC {
						add(in, "forceunwrap", "ParseUnchecked(const)", true, "constant literal argument (evaluated at every start and by the test suite)")
					} else {
						add(in, "forceunwrap", "ParseUnchecked(var)", false, "ParseUnchecked panics on a malformed size and its argument is not a constant")
					}
					return
				}
				switch n {
				case "(net/http.ResponseWriter).WriteHeader":
					args := callArgs(x)
					okd, why := dischargeStatus(f, x, args[1])
					add(in, "stdlib", "WriteHeader("+describe(args[1])+")", okd, why)
				case "time.NewTicker", "(*time.Ticker).Reset":
					args := callArgs(x)
					d := args[len(args)-1]
					if k, isC := constInt(d); isC && k > 0 {
						add(in, "stdlib", n+"(const)", true, "constant positive duration")
					} else if ok, why := positiveAt(f, in, d); ok {
						add(in, "stdlib", n[strings.LastIndex(n, ".")+1:]+"("+describe(d)+")", true, why)
					} else {
						add(in, "stdlib", n[strings.LastIndex(n, ".")+1:]+"("+describe(d)+")", false, "duration not provably > 0 at this site")
					}
				case "(*encoding/base64.Encoding).Decode", "(*encoding/base64.Encoding).Encode", "encoding/hex.Decode", "encoding/hex.Encode":
					// writes DecodedLen/EncodedLen(len(src)) bytes into dst and panics if dst is shorter
					args := callArgs(x)
					dst, src := args[len(args)-2], args[len(args)-1]
					lenFn := map[string]string{"(*encoding/base64.Encoding).Decode": "(*encoding/base64.Encoding).DecodedLen", "(*encoding/base64.Encoding).Encode": "(*encoding/base64.Encoding).EncodedLen", "encoding/hex.Decode": "encoding/hex.DecodedLen", "encoding/hex.Encode": "encoding/hex.EncodedLen"}[n]
					sized := false
					if mk, ok := resolveVal(dst).(*ssa.MakeSlice); ok {
						if lc, ok := unconvNum(mk.Len).(*ssa.Call); ok && calleeName(lc) == lenFn {
							la := callArgs(lc)
							if inner, isLen := lenOf(la[len(la)-1]); isLen && sameVal(inner, src) {
								sized = true
							}
						}
					}
					if sized {
						add(in, "stdlib", n[strings.LastIndex(n, ".")+1:]+" into dst", true, "dst is make([]byte, "+lenFn[strings.LastIndex(lenFn, ".")+1:]+"(len(src)))")
					} else {
						add(in, "stdlib", n[strings.LastIndex(n, ".")+1:]+" into dst", false, n+" panics (index out of range) when dst is shorter than the decoded/encoded length of src; dst is not sized from len(src) here — a longer input than expected aborts instead of being rejected")
					}
				case "golang.org/x/crypto/argon2.IDKey", "golang.org/x/crypto/argon2.Key":
					// panics if time < 1 or threads < 1
					args := callArgs(x)
					posArg := func(a ssa.Value) (bool, string) {
						if k, isC := constInt(unconvNum(a)); isC && k > 0 {
							return true, "positive constant"
						}
						if ok, why := positiveAt(f, in, a); ok {
							return true, why
						}
						// a field of a struct all of whose assignments in the module store a positive value
						if u, ok := unconvNum(a).(*ssa.UnOp); ok && u.Op == token.MUL {
							if fa, ok := u.X.(*ssa.FieldAddr); ok {
								if fv, _, is := fieldOf(fa); is {
									okF, n, bad := fieldAlwaysPositive(li, fv)
									if okF {
										return true, fmt.Sprintf("type invariant: all %d assignments to %s in the module store a value > 0 (a zero-valued struct is excluded only by the callers' error checks)", n, fname(fv))
									}
									return false, "field " + fname(fv) + " can be assigned a value that is not provably > 0 at " + bad
								}
							}
						}
						return false, ""
					}
					okT, whyT := posArg(args[2])
					okP, whyP := posArg(args[4])
					if okT && okP {
						add(in, "stdlib", "argon2 parameters", true, whyT+"; "+whyP)
					} else {
						add(in, "stdlib", "argon2 parameters", false, "argon2 panics when the number of passes or the parallelism is 0; neither is provably > 0 at this call")
					}
				case "crypto/rand.Int", "math/rand.Intn", "math/rand.Int63n", "math/rand.Int31n", "math/rand/v2.IntN", "math/rand/v2.N":
					args := callArgs(x)
					lim := args[len(args)-1]
					okL := false
					if k, isC := constInt(lim); isC && k > 0 {
						okL = true
					}
					// big.Int limit built as new(big.Int).Lsh(big.NewInt(k>0), n)
					if c2, ok := resolveVal(lim).(*ssa.Call); ok && calleeName(c2) == "(*math/big.Int).Lsh" {
						if c3, ok := resolveVal(callArgs(c2)[1]).(*ssa.Call); ok && calleeName(c3) == "math/big.NewInt" {
							if k, isC := constInt(callArgs(c3)[0]); isC && k > 0 {
								okL = true
							}
						}
					}
					add(in, "stdlib", n[strings.LastIndex(n, ".")+1:]+" limit", okL, map[bool]string{true: "limit is a positive constant", false: n + " panics for a limit <= 0 and the limit is not a positive constant"}[okL])
				case "(reflect.Value).Elem":
					recv := callArgs(x)[0]
					fs := factStrs(f, in)
					okK := false
					for k := range fs {
						if strings.HasPrefix(k, "Kind("+atomStr(recv)+")==") && (strings.HasSuffix(k, "==22=true") || strings.HasSuffix(k, "==20=true")) {
							okK = true
						}
					}
					add(in, "reflect", "Elem()", okK, map[bool]string{true: "on the Kind()==Pointer/Interface edge of the same value", false: "reflect.Value.Elem panics unless the value is a pointer or interface; no dominating Kind() test on the same value"}[okK])
				case "(reflect.Value).NumField", "(reflect.Value).Field", "(reflect.Value).Addr", "(reflect.Value).Interface", "(reflect.Type).Field", "(reflect.Value).Set", "(reflect.Value).SetString", "(reflect.Value).SetInt", "(reflect.Value).Index", "(reflect.Value).MapIndex", "(reflect.Value).Len":
					recv := callArgs(x)[0]
					fs := factStrs(f, in)
					okK, why := false, ""
					a := atomStr(recv)
					switch n {
					case "(reflect.Value).NumField", "(reflect.Value).Field":
						for k := range fs {
							if k == "Kind("+a+")==25=true" {
								okK, why = true, "on the Kind()==Struct edge of the same value"
							}
						}
						if !okK && n == "(reflect.Value).Field" {
							// index bounded by NumField of the same value
							for k := range fs {
								if strings.Contains(k, "<NumField("+a+")=true") {
									okK, why = true, "index < NumField() of the same value (NumField carries the struct obligation)"
								}
							}
						}
					case "(reflect.Type).Field":
						for k := range fs {
							if strings.Contains(k, "<NumField(") && strings.HasSuffix(k, "=true") {
								okK, why = true, "index < NumField() of the value this type was taken from"
							}
						}
						if !okK {
							// a lookup helper that is handed the type and its field count: func(typ reflect.Type, n int, …) with the
							// index running below n, and every caller passing v.Type() and v.NumField() of one and the same v
							tp, isTP := resolveVal(recv).(*ssa.Parameter)
							var bound *ssa.Parameter
							idx := callArgs(x)[1]
							if phi, isPhi := unconvNum(idx).(*ssa.Phi); isPhi && isTP {
								all := len(phi.Edges) > 0
								for ei, e := range phi.Edges {
									if k, isC := constInt(e); isC && k >= 0 {
										continue
									}
									pred := phi.Block().Preds[ei]
									iff, isIf := pred.Instrs[len(pred.Instrs)-1].(*ssa.If)
									okE := false
									if isIf {
										if bo, isB := iff.Cond.(*ssa.BinOp); isB && bo.Op == token.LSS && sameVal(bo.X, e) && pred.Succs[0] == phi.Block() {
											if q, isQ := resolveVal(bo.Y).(*ssa.Parameter); isQ && (bound == nil || bound == q) {
												bound, okE = q, true
											}
										}
									}
									if !okE {
										all = false
									}
								}
								if !all {
									bound = nil
								}
							}
							if bound != nil && tp.Parent() == f && bound.Parent() == f {
								ti, bi := -1, -1
								for pi, q := range f.Params {
									if q == tp {
										ti = pi
									}
									if q == bound {
										bi = pi
									}
								}
								cs := li.Callers[f]
								allOK := len(cs) > 0 && ti >= 0 && bi >= 0
								for _, site := range cs {
									call, okc := asCall(site.in)
									if !okc {
										allOK = false
										break
									}
									a := callArgs(call)
									if ti >= len(a) || bi >= len(a) {
										allOK = false
										break
									}
									tc, ok1 := resolveVal(a[ti]).(*ssa.Call)
									nc, ok2 := resolveVal(a[bi]).(*ssa.Call)
									if !ok1 || !ok2 || calleeName(tc) != "(reflect.Value).Type" || calleeName(nc) != "(reflect.Value).NumField" || !sameVal(callArgs(tc)[0], callArgs(nc)[0]) {
										allOK = false
									}
								}
								if allOK {
									okK, why = true, "index below the count parameter, and every caller passes v.Type() and v.NumField() of the same value"
								}
							}
						}
					case "(reflect.Value).Addr":
						for k := range fs {
							if k == "CanAddr("+a+")=true" {
								okK, why = true, "on the CanAddr() edge of the same value"
							}
						}
					case "(reflect.Value).Interface":
						for k := range fs {
							if k == "CanInterface("+a+")=true" {
								okK, why = true, "on the CanInterface() edge of the same value"
							}
						}
					}
					if !okK {
						reflectUseSite = in
						sh := reflectShape(li, recv, map[ssa.Value]string{})
						reflectUseSite = nil
						switch n {
						case "(reflect.Value).NumField", "(reflect.Value).Field":
							if sh == "struct" {
								okK, why = true, "the value is the pointee of a pointer-to-struct on every call path (reflect.ValueOf(*T) / Addr() of a Kind()==Struct field)"
							}
						case "(reflect.Value).Addr":
							if sh == "struct" || sh == "field" {
								okK, why = true, "field of a struct reached through a pointer: addressable"
							}
						case "(reflect.Value).Interface":
							// CanInterface on the value Addr() was taken from carries over (the read-only flag is inherited)
							if c2, ok := resolveVal(recv).(*ssa.Call); ok && calleeName(c2) == "(reflect.Value).Addr" {
								if fs["CanInterface("+atomStr(callArgs(c2)[0])+")=true"] {
									okK, why = true, "on the CanInterface() edge of the value whose address is taken"
								}
							}
							if os.Getenv("VERIF_DBG") != "" {
								fmt.Fprintf(os.Stderr, "DBG Interface in %s: roots=%v discipline=%v\n", fnKey(f), reflectRootsAllExported(li, f), reflectDescentDiscipline(li, f))
							}
							if !okK && reflectRootsAllExported(li, f) && reflectDescentDiscipline(li, f) {
								okK, why = true, "values are rooted at reflect.ValueOf(*config.Config); every struct of that tree outside the property leaves has exported fields only; and the traversal never descends into a field that answers to StagedConfigProp (each descent follows the failed assertion on that field), so no unexported field is reached"
							}
						}
					}
					if !okK {
						why = n + " panics when the value has the wrong kind / is not addressable / is an unexported field; no dominating test on the same value"
					}
					add(in, "reflect", strings.TrimPrefix(n[strings.LastIndex(n, ".")+1:], ")")+"()", okK, why)
				case "(*sync/atomic.Value).Store", "(*sync/atomic.Value).Swap", "(*sync/atomic.Value).CompareAndSwap":
					// panics on a nil interface and on a dynamic type different from the first stored one
					args := callArgs(x)
					v := args[len(args)-1]
					okV, why := false, "atomic.Value panics when given nil or a value of another concrete type than before"
					if mi, ok := v.(*ssa.MakeInterface); ok {
						if _, isIface := mi.X.Type().Underlying().(*types.Interface); !isIface {
							okV, why = true, "boxes a value of the static non-interface type "+types.TypeString(mi.X.Type(), func(p *types.Package) string { return p.Name() })+": never nil; one concrete type per (generic) owner"
						}
					}
					add(in, "stdlib", "atomic.Value."+n[strings.LastIndex(n, ".")+1:], okV, why)
				case "context.WithoutCancel", "(*net/http.Request).WithContext", "(*net/http.Request).Clone", "context.WithCancel", "context.WithTimeout", "context.WithValue", "context.WithDeadline":
					args := callArgs(x)
					idx := 0
					if strings.HasPrefix(n, "(*net/http.Request)") {
						idx = 1
					}
					ctxv := resolveVal(args[idx])
					okC, why := false, n+" panics on a nil context and the argument is not the result of a context constructor"
					if c2, ok := ctxv.(*ssa.Call); ok {
						cn := calleeName(c2)
						if strings.HasPrefix(cn, "context.") || cn == "(*net/http.Request).Context" {
							okC, why = true, "argument is the result of "+cn+" (never nil)"
						}
					}
					if ex, ok := ctxv.(*ssa.Extract); ok {
						if c2, ok := ex.Tuple.(*ssa.Call); ok && strings.HasPrefix(calleeName(c2), "context.") {
							okC, why = true, "argument is the result of "+calleeName(c2)+" (never nil)"
						}
					}
					add(in, "stdlib", n[strings.LastIndex(n, ".")+1:]+"(ctx)", okC, why)
				case "builtin.close":
					add(in, "close", "close("+describe(x.Common().Args[0])+")", false, "close of a channel that could already be closed")
				case "strings.Repeat":
					add(in, "stdlib", "strings.Repeat", false, "count not provably non-negative")
				}
			}
		})
	}
	return out
}

func describe(v ssa.Value) string {
	if v == nil {
		return ""
	}
	if c, ok := v.(*ssa.Const); ok {
		if c.Value == nil {
			return "nil"
		}
		if c.Value.Kind() == constant.String {
			s := constant.StringVal(c.Value)
			if len(s) > 12 {
				s = s[:12] + "…"
			}
			return fmt.Sprintf("%q", s)
		}
		return c.Value.ExactString()
	}
	root, path := fieldPath(v)
	name := nameOf(resolveVal(root))
	if len(path) > 0 {
		return name + "." + strings.Join(path, ".")
	}
	return name
}

func nameOf(v ssa.Value) string {
	switch x := v.(type) {
	case *ssa.Parameter:
		return x.Name()
	case *ssa.FreeVar:
		return x.Name()
	case *ssa.Global:
		return x.Name()
	case *ssa.Alloc:
		if x.Comment != "" {
			return x.Comment
		}
	case *ssa.Call:
		n := calleeName(x)
		if n != "" {
			return n[strings.LastIndex(n, ".")+1:] + "()"
		}
		return "call()"
	case *ssa.Extract:
		return nameOf(x.Tuple) + fmt.Sprintf("#%d", x.Index)
	case *ssa.Phi:
		if x.Comment != "" {
			return x.Comment
		}
		return "phi"
	case *ssa.BinOp:
		return "(" + describe(x.X) + x.Op.String() + describe(x.Y) + ")"
	case *ssa.Convert:
		return describe(x.X)
	case *ssa.Slice:
		return describe(x.X) + "[:]"
	case *ssa.UnOp:
		return x.Op.String() + describe(x.X)
	case *ssa.Next:
		return "range"
	}
	return "v"
}

// isRangeLoopIndex recognises the SSA lowering of `for i, e := range xs`:
// IndexAddr(xs, phiIdx) where the block is guarded by phiIdx' < len(xs).
func isRangeLoopIndex(ia *ssa.IndexAddr) bool {
	idx := unconvNum(ia.Index)
	// the lowered loop: t_i = phi [-1, t_next]; t_next = t_i + 1; if t_next < len(xs) ; body indexes with t_next
	bo, ok := idx.(*ssa.BinOp)
	if !ok || bo.Op != token.ADD {
		return false
	}
	if k, isC := constInt(bo.Y); !isC || k != 1 {
		return false
	}
	phi, ok := bo.X.(*ssa.Phi)
	if !ok {
		return false
	}
	hasMinus1 := false
	for _, e := range phi.Edges {
		if k, isC := constInt(e); isC && k == -1 {
			hasMinus1 = true
		}
	}
	if !hasMinus1 {
		return false
	}
	// guard: some If in a dominating block compares bo < len(X)
	fn := ia.Parent()
	for _, f := range factsAt(fn, ia) {
		c, ok := f.cond.(*ssa.BinOp)
		if !ok || !f.truth || c.Op != token.LSS || c.X != ssa.Value(bo) {
			continue
		}
		if lx, isLen := lenOf(c.Y); isLen && sameVal(lx, ia.X) {
			return true
		}
		// len evaluated once before the loop: `t = len(xs)` stored in value
		if call, ok := c.Y.(*ssa.Call); ok {
			if lx, isLen := lenOf(call); isLen && sameVal(lx, ia.X) {
				return true
			}
		}
	}
	return false
}

func dischargeSlice(fn *ssa.Function, s *ssa.Slice) (bool, string) {
	x := s.X
	// arrays: constant bounds within length
	if n, ok := arrayLen(x.Type()); ok {
		lo, hi := int64(0), n
		okc := true
		if s.Low != nil {
			if k, isC := constInt(s.Low); isC {
				lo = k
			} else {
				okc = false
			}
		}
		if s.High != nil {
			if k, isC := constInt(s.High); isC {
				hi = k
			} else {
				okc = false
			}
		}
		if okc && 0 <= lo && lo <= hi && hi <= n {
			return true, "constant bounds within the array"
		}
	}
	if s.Low == nil && s.High == nil {
		return true, "full slice"
	}
	facts := factsAt(fn, s)
	check := func(b ssa.Value) (bool, string) {
		if b == nil {
			return true, ""
		}
		if k, isC := constInt(b); isC {
			if k == 0 {
				return true, ""
			}
			if k > 0 && lenAtLeast(facts, x, k) {
				return true, ""
			}
			// slicing a slice up to cap: x[:0] handled above
			return false, fmt.Sprintf("no dominating test implies len >= %d", k)
		}
		if !nonNegative(b, 0) {
			return false, "bound " + describe(b) + " is not provably non-negative"
		}
		if idxLessThanLen(facts, b, x, false) {
			return true, ""
		}
		// b = i + 1 with i < len(x)
		if bo, ok := unconvNum(b).(*ssa.BinOp); ok && bo.Op == token.ADD {
			if k, isC := constInt(bo.Y); isC && k == 1 && idxLessThanLen(facts, bo.X, x, true) {
				return true, ""
			}
		}
		// b is an index produced by a range loop over x (range index <= len-1)
		if e, ok := unconvNum(b).(*ssa.Extract); ok {
			if nx, ok := e.Tuple.(*ssa.Next); ok && e.Index == 1 {
				if rg, ok := nx.Iter.(*ssa.Range); ok && sameVal(rg.X, x) {
					return true, ""
				}
			}
		}
		if _, isLen := lenOf(b); isLen {
			if lx, _ := lenOf(b); sameVal(lx, x) {
				return true, ""
			}
		}
		return false, "bound " + describe(b) + " is not shown to be <= len"
	}
	if ok, why := check(s.Low); !ok {
		return false, "low: " + why
	}
	if ok, why := check(s.High); !ok {
		return false, "high: " + why
	}
	if s.Low != nil && s.High != nil {
		if _, lc := constInt(s.Low); !lc {
			if !sameNum(s.Low, s.High) {
				// low <= high needs an argument unless low is 0 / const
				return false, "low <= high not established"
			}
		}
	}
	return true, "bounds dominated by length tests"
}

func dischargeDivisor(fn *ssa.Function, site ssa.Instruction, d ssa.Value) (bool, string) {
	return dischargeDivisorD(fn, site, d, 0)
}

// globalMapNonZero: g is a package-level map that is filled by the package initialiser with non-zero integer
// constants only and is never written anywhere else in its package.
func globalMapNonZero(g *ssa.Global) bool {
	if g == nil || g.Pkg == nil {
		return false
	}
	initFn := g.Pkg.Func("init")
	if initFn == nil {
		return false
	}
	var m ssa.Value
	eachInstr(initFn, func(in ssa.Instruction) {
		if st, ok := in.(*ssa.Store); ok && st.Addr == ssa.Value(g) {
			m = st.Val
		}
	})
	if m == nil {
		return false
	}
	n, ok := 0, true
	eachInstr(initFn, func(in ssa.Instruction) {
		if mu, isMU := in.(*ssa.MapUpdate); isMU && mu.Map == m {
			n++
			if k, isC := constInt(mu.Value); !isC || k == 0 {
				ok = false
			}
		}
	})
	if !ok || n == 0 {
		return false
	}
	for _, mem := range g.Pkg.Members {
		fn, isFn := mem.(*ssa.Function)
		if !isFn || fn == initFn {
			continue
		}
		for _, f2 := range append([]*ssa.Function{fn}, fn.AnonFuncs...) {
			eachInstr(f2, func(in ssa.Instruction) {
				switch x := in.(type) {
				case *ssa.MapUpdate:
					if u, isU := x.Map.(*ssa.UnOp); isU && u.X == ssa.Value(g) {
						ok = false
					}
				case *ssa.Store:
					if x.Addr == ssa.Value(g) {
						ok = false
					}
				case *ssa.Call:
					if bi, isB := x.Call.Value.(*ssa.Builtin); isB && (bi.Name() == "delete" || bi.Name() == "clear") {
						// deleting cannot introduce a zero for a present key
					}
				}
			})
		}
	}
	// methods (the map may be written from a method of a type of the package)
	return ok
}

func dischargeDivisorD(fn *ssa.Function, site ssa.Instruction, d ssa.Value, depth int) (bool, string) {
	facts := factsAt(fn, site)
	// a merge of alternatives that are each non-zero where they are chosen
	if phi, ok := unconvNum(d).(*ssa.Phi); ok && depth < 4 {
		all := len(phi.Edges) > 0
		seenSelf := false
		for i, e := range phi.Edges {
			if unconvNum(e) == ssa.Value(phi) {
				seenSelf = true
				continue
			}
			if k, isC := constInt(e); isC {
				if k == 0 {
					all = false
				}
				continue
			}
			pred := phi.Block().Preds[i]
			if ok, _ := dischargeDivisorD(fn, pred.Instrs[len(pred.Instrs)-1], e, depth+1); !ok {
				all = false
			}
		}
		_ = seenSelf
		if all {
			return true, "every alternative merged here is a non-zero constant or shown non-zero where it is assigned"
		}
	}
	// v, present := table[k] with present == true here, table a constant map of non-zero values
	if ex, ok := unconvNum(d).(*ssa.Extract); ok && ex.Index == 0 {
		if lk, ok := ex.Tuple.(*ssa.Lookup); ok && lk.CommaOk {
			if u, ok := lk.X.(*ssa.UnOp); ok {
				if g, ok := u.X.(*ssa.Global); ok && globalMapNonZero(g) {
					for _, f := range facts {
						if e1, ok := f.cond.(*ssa.Extract); ok && e1.Tuple == ex.Tuple && e1.Index == 1 && f.truth {
							return true, "value of a key present in " + g.Name() + ", a package-level map the initialiser fills with non-zero constants only and nothing else writes"
						}
					}
				}
			}
		}
	}
	for _, f := range facts {
		bo, ok := f.cond.(*ssa.BinOp)
		if !ok {
			continue
		}
		op := bo.Op
		l, r := bo.X, bo.Y
		if sameNum(r, d) {
			l, r = r, l
			op = flipOp(op)
		}
		if !sameNum(l, d) {
			continue
		}
		k, isC := constInt(r)
		if !isC {
			continue
		}
		if !f.truth {
			op = negOp(op)
		}
		if (op == token.NEQ && k == 0) || (op == token.GTR && k >= 0) || (op == token.GEQ && k >= 1) {
			return true, "dominated by a test implying divisor != 0"
		}
	}
	if p, ok := unconvNum(d).(*ssa.Parameter); ok && curLI != nil {
		idx := -1
		for i, q := range fn.Params {
			if q == p {
				idx = i
			}
		}
		cs := curLI.Callers[fn]
		all := len(cs) > 0
		for _, s := range cs {
			call, okc := asCall(s.in)
			if !okc {
				all = false
				break
			}
			a := callArgs(call)
			if idx >= len(a) {
				all = false
				break
			}
			if k, isC := constInt(a[idx]); isC && k != 0 {
				continue
			}
			if depth < 3 && s.in.Parent() != nil {
				if ok, _ := dischargeDivisorD(s.in.Parent(), s.in, a[idx], depth+1); ok {
					continue
				}
			}
			all = false
		}
		if all {
			return true, fmt.Sprintf("every one of the %d callers passes a non-zero value (constant, or shown non-zero at the call site)", len(cs))
		}
	}
	return false, "divisor not shown to be non-zero at this site"
}

func dischargeStatus(fn *ssa.Function, site ssa.Instruction, code ssa.Value) (bool, string) {
	return statusOK(fn, site, code, 0)
}

func statusOK(fn *ssa.Function, site ssa.Instruction, code ssa.Value, depth int) (bool, string) {
	if k, isC := constInt(code); isC {
		if k >= 100 && k <= 999 {
			return true, "constant valid status"
		}
		return false, fmt.Sprintf("constant invalid status %d", k)
	}
	// range facts on the same value
	lo, hi := false, false
	for _, f := range factsAt(fn, site) {
		bo, ok := f.cond.(*ssa.BinOp)
		if !ok || !sameNum(bo.X, code) {
			continue
		}
		k, isC := constInt(bo.Y)
		if !isC {
			continue
		}
		op := bo.Op
		if !f.truth {
			op = negOp(op)
		}
		switch op {
		case token.GEQ:
			if k >= 100 {
				lo = true
			}
		case token.GTR:
			if k >= 99 {
				lo = true
			}
		case token.LEQ:
			if k <= 999 {
				hi = true
			}
		case token.LSS:
			if k <= 1000 {
				hi = true
			}
		case token.EQL:
			if k >= 100 && k <= 999 {
				lo, hi = true, true
			}
		}
	}
	if lo && hi {
		return true, "dominated by a range test 100 <= status <= 999"
	}
	if p, ok := unconvNum(code).(*ssa.Parameter); ok && curLI != nil && depth < 5 {
		idx := -1
		for i, q := range fn.Params {
			if q == p {
				idx = i
			}
		}
		cs := curLI.Callers[fn]
		if len(cs) == 0 {
			return true, "parameter of " + fnKey(fn) + ", which has no caller in the program"
		}
		for _, s := range cs {
			call, okc := asCall(s.in)
			if !okc {
				return false, "unresolved caller"
			}
			a := callArgs(call)
			if idx >= len(a) {
				return false, "caller argument mismatch"
			}
			if ok, why := statusOK(s.caller, s.in, a[idx], depth+1); !ok {
				return false, "via " + fnKey(s.caller) + ": " + why
			}
		}
		return true, fmt.Sprintf("every call chain (%d direct callers) passes a constant or range-checked status", len(cs))
	}
	return false, "status " + describe(code) + " is neither constant nor range-checked (100..999) at this site"
}

// dischargeForce: call to a force-unwrap function on receiver r is dominated by
// the guard method returning true on a receiver with the same value path; if no
// local guard exists and the receiver derives from a parameter, every caller
// must establish it (one level).
func dischargeForce(li *LockInfo, fn *ssa.Function, call ssa.CallInstruction, guards []string, depth int) (bool, string) {
	args := callArgs(call)
	if len(args) == 0 {
		return false, "no receiver"
	}
	recv := args[0]
	rp := valuePath(recv)
	ok := false
	eachInstr(fn, func(in ssa.Instruction) {
		g, isCall := in.(*ssa.Call)
		if !isCall || ok {
			return
		}
		n := calleeName(g)
		for _, gn := range guards {
			want := true
			if strings.HasPrefix(gn, "!") {
				want = false
				gn = gn[1:]
			}
			if n != gn {
				continue
			}
			ga := callArgs(g)
			if len(ga) == 0 || valuePath(ga[0]) != rp {
				continue
			}
			if guardedByTruth(fn, call.(ssa.Instruction), g, want) && !clearedBetween(li, fn, g, call.(ssa.Instruction)) {
				ok = true
			}
		}
	})
	if ok {
		return true, "dominated by the matching presence test on the same value"
	}
	// interprocedural: receiver rooted at a parameter
	root, path := fieldPath(recv)
	root = resolveVal(root)
	if u, isU := root.(*ssa.UnOp); isU && u.Op == token.MUL {
		root = resolveVal(u.X)
	}
	p, isParam := root.(*ssa.Parameter)
	if !isParam || depth > 1 {
		return false, "no dominating presence test (" + strings.Join(guards, " / ") + ") on the same value"
	}
	idx := -1
	for i, q := range fn.Params {
		if q == p {
			idx = i
		}
	}
	callers := li.Callers[fn]
	if len(callers) == 0 {
		return false, "no local presence test and no caller to establish it"
	}
	for _, cs := range callers {
		ccall, okc := asCall(cs.in)
		if !okc {
			return false, "caller is not a call"
		}
		cargs := callArgs(ccall)
		if idx >= len(cargs) {
			return false, "caller argument mismatch"
		}
		want := valuePath2(cargs[idx], path)
		found := false
		eachInstr(cs.caller, func(in ssa.Instruction) {
			g, isCall := in.(*ssa.Call)
			if !isCall || found {
				return
			}
			n := calleeName(g)
			for _, gn := range guards {
				wantT := true
				if strings.HasPrefix(gn, "!") {
					wantT = false
					gn = gn[1:]
				}
				if n != gn {
					continue
				}
				ga := callArgs(g)
				if len(ga) > 0 && valuePath(ga[0]) == want && guardedByTruth(cs.caller, cs.in, g, wantT) && !clearedBetween(li, cs.caller, g, cs.in) {
					found = true
				}
			}
		})
		if !found {
			return false, "caller " + fnKey(cs.caller) + " does not establish the presence test before the call"
		}
	}
	return true, "every caller establishes the presence test before the call"
}

func valuePath2(base ssa.Value, path []string) string {
	root, p0 := fieldPath(base)
	root = resolveVal(root)
	if u, ok := root.(*ssa.UnOp); ok && u.Op == token.MUL {
		root = u.X
	}
	return fmt.Sprintf("%p.%s", root, strings.Join(append(p0, path...), "."))
}

// positiveAt: facts at site imply v > 0, where v may be a reload of a cell/field
// whose last store in the same block is the tested value.
func positiveAt(fn *ssa.Function, site ssa.Instruction, v ssa.Value) (bool, string) {
	cands := []ssa.Value{v}
	// a load of a field just stored in this block: use the stored value
	if u, ok := v.(*ssa.UnOp); ok && u.Op == token.MUL {
		b := site.Block()
		for _, in := range b.Instrs {
			if in == site {
				break
			}
			if st, ok := in.(*ssa.Store); ok {
				if fa1, ok1 := st.Addr.(*ssa.FieldAddr); ok1 {
					if fa2, ok2 := u.X.(*ssa.FieldAddr); ok2 && fa1.Field == fa2.Field && sameBase(fa1.X, fa2.X) {
						cands = append(cands, st.Val)
					}
				}
			}
		}
	}
	for _, f := range factsAt(fn, site) {
		bo, ok := f.cond.(*ssa.BinOp)
		if !ok {
			continue
		}
		k, isC := constInt(bo.Y)
		if !isC {
			continue
		}
		op := bo.Op
		if !f.truth {
			op = negOp(op)
		}
		for _, c := range cands {
			if sameNum(bo.X, c) && ((op == token.GTR && k >= 0) || (op == token.GEQ && k >= 1)) {
				return true, "dominated by a test implying the duration is > 0"
			}
		}
	}
	return false, ""
}

// sameBase: two pointer values denote the same object: identical, same
// single-assignment cell, or loads of the same captured variable / global.
func sameBase(a, b ssa.Value) bool {
	if sameVal(a, b) {
		return true
	}
	ua, ok1 := a.(*ssa.UnOp)
	ub, ok2 := b.(*ssa.UnOp)
	if ok1 && ok2 && ua.Op == token.MUL && ub.Op == token.MUL && ua.X == ub.X {
		switch ua.X.(type) {
		case *ssa.FreeVar, *ssa.Global, *ssa.Alloc:
			return true
		}
	}
	return false
}

// clearers: functions that may reset a presence-tested value (Header.SyncRemove
// sets value = None), transitively through the call graph.
var clearerMemo map[*ssa.Function]bool

func mayClear(li *LockInfo, f *ssa.Function, seen map[*ssa.Function]bool) bool {
	if clearerMemo == nil {
		clearerMemo = map[*ssa.Function]bool{}
	}
	if v, ok := clearerMemo[f]; ok {
		return v
	}
	if seen[f] {
		return false
	}
	seen[f] = true
	res := false
	if strings.HasSuffix(fnKey(f), "headers.Header).SyncRemove") {
		res = true
	}
	if !res {
		eachInstr(f, func(in ssa.Instruction) {
			if res {
				return
			}
			if call, ok := asCall(in); ok {
				if strings.HasSuffix(calleeName(call), "headers.Header).SyncRemove") {
					res = true
					return
				}
			}
			for _, g := range li.Callees[in] {
				if mayClear(li, g, seen) {
					res = true
					return
				}
			}
		})
	}
	clearerMemo[f] = res
	return res
}

// clearedBetween: on some path from the presence test to the use there is a
// call that may clear the tested value (the test result is then stale).
func clearedBetween(li *LockInfo, fn *ssa.Function, guard, site ssa.Instruction) bool {
	found := false
	eachInstr(fn, func(in ssa.Instruction) {
		if found || in == guard || in == site {
			return
		}
		call, ok := asCall(in)
		if !ok {
			return
		}
		clears := strings.HasSuffix(calleeName(call), "headers.Header).SyncRemove")
		for _, g := range li.Callees[in] {
			if mayClear(li, g, map[*ssa.Function]bool{}) {
				clears = true
			}
		}
		if clears && reachableInstr(guard, in, nil) && reachableInstr(in, site, nil) {
			found = true
		}
	})
	return found
}

// fieldAlwaysPositive: every store into struct field fv anywhere in the module stores a constant > 0
// or a value that the branch facts at the store show to be non-zero / positive.
func fieldAlwaysPositive(li *LockInfo, fv *types.Var) (bool, int, string) {
	n, bad := 0, ""
	for _, g := range li.Fns {
		eachInstr(g, func(in ssa.Instruction) {
			st, ok := in.(*ssa.Store)
			if !ok {
				return
			}
			fa, ok := st.Addr.(*ssa.FieldAddr)
			if !ok {
				return
			}
			v2, _, is := fieldOf(fa)
			if !is || v2 != fv {
				return
			}
			n++
			if k, isC := constInt(unconvNum(st.Val)); isC {
				if k <= 0 {
					bad = li.c.InstrPos(st)
				}
				return
			}
			a := atomStr(st.Val)
			fs := factStrs(g, st)
			if fs[a+"==0=false"] || fs[a+">0=true"] || fs[a+"!=0=true"] {
				return
			}
			bad = li.c.InstrPos(st)
		})
	}
	return bad == "" && n > 0, n, bad
}

// reflectShape: a small abstract value for reflect.Value-typed SSA values:
//
//	"ptr"    a pointer to a struct (reflect.ValueOf(*T), or Addr() of a value tested Kind()==Struct)
//	"struct" the addressable struct such a pointer points to
//	"field"  a field of such a struct (addressable)
//	""       unknown
//
// Parameters take the shape common to all module call sites (assumed while checking recursion).
func reflectShape(li *LockInfo, v ssa.Value, assume map[ssa.Value]string) string {
	v = resolveVal(v)
	if sh, ok := assume[v]; ok {
		return sh
	}
	switch x := v.(type) {
	case *ssa.UnOp:
		// a load of a variable that lives in a cell because a function literal captures it: in the function that
		// declares it (Alloc) or in the literal (FreeVar). The cell holds what was stored into it; the idiom
		// `if v.Kind() == Pointer { v = v.Elem() }` leaves a struct in it if it held a pointer to one.
		if x.Op == token.MUL {
			var cell *ssa.Alloc
			switch y := x.X.(type) {
			case *ssa.Alloc:
				cell = y
			case *ssa.FreeVar:
				if b := freeVarBinding(y); b != nil {
					cell, _ = b.(*ssa.Alloc)
				}
			}
			if cell == nil {
				return ""
			}
			sts := storesTo(cell)
			if len(sts) == 0 {
				return ""
			}
			shapes := map[string]bool{}
			derefGuarded := false
			as := map[ssa.Value]string{}
			for k, v2 := range assume {
				as[k] = v2
			}
			for _, st := range sts {
				// a store of Elem(load of this cell) under Kind(load)==Pointer
				if c2, ok := st.Val.(*ssa.Call); ok && calleeName(c2) == "(reflect.Value).Elem" {
					if ld, ok := callArgs(c2)[0].(*ssa.UnOp); ok && ld.X == ssa.Value(cell) {
						for _, fc := range factsAt(st.Parent(), st) {
							if bo, isB := fc.cond.(*ssa.BinOp); isB && bo.Op == token.EQL && fc.truth {
								if k, isC := constInt(bo.Y); isC && k == 22 {
									if kc, isK := bo.X.(*ssa.Call); isK && calleeName(kc) == "(reflect.Value).Kind" {
										if l2, ok := callArgs(kc)[0].(*ssa.UnOp); ok && l2.X == ssa.Value(cell) {
											derefGuarded = true
										}
									}
								}
							}
						}
						continue
					}
				}
				shapes[reflectShape(li, st.Val, as)] = true
			}
			if len(shapes) != 1 {
				return ""
			}
			for sh := range shapes {
				if sh == "ptr" && derefGuarded {
					return "struct"
				}
				if sh != "ptr" || !derefGuarded {
					return sh
				}
			}
		}
	case *ssa.Call:
		args := callArgs(x)
		switch calleeName(x) {
		case "reflect.ValueOf":
			if mi, ok := args[0].(*ssa.MakeInterface); ok {
				if p, ok := mi.X.Type().Underlying().(*types.Pointer); ok {
					if _, ok := p.Elem().Underlying().(*types.Struct); ok {
						return "ptr"
					}
				}
			}
		case "(reflect.Value).Addr":
			fs := factStrs(x.Parent(), x)
			if fs["Kind("+atomStr(args[0])+")==25=true"] {
				return "ptr"
			}
		case "(reflect.Value).Elem":
			if reflectShape(li, args[0], assume) == "ptr" {
				return "struct"
			}
		case "(reflect.Value).Field":
			if reflectShape(li, args[0], assume) == "struct" {
				return "field"
			}
		}
	case *ssa.Phi:
		// `if v.Kind() == Pointer { v = v.Elem() }` on a value that is always a pointer
		sh := ""
		for _, e := range x.Edges {
			es := reflectShape(li, e, assume)
			if es == "ptr" {
				// the edge on which a pointer was NOT dereferenced is infeasible if it is guarded by Kind()==Pointer being false
				continue
			}
			if es == "" || (sh != "" && sh != es) {
				return ""
			}
			sh = es
		}
		// the skipped "ptr" edges must be exactly the not-a-pointer side of a Kind()==Pointer test on that value
		for i, e := range x.Edges {
			if reflectShape(li, e, assume) != "ptr" {
				continue
			}
			pred := x.Block().Preds[i]
			ok := false
			if iff, isIf := pred.Instrs[len(pred.Instrs)-1].(*ssa.If); isIf {
				if bo, isB := iff.Cond.(*ssa.BinOp); isB && bo.Op == token.EQL {
					if k, isC := constInt(bo.Y); isC && k == 22 {
						if kc, isK := bo.X.(*ssa.Call); isK && calleeName(kc) == "(reflect.Value).Kind" && sameVal(callArgs(kc)[0], e) && pred.Succs[1] == x.Block() {
							ok = true
						}
					}
				}
			}
			if !ok {
				return ""
			}
		}
		return sh
	case *ssa.Parameter:
		f := x.Parent()
		idx := -1
		for i, p := range f.Params {
			if p == x {
				idx = i
			}
		}
		cs := li.Callers[f]
		if len(cs) == 0 || idx < 0 {
			return ""
		}
		// coinductive: try each shape as the assumption for this parameter (recursive call sites pass
		// something derived from it) and accept the one that every call site then confirms
		for _, cand := range []string{"ptr", "struct", "field"} {
			as := map[ssa.Value]string{x: cand}
			for k, v := range assume {
				as[k] = v
			}
			okAll := true
			for _, site := range cs {
				call, ok := asCall(site.in)
				if !ok {
					return ""
				}
				a := callArgs(call)
				if idx >= len(a) || reflectShape(li, a[idx], as) != cand {
					okAll = false
					break
				}
			}
			if okAll {
				return cand
			}
		}
		return ""
	case *ssa.Extract:
		// result #i of a same-package helper: the shape common to the helper's returns, leaving out the
		// returns that the facts at the site of use exclude (`v, ok := helper(); if !ok { continue }`)
		call, ok := x.Tuple.(*ssa.Call)
		if !ok {
			return ""
		}
		g := helperBody(call)
		if g == nil {
			return ""
		}
		known := map[int]bool{} // index of a bool result -> its value at the site of use
		if reflectUseSite != nil {
			for _, fc := range factsAt(reflectUseSite.Parent(), reflectUseSite) {
				if ex, ok := fc.cond.(*ssa.Extract); ok && ex.Tuple == ssa.Value(call) {
					known[ex.Index] = fc.truth
				}
			}
		}
		common := ""
		bad := false
		eachInstr(g, func(in ssa.Instruction) {
			ret, ok := in.(*ssa.Return)
			if !ok || isRecoverReturn(ret) || bad {
				return
			}
			vals := retVals(ret)
			for i, want := range known {
				if i < len(vals) {
					if b, isC := constBool(vals[i]); isC && b != want {
						return // this return is not the one taken
					}
				}
			}
			if x.Index >= len(vals) {
				bad = true
				return
			}
			// inside the helper its parameters have the shapes of this call's arguments
			sh := reflectShapeIn(li, vals[x.Index], call, assume)
			if sh == "" || (common != "" && common != sh) {
				bad = true
				return
			}
			common = sh
		})
		if bad {
			return ""
		}
		return common
	}
	return ""
}

// reflectUseSite: the instruction whose obligation is being discharged (for correlated results).
var reflectUseSite ssa.Instruction

// reflectShapeIn evaluates the shape of v inside a helper entered through call: the helper's
// parameters take the shapes of that call's arguments.
func reflectShapeIn(li *LockInfo, v ssa.Value, call *ssa.Call, assume map[ssa.Value]string) string {
	v = resolveVal(v)
	if prm, ok := v.(*ssa.Parameter); ok {
		if a, _, ok := paramArg(prm, dctx{call}); ok {
			return reflectShape(li, a, assume)
		}
	}
	if c2, ok := v.(*ssa.Call); ok {
		args := callArgs(c2)
		switch calleeName(c2) {
		case "(reflect.Value).Field":
			if reflectShapeIn(li, args[0], call, assume) == "struct" {
				return "field"
			}
			return ""
		case "(reflect.Value).Elem":
			if reflectShapeIn(li, args[0], call, assume) == "ptr" {
				return "struct"
			}
			return ""
		}
	}
	return reflectShape(li, v, assume)
}

// reflectRootsAllExported: f is reached (through module calls) only with reflect values rooted at
// reflect.ValueOf(x) for x of type *config.Config, and every struct in Config's tree — descending
// through struct-typed fields and stopping at the ConfigProp leaves — has exported fields only.
func reflectRootsAllExported(li *LockInfo, f *ssa.Function) bool {
	// roots: walk callers until functions that call reflect.ValueOf
	seen := map[*ssa.Function]bool{}
	okRoots := true
	nRoots := 0
	var up func(g *ssa.Function, d int)
	up = func(g *ssa.Function, d int) {
		if seen[g] || d > 6 {
			return
		}
		seen[g] = true
		hasReflectParam := false
		for _, p := range g.Params {
			if p.Type().String() == "reflect.Value" {
				hasReflectParam = true
			}
		}
		eachCall(g, func(call ssa.CallInstruction, n string) {
			if n != "reflect.ValueOf" {
				return
			}
			nRoots++
			mi, ok := call.Common().Args[0].(*ssa.MakeInterface)
			if !ok || mi.X.Type().String() != "*reservoir/config.Config" {
				okRoots = false
			}
		})
		if hasReflectParam {
			if len(li.Callers[g]) == 0 {
				okRoots = false
			}
			for _, cs := range li.Callers[g] {
				up(cs.caller, d+1)
			}
		}
	}
	up(f, 0)
	if !okRoots || nRoots == 0 {
		return false
	}
	pkg := li.c.SSAPkg["reservoir/config"]
	if pkg == nil {
		return false
	}
	obj := pkg.Pkg.Scope().Lookup("Config")
	if obj == nil {
		return false
	}
	var iface *types.Interface
	if io := pkg.Pkg.Scope().Lookup("StagedConfigProp"); io != nil {
		iface, _ = io.Type().Underlying().(*types.Interface)
	}
	if iface == nil {
		return false
	}
	all := true
	visited := map[types.Type]bool{}
	var walk func(t types.Type)
	walk = func(t types.Type) {
		if visited[t] {
			return
		}
		visited[t] = true
		if iface != nil && (types.Implements(types.NewPointer(t), iface) || types.Implements(t, iface)) {
			return // leaf: answered through the StagedConfigProp interface, never descended into (reflectDescentDiscipline)
		}
		st, ok := t.Underlying().(*types.Struct)
		if !ok {
			return
		}
		for i := 0; i < st.NumFields(); i++ {
			fld := st.Field(i)
			if !fld.Exported() {
				all = false
			}
			walk(fld.Type())
		}
	}
	walk(obj.Type())
	return all
}

// reflectDescentDiscipline: in f and the same-package reflect traversal functions around it, a
// struct field is handed on for descent (a call passing a value derived from Value.Field to a function
// with a reflect.Value parameter) only after the "is it a StagedConfigProp" assertion on that field has
// failed: (a) the descent is not reachable from the assertion's ok edge within the iteration, and
// (b) every path from the field to the descent passes the assertion or the CanAddr()==false edge.
func reflectDescentDiscipline(li *LockInfo, f *ssa.Function) bool {
	isPropAssert := func(ta *ssa.TypeAssert) bool {
		n, ok := ta.AssertedType.(*types.Named)
		return ok && ta.CommaOk && n.Obj().Name() == "StagedConfigProp"
	}
	// helper that performs the assertion on its parameter and returns the ok
	assertingHelper := func(h *ssa.Function) bool {
		if h == nil || h.Blocks == nil {
			return false
		}
		found, traverses := false, false
		eachInstr(h, func(in ssa.Instruction) {
			if ta, ok := in.(*ssa.TypeAssert); ok && isPropAssert(ta) {
				found = true
			}
			if c2, ok := in.(*ssa.Call); ok && (calleeName(c2) == "(reflect.Value).Field" || calleeName(c2) == "(reflect.Value).NumField") {
				traverses = true // a traversal, not a predicate on the value it is given
			}
		})
		return found && !traverses
	}
	// the traversal functions through which f's values arrive: those that (transitively) call f
	reaches := map[*ssa.Function]bool{f: true}
	for changed := true; changed; {
		changed = false
		for _, g := range li.Fns {
			if reaches[g] || originPkgPath(g) != originPkgPath(f) {
				continue
			}
			eachInstr(g, func(in ssa.Instruction) {
				for _, h := range li.Callees[in] {
					if reaches[h] && !reaches[g] {
						reaches[g] = true
						changed = true
					}
				}
			})
		}
	}
	fns := []*ssa.Function{}
	for _, g := range li.Fns {
		if originPkgPath(g) != originPkgPath(f) || !reaches[g] {
			continue
		}
		for _, p := range g.Params {
			if p.Type().String() == "reflect.Value" {
				fns = append(fns, g)
				break
			}
		}
	}
	okAll := true
	for _, g := range fns {
		eachInstr(g, func(in ssa.Instruction) {
			d, ok := in.(*ssa.Call)
			if !ok || !okAll {
				return
			}
			h := helperBody(d)
			if h == nil || assertingHelper(h) {
				return
			}
			takesValue := false
			for _, p := range h.Params {
				if p.Type().String() == "reflect.Value" {
					takesValue = true
				}
			}
			if !takesValue {
				return
			}
			// the field being handed on
			var fld *ssa.Call
			for _, a := range callArgs(d) {
				derivesFrom(a, func(v ssa.Value) bool {
					if c2, ok := v.(*ssa.Call); ok && calleeName(c2) == "(reflect.Value).Field" && fld == nil {
						fld = c2
					}
					if ex, ok := v.(*ssa.Extract); ok && fld == nil {
						// field found by a lookup helper: treat the helper call as the field's definition
						if c2, ok := ex.Tuple.(*ssa.Call); ok && helperBody(c2) != nil {
							fld = c2
						}
					}
					return false
				})
			}
			if fld == nil {
				return // not a descent into a field (e.g. the root call)
			}
			fromFld := func(v ssa.Value) bool {
				return derivesFrom(v, func(w ssa.Value) bool { return w == ssa.Value(fld) })
			}
			// tests on this field, and the value carrying their ok
			type tst struct {
				in ssa.Instruction
				ok ssa.Value
			}
			var tests []tst
			eachInstr(g, func(i2 ssa.Instruction) {
				switch x := i2.(type) {
				case *ssa.TypeAssert:
					if isPropAssert(x) && fromFld(x.X) {
						tests = append(tests, tst{x, extractOf(x, 1)})
					}
				case *ssa.Call:
					if hh := helperBody(x); hh != nil && assertingHelper(hh) {
						for _, a := range callArgs(x) {
							if fromFld(a) {
								tests = append(tests, tst{x, extractOf(x, 1)})
								break
							}
						}
					}
				}
			})
			if len(tests) == 0 {
				okAll = false
				return
			}
			isTest := func(i2 ssa.Instruction) bool {
				for _, t := range tests {
					if t.in == i2 {
						return true
					}
				}
				return false
			}
			header := func(b *ssa.BasicBlock) bool { return b != fld.Block() && b.Dominates(fld.Block()) }
			// the next iteration also begins where the walk comes back to the field's own block from the top (a rotated
			// loop has no separate header block)
			fldPos := posOf(fld)
			nextIter := func(i2 ssa.Instruction) bool {
				return i2.Block() == fld.Block() && posOf(i2).i <= fldPos.i
			}
			// (b) no path field -> descent that avoids every test, except over a CanAddr(field)==false edge
			skipCanAddrFalse := func(b *ssa.BasicBlock, si int) bool {
				iff, ok := b.Instrs[len(b.Instrs)-1].(*ssa.If)
				if !ok {
					return false
				}
				cv, positive := stripNot(iff.Cond)
				c3, ok := cv.(*ssa.Call)
				if !ok || calleeName(c3) != "(reflect.Value).CanAddr" || !fromFld(callArgs(c3)[0]) {
					return false
				}
				falseIdx := 1
				if !positive {
					falseIdx = 0
				}
				return si == falseIdx
			}
			p0 := posOf(fld)
			p0.i++
			hit := false
			walkFrom(p0, func(i2 ssa.Instruction) bool {
				if i2 == ssa.Instruction(d) {
					hit = true
					return true
				}
				return isTest(i2) || nextIter(i2) || (i2.Block() != fld.Block() && header(i2.Block()))
			}, nil, skipCanAddrFalse)
			if hit {
				okAll = false
				return
			}
			// (a) from the ok edge of a test the descent is not reachable within the iteration
			for _, t := range tests {
				if t.ok == nil {
					continue
				}
				for _, b := range g.Blocks {
					iff, ok := b.Instrs[len(b.Instrs)-1].(*ssa.If)
					if !ok {
						continue
					}
					cv, positive := stripNot(iff.Cond)
					if cv != t.ok {
						continue
					}
					okIdx := 0
					if !positive {
						okIdx = 1
					}
					reached := false
					walkFrom(pos{b.Succs[okIdx], 0}, func(i2 ssa.Instruction) bool {
						if i2 == ssa.Instruction(d) {
							reached = true
							return true
						}
						return nextIter(i2) || header(i2.Block())
					}, nil, nil)
					if reached {
						okAll = false
					}
				}
			}
		})
	}
	return okAll
}

// stableFieldReload: a and b are two loads of the same field of the same object (for _, s := range e.list { ...
// e.list[:i] ... }: the range evaluated the field once, the body reads it again), and between the first and the
// second nothing can have assigned the field: no store to it and no call other than a builtin lies on a path from
// a to b. (Other goroutines are C15's subject: the field is lock-guarded there.)
func stableFieldReload(a, b ssa.Value) bool {
	la, okA := a.(*ssa.UnOp)
	lb, okB := b.(*ssa.UnOp)
	if !okA || !okB || la.Op != token.MUL || lb.Op != token.MUL || la == lb || la.Parent() != lb.Parent() {
		return false
	}
	fa, okA := la.X.(*ssa.FieldAddr)
	fb, okB := lb.X.(*ssa.FieldAddr)
	if !okA || !okB || fa.Field != fb.Field || !types.Identical(fa.X.Type(), fb.X.Type()) {
		return false
	}
	baseOf := func(v ssa.Value) ssa.Value {
		// a pointer kept in a captured variable is read afresh at every use: compare the variable
		if ld, ok := v.(*ssa.UnOp); ok && ld.Op == token.MUL {
			switch ld.X.(type) {
			case *ssa.FreeVar, *ssa.Alloc:
				if len(storesTo(ld.X)) <= 1 {
					return ld.X
				}
			}
		}
		return resolveVal(v)
	}
	if baseOf(fa.X) != baseOf(fb.X) {
		return false
	}
	if !instrDominates(la, lb) {
		return false
	}
	clean := true
	eachInstr(la.Parent(), func(in ssa.Instruction) {
		if !clean || in == ssa.Instruction(la) || in == ssa.Instruction(lb) {
			return
		}
		disturbs := false
		switch x := in.(type) {
		case *ssa.Store:
			if f2, isFA := x.Addr.(*ssa.FieldAddr); isFA && f2.Field == fa.Field && types.Identical(f2.X.Type(), fa.X.Type()) {
				disturbs = true
			}
		case *ssa.Call:
			if _, isB := x.Call.Value.(*ssa.Builtin); !isB {
				disturbs = true
			}
		case *ssa.Go, *ssa.Defer:
			disturbs = false
		}
		if disturbs && reachableInstr(la, in, nil) && reachableInstr(in, lb, nil) {
			clean = false
		}
	})
	return clean
}
